#!/bin/sh
# Offline build of the whole framework from files on disk: Coq development, property files, extracted model driver.
set -e
cd "$(dirname "$0")/coq"
coq_makefile -f _CoqProject -o Makefile > /dev/null
timeout 3000 make -j16 > ../build.log 2>&1 || { tail -30 ../build.log; exit 1; }
ls Props/C*.v | xargs -P 16 -I{} sh -c 'f={}; timeout 900 coqc -R . CS $f > ${f%.v}.out 2>&1 || { echo "FAILED $f"; tail -5 ${f%.v}.out; }'
sh Extract/build.sh
echo setup done
