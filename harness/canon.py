"""Canonical text form shared with coq/Extract/driver.ml (one observation per line)."""
import sys

ST = {"RAM": "RAM", "DISK": "DISK", "WORK": "WORK", "NONE": "NONE"}


def b2s(b):
    if b is True:
        return "T"
    if b is False:
        return "F"
    return "?" + type(b).__name__ + ":" + repr(b)


def st2s(s):
    name = getattr(s, "name", None)
    if type(s).__name__ == "StorageType" and name in ST:
        return name
    return "?" + type(s).__name__ + ":" + repr(s)


def i2s(v):
    # integers by value (numpy integers included: C16 compares by value); anything else is made visible
    import numbers
    if isinstance(v, bool) or not isinstance(v, numbers.Integral):
        return "?" + type(v).__name__ + ":" + repr(v)
    return str(int(v))


def act2s(a):
    k = type(a).__name__
    if k == "Forward":
        return "F(%s,%s,%s,%s,%s)" % (i2s(a.n0), i2s(a.n1), b2s(a.write_ics), b2s(a.write_adj_deps), st2s(a.storage))
    if k == "Reverse":
        return "R(%s,%s,%s)" % (i2s(a.n1), i2s(a.n0), b2s(a.clear_adj_deps))
    if k == "Copy":
        return "C(%s,%s,%s)" % (i2s(a.n), st2s(a.from_storage), st2s(a.to_storage))
    if k == "Move":
        return "M(%s,%s,%s)" % (i2s(a.n), st2s(a.from_storage), st2s(a.to_storage))
    if k == "EndForward":
        return "EF"
    if k == "EndReverse":
        return "ER"
    return "?" + k


def u2s(f):
    try:
        v = f()
    except Exception as e:  # noqa
        return "E" + type(e).__name__
    if v is True:
        return "T"
    if v is False:
        return "F"
    if v is None:
        return "N"
    return "?" + repr(v)


def obs2s(s, StorageType):
    def g(f):
        try:
            return f()
        except Exception as e:  # noqa
            return "EXC:" + type(e).__name__
    m = g(lambda: s.max_n)
    return "n=%s r=%s m=%s x=%s run=%s u=%s,%s,%s,%s" % (
        i2s(g(lambda: s.n)), i2s(g(lambda: s.r)), "None" if m is None else i2s(m),
        b2s(g(lambda: s.is_exhausted)), b2s(g(lambda: s.is_running)),
        u2s(lambda: s.uses_storage_type(StorageType.RAM)), u2s(lambda: s.uses_storage_type(StorageType.DISK)),
        u2s(lambda: s.uses_storage_type(StorageType.WORK)), u2s(lambda: s.uses_storage_type(StorageType.NONE)))
