#!/usr/bin/env python3
"""Fail-closed translator for the arithmetic kernel of the library: reads /repo's current source with `ast` and emits Gallina
text whose definitions Coq then proves EQUAL (by conversion: `reflexivity`) to the hand-written model, on every run.

Supported subset (anything else raises Untranslatable and the obligation is reported as broken):
  integer expressions over + - * // max min, comparisons, `or`; `if`/`elif`/`else` whose branches end in return / raise;
  rebinding assignments; ONE `while` loop whose body is a sequence of (augmented) assignments to the loop-carried variables
  (translated to a fuelled Fixpoint; fuel = Z.to_nat of the first parameter); a final dispatch on a string parameter."""
import ast, sys, os

class Untranslatable(Exception):
    pass

BIN = {ast.Add: "+", ast.Sub: "-", ast.Mult: "*", ast.FloorDiv: "/"}
CMP = {ast.Lt: "<?", ast.LtE: "<=?", ast.Gt: ">?", ast.GtE: ">=?", ast.Eq: "=?"}


def expr(e, env):
    if isinstance(e, ast.Constant) and isinstance(e.value, int) and not isinstance(e.value, bool):
        return str(e.value) if e.value >= 0 else "(%d)" % e.value
    if isinstance(e, ast.Name):
        if e.id not in env:
            raise Untranslatable("unbound name %s" % e.id)
        return env[e.id]
    if isinstance(e, ast.BinOp) and type(e.op) in BIN:
        return "(%s %s %s)" % (expr(e.left, env), BIN[type(e.op)], expr(e.right, env))
    if isinstance(e, ast.Call) and isinstance(e.func, ast.Name) and e.func.id in ("max", "min") and len(e.args) == 2 and not e.keywords:
        return "(Z.%s %s %s)" % (e.func.id, expr(e.args[0], env), expr(e.args[1], env))
    raise Untranslatable("expression " + ast.dump(e)[:80])


def cond(e, env):
    if isinstance(e, ast.Compare) and len(e.ops) == 1 and type(e.ops[0]) in CMP:
        return "(%s %s %s)" % (expr(e.left, env), CMP[type(e.ops[0])], expr(e.comparators[0], env))
    if isinstance(e, ast.BoolOp) and isinstance(e.op, ast.Or) and len(e.values) == 2:
        return "(%s || %s)" % (cond(e.values[0], env), cond(e.values[1], env))
    raise Untranslatable("condition " + ast.dump(e)[:80])


def names_in(node):
    out = []
    for n in ast.walk(node):
        if isinstance(n, ast.Name) and n.id not in out:
            out.append(n.id)
    return out


class Fn:
    def __init__(self, fdef, enum_param, enum_map, ok, err, nofuel, fixname):
        self.f, self.enum_param, self.enum_map = fdef, enum_param, enum_map
        self.ok, self.err, self.nofuel, self.fixname = ok, err, nofuel, fixname
        self.fix = None
        self.fresh = 0

    def new(self, base):
        self.fresh += 1
        return "%s_%d" % (base, self.fresh)

    def is_str_test(self, t):
        return (isinstance(t, ast.Compare) and isinstance(t.left, ast.Name) and t.left.id == self.enum_param and len(t.ops) == 1
                and isinstance(t.ops[0], ast.Eq) and isinstance(t.comparators[0], ast.Constant) and isinstance(t.comparators[0].value, str))

    def block(self, stmts, env):
        if not stmts:
            raise Untranslatable("control reaches the end of a block without return")
        s, rest = stmts[0], stmts[1:]
        if isinstance(s, ast.Expr) and isinstance(s.value, ast.Constant) and isinstance(s.value.value, str):
            return self.block(rest, env)                       # docstring
        if isinstance(s, ast.Return):
            return "%s %s" % (self.ok, expr(s.value, env))
        if isinstance(s, ast.Raise):
            return self.err
        if isinstance(s, ast.Assign) and len(s.targets) == 1 and isinstance(s.targets[0], ast.Name):
            v = self.new(s.targets[0].id)
            e2 = dict(env); e2[s.targets[0].id] = v
            return "let %s := %s in\n  %s" % (v, expr(s.value, env), self.block(rest, e2))
        if isinstance(s, ast.If):
            if self.is_str_test(s.test):
                return self.dispatch(s, env, rest)
            # control continues with `rest` after whichever branch falls through (a branch that returns never reaches it)
            return "if %s then %s else\n  %s" % (cond(s.test, env), self.block(s.body + rest, env), self.block(s.orelse + rest, env))
        if isinstance(s, ast.While):
            return self.loop(s, env, rest)
        raise Untranslatable("statement " + ast.dump(s)[:80])

    def dispatch(self, s, env, rest):
        if rest:
            raise Untranslatable("statements after the dispatch")
        arms, cur = {}, s
        while True:
            if not self.is_str_test(cur.test):
                raise Untranslatable("dispatch test")
            key = cur.test.comparators[0].value
            if key not in self.enum_map or key in arms:
                raise Untranslatable("dispatch key %r" % key)
            arms[key] = self.block(cur.body, env)
            if len(cur.orelse) == 1 and isinstance(cur.orelse[0], ast.If):
                cur = cur.orelse[0]
                continue
            # the final else: must do nothing but (print and) raise -- values outside the enumeration are outside the model
            tail = [x for x in cur.orelse if not (isinstance(x, ast.Expr) and isinstance(x.value, ast.Call))]
            if not (len(tail) == 1 and isinstance(tail[0], ast.Raise)):
                raise Untranslatable("dispatch fall-through is not a raise")
            break
        if set(arms) != set(self.enum_map):
            raise Untranslatable("dispatch does not cover %s" % sorted(self.enum_map))
        return "match %s with\n" % env[self.enum_param] + "".join("  | %s => %s\n" % (self.enum_map[k], arms[k]) for k in self.enum_map) + "  end"

    def loop(self, w, env, rest):
        if self.fix is not None or w.orelse:
            raise Untranslatable("more than one loop / while-else")
        carried = []
        for st in w.body:
            if isinstance(st, ast.AugAssign) and isinstance(st.target, ast.Name) and type(st.op) in BIN:
                t = st.target.id
            elif isinstance(st, ast.Assign) and len(st.targets) == 1 and isinstance(st.targets[0], ast.Name):
                t = st.targets[0].id
            else:
                raise Untranslatable("loop body statement " + ast.dump(st)[:60])
            if t not in carried:
                carried.append(t)
        free = [n for n in names_in(w.test) + [n for st in w.body for n in names_in(st)] if n not in carried]
        free = list(dict.fromkeys(free))
        for n in free + carried:
            if n not in env:
                raise Untranslatable("loop uses unbound %s" % n)
        # symbolic execution of the body over formal parameters
        formal = {n: "p_%s" % n for n in free + carried}
        cur = dict(formal)
        for st in w.body:
            if isinstance(st, ast.AugAssign):
                cur[st.target.id] = "(%s %s %s)" % (cur[st.target.id], BIN[type(st.op)], expr(st.value, cur))
            else:
                cur[st.targets[0].id] = expr(st.value, cur)
        tup = formal[carried[0]]
        for n in carried[1:]:
            tup = "(%s, %s)" % (tup, formal[n])
        params = " ".join(formal[n] for n in free + carried)
        self.fix = ("Fixpoint %s (fuel : nat) (%s : Z) : option (%s) :=\n  if %s then\n    match fuel with\n    | O => None\n"
                    "    | S f => %s f %s %s\n    end\n  else Some %s.\n" % (
                        self.fixname, params, "*".join(["Z"] * len(carried)), cond(w.test, formal), self.fixname,
                        " ".join(formal[n] for n in free), " ".join(cur[n] for n in carried), tup))
        out = {n: self.new(n) for n in carried}
        e2 = dict(env); e2.update(out)
        pat = out[carried[0]]
        for n in carried[1:]:
            pat = "(%s, %s)" % (pat, out[n])
        first = self.f.args.args[0].arg
        return "match %s (Z.to_nat %s) %s %s with\n  | None => %s\n  | Some %s =>\n  %s\n  end" % (
            self.fixname, env[first], " ".join(env[n] for n in free), " ".join(env[n] for n in carried), self.nofuel, pat, self.block(rest, e2))


def find_function(path, name):
    tree = ast.parse(open(path).read())
    for n in ast.walk(tree):
        if isinstance(n, ast.FunctionDef) and n.name == name:
            return n
    raise Untranslatable("function %s not found in %s" % (name, path))


def gen_n_advance(repo):
    f = find_function(os.path.join(repo, "checkpoint_schedules", "multistage.py"), "n_advance")
    args = [a.arg for a in f.args.args] + [a.arg for a in f.args.kwonlyargs]
    if args != ["n", "snapshots", "trajectory"]:
        raise Untranslatable("signature %s" % args)
    fn = Fn(f, "trajectory", {"maximum": "TMaximum", "revolve": "TRevolve"}, "NOk", "NValueError", "NOutOfFuel", "find_t_gen")
    body = fn.block(f.body, {"n": "n", "snapshots": "snapshots", "trajectory": "trajectory"})
    return ("(* GENERATED by harness/translate.py from checkpoint_schedules/multistage.py (n_advance) -- do not edit *)\n"
            "From Coq Require Import ZArith Bool.\nFrom CS Require Import NAdvance.\nOpen Scope Z_scope.\n\n" + fn.fix +
            "\nDefinition n_advance_gen (n snapshots : Z) (trajectory : traj) : nres :=\n  " + body + ".\n\n"
            "(* the obligation: what the source says now IS the model the theorems are about (conversion only) *)\n"
            "Lemma find_t_gen_is_model : find_t_gen = find_t.\nProof. reflexivity. Qed.\n"
            "Lemma n_advance_gen_is_model : n_advance_gen = n_advance.\nProof. reflexivity. Qed.\n")


GENERATORS = {"NAdvanceGen": gen_n_advance}

# ---------------------------------------------------------------------------------------------------------------------------
# CheckpointSchedule.finalize(self, n): a method over the attributes _n, _r, _max_n (max_n: None or an int)
EXN = {"ValueError": "ValueError", "RuntimeError": "RuntimeError"}


class Meth:
    def __init__(self, param):
        self.param = param

    def val(self, e, st):
        if isinstance(e, ast.Name) and e.id == self.param:
            return "k"
        if isinstance(e, ast.Attribute) and isinstance(e.value, ast.Name) and e.value.id == "self" and e.attr in ("_n", "_r", "_max_n"):
            v = st[e.attr]
            if v is None:
                raise Untranslatable("self.%s read while it may be None" % e.attr)
            return v
        if isinstance(e, ast.Constant) and isinstance(e.value, int) and not isinstance(e.value, bool):
            return str(e.value)
        raise Untranslatable("value " + ast.dump(e)[:80])

    def test(self, e, st):
        if isinstance(e, ast.BoolOp) and isinstance(e.op, ast.Or) and len(e.values) == 2:
            return "%s || %s" % (self.test(e.values[0], st), self.test(e.values[1], st))
        if isinstance(e, ast.Compare) and len(e.ops) == 1:
            a, b = self.val(e.left, st), self.val(e.comparators[0], st)
            if isinstance(e.ops[0], ast.NotEq):
                return "negb (%s =? %s)" % (a, b)
            if type(e.ops[0]) in CMP:
                return "%s %s %s" % (a, CMP[type(e.ops[0])], b)
        raise Untranslatable("test " + ast.dump(e)[:80])

    def is_none_test(self, e):
        return (isinstance(e, ast.Compare) and len(e.ops) == 1 and isinstance(e.ops[0], ast.Is) and isinstance(e.left, ast.Attribute)
                and isinstance(e.left.value, ast.Name) and e.left.value.id == "self" and e.left.attr == "_max_n"
                and isinstance(e.comparators[0], ast.Constant) and e.comparators[0].value is None)

    def block(self, stmts, st, dirty):
        if not stmts:
            if not dirty:
                return "(b, None)"
            return "({| n_ := %s; r_ := %s; max_n_ := %s |}, None)" % (st["_n"], st["_r"], st["_max_n_opt"])
        s, rest = stmts[0], stmts[1:]
        if isinstance(s, ast.Expr) and isinstance(s.value, ast.Constant) and isinstance(s.value.value, str):
            return self.block(rest, st, dirty)
        if isinstance(s, ast.Raise):
            if dirty:
                raise Untranslatable("raise after the state was modified")
            exc = s.exc.func.id if isinstance(s.exc, ast.Call) and isinstance(s.exc.func, ast.Name) else None
            if exc not in EXN:
                raise Untranslatable("exception %s" % exc)
            return "(b, Some %s)" % EXN[exc]
        if isinstance(s, ast.Assign) and len(s.targets) == 1 and isinstance(s.targets[0], ast.Attribute) and isinstance(s.targets[0].value, ast.Name) \
                and s.targets[0].value.id == "self" and s.targets[0].attr in ("_n", "_r", "_max_n"):
            st2 = dict(st)
            v = self.val(s.value, st)
            if s.targets[0].attr == "_max_n":
                st2["_max_n"] = v
                st2["_max_n_opt"] = "Some %s" % v
            else:
                st2[s.targets[0].attr] = v
            return self.block(rest, st2, True)
        if isinstance(s, ast.If):
            if self.is_none_test(s.test):
                if dirty:
                    raise Untranslatable("None test after the state was modified")
                st_none = dict(st); st_none["_max_n"] = None; st_none["_max_n_opt"] = "None"
                st_some = dict(st); st_some["_max_n"] = "m"; st_some["_max_n_opt"] = "Some m"
                return "match max_n_ b with\n  | None => %s\n  | Some m => %s\n  end" % (
                    self.block(s.body + rest, st_none, dirty), self.block(s.orelse + rest, st_some, dirty))
            return "if %s then %s else %s" % (self.test(s.test, st), self.block(s.body + rest, st, dirty), self.block(s.orelse + rest, st, dirty))
        raise Untranslatable("statement " + ast.dump(s)[:80])


def gen_finalize(repo):
    tree = ast.parse(open(os.path.join(repo, "checkpoint_schedules", "schedule.py")).read())
    f = None
    for c in ast.walk(tree):
        if isinstance(c, ast.ClassDef) and c.name == "CheckpointSchedule":
            for n in c.body:
                if isinstance(n, ast.FunctionDef) and n.name == "finalize":
                    f = n
    if f is None or [a.arg for a in f.args.args] != ["self", "n"]:
        raise Untranslatable("CheckpointSchedule.finalize(self, n) not found")
    m = Meth("n")
    body = m.block(f.body, {"_n": "n_ b", "_r": "r_ b", "_max_n": None, "_max_n_opt": "max_n_ b"}, False)
    return ("(* GENERATED by harness/translate.py from checkpoint_schedules/schedule.py (CheckpointSchedule.finalize) -- do not edit *)\n"
            "From Coq Require Import ZArith Bool.\nFrom CS Require Import Actions Online.\nOpen Scope Z_scope.\n\n"
            "Definition finalize_gen (k : Z) (b : base) : base * option exn :=\n  " + body + ".\n\n"
            "Lemma finalize_gen_is_model : finalize_gen = Online.finalize.\nProof. reflexivity. Qed.\n")


GENERATORS["FinalizeGen"] = gen_finalize

# ---------------------------------------------------------------------------------------------------------------------------
# CheckpointAction as a value: __eq__ of the base class, __len__ / __iter__ / __contains__ of Forward and Reverse, with the
# attribute names resolved through the @property definitions (self.n0 -> self.args[i]) and the order of the arguments that
# __init__ hands to CheckpointAction.__init__ checked against the model's constructors.
ARG_ORDER = {"Forward": ["n0", "n1", "write_ics", "write_adj_deps", "storage"], "Reverse": ["n1", "n0", "clear_adj_deps"],
             "Copy": ["n", "from_storage", "to_storage"], "Move": ["n", "from_storage", "to_storage"]}


def _methods(cdef):
    return {n.name: n for n in cdef.body if isinstance(n, ast.FunctionDef)}


def _strip_doc(body):
    return [x for x in body if not (isinstance(x, ast.Expr) and isinstance(x.value, ast.Constant) and isinstance(x.value.value, str))]


def _init_order(cdef):
    ms = _methods(cdef)
    if "__init__" not in ms:
        raise Untranslatable("%s has no __init__" % cdef.name)
    f = ms["__init__"]
    params = [a.arg for a in f.args.args][1:]
    body = _strip_doc(f.body)
    if f.args.vararg or f.args.kwonlyargs or f.args.defaults or f.args.kw_defaults or len(body) != 1:
        raise Untranslatable("%s.__init__ is not a plain forwarding constructor" % cdef.name)
    c = body[0].value if isinstance(body[0], ast.Expr) else None
    ok = (isinstance(c, ast.Call) and isinstance(c.func, ast.Attribute) and c.func.attr == "__init__" and isinstance(c.func.value, ast.Call)
          and isinstance(c.func.value.func, ast.Name) and c.func.value.func.id == "super" and not c.func.value.args and not c.keywords
          and all(isinstance(a, ast.Name) for a in c.args))
    if not ok:
        raise Untranslatable("%s.__init__ body" % cdef.name)
    order = [a.id for a in c.args]
    if order != params or order != ARG_ORDER[cdef.name]:
        raise Untranslatable("%s.__init__ passes %s (parameters %s); the model's constructor has %s" % (cdef.name, order, params, ARG_ORDER[cdef.name]))
    return order


def _props(cdef, nargs):
    out = {}
    for n in cdef.body:
        if isinstance(n, ast.FunctionDef) and any(isinstance(d, ast.Name) and d.id == "property" for d in n.decorator_list):
            body = _strip_doc(n.body)
            r = body[0].value if len(body) == 1 and isinstance(body[0], ast.Return) else None
            ok = (isinstance(r, ast.Subscript) and isinstance(r.value, ast.Attribute) and isinstance(r.value.value, ast.Name) and r.value.value.id == "self"
                  and r.value.attr == "args" and isinstance(r.slice, ast.Constant) and isinstance(r.slice.value, int) and 0 <= r.slice.value < nargs)
            if not ok:
                raise Untranslatable("property %s.%s" % (cdef.name, n.name))
            out[n.name] = r.slice.value
    return out


def _aexpr(e, props, locs):
    if isinstance(e, ast.Constant) and isinstance(e.value, int) and not isinstance(e.value, bool):
        return str(e.value) if e.value >= 0 else "(%d)" % e.value
    if isinstance(e, ast.UnaryOp) and isinstance(e.op, ast.USub) and isinstance(e.operand, ast.Constant) and isinstance(e.operand.value, int):
        return "(-%d)" % e.operand.value
    if isinstance(e, ast.Name) and e.id in locs:
        return locs[e.id]
    if isinstance(e, ast.Attribute) and isinstance(e.value, ast.Name) and e.value.id == "self" and e.attr in props:
        return "a%d" % props[e.attr]
    if isinstance(e, ast.BinOp) and type(e.op) in BIN:
        return "(%s %s %s)" % (_aexpr(e.left, props, locs), BIN[type(e.op)], _aexpr(e.right, props, locs))
    raise Untranslatable("expression " + ast.dump(e)[:80])


def _single_return(f, what):
    body = _strip_doc(f.body)
    if len(body) != 1 or not isinstance(body[0], ast.Return) or f.decorator_list:
        raise Untranslatable(what + " is not a single return")
    return body[0].value


def gen_actval(repo):
    tree = ast.parse(open(os.path.join(repo, "checkpoint_schedules", "schedule.py")).read())
    classes = {c.name: c for c in ast.walk(tree) if isinstance(c, ast.ClassDef)}
    for c in ("CheckpointAction", "Forward", "Reverse", "Copy", "Move", "EndForward", "EndReverse"):
        if c not in classes:
            raise Untranslatable("class %s not found" % c)
    base = _methods(classes["CheckpointAction"])
    # __init__(self, *args): self.args = args
    bi = base.get("__init__")
    bb = _strip_doc(bi.body) if bi is not None else []
    ok = (bi is not None and [a.arg for a in bi.args.args] == ["self"] and bi.args.vararg is not None and bi.args.vararg.arg == "args" and len(bb) == 1
          and isinstance(bb[0], ast.Assign) and len(bb[0].targets) == 1 and isinstance(bb[0].targets[0], ast.Attribute)
          and isinstance(bb[0].targets[0].value, ast.Name) and bb[0].targets[0].value.id == "self" and bb[0].targets[0].attr == "args"
          and isinstance(bb[0].value, ast.Name) and bb[0].value.id == "args")
    if not ok:
        raise Untranslatable("CheckpointAction.__init__ is not `self.args = args`")
    # __eq__(self, other): type(self) is type(other) and self.args == other.args
    eq = base.get("__eq__")
    if eq is None or [a.arg for a in eq.args.args] != ["self", "other"]:
        raise Untranslatable("CheckpointAction.__eq__(self, other) not found")
    r = _single_return(eq, "__eq__")

    def is_type_of(x, name):
        return isinstance(x, ast.Call) and isinstance(x.func, ast.Name) and x.func.id == "type" and len(x.args) == 1 and isinstance(x.args[0], ast.Name) and x.args[0].id == name and not x.keywords

    def is_args_of(x, name):
        return isinstance(x, ast.Attribute) and x.attr == "args" and isinstance(x.value, ast.Name) and x.value.id == name
    ok = (isinstance(r, ast.BoolOp) and isinstance(r.op, ast.And) and len(r.values) == 2
          and isinstance(r.values[0], ast.Compare) and len(r.values[0].ops) == 1 and isinstance(r.values[0].ops[0], ast.Is)
          and is_type_of(r.values[0].left, "self") and is_type_of(r.values[0].comparators[0], "other")
          and isinstance(r.values[1], ast.Compare) and len(r.values[1].ops) == 1 and isinstance(r.values[1].ops[0], ast.Eq)
          and is_args_of(r.values[1].left, "self") and is_args_of(r.values[1].comparators[0], "other"))
    if not ok:
        raise Untranslatable("__eq__ is not `type(self) is type(other) and self.args == other.args`: " + ast.dump(r)[:120])
    for c in ("Forward", "Reverse", "Copy", "Move", "EndForward", "EndReverse"):
        ms = _methods(classes[c])
        for m in ("__eq__", "__ne__", "__hash__", "__repr__"):
            if m in ms:
                raise Untranslatable("%s overrides %s" % (c, m))
        if [b.id for b in classes[c].bases if isinstance(b, ast.Name)] != ["CheckpointAction"]:
            raise Untranslatable("%s bases" % c)
    for c in ("Copy", "Move"):
        _init_order(classes[c])
    for c in ("Copy", "Move", "EndForward", "EndReverse"):
        for m in ("__len__", "__iter__", "__contains__", "__getitem__"):
            if m in _methods(classes[c]):
                raise Untranslatable("%s defines %s (the model has TypeError there)" % (c, m))
    # __repr__(self): strargs = tuple(<a> if arg == sys.maxsize else repr(arg) for arg in self.args); return f"{type(self).__name__}({', '.join(strargs)})"
    rp = base.get("__repr__")
    rb = _strip_doc(rp.body) if rp is not None else []
    if rp is None or [a.arg for a in rp.args.args] != ["self"] or len(rb) != 2 or not isinstance(rb[0], ast.Assign) or not isinstance(rb[1], ast.Return):
        raise Untranslatable("CheckpointAction.__repr__ shape")
    asg = rb[0]
    if len(asg.targets) != 1 or not isinstance(asg.targets[0], ast.Name):
        raise Untranslatable("__repr__ assignment")
    tname = asg.targets[0].id
    v = asg.value
    if not (isinstance(v, ast.Call) and isinstance(v.func, ast.Name) and v.func.id in ("tuple", "list") and len(v.args) == 1 and not v.keywords
            and isinstance(v.args[0], (ast.GeneratorExp, ast.ListComp)) and len(v.args[0].generators) == 1):
        raise Untranslatable("__repr__: strargs is not tuple(<generator>)")
    ge = v.args[0]
    comp = ge.generators[0]
    if not (isinstance(comp.target, ast.Name) and is_args_of(comp.iter, "self") and not comp.ifs and not comp.is_async):
        raise Untranslatable("__repr__: generator does not run over self.args")
    av = comp.target.id

    def sexpr(e):
        """string-valued expression over the generator variable"""
        if isinstance(e, ast.Constant) and isinstance(e.value, str):
            if any(ch in e.value for ch in '"\\') or not e.value.isprintable():
                raise Untranslatable("string constant")
            return '"%s"' % e.value
        if isinstance(e, ast.IfExp):
            return "(if %s then %s else %s)" % (bexpr(e.test), sexpr(e.body), sexpr(e.orelse))
        if isinstance(e, ast.Call) and isinstance(e.func, ast.Name) and e.func.id == "repr" and len(e.args) == 1 and isinstance(e.args[0], ast.Name) and e.args[0].id == av and not e.keywords:
            return "py_repr %s" % av
        raise Untranslatable("__repr__ element " + ast.dump(e)[:80])

    def bexpr(e):
        def is_maxsize(x):
            return isinstance(x, ast.Attribute) and x.attr == "maxsize" and isinstance(x.value, ast.Name) and x.value.id == "sys"
        if isinstance(e, ast.Compare) and len(e.ops) == 1 and isinstance(e.ops[0], ast.Eq) and isinstance(e.left, ast.Name) and e.left.id == av and is_maxsize(e.comparators[0]):
            return "arg_eq_maxsize %s" % av
        raise Untranslatable("__repr__ test " + ast.dump(e)[:80])
    elt = sexpr(ge.elt)
    js = rb[1].value
    if not isinstance(js, ast.JoinedStr):
        raise Untranslatable("__repr__ does not return an f-string")
    parts = []
    for piece in js.values:
        if isinstance(piece, ast.Constant) and isinstance(piece.value, str):
            if any(ch in piece.value for ch in '"\\') or not piece.value.isprintable():
                raise Untranslatable("f-string constant")
            parts.append('"%s"' % piece.value)
        elif isinstance(piece, ast.FormattedValue) and piece.conversion == -1 and piece.format_spec is None:
            x = piece.value
            if isinstance(x, ast.Attribute) and x.attr == "__name__" and is_type_of(x.value, "self"):
                parts.append("type_name self")
            elif (isinstance(x, ast.Call) and isinstance(x.func, ast.Attribute) and x.func.attr == "join" and isinstance(x.func.value, ast.Constant)
                  and isinstance(x.func.value.value, str) and len(x.args) == 1 and isinstance(x.args[0], ast.Name) and x.args[0].id == tname and not x.keywords):
                parts.append('py_join "%s" %s' % (x.func.value.value, tname))
            else:
                raise Untranslatable("f-string field " + ast.dump(x)[:80])
        else:
            raise Untranslatable("f-string piece")
    # StorageType.__repr__: type(self).__name__ + "." + self.name ; members RAM DISK WORK NONE
    stc = classes.get("StorageType")
    if stc is None:
        raise Untranslatable("class StorageType not found")
    members = [t.id for n in stc.body if isinstance(n, ast.Assign) for t in n.targets if isinstance(t, ast.Name)]
    if sorted(members) != ["DISK", "NONE", "RAM", "WORK"]:
        raise Untranslatable("StorageType members %s" % members)
    sr = _methods(stc).get("__repr__")
    if sr is None or [a.arg for a in sr.args.args] != ["self"]:
        raise Untranslatable("StorageType.__repr__")

    def stexpr(e):
        if isinstance(e, ast.BinOp) and isinstance(e.op, ast.Add):
            return "(%s ++ %s)" % (stexpr(e.left), stexpr(e.right))
        if isinstance(e, ast.Constant) and isinstance(e.value, str) and e.value.isprintable() and '"' not in e.value:
            return '"%s"' % e.value
        if isinstance(e, ast.Attribute) and e.attr == "__name__" and is_type_of(e.value, "self"):
            return '"StorageType"'
        if isinstance(e, ast.Attribute) and e.attr == "name" and isinstance(e.value, ast.Name) and e.value.id == "self":
            return "st_name self"
        raise Untranslatable("StorageType.__repr__ expression " + ast.dump(e)[:80])
    st_body = stexpr(_single_return(sr, "StorageType.__repr__"))
    out = ["(* GENERATED by harness/translate.py from checkpoint_schedules/schedule.py (CheckpointAction.__eq__; __len__, __iter__, __contains__ of Forward",
           "   and Reverse, attribute names resolved through the @property definitions) -- do not edit *)",
           "From Coq Require Import ZArith Bool List String.", "From CS Require Import Actions ActVal.", "Import ListNotations.", "Open Scope Z_scope.", "",
           "Definition eq_gen (self other : action) : bool := same_kind self other && tuple_eqb (args self) (args other).",
           "Lemma eq_gen_is_model : eq_gen = py_eq.", "Proof. reflexivity. Qed.", "",
           "Definition st_repr_gen (self : storage) : string := (%s)%%string." % st_body,
           "Lemma st_repr_gen_is_model : forall s, st_repr_gen s = st_repr s.", "Proof. intros s; destruct s; reflexivity. Qed.",
           "Definition repr_gen (self : action) : string :=", "  let %s := map (fun %s => %s%%string) (args self) in" % (tname, av, elt),
           "  (%s)%%string." % " ++ ".join(parts),
           "Lemma repr_gen_is_model : forall a, repr_gen a = act_repr a.", "Proof. intros a; destruct a; reflexivity. Qed.", ""]
    for c, ctor, nz in (("Forward", "Forward a0 a1 a2 a3 a4", "a0 a1 a2 a3 a4"), ("Reverse", "Reverse a0 a1 a2", "a0 a1 a2")):
        order = _init_order(classes[c])
        props = _props(classes[c], len(order))
        for need in ("n0", "n1"):
            if need not in props or order[props[need]] != need:
                raise Untranslatable("%s.%s does not read the argument named %s" % (c, need, need))
        ms = _methods(classes[c])
        lo = c.lower()
        # __len__
        f = ms.get("__len__")
        if f is None or [a.arg for a in f.args.args] != ["self"]:
            raise Untranslatable("%s.__len__" % c)
        out.append("Definition %s_len_gen (a0 a1 : Z) : Z := %s." % (lo, _aexpr(_single_return(f, c + ".__len__"), props, {})))
        # __contains__
        f = ms.get("__contains__")
        if f is None or len(f.args.args) != 2:
            raise Untranslatable("%s.__contains__" % c)
        sv = f.args.args[1].arg
        r = _single_return(f, c + ".__contains__")
        if not (isinstance(r, ast.Compare) and all(type(o) in CMP for o in r.ops)):
            raise Untranslatable("%s.__contains__ is not a comparison chain" % c)
        terms = [r.left] + list(r.comparators)
        conj = ["(%s %s %s)" % (_aexpr(terms[i], props, {sv: "step"}), CMP[type(r.ops[i])], _aexpr(terms[i + 1], props, {sv: "step"})) for i in range(len(r.ops))]
        out.append("Definition %s_mem_gen (a0 a1 step : Z) : bool := %s." % (lo, " && ".join(conj)))
        # __iter__
        f = ms.get("__iter__")
        body = _strip_doc(f.body) if f is not None else []
        y = body[0].value if len(body) == 1 and isinstance(body[0], ast.Expr) else None
        if not (isinstance(y, ast.YieldFrom) and isinstance(y.value, ast.Call) and isinstance(y.value.func, ast.Name) and y.value.func.id == "range" and not y.value.keywords):
            raise Untranslatable("%s.__iter__ is not `yield from range(...)`" % c)
        ra = y.value.args
        if len(ra) == 2:
            it = "py_range %s %s" % (_aexpr(ra[0], props, {}), _aexpr(ra[1], props, {}))
        elif len(ra) == 3 and _aexpr(ra[2], props, {}) == "(-1)":
            it = "py_range_down %s %s" % (_aexpr(ra[0], props, {}), _aexpr(ra[1], props, {}))
        else:
            raise Untranslatable("%s.__iter__ range form" % c)
        out.append("Definition %s_iter_gen (a0 a1 : Z) : list Z := %s." % (lo, it))
        out += ["Lemma %s_len_is_model : forall %s, act_len (%s) = len_result (%s_len_gen a0 a1)." % (lo, nz, ctor, lo), "Proof. reflexivity. Qed.",
                "Lemma %s_mem_is_model : forall %s k, act_mem (%s) k = Ok (%s_mem_gen a0 a1 k)." % (lo, nz, ctor, lo), "Proof. reflexivity. Qed.",
                "Lemma %s_iter_is_model : forall %s, act_iter (%s) = Ok (%s_iter_gen a0 a1)." % (lo, nz, ctor, lo), "Proof. reflexivity. Qed.", ""]
    return "\n".join(out) + "\n"


GENERATORS["ActValGen"] = gen_actval

# ---------------------------------------------------------------------------------------------------------------------------
# uses_storage_type of every schedule class: regenerated as a function of the attributes it reads (the values those attributes
# get in __init__ -- a constant, a constructor parameter, or what a subclass hands to super().__init__ -- are read off the
# source as well) and proved equal to the corresponding branch of Sched.uses.
STS = ("RAM", "DISK", "WORK", "NONE")


def _is_st_const(e):
    return isinstance(e, ast.Attribute) and isinstance(e.value, ast.Name) and e.value.id == "StorageType" and e.attr in STS


def _self_attr(e):
    return e.attr if isinstance(e, ast.Attribute) and isinstance(e.value, ast.Name) and e.value.id == "self" else None


class Uses:
    """uses_storage_type(self, storage_type): attrs maps an attribute name to (gallina name, kind) with kind in 'st', 'z', 'oz'"""

    def __init__(self, attrs, param):
        self.attrs, self.param = attrs, param

    def st(self, e):
        if isinstance(e, ast.Name) and e.id == self.param:
            return "x"
        if _is_st_const(e):
            return e.attr
        a = _self_attr(e)
        if a in self.attrs and self.attrs[a][1] == "st":
            return self.attrs[a][0]
        raise Untranslatable("storage expression " + ast.dump(e)[:80])

    def b(self, e, bound=None):
        bound = bound or {}
        if isinstance(e, ast.Constant) and isinstance(e.value, bool):
            return "true" if e.value else "false"
        if isinstance(e, ast.Compare) and len(e.ops) == 1:
            op, l, r = e.ops[0], e.left, e.comparators[0]
            if isinstance(op, ast.Eq):
                return "st_eqb %s %s" % (self.st(l), self.st(r))
            if isinstance(op, ast.In) and isinstance(r, ast.Set) and r.elts:
                return "(" + " || ".join("st_eqb %s %s" % (self.st(l), self.st(x)) for x in r.elts) + ")"
            if type(op) in CMP and isinstance(r, ast.Constant) and isinstance(r.value, int) and not isinstance(r.value, bool):
                a = _self_attr(l)
                if a in bound:
                    return "(%s %s %d)" % (bound[a], CMP[type(op)], r.value)
                if a in self.attrs and self.attrs[a][1] == "z":
                    return "(%s %s %d)" % (self.attrs[a][0], CMP[type(op)], r.value)
        if isinstance(e, ast.BoolOp) and isinstance(e.op, ast.Or) and len(e.values) == 2:
            t = e.values[0]
            a = _self_attr(t.left) if isinstance(t, ast.Compare) and len(t.ops) == 1 and isinstance(t.ops[0], ast.Is) else None
            if a in self.attrs and self.attrs[a][1] == "oz" and isinstance(t.comparators[0], ast.Constant) and t.comparators[0].value is None:
                v = self.attrs[a][0]
                return "match %s with None => true | Some %s' => %s end" % (v, v, self.b(e.values[1], dict(bound, **{a: v + "'"})))
        raise Untranslatable("boolean expression " + ast.dump(e)[:100])

    def block(self, stmts):
        if not stmts:
            return "UNoneVal"                       # falling off the end returns None
        s, rest = stmts[0], stmts[1:]
        if isinstance(s, ast.Assert):
            t = s.test                              # `assert storage_type in StorageType`: true of all four members
            if (isinstance(t, ast.Compare) and len(t.ops) == 1 and isinstance(t.ops[0], ast.In) and isinstance(t.left, ast.Name) and t.left.id == self.param
                    and isinstance(t.comparators[0], ast.Name) and t.comparators[0].id == "StorageType"):
                return self.block(rest)
            raise Untranslatable("assert " + ast.dump(t)[:80])
        if isinstance(s, ast.Return):
            if s.value is None:
                return "UNoneVal"
            return "ub (%s)" % self.b(s.value)
        if isinstance(s, ast.If):
            return "if %s then %s else %s" % (self.b(s.test), self.block(s.body + rest), self.block(s.orelse + rest))
        raise Untranslatable("statement " + ast.dump(s)[:80])


def _uses_method(cdef):
    f = _methods(cdef).get("uses_storage_type")
    if f is None or len(f.args.args) != 2 or f.args.args[0].arg != "self" or f.decorator_list:
        raise Untranslatable("%s.uses_storage_type(self, storage_type)" % cdef.name)
    return f, f.args.args[1].arg


def _init_assigns(cdef):
    """{attribute: value expression} for the top-level `self.a = e` statements of __init__ (last one wins), and the super().__init__ call"""
    f = _methods(cdef).get("__init__")
    if f is None:
        raise Untranslatable("%s.__init__" % cdef.name)
    out, sup = {}, None
    for st in f.body:
        if isinstance(st, ast.Assign) and len(st.targets) == 1 and _self_attr(st.targets[0]):
            out[_self_attr(st.targets[0])] = st.value
        for n in ast.walk(st):
            if isinstance(n, ast.Call) and isinstance(n.func, ast.Attribute) and n.func.attr == "__init__" and isinstance(n.func.value, ast.Call) \
                    and isinstance(n.func.value.func, ast.Name) and n.func.value.func.id == "super":
                sup = n
    return f, out, sup


def gen_observers(repo):
    def classes_of(fn):
        tree = ast.parse(open(os.path.join(repo, "checkpoint_schedules", fn)).read())
        return {c.name: c for c in ast.walk(tree) if isinstance(c, ast.ClassDef)}
    bs, ms, mx, tl, hr = (classes_of(f) for f in ("basic_schedules.py", "multistage.py", "mixed.py", "twolevel_binomial.py", "hrevolve.py"))
    out = ["(* GENERATED by harness/translate.py from the uses_storage_type methods of checkpoint_schedules (and the __init__ assignments of the",
           "   attributes they read) -- do not edit *)",
           "From Coq Require Import ZArith Bool List.", "From CS Require Import Actions Online Multistage Mixed RevConv Sched.", "Open Scope Z_scope.", ""]
    PROOF = "Proof. intros; repeat match goal with x : storage |- _ => destruct x end; cbn; rewrite ?Z.gtb_ltb; reflexivity. Qed."

    def need(d, name):
        if name not in d:
            raise Untranslatable("class %s not found" % name)
        return d[name]

    def const_attr(cdef, attr):
        _, asg, _ = _init_assigns(cdef)
        if attr not in asg or not _is_st_const(asg[attr]):
            raise Untranslatable("%s.__init__ does not set self.%s to a StorageType constant" % (cdef.name, attr))
        return asg[attr].attr

    def param_attr(cdef, attr, pname):
        _, asg, _ = _init_assigns(cdef)
        if attr not in asg or not (isinstance(asg[attr], ast.Name) and asg[attr].id == pname):
            raise Untranslatable("%s.__init__ does not set self.%s = %s" % (cdef.name, attr, pname))
    # --- basic classes
    c = need(bs, "NoneCheckpointSchedule"); f, p = _uses_method(c)
    out += ["Definition uses_none_gen (x : storage) : ures := %s." % Uses({}, p).block(_strip_doc(f.body)),
            "Lemma uses_none_is_model : forall o b x, Online.k o = KNone_ -> uses {| ob := OOnline o; started := b |} x = uses_none_gen x.",
            "Proof. intros o b x H. unfold uses. cbn [ob]. rewrite H. destruct x; reflexivity. Qed.", ""]
    c = need(bs, "SingleMemoryStorageSchedule"); f, p = _uses_method(c)
    out += ["Definition uses_mem_gen (storage x : storage) : ures := %s." % Uses({"_storage": ("storage", "st")}, p).block(_strip_doc(f.body)),
            "Lemma uses_mem_is_model : forall o b x, Online.k o = KMem -> uses {| ob := OOnline o; started := b |} x = uses_mem_gen %s x." % const_attr(c, "_storage"),
            "Proof. intros o b x H. unfold uses. cbn [ob]. rewrite H. destruct x; reflexivity. Qed.", ""]
    c = need(bs, "SingleDiskStorageSchedule"); f, p = _uses_method(c)
    out += ["Definition uses_disk_gen (storage x : storage) : ures := %s." % Uses({"_storage": ("storage", "st")}, p).block(_strip_doc(f.body)),
            "Lemma uses_disk_is_model : forall o b mv x, Online.k o = KDisk mv -> uses {| ob := OOnline o; started := b |} x = uses_disk_gen %s x." % const_attr(c, "_storage"),
            "Proof. intros o b mv x H. unfold uses. cbn [ob]. rewrite H. destruct x; reflexivity. Qed.", ""]
    # --- TwoLevel
    c = need(tl, "TwoLevelCheckpointSchedule"); f, p = _uses_method(c)
    param_attr(c, "_binomial_storage", "binomial_storage")
    out += ["Definition uses_two_gen (binomial_storage x : storage) : ures := %s." % Uses({"_binomial_storage": ("binomial_storage", "st")}, p).block(_strip_doc(f.body)),
            "Lemma uses_two_is_model : forall o b p bs bst tr x, Online.k o = KTwo p bs bst tr -> uses {| ob := OOnline o; started := b |} x = uses_two_gen bst x.",
            "Proof. intros o b p bs bst tr x H. unfold uses. cbn [ob]. rewrite H. destruct x, bst; reflexivity. Qed.", ""]
    # --- Multistage: the attributes are the recounted unit numbers (the model keeps them in the object)
    c = need(ms, "MultistageCheckpointSchedule"); f, p = _uses_method(c)
    param_attr(c, "_snapshots_in_ram", "snapshots_in_ram"); param_attr(c, "_snapshots_on_disk", "snapshots_on_disk")
    out += ["Definition uses_multi_gen (ram disk : Z) (x : storage) : ures := %s." % Uses({"_snapshots_in_ram": ("ram", "z"), "_snapshots_on_disk": ("disk", "z")}, p).block(_strip_doc(f.body)),
            "Lemma uses_multi_is_model : forall c s ram disk b x, uses {| ob := OMulti c s ram disk; started := b |} x = uses_multi_gen ram disk x.", PROOF, ""]
    # --- Mixed
    c = need(mx, "MixedCheckpointSchedule"); f, p = _uses_method(c)
    param_attr(c, "_storage", "storage")
    out += ["Definition uses_mixed_gen (storage x : storage) : ures := %s." % Uses({"_storage": ("storage", "st")}, p).block(_strip_doc(f.body)),
            "Lemma uses_mixed_is_model : forall n s sg tab plan m fin b x, uses {| ob := OMixed n s sg tab plan m fin; started := b |} x = uses_mixed_gen sg x.",
            "Proof. intros; repeat match goal with x : storage |- _ => destruct x end; reflexivity. Qed.", ""]
    # --- Revolve family: one method in the base class; what each subclass hands to the base constructor as snapshots_on_disk
    c = need(hr, "RevolveCheckpointSchedule"); f, p = _uses_method(c)
    fi, asg, _ = _init_assigns(c)
    if [a.arg for a in fi.args.args][:4] != ["self", "max_n", "snapshots_in_ram", "snapshots_on_disk"]:
        raise Untranslatable("RevolveCheckpointSchedule.__init__ parameters")
    param_attr(c, "_snapshots_in_ram", "snapshots_in_ram"); param_attr(c, "_snapshots_on_disk", "snapshots_on_disk")
    out += ["Definition uses_rev_gen (ram : Z) (disk : option Z) (x : storage) : ures := %s." %
            Uses({"_snapshots_in_ram": ("ram", "z"), "_snapshots_on_disk": ("disk", "oz")}, p).block(_strip_doc(f.body))]
    for cls, kind in (("Revolve", "KRevolve"), ("DiskRevolve", "KDiskRevolve"), ("PeriodicDiskRevolve", "KPeriodic"), ("HRevolve", "KHRevolve")):
        sc = need(hr, cls)
        if "uses_storage_type" in _methods(sc):
            raise Untranslatable("%s overrides uses_storage_type" % cls)
        _, _, sup = _init_assigns(sc)
        if sup is None or len(sup.args) < 3 or sup.keywords:
            raise Untranslatable("%s.__init__: super().__init__ call" % cls)
        a_ram, a_disk = sup.args[1], sup.args[2]
        if not (isinstance(a_ram, ast.Name) and a_ram.id == "snapshots_in_ram"):
            raise Untranslatable("%s hands %s to the base class as snapshots_in_ram" % (cls, ast.dump(a_ram)[:40]))
        if isinstance(a_disk, ast.Constant) and a_disk.value is None:
            d = "None"
        elif isinstance(a_disk, ast.Constant) and isinstance(a_disk.value, int) and not isinstance(a_disk.value, bool):
            d = "(Some %d)" % a_disk.value
        elif isinstance(a_disk, ast.Name) and a_disk.id == "snapshots_on_disk":
            d = "(Some disk)"
        else:
            raise Untranslatable("%s hands %s to the base class as snapshots_on_disk" % (cls, ast.dump(a_disk)[:40]))
        out += ["Lemma uses_%s_is_model : forall n ram disk s b x, uses {| ob := ORevF %s n ram disk s; started := b |} x = uses_rev_gen ram %s x." % (cls.lower(), kind, d), PROOF]
    return "\n".join(out) + "\n"


GENERATORS["ObserversGen"] = gen_observers

# ---------------------------------------------------------------------------------------------------------------------------
# The generator bodies (_iterator) of NoneCheckpointSchedule, SingleMemoryStorageSchedule and SingleDiskStorageSchedule, translated
# into the deep-embedded language of coq/Model/GenLang.v.  Gen/BasicGen.v states that each translated program IS the program
# Proofs/GenBasic.v proves equivalent (step for step, under every history of next() and finalize()) to the model Online.v.
GEXN = {"RuntimeError": "RuntimeError", "ValueError": "ValueError", "TypeError": "TypeError"}
LOCALS = {"n0": "false", "n1": "true"}


class GenTr:
    def z(self, e):
        if isinstance(e, ast.Constant) and isinstance(e.value, int) and not isinstance(e.value, bool):
            return "(ZC %s)" % (str(e.value) if e.value >= 0 else "(%d)" % e.value)
        if isinstance(e, ast.Attribute) and isinstance(e.value, ast.Name) and e.value.id == "sys" and e.attr == "maxsize":
            return "ZMaxsize"
        a = _self_attr(e)
        if a == "_n":
            return "ZN"
        if a == "_r":
            return "ZR"
        if a == "_max_n":
            return "ZMax"
        if isinstance(e, ast.Name) and e.id in LOCALS:
            return "(ZL %s)" % LOCALS[e.id]
        if isinstance(e, ast.BinOp) and isinstance(e.op, ast.Add):
            return "(ZAdd %s %s)" % (self.z(e.left), self.z(e.right))
        if isinstance(e, ast.BinOp) and isinstance(e.op, ast.Sub):
            return "(ZSub %s %s)" % (self.z(e.left), self.z(e.right))
        raise Untranslatable("integer expression " + ast.dump(e)[:80])

    def b(self, e):
        if isinstance(e, ast.Constant) and e.value is True:
            return "BTrue"
        if _self_attr(e) == "_move_data":
            return "BMove"
        if isinstance(e, ast.Compare) and len(e.ops) == 1:
            op, l, r = e.ops[0], e.left, e.comparators[0]
            if _self_attr(l) == "_max_n" and isinstance(r, ast.Constant) and r.value is None and isinstance(op, (ast.Is, ast.IsNot)):
                return "BMaxIsNone" if isinstance(op, ast.Is) else "BMaxNotNone"
            for k, nm in ((ast.Eq, "BEq"), (ast.Lt, "BLt"), (ast.Gt, "BGt")):
                if isinstance(op, k):
                    return "(%s %s %s)" % (nm, self.z(l), self.z(r))
        raise Untranslatable("condition " + ast.dump(e)[:80])

    def bool_c(self, e):
        if isinstance(e, ast.Constant) and isinstance(e.value, bool):
            return "true" if e.value else "false"
        raise Untranslatable("boolean constant " + ast.dump(e)[:60])

    def st_c(self, e):
        if _is_st_const(e):
            return e.attr
        raise Untranslatable("storage constant " + ast.dump(e)[:60])

    def action(self, c):
        if not (isinstance(c, ast.Call) and isinstance(c.func, ast.Name) and not c.keywords):
            raise Untranslatable("yielded value " + ast.dump(c)[:60])
        f, a = c.func.id, c.args
        if f == "Forward" and len(a) == 5:
            return "(AForward %s %s %s %s %s)" % (self.z(a[0]), self.z(a[1]), self.bool_c(a[2]), self.bool_c(a[3]), self.st_c(a[4]))
        if f == "Reverse" and len(a) == 3:
            return "(AReverse %s %s %s)" % (self.z(a[0]), self.z(a[1]), self.bool_c(a[2]))
        if f in ("Copy", "Move") and len(a) == 3:
            return "(A%s %s %s %s)" % (f, self.z(a[0]), self.st_c(a[1]), self.st_c(a[2]))
        if f in ("EndForward", "EndReverse") and not a:
            return "A" + f
        raise Untranslatable("action " + f)

    def stmts(self, body):
        body = _strip_doc(body)
        if not body:
            return "SSkip"
        parts = [self.stmt(x) for x in body]
        out = parts[-1]
        for x in reversed(parts[:-1]):
            out = "(SSeq %s %s)" % (x, out)
        return out

    def stmt(self, s):
        if isinstance(s, ast.If):
            return "(SIf %s %s %s)" % (self.b(s.test), self.stmts(s.body), self.stmts(s.orelse))
        if isinstance(s, ast.While) and not s.orelse:
            return "(SWhile %s %s)" % (self.b(s.test), self.stmts(s.body))
        if isinstance(s, ast.Break):
            return "SBreak"
        if isinstance(s, ast.Raise) and isinstance(s.exc, ast.Call) and isinstance(s.exc.func, ast.Name) and s.exc.func.id in GEXN and s.cause is None:
            return "(SRaise %s)" % GEXN[s.exc.func.id]
        if isinstance(s, ast.Expr) and isinstance(s.value, ast.Yield) and s.value.value is not None:
            return "(SYield %s)" % self.action(s.value.value)
        if isinstance(s, ast.Assign) and len(s.targets) == 1:
            t = s.targets[0]
            if isinstance(t, ast.Name) and t.id in LOCALS:
                return "(SSetL %s %s)" % (LOCALS[t.id], self.z(s.value))
            a = _self_attr(t)
            if a == "_n":
                return "(SSetN %s)" % self.z(s.value)
            if a == "_r":
                return "(SSetR %s)" % self.z(s.value)
            if a == "_exhausted":
                return "(SSetExh %s)" % self.bool_c(s.value)
        raise Untranslatable("statement " + ast.dump(s)[:100])


def gen_basic(repo):
    tree = ast.parse(open(os.path.join(repo, "checkpoint_schedules", "basic_schedules.py")).read())
    classes = {c.name: c for c in ast.walk(tree) if isinstance(c, ast.ClassDef)}
    # the protocol around the generator (schedule.py): what next() / iter() / n / r / max_n do, as the model assumes -- compared as text
    stree = ast.parse(open(os.path.join(repo, "checkpoint_schedules", "schedule.py")).read())
    base = [c for c in ast.walk(stree) if isinstance(c, ast.ClassDef) and c.name == "CheckpointSchedule"]
    if len(base) != 1:
        raise Untranslatable("class CheckpointSchedule")
    bm = _methods(base[0])
    EXPECT = {
        "__init__": ("self, max_n=None", "if max_n is not None and max_n < 1:\n    raise ValueError('max_n must be positive')\nself._n = 0\nself._r = 0\nself._max_n = max_n"),
        "__init_subclass__": ("cls, **kwargs", "super().__init_subclass__(**kwargs)\ncls_iter = cls._iterator\n@functools.wraps(cls_iter)\ndef _iterator(self):\n    if not hasattr(self, '_iter'):\n        self._iter = cls_iter(self)\n    return self._iter\ncls._iterator = _iterator"),
        "__iter__": ("self", "return self"),
        "__next__": ("self", "return next(self._iterator())"),
        "n": ("self", "return self._n"), "r": ("self", "return self._r"), "max_n": ("self", "return self._max_n"),
    }
    # no further member (a __getstate__, __copy__, __getattr__, a class-level attribute ...) changes what an object is between two requests
    members = [m.name if isinstance(m, ast.FunctionDef) else ast.unparse(m)[:40] for m in _strip_doc(base[0].body)]
    if sorted(members) != sorted(["__init__", "__init_subclass__", "__iter__", "__next__", "_iterator", "is_exhausted", "uses_storage_type", "n", "r", "max_n", "is_running", "finalize"]):
        raise Untranslatable("CheckpointSchedule has members the model does not know: %s" % members)
    for fn in ("basic_schedules.py", "twolevel_binomial.py", "multistage.py", "mixed.py", "hrevolve.py"):
        for c in ast.walk(ast.parse(open(os.path.join(repo, "checkpoint_schedules", fn)).read())):
            if isinstance(c, ast.ClassDef) and any("Schedule" in ast.unparse(b) or ast.unparse(b) == "RevolveCheckpointSchedule" for b in c.bases):
                extra = [m.name if isinstance(m, ast.FunctionDef) else ast.unparse(m)[:40] for m in _strip_doc(c.body)
                         if not (isinstance(m, ast.FunctionDef) and m.name in ("__init__", "_iterator", "is_exhausted", "uses_storage_type"))]
                if extra:
                    raise Untranslatable("%s has members besides __init__, _iterator, is_exhausted, uses_storage_type (a class-level attribute is shared by all its objects): %s" % (c.name, extra))
    for name, (args, body) in EXPECT.items():
        f = bm.get(name)
        if f is None:
            raise Untranslatable("CheckpointSchedule.%s not found" % name)
        got = "\n".join(ast.unparse(x) for x in _strip_doc(f.body))
        if ast.unparse(f.args) != args or got != body:
            raise Untranslatable("CheckpointSchedule.%s is not the protocol the model assumes: (%s) %r" % (name, ast.unparse(f.args), got[:120]))
    out = ["(* GENERATED by harness/translate.py from checkpoint_schedules/basic_schedules.py (the three _iterator generators) -- do not edit *)",
           "From Coq Require Import ZArith List Bool.", "From CS Require Import Actions Online GenLang GenBasic.", "Open Scope Z_scope.", ""]
    for cls, nm in (("NoneCheckpointSchedule", "none"), ("SingleMemoryStorageSchedule", "mem"), ("SingleDiskStorageSchedule", "disk")):
        if cls not in classes:
            raise Untranslatable("class %s not found" % cls)
        ms = _methods(classes[cls])
        f = ms.get("_iterator")
        if f is None or [a.arg for a in f.args.args] != ["self"] or f.decorator_list:
            raise Untranslatable("%s._iterator(self)" % cls)
        for m in ("__next__", "__iter__", "finalize", "n", "r", "max_n", "is_running"):
            if m in ms:
                raise Untranslatable("%s overrides %s" % (cls, m))
        # __init__: the attributes the generator reads start as the model says
        fi, asg, sup = _init_assigns(classes[cls])
        if sup is None or sup.args or sup.keywords:
            raise Untranslatable("%s.__init__: super().__init__() with no argument" % cls)
        if nm in ("none", "disk") and not ("_exhausted" in asg and isinstance(asg["_exhausted"], ast.Constant) and asg["_exhausted"].value is False):
            raise Untranslatable("%s.__init__ does not set self._exhausted = False" % cls)
        if nm == "disk":
            if [a.arg for a in fi.args.args] != ["self", "move_data"] or not (isinstance(asg.get("_move_data"), ast.Name) and asg["_move_data"].id == "move_data"):
                raise Untranslatable("SingleDiskStorageSchedule.__init__(self, move_data): self._move_data = move_data")
        ex = ms.get("is_exhausted")
        exb = _strip_doc(ex.body) if ex is not None else []
        want = "self._exhausted" if nm in ("none", "disk") else "False"
        if len(exb) != 1 or not isinstance(exb[0], ast.Return) or ast.unparse(exb[0].value) != want:
            raise Untranslatable("%s.is_exhausted is not `return %s`" % (cls, want))
        out += ["Definition %s_prog : stmt :=" % nm, "  %s." % GenTr().stmts(f.body),
                "Lemma %s_prog_is_model : %s_prog = GenBasic.%s_prog_model." % (nm, nm, nm), "Proof. reflexivity. Qed.", ""]
    return "\n".join(out) + "\n"


GENERATORS["BasicGen"] = gen_basic

# ---------------------------------------------------------------------------------------------------------------------------
# TwoLevelCheckpointSchedule._iterator -> coq/Model/GenLang2.v
LOC2 = {"n": "Ln", "n0s": "Ln0s", "n1s": "Ln1s", "cp_n": "Lcp", "n_snapshots": "Lns", "n0": "Ln0", "n1": "Ln1"}
STACK = "snapshots"


class GenTr2:
    def z(self, e):
        if isinstance(e, ast.Constant) and isinstance(e.value, int) and not isinstance(e.value, bool):
            return "(ZC %s)" % (str(e.value) if e.value >= 0 else "(%d)" % e.value)
        a = _self_attr(e)
        if a in ("_n", "_r", "_max_n", "_period", "_binomial_snapshots"):
            return {"_n": "ZN", "_r": "ZR", "_max_n": "ZMax", "_period": "ZPeriod", "_binomial_snapshots": "ZBs"}[a]
        if isinstance(e, ast.Name) and e.id in LOC2:
            return "(ZL %s)" % LOC2[e.id]
        if isinstance(e, ast.BinOp) and type(e.op) in (ast.Add, ast.Sub, ast.Mult, ast.FloorDiv):
            nm = {ast.Add: "ZAdd", ast.Sub: "ZSub", ast.Mult: "ZMul", ast.FloorDiv: "ZDiv"}[type(e.op)]
            return "(%s %s %s)" % (nm, self.z(e.left), self.z(e.right))
        if isinstance(e, ast.Call) and isinstance(e.func, ast.Name) and not e.keywords:
            if e.func.id == "min" and len(e.args) == 2:
                return "(ZMin %s %s)" % (self.z(e.args[0]), self.z(e.args[1]))
            if e.func.id == "len" and len(e.args) == 1 and isinstance(e.args[0], ast.Name) and e.args[0].id == STACK:
                return "ZLen"
        if isinstance(e, ast.Call) and isinstance(e.func, ast.Name) and e.func.id == "n_advance" and len(e.args) == 2 and len(e.keywords) == 1 \
                and e.keywords[0].arg == "trajectory" and _self_attr(e.keywords[0].value) == "_trajectory":
            return "(ZNadv %s %s)" % (self.z(e.args[0]), self.z(e.args[1]))
        if isinstance(e, ast.Subscript) and isinstance(e.value, ast.Name) and e.value.id == STACK and isinstance(e.slice, ast.UnaryOp) \
                and isinstance(e.slice.op, ast.USub) and isinstance(e.slice.operand, ast.Constant) and e.slice.operand.value == 1:
            return "ZTop"
        raise Untranslatable("integer expression " + ast.dump(e)[:90])

    def b(self, e):
        if isinstance(e, ast.Constant) and e.value is True:
            return "BTrue"
        if isinstance(e, ast.Compare) and len(e.ops) == 1:
            op, l, r = e.ops[0], e.left, e.comparators[0]
            if _self_attr(l) == "_max_n" and isinstance(r, ast.Constant) and r.value is None and isinstance(op, (ast.Is, ast.IsNot)):
                return "BMaxIsNone" if isinstance(op, ast.Is) else "BMaxNotNone"
            for k, nm in ((ast.Eq, "BEq"), (ast.NotEq, "BNe"), (ast.Lt, "BLt"), (ast.Gt, "BGt"), (ast.GtE, "BGe")):
                if isinstance(op, k):
                    return "(%s %s %s)" % (nm, self.z(l), self.z(r))
        raise Untranslatable("condition " + ast.dump(e)[:90])

    def st(self, e):
        if _is_st_const(e):
            return "(SC %s)" % e.attr
        if _self_attr(e) == "_binomial_storage":
            return "SBst"
        raise Untranslatable("storage expression " + ast.dump(e)[:60])

    def bool_c(self, e):
        if isinstance(e, ast.Constant) and isinstance(e.value, bool):
            return "true" if e.value else "false"
        raise Untranslatable("boolean constant")

    def action(self, c):
        if not (isinstance(c, ast.Call) and isinstance(c.func, ast.Name) and not c.keywords):
            raise Untranslatable("yielded value")
        f, a = c.func.id, c.args
        if f == "Forward" and len(a) == 5:
            return "(AForward %s %s %s %s %s)" % (self.z(a[0]), self.z(a[1]), self.bool_c(a[2]), self.bool_c(a[3]), self.st(a[4]))
        if f == "Reverse" and len(a) == 3:
            return "(AReverse %s %s %s)" % (self.z(a[0]), self.z(a[1]), self.bool_c(a[2]))
        if f in ("Copy", "Move") and len(a) == 3:
            return "(A%s %s %s %s)" % (f, self.z(a[0]), self.st(a[1]), self.st(a[2]))
        if f in ("EndForward", "EndReverse") and not a:
            return "A" + f
        raise Untranslatable("action " + f)

    def stmts(self, body):
        body = _strip_doc(body)
        if not body:
            return "SSkip"
        parts = [self.stmt(x) for x in body]
        out = parts[-1]
        for x in reversed(parts[:-1]):
            out = "(SSeq %s %s)" % (x, out)
        return out

    def stmt(self, s):
        if isinstance(s, ast.If):
            return "(SIf %s %s %s)" % (self.b(s.test), self.stmts(s.body), self.stmts(s.orelse))
        if isinstance(s, ast.While) and not s.orelse:
            return "(SWhile %s %s)" % (self.b(s.test), self.stmts(s.body))
        if isinstance(s, ast.Raise) and isinstance(s.exc, ast.Call) and isinstance(s.exc.func, ast.Name) and s.exc.func.id in GEXN and s.cause is None:
            return "(SRaise %s)" % GEXN[s.exc.func.id]
        if isinstance(s, ast.Assert) and s.msg is None:
            return "(SAssert %s)" % self.b(s.test)
        if isinstance(s, ast.Delete) and all(isinstance(t, ast.Name) and t.id in LOC2 for t in s.targets):
            return "(SDel [%s])" % "; ".join(LOC2[t.id] for t in s.targets)
        if isinstance(s, ast.Expr) and isinstance(s.value, ast.Yield) and s.value.value is not None:
            return "(SYield %s)" % self.action(s.value.value)
        if isinstance(s, ast.Expr) and isinstance(s.value, ast.Call) and isinstance(s.value.func, ast.Attribute) and isinstance(s.value.func.value, ast.Name) \
                and s.value.func.value.id == STACK and not s.value.keywords:
            if s.value.func.attr == "pop" and not s.value.args:
                return "SListPop"
            if s.value.func.attr == "append" and len(s.value.args) == 1:
                return "(SListPush %s)" % self.z(s.value.args[0])
        if isinstance(s, ast.AugAssign) and isinstance(s.op, ast.Add) and _self_attr(s.target) in ("_n", "_r"):
            return "(SSet%s (ZAdd %s %s))" % ("N" if _self_attr(s.target) == "_n" else "R", "ZN" if _self_attr(s.target) == "_n" else "ZR", self.z(s.value))
        if isinstance(s, ast.Assign) and len(s.targets) == 1:
            t = s.targets[0]
            if isinstance(t, ast.Name) and t.id in LOC2:
                return "(SSetL %s %s)" % (LOC2[t.id], self.z(s.value))
            if isinstance(t, ast.Name) and t.id == STACK and isinstance(s.value, ast.List) and len(s.value.elts) == 1:
                return "(SListInit %s)" % self.z(s.value.elts[0])
            a = _self_attr(t)
            if a == "_n":
                return "(SSetN %s)" % self.z(s.value)
            if a == "_r":
                return "(SSetR %s)" % self.z(s.value)
        raise Untranslatable("statement " + ast.dump(s)[:100])


def _check_protocol(repo):
    """the protocol around the generator (schedule.py): what next() / iter() / n / r / max_n do, as the model assumes -- compared as text"""
    stree = ast.parse(open(os.path.join(repo, "checkpoint_schedules", "schedule.py")).read())
    base = [c for c in ast.walk(stree) if isinstance(c, ast.ClassDef) and c.name == "CheckpointSchedule"]
    if len(base) != 1:
        raise Untranslatable("class CheckpointSchedule")
    bm = _methods(base[0])
    EXPECT = {
        "__init__": ("self, max_n=None", "if max_n is not None and max_n < 1:\n    raise ValueError('max_n must be positive')\nself._n = 0\nself._r = 0\nself._max_n = max_n"),
        "__init_subclass__": ("cls, **kwargs", "super().__init_subclass__(**kwargs)\ncls_iter = cls._iterator\n@functools.wraps(cls_iter)\ndef _iterator(self):\n    if not hasattr(self, '_iter'):\n        self._iter = cls_iter(self)\n    return self._iter\ncls._iterator = _iterator"),
        "__iter__": ("self", "return self"),
        "__next__": ("self", "return next(self._iterator())"),
        "n": ("self", "return self._n"), "r": ("self", "return self._r"), "max_n": ("self", "return self._max_n"),
    }
    # no further member (a __getstate__, __copy__, __getattr__, a class-level attribute ...) changes what an object is between two requests
    members = [m.name if isinstance(m, ast.FunctionDef) else ast.unparse(m)[:40] for m in _strip_doc(base[0].body)]
    if sorted(members) != sorted(["__init__", "__init_subclass__", "__iter__", "__next__", "_iterator", "is_exhausted", "uses_storage_type", "n", "r", "max_n", "is_running", "finalize"]):
        raise Untranslatable("CheckpointSchedule has members the model does not know: %s" % members)
    for fn in ("basic_schedules.py", "twolevel_binomial.py", "multistage.py", "mixed.py", "hrevolve.py"):
        for c in ast.walk(ast.parse(open(os.path.join(repo, "checkpoint_schedules", fn)).read())):
            if isinstance(c, ast.ClassDef) and any("Schedule" in ast.unparse(b) or ast.unparse(b) == "RevolveCheckpointSchedule" for b in c.bases):
                extra = [m.name if isinstance(m, ast.FunctionDef) else ast.unparse(m)[:40] for m in _strip_doc(c.body)
                         if not (isinstance(m, ast.FunctionDef) and m.name in ("__init__", "_iterator", "is_exhausted", "uses_storage_type"))]
                if extra:
                    raise Untranslatable("%s has members besides __init__, _iterator, is_exhausted, uses_storage_type (a class-level attribute is shared by all its objects): %s" % (c.name, extra))
    for name, (args, body) in EXPECT.items():
        f = bm.get(name)
        if f is None:
            raise Untranslatable("CheckpointSchedule.%s not found" % name)
        got = "\n".join(ast.unparse(x) for x in _strip_doc(f.body))
        if ast.unparse(f.args) != args or got != body:
            raise Untranslatable("CheckpointSchedule.%s is not the protocol the model assumes: (%s) %r" % (name, ast.unparse(f.args), got[:120]))


def gen_twolevel(repo):
    _check_protocol(repo)
    tree = ast.parse(open(os.path.join(repo, "checkpoint_schedules", "twolevel_binomial.py")).read())
    classes = {c.name: c for c in ast.walk(tree) if isinstance(c, ast.ClassDef)}
    c = classes.get("TwoLevelCheckpointSchedule")
    if c is None:
        raise Untranslatable("class TwoLevelCheckpointSchedule")
    ms = _methods(c)
    f = ms.get("_iterator")
    if f is None or [a.arg for a in f.args.args] != ["self"] or f.decorator_list:
        raise Untranslatable("TwoLevelCheckpointSchedule._iterator(self)")
    for m in ("__next__", "__iter__", "finalize", "n", "r", "max_n", "is_running"):
        if m in ms:
            raise Untranslatable("TwoLevelCheckpointSchedule overrides %s" % m)
    fi, asg, sup = _init_assigns(c)
    if sup is None or sup.args or sup.keywords:
        raise Untranslatable("TwoLevelCheckpointSchedule.__init__: super().__init__() with no argument")
    for attr, par in (("_period", "period"), ("_binomial_snapshots", "binomial_snapshots"), ("_binomial_storage", "binomial_storage"), ("_trajectory", "binomial_trajectory")):
        if not (isinstance(asg.get(attr), ast.Name) and asg[attr].id == par):
            raise Untranslatable("TwoLevelCheckpointSchedule.__init__ does not set self.%s = %s" % (attr, par))
    ex = ms.get("is_exhausted")
    exb = _strip_doc(ex.body) if ex is not None else []
    if len(exb) != 1 or not isinstance(exb[0], ast.Return) or ast.unparse(exb[0].value) != "False":
        raise Untranslatable("TwoLevelCheckpointSchedule.is_exhausted is not `return False`")
    # n_advance is the function of multistage.py (the one NAdvanceGen.v ties to the model)
    imp = [n for n in ast.walk(tree) if isinstance(n, ast.ImportFrom) and any(a.name == "n_advance" and a.asname is None for a in n.names)]
    if len(imp) != 1 or imp[0].module != "multistage" or imp[0].level != 1:
        raise Untranslatable("n_advance is not imported from .multistage")
    return "\n".join(["(* GENERATED by harness/translate.py from checkpoint_schedules/twolevel_binomial.py (TwoLevelCheckpointSchedule._iterator) -- do not edit *)",
                      "From Coq Require Import ZArith List Bool.", "From CS Require Import Actions Online GenLang2 GenTwo.", "Import ListNotations.", "Open Scope Z_scope.", "",
                      "Definition two_prog : stmt :=", "  %s." % GenTr2().stmts(f.body),
                      "Lemma two_prog_is_model : two_prog = GenTwo.two_prog_model.", "Proof. reflexivity. Qed.", ""]) + "\n"


GENERATORS["TwoLevelGen"] = gen_twolevel

# ---------------------------------------------------------------------------------------------------------------------------
# MultistageCheckpointSchedule._iterator -> coq/Model/GenLang3.v (the nested helper write(n) is inlined at its call sites)
LOC3 = {"cp_n": "Lcp", "n_snapshots": "Lns", "n0": "Ln0", "n1": "Ln1"}


class _Subst(ast.NodeTransformer):
    def __init__(self, name, repl):
        self.name, self.repl = name, repl

    def visit_Name(self, node):
        return self.repl if node.id == self.name else node


class GenTr3(GenTr2):
    def __init__(self):
        self.helpers = {}

    def is_total(self, e):
        return isinstance(e, ast.BinOp) and isinstance(e.op, ast.Add) and _self_attr(e.left) == "_snapshots_in_ram" and _self_attr(e.right) == "_snapshots_on_disk"

    def is_label(self, e):
        """self._storage[len(snapshots) - 1]"""
        return (isinstance(e, ast.Subscript) and _self_attr(e.value) == "_storage" and isinstance(e.slice, ast.BinOp) and isinstance(e.slice.op, ast.Sub)
                and isinstance(e.slice.right, ast.Constant) and e.slice.right.value == 1 and isinstance(e.slice.left, ast.Call)
                and isinstance(e.slice.left.func, ast.Name) and e.slice.left.func.id == "len" and len(e.slice.left.args) == 1
                and isinstance(e.slice.left.args[0], ast.Name) and e.slice.left.args[0].id == STACK)

    def z(self, e):
        if self.is_total(e):
            return "ZTotal"
        if isinstance(e, ast.Constant) and isinstance(e.value, int) and not isinstance(e.value, bool):
            return "(ZC %s)" % (str(e.value) if e.value >= 0 else "(%d)" % e.value)
        a = _self_attr(e)
        if a in ("_n", "_r", "_max_n"):
            return {"_n": "ZN", "_r": "ZR", "_max_n": "ZMax"}[a]
        if isinstance(e, ast.Name) and e.id in LOC3:
            return "(ZL %s)" % LOC3[e.id]
        if isinstance(e, ast.BinOp) and type(e.op) in (ast.Add, ast.Sub):
            return "(%s %s %s)" % ("ZAdd" if isinstance(e.op, ast.Add) else "ZSub", self.z(e.left), self.z(e.right))
        if isinstance(e, ast.Call) and isinstance(e.func, ast.Name) and e.func.id == "len" and len(e.args) == 1 and isinstance(e.args[0], ast.Name) and e.args[0].id == STACK and not e.keywords:
            return "ZLen"
        if isinstance(e, ast.Call) and isinstance(e.func, ast.Name) and e.func.id == "n_advance" and len(e.args) == 2 and len(e.keywords) == 1 \
                and e.keywords[0].arg == "trajectory" and _self_attr(e.keywords[0].value) == "_trajectory":
            return "(ZNadv %s %s)" % (self.z(e.args[0]), self.z(e.args[1]))
        if isinstance(e, ast.Subscript) and isinstance(e.value, ast.Name) and e.value.id == STACK and isinstance(e.slice, ast.UnaryOp) \
                and isinstance(e.slice.op, ast.USub) and isinstance(e.slice.operand, ast.Constant) and e.slice.operand.value == 1:
            return "ZTop"
        raise Untranslatable("integer expression " + ast.dump(e)[:90])

    def st(self, e):
        if _is_st_const(e):
            return "(SC %s)" % e.attr
        if isinstance(e, ast.Name) and e.id == "cp_storage":
            return "SCp"
        raise Untranslatable("storage expression " + ast.dump(e)[:60])

    def stmts(self, body):
        body = [x for x in _strip_doc(body) if not (isinstance(x, ast.FunctionDef) and x.name in self.helpers)]
        if not body:
            return "SSkip"
        parts = [self.stmt(x) for x in body]
        out = parts[-1]
        for x in reversed(parts[:-1]):
            out = "(SSeq %s %s)" % (x, out)
        return out

    def stmt(self, s):
        if isinstance(s, ast.Assign) and len(s.targets) == 1 and isinstance(s.targets[0], ast.Name):
            t, v = s.targets[0].id, s.value
            if t == STACK and isinstance(v, ast.List) and not v.elts:
                return "SListNew"
            if t == "cp_storage" and self.is_label(v):
                return "SSetCp"
            if t == "cp_storage" and isinstance(v, ast.Call) and isinstance(v.func, ast.Name) and v.func.id in self.helpers and len(v.args) == 1 and not v.keywords:
                f = self.helpers[v.func.id]
                body = _strip_doc(f.body)
                if not body or not isinstance(body[-1], ast.Return) or any(isinstance(n, (ast.Return, ast.Yield)) for x in body[:-1] for n in ast.walk(x)):
                    raise Untranslatable("helper %s: a single final return" % f.name)
                sub = _Subst(f.args.args[0].arg, v.args[0])
                inl = [sub.visit(ast.parse(ast.unparse(x)).body[0]) for x in body[:-1]]
                inl.append(ast.Assign(targets=[ast.Name(id="cp_storage", ctx=ast.Store())], value=sub.visit(ast.parse(ast.unparse(body[-1].value), mode="eval").body)))
                return self.stmts(inl)
            if t in LOC3:
                return "(SSetL %s %s)" % (LOC3[t], self.z(v))
        if isinstance(s, ast.Assign) and len(s.targets) == 1 and _self_attr(s.targets[0]) == "_exhausted":
            return "(SSetX %s)" % self.bool_c(s.value)
        return GenTr2.stmt(self, s)


def gen_multistage(repo):
    _check_protocol(repo)
    tree = ast.parse(open(os.path.join(repo, "checkpoint_schedules", "multistage.py")).read())
    classes = {c.name: c for c in ast.walk(tree) if isinstance(c, ast.ClassDef)}
    c = classes.get("MultistageCheckpointSchedule")
    if c is None:
        raise Untranslatable("class MultistageCheckpointSchedule")
    ms = _methods(c)
    f = ms.get("_iterator")
    if f is None or [a.arg for a in f.args.args] != ["self"] or f.decorator_list:
        raise Untranslatable("MultistageCheckpointSchedule._iterator(self)")
    for m in ("__next__", "__iter__", "finalize", "n", "r", "max_n", "is_running"):
        if m in ms:
            raise Untranslatable("MultistageCheckpointSchedule overrides %s" % m)
    ex = ms.get("is_exhausted")
    exb = _strip_doc(ex.body) if ex is not None else []
    if len(exb) != 1 or not isinstance(exb[0], ast.Return) or ast.unparse(exb[0].value) != "self._exhausted":
        raise Untranslatable("MultistageCheckpointSchedule.is_exhausted is not `return self._exhausted`")
    fi, asg, sup = _init_assigns(c)
    if sup is None or ast.unparse(sup) != "super().__init__(max_n=max_n)":
        raise Untranslatable("MultistageCheckpointSchedule.__init__: super().__init__(max_n=max_n)")
    want = {"_snapshots_in_ram": "snapshots_in_ram", "_snapshots_on_disk": "snapshots_on_disk", "_storage": "storage", "_exhausted": "False", "_trajectory": "trajectory"}
    for attr, val in want.items():
        if attr not in asg or ast.unparse(asg[attr]) != val:
            raise Untranslatable("MultistageCheckpointSchedule.__init__ does not set self.%s = %s" % (attr, val))
    # the two counts are recounted from the tuple of labels just before they are stored
    init_txt = [ast.unparse(x) for x in _strip_doc(fi.body)]
    for need in ("snapshots_in_ram = storage.count(StorageType.RAM)", "snapshots_on_disk = storage.count(StorageType.DISK)"):
        if need not in init_txt:
            raise Untranslatable("MultistageCheckpointSchedule.__init__: `%s`" % need)
    # the constructor, compared as text with what Multistage.construct (Model/Multistage.v) mirrors: clamp, the three ways the label
    # tuple is built, the recount
    MS_INIT = ("self, max_n, snapshots_in_ram, snapshots_on_disk, *, trajectory='maximum'",
               "super().__init__(max_n=max_n)\nsnapshots_in_ram = min(snapshots_in_ram, max_n - 1)\nsnapshots_on_disk = min(snapshots_on_disk, max_n - 1)\n"
               "if snapshots_in_ram == 0:\n    storage = tuple((StorageType.DISK for _ in range(snapshots_on_disk)))\nelif snapshots_on_disk == 0:\n"
               "    storage = tuple((StorageType.RAM for _ in range(snapshots_in_ram)))\nelse:\n"
               "    _, storage = allocate_snapshots(max_n, snapshots_in_ram, snapshots_on_disk, trajectory=trajectory)\n"
               "snapshots_in_ram = storage.count(StorageType.RAM)\nsnapshots_on_disk = storage.count(StorageType.DISK)\nself._snapshots_in_ram = snapshots_in_ram\n"
               "self._snapshots_on_disk = snapshots_on_disk\nself._storage = storage\nself._exhausted = False\nself._trajectory = trajectory")
    got = (ast.unparse(fi.args), "\n".join(ast.unparse(x) for x in _strip_doc(fi.body)))
    if got != MS_INIT:
        raise Untranslatable("MultistageCheckpointSchedule.__init__ is not the constructor the model mirrors")
    tr = GenTr3()
    for x in f.body:
        if isinstance(x, ast.FunctionDef):
            if len(x.args.args) != 1 or x.decorator_list:
                raise Untranslatable("nested helper %s" % x.name)
            tr.helpers[x.name] = x
    return "\n".join(["(* GENERATED by harness/translate.py from checkpoint_schedules/multistage.py (MultistageCheckpointSchedule._iterator) -- do not edit *)",
                      "From Coq Require Import ZArith List Bool.", "From CS Require Import Actions Online GenLang3 GenMulti.", "Import ListNotations.", "Open Scope Z_scope.", "",
                      "Definition multi_prog : stmt :=", "  %s." % tr.stmts(f.body),
                      "Lemma multi_prog_is_model : multi_prog = GenMulti.multi_prog_model.", "Proof. reflexivity. Qed.", ""]) + "\n"


GENERATORS["MultistageGen"] = gen_multistage

# ---------------------------------------------------------------------------------------------------------------------------
# hrevolve.py: _convert_action(action) -> a function of the operation's type name and index (Proofs/ConvKinds.v)
OKINDS = ["Forward", "Backward", "Read", "Write", "Discard", "Write_Forward", "Discard_Forward", "Write_Forward_memory", "Discard_Forward_memory",
          "Read_disk", "Write_disk", "Discard_disk", "Read_memory", "Write_memory", "Discard_memory"]


def gen_convert(repo):
    tree = ast.parse(open(os.path.join(repo, "checkpoint_schedules", "hrevolve.py")).read())
    f = None
    for n in tree.body:
        if isinstance(n, ast.FunctionDef) and n.name == "_convert_action":
            f = n
    if f is None or [a.arg for a in f.args.args] != ["action"] or f.decorator_list:
        raise Untranslatable("_convert_action(action)")
    body = _strip_doc(f.body)
    if len(body) != 3 or not (isinstance(body[0], ast.Assign) and ast.unparse(body[0]) == "cp_action = action.type") or not isinstance(body[1], ast.If) \
            or ast.unparse(body[2]) != "return (cp_action, (n_0, n_1, storage))":
        raise Untranslatable("_convert_action: `cp_action = action.type`, one if/elif chain, `return cp_action, (n_0, n_1, storage)`")

    def test(t):
        if isinstance(t, ast.Compare) and len(t.ops) == 1 and isinstance(t.left, ast.Name) and t.left.id == "cp_action":
            c = t.comparators[0]
            if isinstance(t.ops[0], ast.Eq) and isinstance(c, ast.Constant) and c.value in OKINDS:
                return "okind_eqb cp_action K%s" % c.value
            if isinstance(t.ops[0], ast.In) and isinstance(c, (ast.List, ast.Tuple, ast.Set)) and c.elts and all(isinstance(x, ast.Constant) and x.value in OKINDS for x in c.elts):
                return "(" + " || ".join("okind_eqb cp_action K%s" % x.value for x in c.elts) + ")"
        raise Untranslatable("_convert_action test " + ast.dump(t)[:80])

    def dict_lookup(d, key):
        """{k: StorageType.X, ...}[key] -> res storage"""
        if not (isinstance(d, ast.Dict) and d.keys and all(isinstance(k, ast.Constant) and isinstance(k.value, int) for k in d.keys) and all(_is_st_const(v) for v in d.values)):
            raise Untranslatable("dictionary literal")
        if key.lstrip("-").isdigit():            # a literal key: looked up now
            hit = [v for k, v in zip(d.keys, d.values) if k.value == int(key)]
            return "(Ok %s)" % hit[-1].attr if hit else "(Err KeyError)"
        out = "Err KeyError"
        for k, v in reversed(list(zip(d.keys, d.values))):
            out = "if %s =? %d then Ok %s else %s" % (key, k.value, v.attr, out)
        return "(%s)" % out

    def branch(stmts, env):
        """straight-line code over n_0, n_1 (option Z), storage (an int, then a StorageType or None) -> Coq term of type res (...)"""
        if not stmts:
            for v in ("n_0", "n_1", "storage"):
                if v not in env:
                    raise Untranslatable("_convert_action: %s unbound at the return" % v)
            if env["storage"][0] == "int":
                raise Untranslatable("_convert_action returns an integer storage")
            return "Ok (cp_action, (%s, %s, %s))" % (env["n_0"][1], env["n_1"][1], env["storage"][1])
        s, rest = stmts[0], stmts[1:]
        if isinstance(s, ast.If) and not s.orelse and len(s.body) == 1 and isinstance(s.body[0], ast.Raise) and isinstance(s.test, ast.Compare) and len(s.test.ops) == 1 \
                and type(s.test.ops[0]) in CMP and all(isinstance(x, ast.Name) and x.id in ("n_0", "n_1") for x in (s.test.left, s.test.comparators[0])):
            exc = s.body[0].exc.func.id if isinstance(s.body[0].exc, ast.Call) else getattr(s.body[0].exc, "id", None)
            if exc not in ("RuntimeError",):
                raise Untranslatable("exception %s" % exc)
            val = lambda x: env[x.id][1] if env[x.id][0] == "int" else env[x.id][2]  # noqa
            return "if %s %s %s then Err %s else %s" % (val(s.test.left), CMP[type(s.test.ops[0])], val(s.test.comparators[0]), exc, branch(rest, env))
        if isinstance(s, ast.Assign) and len(s.targets) == 1:
            t, v = s.targets[0], s.value
            is_index = isinstance(v, ast.Attribute) and isinstance(v.value, ast.Name) and v.value.id == "action" and v.attr == "index"
            if isinstance(t, ast.Tuple) and len(t.elts) == 2 and all(isinstance(x, ast.Name) for x in t.elts) and is_index:
                a, b = t.elts[0].id, t.elts[1].id
                e2 = dict(env)
                for nm, var in ((a, "x0"), (b, "x1")):
                    if nm == "n_0":
                        e2["n_0"] = ("int", var)
                    elif nm == "n_1":
                        e2["n_1"] = ("optint", "(Some %s)" % var, var)
                    elif nm == "storage":
                        e2["storage"] = ("int", var)
                    elif nm != "_":
                        raise Untranslatable("unpacking into %s" % nm)
                return "unpack2 index (fun x0 x1 => %s)" % branch(rest, e2)
            if isinstance(t, ast.Name) and t.id == "n_0" and is_index:
                e2 = dict(env); e2["n_0"] = ("int", "x0")
                return "unpack1 index (fun x0 => %s)" % branch(rest, e2)
            if isinstance(t, ast.Name) and t.id in ("n_1", "storage") and isinstance(v, ast.Constant) and v.value is None:
                e2 = dict(env); e2[t.id] = ("optint", "None", None) if t.id == "n_1" else ("st", "None")
                return branch(rest, e2)
            if isinstance(t, ast.Name) and t.id == "storage" and isinstance(v, ast.Constant) and isinstance(v.value, int) and not isinstance(v.value, bool):
                e2 = dict(env); e2["storage"] = ("int", str(v.value))
                return branch(rest, e2)
            if isinstance(t, ast.Name) and t.id == "storage" and isinstance(v, ast.Subscript):
                k = v.slice
                if isinstance(k, ast.Constant) and isinstance(k.value, int):
                    key = str(k.value)
                elif isinstance(k, ast.Name) and k.id == "storage" and env.get("storage", ("",))[0] == "int":
                    key = env["storage"][1]
                else:
                    raise Untranslatable("dictionary key " + ast.dump(k)[:60])
                e2 = dict(env); e2["storage"] = ("st", "(Some sg)")
                return "do sg <- %s; %s" % (dict_lookup(v.value, key), branch(rest, e2))
        raise Untranslatable("_convert_action statement " + ast.dump(s)[:100])

    def chain(node):
        t = "if %s then %s else " % (test(node.test), branch(node.body, {}))
        if len(node.orelse) == 1 and isinstance(node.orelse[0], ast.If):
            return t + chain(node.orelse[0])
        if len(node.orelse) == 1 and isinstance(node.orelse[0], ast.Raise) and getattr(node.orelse[0].exc, "id", None) == "InvalidRevolverAction":
            return t + "Err InvalidRevolverAction"
        raise Untranslatable("_convert_action: the chain does not end in `raise InvalidRevolverAction`")
    return "\n".join(["(* GENERATED by harness/translate.py from checkpoint_schedules/hrevolve.py (_convert_action) -- do not edit *)",
                      "From Coq Require Import ZArith List Bool.", "From CS Require Import Actions Ops RevConv ConvKinds.", "Open Scope Z_scope.", "",
                      "Definition convert_action_gen (cp_action : okind) (index : oindex) : res (okind * (Z * option Z * option storage)) :=",
                      "  %s." % chain(body[1]),
                      "Lemma convert_action_gen_is_model : forall o, convert_action_gen (kind_of o) (index_of o) = convert_spec o.",
                      "Proof. intros o; destruct o; cbv - [Z.leb Z.eqb]; repeat match goal with |- context [if ?x then _ else _] => destruct x end; reflexivity. Qed.", ""]) + "\n"


GENERATORS["ConvertGen"] = gen_convert

# ---------------------------------------------------------------------------------------------------------------------------
# mixed.py: mixed_step_memoization behind cache_step -> a fuelled recursion in the shape of Proofs/MemoGenSpec.v
STEPK = {"FORWARD_REVERSE": "KFR", "WRITE_ADJ_DEPS": "KAdj", "WRITE_ICS": "KIcs", "FORWARD": "KForward", "NONE": "KNone"}
CACHE_STEP = ("fn", "_cache = {}\n@functools.wraps(fn)\ndef wrapped_fn(n, s):\n    s = min(s, n - 1)\n    if (n, s) not in _cache:\n        _cache[n, s] = fn(n, s)\n    return _cache[n, s]\nreturn wrapped_fn")


class MemoTr:
    def __init__(self, fname, self_gen):
        self.fname, self.self_gen = fname, self_gen

    def pure(self, e, env):
        """integer expression without calls"""
        if isinstance(e, ast.Constant) and isinstance(e.value, int) and not isinstance(e.value, bool):
            return str(e.value)
        if isinstance(e, ast.Name) and e.id in env:
            return env[e.id]
        if isinstance(e, ast.BinOp) and type(e.op) in BIN:
            return "(%s %s %s)" % (self.pure(e.left, env), BIN[type(e.op)], self.pure(e.right, env))
        if isinstance(e, ast.Call) and isinstance(e.func, ast.Name) and e.func.id in ("min", "max") and len(e.args) == 2 and not e.keywords:
            return "(Z.%s %s %s)" % (e.func.id, self.pure(e.args[0], env), self.pure(e.args[1], env))
        if isinstance(e, ast.Subscript) and isinstance(e.value, ast.Name) and e.value.id in env and isinstance(e.slice, ast.Constant) and e.slice.value == 2:
            return "cost_of %s" % env[e.value.id]
        raise Untranslatable("expression " + ast.dump(e)[:80])

    def monadic(self, e, env):
        """an integer expression whose leaves may be self(a, b)[2]: the calls are bound left to right, then the value is returned"""
        calls = []

        def go(x):
            if isinstance(x, ast.Subscript) and isinstance(x.value, ast.Call) and isinstance(x.value.func, ast.Name) and x.value.func.id == self.fname \
                    and len(x.value.args) == 2 and not x.value.keywords and isinstance(x.slice, ast.Constant) and x.slice.value == 2:
                v = "xy"[len(calls)] if len(calls) < 2 else "v%d" % len(calls)
                calls.append((v, self.pure(x.value.args[0], env), self.pure(x.value.args[1], env)))
                return "cost_of %s" % v
            if isinstance(x, ast.BinOp) and type(x.op) in BIN:
                l = go(x.left)
                r = go(x.right)
                return "%s %s %s" % (l, BIN[type(x.op)], r) if isinstance(x.op, (ast.Add,)) else "(%s %s %s)" % (l, BIN[type(x.op)], r)
            return self.pure(x, env)
        val = go(e)
        out = "Ok (%s)" % val
        for v, a, b in reversed(calls):
            out = "do %s <- %s f %s %s; %s" % (v, self.self_gen, a, b, out)
        return "(%s)" % out

    def tup(self, e, env):
        if isinstance(e, ast.Tuple) and len(e.elts) == 3 and isinstance(e.elts[0], ast.Attribute) and isinstance(e.elts[0].value, ast.Name) \
                and e.elts[0].value.id == "StepType" and e.elts[0].attr in STEPK:
            return "(%s, %s, %s)" % (STEPK[e.elts[0].attr], self.pure(e.elts[1], env), self.pure(e.elts[2], env))
        raise Untranslatable("tuple " + ast.dump(e)[:80])

    def cond(self, e, env):
        if isinstance(e, ast.Compare) and len(e.ops) == 1 and type(e.ops[0]) in CMP:
            return "%s %s %s" % (self.pure(e.left, env), CMP[type(e.ops[0])], self.pure(e.comparators[0], env))
        if isinstance(e, ast.BoolOp) and isinstance(e.op, ast.Or) and len(e.values) == 2:
            return "(%s) || (%s)" % (self.cond(e.values[0], env), self.cond(e.values[1], env))
        raise Untranslatable("condition " + ast.dump(e)[:80])

    def is_none_test(self, e, var):
        return isinstance(e, ast.Compare) and len(e.ops) == 1 and isinstance(e.ops[0], ast.Is) and isinstance(e.left, ast.Name) and e.left.id == var \
            and isinstance(e.comparators[0], ast.Constant) and e.comparators[0].value is None

    def block(self, stmts, env, best=None):
        """best: name of the optional running-best variable once `m = None` has been seen (then an option), or (name,) once unwrapped"""
        if not stmts:
            raise Untranslatable("control reaches the end of the function")
        s, rest = stmts[0], stmts[1:]
        if isinstance(s, ast.If) and len(s.body) == 1 and isinstance(s.body[0], ast.Raise) and not s.orelse:
            exc = s.body[0].exc.func.id if isinstance(s.body[0].exc, ast.Call) else None
            if exc not in EXN:
                raise Untranslatable("exception %s" % exc)
            if best and isinstance(best, str) and self.is_none_test(s.test, best):
                e2 = dict(env)
                return "match %s with None => Err %s | Some %s =>\n  %s end" % (env[best], exc, env[best], self.block(rest, e2, (best,)))
            return "if %s then Err %s else\n  %s" % (self.cond(s.test, env), exc, self.block(rest, env, best))
        if isinstance(s, ast.If) and len(s.body) == 1 and isinstance(s.body[0], ast.Return):
            els = s.orelse if s.orelse else rest
            if s.orelse and rest:
                raise Untranslatable("statements after an if/else that returns")
            return "if %s then Ok %s else\n  %s" % (self.cond(s.test, env), self.tup(s.body[0].value, env), self.block(els, env, best))
        if isinstance(s, ast.Assign) and len(s.targets) == 1 and isinstance(s.targets[0], ast.Name) and isinstance(s.value, ast.Constant) and s.value.value is None and best is None:
            e2 = dict(env); e2[s.targets[0].id] = s.targets[0].id
            b = s.targets[0].id
            # the loop must follow
            if not rest or not isinstance(rest[0], ast.For):
                raise Untranslatable("`%s = None` is not followed by the loop" % b)
            lp = rest[0]
            it = lp.iter
            if not (isinstance(lp.target, ast.Name) and isinstance(it, ast.Call) and isinstance(it.func, ast.Name) and it.func.id == "range" and len(it.args) == 2 and not lp.orelse):
                raise Untranslatable("loop header")
            iv = lp.target.id
            lo, hi = self.pure(it.args[0], env), self.pure(it.args[1], env)
            lb = _strip_doc(lp.body)
            if len(lb) != 2 or not (isinstance(lb[0], ast.Assign) and isinstance(lb[0].targets[0], ast.Name)) or not isinstance(lb[1], ast.If) or lb[1].orelse \
                    or len(lb[1].body) != 1 or not (isinstance(lb[1].body[0], ast.Assign) and isinstance(lb[1].body[0].targets[0], ast.Name) and lb[1].body[0].targets[0].id == b):
                raise Untranslatable("loop body shape")
            cv = lb[0].targets[0].id
            el = dict(env); el[iv] = iv; el[b] = b
            val = self.monadic(lb[0].value, el)
            el2 = dict(el); el2[cv] = cv
            t = lb[1].test
            if not (isinstance(t, ast.BoolOp) and isinstance(t.op, ast.Or) and len(t.values) == 2 and self.is_none_test(t.values[0], b)):
                raise Untranslatable("loop update test")
            upd = "if none_or %s (fun %s => %s) then Some %s else %s" % (b, b, self.cond(t.values[1], el2), self.tup(lb[1].body[0].value, el2), b)
            loop = "py_for (Z.to_nat (%s - %s)) %s\n            (fun %s %s => do %s <- %s;\n                        Ok (%s)) None" % (hi, lo, lo, iv, b, cv, val, upd)
            return "do %s <- %s;\n  %s" % (b, loop, self.block(rest[1:], e2, b))
        if isinstance(s, ast.Assign) and len(s.targets) == 1 and isinstance(s.targets[0], ast.Name) and isinstance(best, tuple):
            # m1 = <monadic>; if m1 < m[2]: m = T; return m
            cv = s.targets[0].id
            b = best[0]
            if len(rest) != 2 or not isinstance(rest[0], ast.If) or rest[0].orelse or len(rest[0].body) != 1 or not isinstance(rest[1], ast.Return) \
                    or not (isinstance(rest[1].value, ast.Name) and rest[1].value.id == b):
                raise Untranslatable("tail shape")
            e2 = dict(env); e2[cv] = cv
            a = rest[0].body[0]
            if not (isinstance(a, ast.Assign) and isinstance(a.targets[0], ast.Name) and a.targets[0].id == b):
                raise Untranslatable("tail update")
            return "do %s <- %s;\n  Ok (if %s then %s else %s)" % (cv, self.monadic(s.value, env), self.cond(rest[0].test, e2), self.tup(a.value, e2), env[b])
        raise Untranslatable("statement " + ast.dump(s)[:100])


def gen_memo(repo):
    tree = ast.parse(open(os.path.join(repo, "checkpoint_schedules", "mixed.py")).read())
    fns = {n.name: n for n in tree.body if isinstance(n, ast.FunctionDef)}
    cs = fns.get("cache_step")
    if cs is None or (ast.unparse(cs.args), "\n".join(ast.unparse(x) for x in _strip_doc(cs.body))) != CACHE_STEP:
        raise Untranslatable("cache_step is not the clamping memoiser the model assumes")
    f = fns.get("mixed_step_memoization")
    if f is None or [a.arg for a in f.args.args] != ["n", "s"] or [ast.unparse(d) for d in f.decorator_list] != ["cache_step"]:
        raise Untranslatable("@cache_step def mixed_step_memoization(n, s)")
    # the iterator calls it by this name, and no other definition shadows it
    if sum(1 for n in ast.walk(tree) if isinstance(n, (ast.FunctionDef, ast.Assign)) and ("mixed_step_memoization" in ([n.name] if isinstance(n, ast.FunctionDef) else [ast.unparse(t) for t in n.targets]))) != 1:
        raise Untranslatable("mixed_step_memoization is rebound")
    body = MemoTr("mixed_step_memoization", "memo_gen").block(_strip_doc(f.body), {"n": "n", "s": "s"})
    return "\n".join(["(* GENERATED by harness/translate.py from checkpoint_schedules/mixed.py (mixed_step_memoization behind cache_step) -- do not edit *)",
                      "From Coq Require Import ZArith List Bool.", "From CS Require Import Actions Mixed MemoGenSpec.", "Open Scope Z_scope.", "",
                      "Fixpoint memo_gen (fuel : nat) (n s : Z) : res plan_t :=", "  match fuel with O => Err OutOfFuel | S f =>",
                      "  let s := Z.min s (n - 1) in", "  " + body, "  end.",
                      "Lemma memo_gen_is_shape : memo_gen = memo_shape.", "Proof. reflexivity. Qed.",
                      "Lemma memo_gen_is_model : forall fuel n s, memo_gen fuel n s = memo fuel n s.", "Proof. rewrite memo_gen_is_shape. exact memo_shape_is_model. Qed.", ""]) + "\n"


GENERATORS["MemoGen"] = gen_memo


# ---------------------------------------------------------------------------------------------------------------------------
# the published helpers behind cache_step: optimal_extra_steps / optimal_steps_binomial (multistage.py) and optimal_steps_mixed
# (mixed.py) -> fuelled recursions in the shapes of Proofs/HelperGenSpec.v and Proofs/MixHelperSpec.v
class HelperTr(MemoTr):
    """integer-valued recursive helper f(n, s): raises, returns of pure values, a running optional best (`m = None` / for / `if m is None
    or v < m: m = v` / `if m is None: raise`), or a running minimum (`m = <calls>` / for / `m = min(m, <calls>)`), `return m`"""

    def __init__(self, fname, self_gen, py_for, none_or):
        MemoTr.__init__(self, fname, self_gen)
        self.py_for, self.none_or = py_for, none_or

    def monadic(self, e, env):
        calls = []

        def go(x):
            if isinstance(x, ast.Call) and isinstance(x.func, ast.Name) and x.func.id == self.fname and len(x.args) == 2 and not x.keywords:
                v = "xy"[len(calls)] if len(calls) < 2 else "v%d" % len(calls)
                calls.append((v, self.pure(x.args[0], env), self.pure(x.args[1], env)))
                return v
            if isinstance(x, ast.BinOp) and type(x.op) in BIN:
                l = go(x.left)
                r = go(x.right)
                return "(%s %s %s)" % (l, BIN[type(x.op)], r)
            return self.pure(x, env)
        val = go(e)
        out = "Ok (%s)" % val
        for v, a, b in reversed(calls):
            out = "do %s <- %s f %s %s; %s" % (v, self.self_gen, a, b, out)
        return "(%s)" % out

    def loop_header(self, lp, env):
        it = lp.iter
        if not (isinstance(lp.target, ast.Name) and isinstance(it, ast.Call) and isinstance(it.func, ast.Name) and it.func.id == "range" and len(it.args) == 2
                and not it.keywords and not lp.orelse):
            raise Untranslatable("loop header")
        if lp.target.id in env:
            raise Untranslatable("the loop variable shadows " + lp.target.id)
        return lp.target.id, self.pure(it.args[0], env), self.pure(it.args[1], env)

    def block(self, stmts, env, best=None):
        """best: None | ('opt', m) an optional running best | ('val', m) an integer"""
        if not stmts:
            raise Untranslatable("control reaches the end of the function")
        s, rest = stmts[0], stmts[1:]
        if isinstance(s, ast.If) and len(s.body) == 1 and isinstance(s.body[0], ast.Raise) and not s.orelse:
            exc = s.body[0].exc.func.id if isinstance(s.body[0].exc, ast.Call) and isinstance(s.body[0].exc.func, ast.Name) else None
            if exc not in EXN:
                raise Untranslatable("exception %s" % exc)
            if best and best[0] == "opt" and self.is_none_test(s.test, best[1]):
                return "match %s with None => Err %s | Some %s =>\n  %s end" % (best[1], exc, best[1], self.block(rest, env, ("val", best[1])))
            if best:
                raise Untranslatable("a raise after the loop that is not `if m is None`")
            return "if %s then Err %s else\n  %s" % (self.cond(s.test, env), exc, self.block(rest, env, best))
        if isinstance(s, ast.If) and len(s.body) == 1 and isinstance(s.body[0], ast.Return) and best is None:
            if s.orelse and rest:
                raise Untranslatable("statements after an if/else that returns")
            return "if %s then Ok (%s) else\n  %s" % (self.cond(s.test, env), self.pure(s.body[0].value, env), self.block(s.orelse if s.orelse else rest, env, best))
        if isinstance(s, ast.Assign) and len(s.targets) == 1 and isinstance(s.targets[0], ast.Name) and best is None and s.targets[0].id not in env:
            b = s.targets[0].id
            if not rest or not isinstance(rest[0], ast.For):
                raise Untranslatable("`%s = ...` is not followed by the loop" % b)
            iv, lo, hi = self.loop_header(rest[0], env)
            lb = _strip_doc(rest[0].body)
            el = dict(env); el[iv] = iv
            if isinstance(s.value, ast.Constant) and s.value.value is None:
                # m = None; for i in range(lo, hi): v = <calls>; if m is None or v < m: m = v
                if len(lb) != 2 or not (isinstance(lb[0], ast.Assign) and len(lb[0].targets) == 1 and isinstance(lb[0].targets[0], ast.Name)) \
                        or not isinstance(lb[1], ast.If) or lb[1].orelse or len(lb[1].body) != 1:
                    raise Untranslatable("loop body shape")
                cv = lb[0].targets[0].id
                if cv in el or cv == b:
                    raise Untranslatable("the candidate shadows a variable")
                a = lb[1].body[0]
                if not (isinstance(a, ast.Assign) and len(a.targets) == 1 and isinstance(a.targets[0], ast.Name) and a.targets[0].id == b
                        and isinstance(a.value, ast.Name) and a.value.id == cv):
                    raise Untranslatable("loop update")
                t = lb[1].test
                if not (isinstance(t, ast.BoolOp) and isinstance(t.op, ast.Or) and len(t.values) == 2 and self.is_none_test(t.values[0], b)):
                    raise Untranslatable("loop update test")
                val = self.monadic(lb[0].value, el)
                el2 = dict(el); el2[cv] = cv; el2[b] = b
                upd = "if %s %s (fun %s => %s) then Some %s else %s" % (self.none_or, b, b, self.cond(t.values[1], el2), cv, b)
                loop = "%s (Z.to_nat (%s - %s)) %s\n            (fun %s %s => do %s <- %s;\n                        Ok (%s)) None" % (self.py_for, hi, lo, lo, iv, b, cv, val, upd)
                return "do %s <- %s;\n  %s" % (b, loop, self.block(rest[1:], env, ("opt", b)))
            # m = <calls>; for i in range(lo, hi): m = min(m, <calls>)
            if len(lb) != 1 or not (isinstance(lb[0], ast.Assign) and len(lb[0].targets) == 1 and isinstance(lb[0].targets[0], ast.Name) and lb[0].targets[0].id == b):
                raise Untranslatable("loop body shape")
            c = lb[0].value
            if not (isinstance(c, ast.Call) and isinstance(c.func, ast.Name) and c.func.id == "min" and len(c.args) == 2 and not c.keywords
                    and isinstance(c.args[0], ast.Name) and c.args[0].id == b):
                raise Untranslatable("loop update is not m = min(m, ...)")
            init = self.monadic(s.value, env)
            val = self.monadic(c.args[1], el)
            loop = "%s (Z.to_nat (%s - %s)) %s\n            (fun %s %s => do v_ <- %s; Ok (Z.min %s v_)) %s" % (self.py_for, hi, lo, lo, iv, b, val, b, b)
            return "do %s <- %s;\n  do %s <- %s;\n  %s" % (b, init, b, loop, self.block(rest[1:], env, ("val", b)))
        if isinstance(s, ast.Return) and best and best[0] == "val" and isinstance(s.value, ast.Name) and s.value.id == best[1] and not rest:
            return "Ok %s" % best[1]
        raise Untranslatable("statement " + ast.dump(s)[:100])


def _helper_fn(repo, path, name):
    tree = ast.parse(open(os.path.join(repo, "checkpoint_schedules", path)).read())
    fns = {n.name: n for n in tree.body if isinstance(n, ast.FunctionDef)}
    f = fns.get(name)
    if f is None or [a.arg for a in f.args.args] != ["n", "s"] or f.args.vararg or f.args.kwarg or f.args.kwonlyargs or f.args.defaults:
        raise Untranslatable("def %s(n, s)" % name)
    if sum(1 for n in ast.walk(tree) if (isinstance(n, (ast.FunctionDef, ast.ClassDef)) and n.name == name)
           or (isinstance(n, (ast.Assign, ast.AugAssign, ast.AnnAssign)) and name in [ast.unparse(t) for t in (n.targets if isinstance(n, ast.Assign) else [n.target])])
           or (isinstance(n, (ast.Import, ast.ImportFrom)) and any((a.asname or a.name) == name for a in n.names))) != 1:
        raise Untranslatable("%s is rebound" % name)
    return tree, fns, f


def _check_cache_step(repo):
    tree = ast.parse(open(os.path.join(repo, "checkpoint_schedules", "mixed.py")).read())
    cs = {n.name: n for n in tree.body if isinstance(n, ast.FunctionDef)}.get("cache_step")
    if cs is None or (ast.unparse(cs.args), "\n".join(ast.unparse(x) for x in _strip_doc(cs.body))) != CACHE_STEP or cs.decorator_list:
        raise Untranslatable("cache_step is not the clamping memoiser the model assumes")


def gen_helper(repo):
    _check_cache_step(repo)
    tree, fns, f = _helper_fn(repo, "multistage.py", "optimal_extra_steps")
    # multistage.py takes cache_step from mixed.py, once
    imps = [n for n in tree.body if isinstance(n, ast.ImportFrom) and any((a.asname or a.name) == "cache_step" for a in n.names)]
    if len(imps) != 1 or imps[0].module != "mixed" or imps[0].level != 1 or any(a.name == "cache_step" and a.asname for a in imps[0].names) or "cache_step" in fns:
        raise Untranslatable("multistage.py: cache_step is not `from .mixed import cache_step`")
    if [ast.unparse(d) for d in f.decorator_list] != ["cache_step"]:
        raise Untranslatable("@cache_step def optimal_extra_steps(n, s)")
    body = HelperTr("optimal_extra_steps", "oes_gen", "py_forB", "none_orB").block(_strip_doc(f.body), {"n": "n", "s": "s"})
    _, _, g = _helper_fn(repo, "multistage.py", "optimal_steps_binomial")
    gb = _strip_doc(g.body)
    if g.decorator_list or len(gb) != 1 or not isinstance(gb[0], ast.Return):
        raise Untranslatable("optimal_steps_binomial: a single return")
    osb = HelperTr("optimal_extra_steps", "oes_gen", "py_forB", "none_orB").monadic(gb[0].value, {"n": "n", "s": "s"}).replace("oes_gen f ", "oes_gen fuel ")
    return "\n".join(["(* GENERATED by harness/translate.py from checkpoint_schedules/multistage.py (optimal_extra_steps behind cache_step, optimal_steps_binomial) -- do not edit *)",
                      "From Coq Require Import ZArith List Bool.", "From CS Require Import BinomDP HelperGenSpec.", "Open Scope Z_scope.", "",
                      "Fixpoint oes_gen (fuel : nat) (n s : Z) : res Z :=", "  match fuel with O => Err OutOfFuel | S f =>",
                      "  let s := Z.min s (n - 1) in", "  " + body, "  end.",
                      "Definition osb_gen (fuel : nat) (n s : Z) : res Z := %s." % osb,
                      "Lemma oes_gen_is_shape : oes_gen = oes_shape.", "Proof. reflexivity. Qed.",
                      "Lemma osb_gen_is_shape : osb_gen = osb_shape.", "Proof. reflexivity. Qed.",
                      "Lemma oes_gen_is_model : forall fuel n s, oes_gen fuel n s = Em fuel n s.", "Proof. rewrite oes_gen_is_shape. exact oes_shape_is_Em. Qed.", ""]) + "\n"


GENERATORS["HelperGen"] = gen_helper


def gen_mixhelper(repo):
    _check_cache_step(repo)
    tree, fns, f = _helper_fn(repo, "mixed.py", "optimal_steps_mixed")
    if [ast.unparse(d) for d in f.decorator_list] != ["cache_step"]:
        raise Untranslatable("@cache_step def optimal_steps_mixed(n, s)")
    body = HelperTr("optimal_steps_mixed", "osm_gen", "py_for", "none_or").block(_strip_doc(f.body), {"n": "n", "s": "s"})
    return "\n".join(["(* GENERATED by harness/translate.py from checkpoint_schedules/mixed.py (optimal_steps_mixed behind cache_step) -- do not edit *)",
                      "From Coq Require Import ZArith List Bool.", "From CS Require Import Actions Mixed MemoGenSpec MixHelperSpec.", "Open Scope Z_scope.", "",
                      "Fixpoint osm_gen (fuel : nat) (n s : Z) : res Z :=", "  match fuel with O => Err OutOfFuel | S f =>",
                      "  let s := Z.min s (n - 1) in", "  " + body, "  end.",
                      "Lemma osm_gen_is_shape : osm_gen = osm_shape.", "Proof. reflexivity. Qed.", ""]) + "\n"


GENERATORS["MixHelperGen"] = gen_mixhelper


# ---------------------------------------------------------------------------------------------------------------------------
# periodic_disk_revolve.py: mxrr_close_formula (with beta of basic_functions.py) -> the shape of Proofs/MxrrGenSpec.v.
# The float test `A <= B / C` is read as the exact `A * C <= B` (le_div; C = uf > 0); beta's factorial quotient as BinomDef.beta.
BETA_BODY = "if y < 0:\n    return 0\nreturn math.factorial(x + y) / (math.factorial(x) * math.factorial(y))"


def gen_mxrr(repo):
    bt = ast.parse(open(os.path.join(repo, "checkpoint_schedules", "hrevolve_sequences", "basic_functions.py")).read())
    bf = [n for n in bt.body if isinstance(n, ast.FunctionDef) and n.name == "beta"]
    if len(bf) != 1 or ast.unparse(bf[0].args) != "x, y" or bf[0].decorator_list or "\n".join(ast.unparse(x) for x in _strip_doc(bf[0].body)) != BETA_BODY:
        raise Untranslatable("beta(x, y) is not `0 for y < 0, else (x+y)! / (x! y!)`")
    if not any(isinstance(n, ast.Import) and any(a.name == "math" and not a.asname for a in n.names) for n in bt.body):
        raise Untranslatable("basic_functions.py: import math")
    pt = ast.parse(open(os.path.join(repo, "checkpoint_schedules", "hrevolve_sequences", "periodic_disk_revolve.py")).read())
    # beta reaches periodic_disk_revolve.py from basic_functions, unshadowed
    imp = [n for n in pt.body if isinstance(n, ast.ImportFrom) and any((a.asname or a.name) == "beta" for a in n.names)]
    if len(imp) != 1 or imp[0].module != "basic_functions" or imp[0].level != 1 or any(a.name == "beta" and a.asname for a in imp[0].names):
        raise Untranslatable("periodic_disk_revolve.py: beta is not `from .basic_functions import ... beta`")
    for n in ast.walk(pt):
        if (isinstance(n, (ast.FunctionDef, ast.ClassDef)) and n.name in ("beta", "int")) or \
                (isinstance(n, ast.Assign) and any(ast.unparse(t) in ("beta", "int") for t in n.targets)) or \
                (isinstance(n, ast.arg) and n.arg in ("beta", "int")):
            raise Untranslatable("beta / int is rebound in periodic_disk_revolve.py")
    fs = [n for n in pt.body if isinstance(n, ast.FunctionDef) and n.name == "mxrr_close_formula"]
    if len(fs) != 1 or ast.unparse(fs[0].args) != "cm, uf, rd, wd" or fs[0].decorator_list:
        raise Untranslatable("def mxrr_close_formula(cm, uf, rd, wd)")
    body = _strip_doc(fs[0].body)
    env = {"cm", "uf", "rd", "wd"}

    def ex(e, names):
        if isinstance(e, ast.Constant) and type(e.value) is int:
            return str(e.value)
        if isinstance(e, ast.Name) and e.id in names:
            return e.id
        if isinstance(e, ast.BinOp) and isinstance(e.op, (ast.Add, ast.Sub, ast.Mult)):
            return "(%s %s %s)" % (ex(e.left, names), BIN[type(e.op)], ex(e.right, names))
        if isinstance(e, ast.Call) and isinstance(e.func, ast.Name) and e.func.id == "beta" and len(e.args) == 2 and not e.keywords:
            return "(betaZ %s %s)" % (ex(e.args[0], names), ex(e.args[1], names))
        raise Untranslatable("expression " + ast.dump(e)[:80])
    if len(body) != 3:
        raise Untranslatable("mxrr_close_formula: three statements")
    a, w, r = body
    if not (isinstance(a, ast.Assign) and len(a.targets) == 1 and isinstance(a.targets[0], ast.Name) and a.targets[0].id not in env):
        raise Untranslatable("mxrr_close_formula: initialisation of the counter")
    t = a.targets[0].id
    names = env | {t}
    if not (isinstance(w, ast.While) and not w.orelse and isinstance(w.test, ast.Compare) and len(w.test.ops) == 1 and isinstance(w.test.ops[0], ast.LtE)
            and isinstance(w.test.comparators[0], ast.BinOp) and isinstance(w.test.comparators[0].op, ast.Div)):
        raise Untranslatable("mxrr_close_formula: while A <= B / C")
    if not (len(w.body) == 1 and isinstance(w.body[0], ast.AugAssign) and isinstance(w.body[0].op, ast.Add) and isinstance(w.body[0].target, ast.Name)
            and w.body[0].target.id == t):
        raise Untranslatable("mxrr_close_formula: loop body")
    q = w.test.comparators[0]
    if not (isinstance(q.right, ast.Name) and q.right.id == "uf"):
        raise Untranslatable("mxrr_close_formula: the divisor is not uf (the fuel and the exact reading assume it)")
    cond = "le_div %s %s %s" % (ex(w.test.left, names), ex(q.left, names), ex(q.right, names))
    if not (isinstance(r, ast.Return) and isinstance(r.value, ast.Call) and isinstance(r.value.func, ast.Name) and r.value.func.id == "int"
            and len(r.value.args) == 1 and not r.value.keywords):
        raise Untranslatable("mxrr_close_formula: return int(..)")
    return "\n".join(["(* GENERATED by harness/translate.py from hrevolve_sequences/periodic_disk_revolve.py (mxrr_close_formula) and basic_functions.py (beta) -- do not edit *)",
                      "From Coq Require Import ZArith List Bool.", "From CS Require Import Actions BinomDef RevSeq MxrrGenSpec.", "Open Scope Z_scope.", "",
                      "Definition mxrr_gen (cm uf rd wd : Z) : Z :=",
                      "  let %s := %s in" % (t, ex(a.value, env)),
                      "  let %s := while_t (Z.to_nat (%s / uf + 2)) (fun %s => %s) (fun %s => %s + %s) %s in" % (t, ex(q.left, env), t, cond, t, t, ex(w.body[0].value, names), t),
                      "  %s." % ex(r.value.args[0], names),
                      "Lemma mxrr_gen_is_shape : mxrr_gen = mxrr_shape.", "Proof. reflexivity. Qed.",
                      "Lemma mxrr_gen_is_model : forall cm uf rd wd, 0 <= cm -> mxrr_gen cm uf rd wd = mxrr cm uf rd wd.",
                      "Proof. rewrite mxrr_gen_is_shape. exact mxrr_shape_is_model. Qed.", ""]) + "\n"


GENERATORS["MxrrGen"] = gen_mxrr


# ---------------------------------------------------------------------------------------------------------------------------
# multistage.py: allocate_snapshots -- the preamble (three clamps) and the final allocation -> the shapes of Proofs/AllocGenSpec.v.
# The dry run between them (functools.singledispatch handlers over nonlocal state) is compared textually here and pinned (AllocPins).
ALLOC_ARGS = "max_n, snapshots_in_ram, snapshots_on_disk, *, write_weight=1.0, read_weight=1.0, delete_weight=0.0, trajectory='maximum'"
ALLOC_MID = ["weights = [0.0 for _ in range(snapshots)]",
             "cp_schedule = MultistageCheckpointSchedule(max_n, snapshots, 0, trajectory=trajectory)",
             "snapshot_i = -1"]
ALLOC_LOOP = "while True:\n    cp_action = next(cp_schedule)\n    action(cp_action)\n    if isinstance(cp_action, EndReverse):\n        break"


def gen_alloc(repo):
    tree = ast.parse(open(os.path.join(repo, "checkpoint_schedules", "multistage.py")).read())
    fs = [n for n in tree.body if isinstance(n, ast.FunctionDef) and n.name == "allocate_snapshots"]
    if len(fs) != 1 or ast.unparse(fs[0].args) != ALLOC_ARGS or fs[0].decorator_list:
        raise Untranslatable("def allocate_snapshots(%s)" % ALLOC_ARGS)
    if not any(isinstance(n, ast.ImportFrom) and n.module == "operator" and n.level == 0 and any(a.name == "itemgetter" and not a.asname for a in n.names) for n in tree.body):
        raise Untranslatable("multistage.py: from operator import itemgetter")
    body = _strip_doc(fs[0].body)
    env = ["max_n", "snapshots_in_ram", "snapshots_on_disk"]

    def ex(e, names):
        if isinstance(e, ast.Constant) and type(e.value) is int:
            return str(e.value)
        if isinstance(e, ast.Name) and e.id in names:
            return e.id
        if isinstance(e, ast.BinOp) and isinstance(e.op, (ast.Add, ast.Sub, ast.Mult)):
            return "(%s %s %s)" % (ex(e.left, names), BIN[type(e.op)], ex(e.right, names))
        if isinstance(e, ast.Call) and isinstance(e.func, ast.Name) and e.func.id in ("min", "max") and len(e.args) == 2 and not e.keywords:
            return "(Z.%s %s %s)" % (e.func.id, ex(e.args[0], names), ex(e.args[1], names))
        raise Untranslatable("expression " + ast.dump(e)[:80])
    # preamble: integer assignments up to `weights = ...`
    k = 0
    pre = []
    names = list(env)
    while k < len(body) and isinstance(body[k], ast.Assign) and len(body[k].targets) == 1 and isinstance(body[k].targets[0], ast.Name) and body[k].targets[0].id != "weights":
        x = body[k].targets[0].id
        pre.append("  let %s := %s in" % (x, ex(body[k].value, names)))
        if x not in names:
            names.append(x)
        k += 1
    if names != env + ["snapshots"]:
        raise Untranslatable("allocate_snapshots: the preamble defines %s" % names)
    if [ast.unparse(x) for x in body[k:k + 3]] != ALLOC_MID:
        raise Untranslatable("allocate_snapshots: weights / dry-run schedule / snapshot_i are not the statements the model was written for")
    k += 3
    while k < len(body) and isinstance(body[k], ast.FunctionDef):
        k += 1
    rest = body[k:]
    if len(rest) != 5 or ast.unparse(rest[0]) != ALLOC_LOOP or ast.unparse(rest[1]) != "assert snapshot_i == -1":
        raise Untranslatable("allocate_snapshots: the driver loop of the dry run")
    a, f, r = rest[2:]

    def sto(e):
        if isinstance(e, ast.Attribute) and isinstance(e.value, ast.Name) and e.value.id == "StorageType" and e.attr in ("RAM", "DISK"):
            return e.attr
        raise Untranslatable("storage " + ast.dump(e)[:60])
    if not (isinstance(a, ast.Assign) and len(a.targets) == 1 and isinstance(a.targets[0], ast.Name) and a.targets[0].id == "allocation"
            and isinstance(a.value, ast.ListComp) and len(a.value.generators) == 1 and ast.unparse(a.value.generators[0].target) == "_"
            and not a.value.generators[0].ifs and isinstance(a.value.generators[0].iter, ast.Call) and ast.unparse(a.value.generators[0].iter.func) == "range"
            and len(a.value.generators[0].iter.args) == 1):
        raise Untranslatable("allocate_snapshots: allocation = [S for _ in range(k)]")
    init = "repeat %s (Z.to_nat %s)" % (sto(a.value.elt), ex(a.value.generators[0].iter.args[0], names))
    if not (isinstance(f, ast.For) and not f.orelse and ast.unparse(f.target) == "(i, _)" and isinstance(f.iter, ast.Subscript) and isinstance(f.iter.slice, ast.Slice)
            and f.iter.slice.lower is None and f.iter.slice.step is None and f.iter.slice.upper is not None
            and ast.unparse(f.iter.value) == "sorted(enumerate(weights), key=itemgetter(1), reverse=True)"):
        raise Untranslatable("allocate_snapshots: for i, _ in sorted(enumerate(weights), key=itemgetter(1), reverse=True)[:k]")
    if not (len(f.body) == 1 and isinstance(f.body[0], ast.Assign) and len(f.body[0].targets) == 1 and ast.unparse(f.body[0].targets[0]) == "allocation[i]"):
        raise Untranslatable("allocate_snapshots: allocation[i] = S")
    if ast.unparse(r) != "return (tuple(weights), tuple(allocation))":
        raise Untranslatable("allocate_snapshots: return tuple(weights), tuple(allocation)")
    loop = "fold_left (fun allocation p => set_nth allocation (fst p) %s) (py_slice_to (sorted_desc_snd (enumerate weights)) %s) allocation" % (
        sto(f.body[0].value), ex(f.iter.slice.upper, names))
    return "\n".join(["(* GENERATED by harness/translate.py from checkpoint_schedules/multistage.py (allocate_snapshots: preamble and final allocation) -- do not edit *)",
                      "From Coq Require Import ZArith List Bool.", "From CS Require Import Actions NAdvance Multistage AllocGenSpec.", "Open Scope Z_scope.", "",
                      "Definition alloc_pre_gen (max_n snapshots_in_ram snapshots_on_disk : Z) : Z * Z * Z :="] + pre +
                     ["  (snapshots_in_ram, snapshots_on_disk, snapshots).",
                      "Definition alloc_tail_gen (weights : list Z) (snapshots snapshots_in_ram : Z) : list storage :=",
                      "  let allocation := %s in" % init, "  %s." % loop,
                      "Definition handle_gen (snapshots : Z) (cp_action : action) (snapshot_i : Z) (weights : list Z) : res (Z * list Z) :=",
                      "  let read_weight := 1 in let write_weight := 1 in let delete_weight := 0 in",
                      "  match cp_action with", _alloc_handlers(fs[0]), "  end.",
                      "Lemma handle_gen_is_shape : handle_gen = handle_shape.", "Proof. reflexivity. Qed.",
                      "Lemma alloc_pre_gen_is_shape : alloc_pre_gen = alloc_pre_shape.", "Proof. reflexivity. Qed.",
                      "Lemma alloc_tail_gen_is_shape : alloc_tail_gen = alloc_tail_shape.", "Proof. reflexivity. Qed.", ""]) + "\n"




# ---- the dry-run handlers of allocate_snapshots (functools.singledispatch over the action type, nonlocal snapshot_i, the list weights) ->
# one step function on (snapshot_i, weights) per action, the shape of Proofs/AllocGenSpec.v handle_shape
ACT_FIELDS = {"Forward": ["n0", "n1", "write_ics", "write_adj_deps", "storage"], "Reverse": ["n1", "n0", "clear_adj_deps"],
              "Copy": ["n", "from_storage", "to_storage"], "Move": ["n", "from_storage", "to_storage"], "EndForward": [], "EndReverse": []}
ACT_BOOL = {"write_ics", "write_adj_deps", "clear_adj_deps"}
ACT_STO = {"storage", "from_storage", "to_storage"}


class HandlerTr:
    WEIGHTS = ("read_weight", "write_weight", "delete_weight")

    def __init__(self, cls):
        self.cls = cls

    def iex(self, e):
        if isinstance(e, ast.Constant) and type(e.value) is int:
            return str(e.value)
        if isinstance(e, ast.Name) and e.id in ("snapshot_i", "snapshots") + self.WEIGHTS:
            return e.id
        if isinstance(e, ast.UnaryOp) and isinstance(e.op, ast.USub) and isinstance(e.operand, ast.Constant) and type(e.operand.value) is int:
            return "(-%d)" % e.operand.value
        raise Untranslatable("handler expression " + ast.dump(e)[:80])

    def field(self, e, kinds):
        if isinstance(e, ast.Attribute) and isinstance(e.value, ast.Name) and e.value.id == "cp_action" and e.attr in ACT_FIELDS[self.cls] and e.attr in kinds:
            return e.attr
        raise Untranslatable("handler: attribute " + ast.dump(e)[:80])

    def cond(self, e):
        if isinstance(e, ast.BoolOp) and isinstance(e.op, ast.Or):
            return " || ".join("(%s)" % self.cond(v) for v in e.values)
        if isinstance(e, ast.Compare) and len(e.ops) == 1 and type(e.ops[0]) in CMP and not isinstance(e.left, ast.Attribute):
            return "%s %s %s" % (self.iex(e.left), CMP[type(e.ops[0])], self.iex(e.comparators[0]))
        if isinstance(e, ast.Compare) and len(e.ops) == 1 and isinstance(e.ops[0], ast.Eq) and isinstance(e.comparators[0], ast.Attribute) \
                and isinstance(e.comparators[0].value, ast.Name) and e.comparators[0].value.id == "StorageType" and e.comparators[0].attr in ("RAM", "DISK", "WORK", "NONE"):
            return "st_eqb %s %s" % (self.field(e.left, ACT_STO), e.comparators[0].attr)
        if isinstance(e, ast.Attribute):
            return self.field(e, ACT_BOOL)
        raise Untranslatable("handler condition " + ast.dump(e)[:80])

    def block(self, stmts):
        if not stmts:
            return "Ok (snapshot_i, weights)"
        s, rest = stmts[0], stmts[1:]
        if isinstance(s, ast.Nonlocal) and s.names == ["snapshot_i"]:
            return self.block(rest)
        if isinstance(s, ast.Pass):
            return self.block(rest)
        if isinstance(s, ast.If) and not s.orelse and len(s.body) == 1 and isinstance(s.body[0], ast.Raise):
            exc = s.body[0].exc.func.id if isinstance(s.body[0].exc, ast.Call) and isinstance(s.body[0].exc.func, ast.Name) else None
            if exc not in EXN:
                raise Untranslatable("handler: exception %s" % exc)
            return "if %s then Err %s else\n    %s" % (self.cond(s.test), exc, self.block(rest))
        if isinstance(s, ast.If) and not s.orelse:
            return "if %s then (%s) else\n    (%s)" % (self.cond(s.test), self.block(list(s.body) + rest), self.block(rest))
        if isinstance(s, ast.AugAssign) and isinstance(s.op, (ast.Add, ast.Sub)) and isinstance(s.target, ast.Name) and s.target.id == "snapshot_i":
            return "let snapshot_i := snapshot_i %s %s in\n    %s" % ("+" if isinstance(s.op, ast.Add) else "-", self.iex(s.value), self.block(rest))
        if isinstance(s, ast.AugAssign) and isinstance(s.op, ast.Add) and ast.unparse(s.target) == "weights[snapshot_i]" and isinstance(s.value, ast.Name) and s.value.id in self.WEIGHTS:
            return "let weights := addat weights snapshot_i %s in\n    %s" % (s.value.id, self.block(rest))
        raise Untranslatable("handler statement " + ast.dump(s)[:100])


def _alloc_handlers(f):
    """the nested handlers of allocate_snapshots -> Gallina text of handle_gen"""
    body = _strip_doc(f.body)
    defs = [n for n in body if isinstance(n, ast.FunctionDef)]
    if not defs or ast.unparse(defs[0].decorator_list[0] if defs[0].decorator_list else ast.Pass()) != "functools.singledispatch" or defs[0].name != "action" \
            or ast.unparse(defs[0].args) != "cp_action" or len(defs[0].body) != 1 or not isinstance(defs[0].body[0], ast.Raise) \
            or not (isinstance(defs[0].body[0].exc, ast.Call) and ast.unparse(defs[0].body[0].exc.func) == "TypeError"):
        raise Untranslatable("allocate_snapshots: @functools.singledispatch def action(cp_action): raise TypeError(..)")
    arms = {}
    for d in defs[1:]:
        if ast.unparse(d.args) != "cp_action" or not d.decorator_list:
            raise Untranslatable("allocate_snapshots: handler %s" % d.name)
        for dec in d.decorator_list:
            if not (isinstance(dec, ast.Call) and ast.unparse(dec.func) == "action.register" and len(dec.args) == 1 and isinstance(dec.args[0], ast.Name)
                    and dec.args[0].id in ACT_FIELDS and not dec.keywords):
                raise Untranslatable("allocate_snapshots: decorator of %s" % d.name)
            if dec.args[0].id in arms:
                raise Untranslatable("allocate_snapshots: two handlers for %s" % dec.args[0].id)
            arms[dec.args[0].id] = HandlerTr(dec.args[0].id).block(_strip_doc(d.body))
    # the names of the handlers are not used again (the registry is all that matters); no other statement rebinds `action`
    if sum(1 for n in ast.walk(f) if isinstance(n, ast.FunctionDef) and n.name == "action") != 1:
        raise Untranslatable("allocate_snapshots: action is redefined")
    out = []
    for c in ["Forward", "Reverse", "Copy", "Move", "EndForward", "EndReverse"]:
        pat = " ".join([c] + ACT_FIELDS[c])
        out.append("  | %s =>\n    %s" % (pat, arms.get(c, "Err TypeError")))
    return "\n".join(out)


GENERATORS["AllocGen"] = gen_alloc

# ---------------------------------------------------------------------------------------------------------------------------
# hrevolve.py: RevolveCheckpointSchedule._iterator (the converter of the four Revolve-family classes) -> coq/Model/GenLang4.v
ZL4 = {"i": "Li", "n_0": "Ln_0", "n_1": "Ln_1", "w_n0": "Lw_n0", "d_n0": "Ld_n0"}
BL4 = {"write_ics": "Lwrite_ics", "adj_deps": "Ladj_deps"}
SL4 = {"storage": "Lstorage", "w_storage": "Lw_storage"}
KL4 = {"cp_action": "Lcp_action", "w_cp_action": "Lw_cp_action", "d_cp_action": "Ld_cp_action"}
EXN4 = ("RuntimeError", "InvalidForwardStep", "InvalidReverseStep", "InvalidActionIndex", "InvalidRevolverAction")


class GenTr4:
    def z(self, e):
        if isinstance(e, ast.Constant) and isinstance(e.value, int) and not isinstance(e.value, bool):
            return "(ZC %d)" % e.value if e.value >= 0 else "(ZC (%d))" % e.value
        a = _self_attr(e)
        if a in ("_n", "_r", "_max_n"):
            return {"_n": "ZN", "_r": "ZR", "_max_n": "ZMax"}[a]
        if isinstance(e, ast.Name) and e.id in ZL4:
            return "(ZL %s)" % ZL4[e.id]
        if isinstance(e, ast.BinOp) and isinstance(e.op, (ast.Add, ast.Sub)):
            return "(%s %s %s)" % ("ZAdd" if isinstance(e.op, ast.Add) else "ZSub", self.z(e.left), self.z(e.right))
        if isinstance(e, ast.Call) and isinstance(e.func, ast.Name) and e.func.id == "len" and len(e.args) == 1 and not e.keywords:
            if _self_attr(e.args[0]) == "_schedule":
                return "ZLenOps"
            if isinstance(e.args[0], ast.Name) and e.args[0].id == "snapshots":
                return "ZLenSet"
        raise Untranslatable("integer expression " + ast.dump(e)[:90])

    def b(self, e):
        if isinstance(e, ast.BoolOp) and isinstance(e.op, ast.Or):
            out = self.b(e.values[-1])
            for v in reversed(e.values[:-1]):
                out = "(BOr %s %s)" % (self.b(v), out)
            return out
        if isinstance(e, ast.Compare) and len(e.ops) == 1:
            op, l, r = e.ops[0], e.left, e.comparators[0]
            if _self_attr(l) == "_max_n" and isinstance(r, ast.Constant) and r.value is None and isinstance(op, ast.Is):
                return "BMaxIsNone"
            if isinstance(l, ast.Name) and l.id in KL4 and isinstance(r, ast.Constant) and r.value in OKINDS and isinstance(op, (ast.Eq, ast.NotEq)):
                return "(%s %s K%s)" % ("BKindIs" if isinstance(op, ast.Eq) else "BKindIsNot", KL4[l.id], r.value)
            if isinstance(l, ast.Name) and l.id in SL4 and isinstance(r, ast.Name) and r.id in SL4 and isinstance(op, ast.NotEq):
                return "(BStNe %s %s)" % (SL4[l.id], SL4[r.id])
            for k, nm in ((ast.Eq, "BEq"), (ast.NotEq, "BNe"), (ast.Lt, "BLt"), (ast.Gt, "BGt")):
                if isinstance(op, k):
                    return "(%s %s %s)" % (nm, self.z(l), self.z(r))
        raise Untranslatable("condition " + ast.dump(e)[:90])

    def bv(self, e):
        if isinstance(e, ast.Constant) and isinstance(e.value, bool):
            return "(BC %s)" % ("true" if e.value else "false")
        if isinstance(e, ast.Name) and e.id in BL4:
            return "(BL %s)" % BL4[e.id]
        raise Untranslatable("boolean argument " + ast.dump(e)[:60])

    def sv(self, e):
        if _is_st_const(e):
            return "(SC %s)" % e.attr
        if isinstance(e, ast.Name) and e.id in SL4:
            return "(SL %s)" % SL4[e.id]
        raise Untranslatable("storage argument " + ast.dump(e)[:60])

    def action(self, c):
        if not (isinstance(c, ast.Call) and isinstance(c.func, ast.Name)):
            raise Untranslatable("yielded value")
        f, a, kw = c.func.id, c.args, c.keywords
        if f == "Forward" and len(a) == 5 and not kw:
            return "(AForward %s %s %s %s %s)" % (self.z(a[0]), self.z(a[1]), self.bv(a[2]), self.bv(a[3]), self.sv(a[4]))
        if f == "Reverse" and len(a) == 2 and len(kw) == 1 and kw[0].arg == "clear_adj_deps" and isinstance(kw[0].value, ast.Constant) and isinstance(kw[0].value.value, bool):
            return "(AReverse %s %s %s)" % (self.z(a[0]), self.z(a[1]), "true" if kw[0].value.value else "false")
        if f in ("Copy", "Move") and len(a) == 3 and not kw:
            return "(A%s %s %s %s)" % (f, self.z(a[0]), self.sv(a[1]), self.sv(a[2]))
        if f in ("EndForward", "EndReverse") and not a and not kw:
            return "A" + f
        raise Untranslatable("action " + f)

    def stmts(self, body):
        body = _strip_doc(body)
        if not body:
            return "SSkip"
        parts = [self.stmt(x) for x in body]
        out = parts[-1]
        for x in reversed(parts[:-1]):
            out = "(SSeq %s %s)" % (x, out)
        return out

    def conv(self, t, v):
        """k, (a, b, c) = _convert_action(self._schedule[E])"""
        if not (isinstance(t, ast.Tuple) and len(t.elts) == 2 and isinstance(t.elts[0], ast.Name) and t.elts[0].id in KL4 and isinstance(t.elts[1], ast.Tuple) and len(t.elts[1].elts) == 3
                and all(isinstance(x, ast.Name) for x in t.elts[1].elts)):
            return None
        if not (isinstance(v, ast.Call) and isinstance(v.func, ast.Name) and v.func.id == "_convert_action" and len(v.args) == 1 and not v.keywords
                and isinstance(v.args[0], ast.Subscript) and _self_attr(v.args[0].value) == "_schedule"):
            return None
        a, b, c = (x.id for x in t.elts[1].elts)
        if a not in ZL4 or c not in SL4 or (b != "_" and b not in ZL4):
            raise Untranslatable("targets of _convert_action")
        return "(SConv %s %s %s %s %s)" % (KL4[t.elts[0].id], ZL4[a], "None" if b == "_" else "(Some %s)" % ZL4[b], SL4[c], self.z(v.args[0].slice))

    def stmt(self, s):
        if isinstance(s, ast.If):
            return "(SIf %s %s %s)" % (self.b(s.test), self.stmts(s.body), self.stmts(s.orelse))
        if isinstance(s, ast.While) and not s.orelse:
            return "(SWhile %s %s)" % (self.b(s.test), self.stmts(s.body))
        if isinstance(s, ast.Raise) and s.cause is None:
            nm = s.exc.func.id if isinstance(s.exc, ast.Call) and isinstance(s.exc.func, ast.Name) else getattr(s.exc, "id", None)
            if nm in EXN4:
                return "(SRaise %s)" % nm
        if isinstance(s, ast.Expr) and isinstance(s.value, ast.Yield) and s.value.value is not None:
            return "(SYield %s)" % self.action(s.value.value)
        if isinstance(s, ast.Expr) and isinstance(s.value, ast.Call) and isinstance(s.value.func, ast.Attribute) and isinstance(s.value.func.value, ast.Name) \
                and s.value.func.value.id == "snapshots" and len(s.value.args) == 1 and not s.value.keywords and s.value.func.attr in ("add", "remove"):
            return "(SSet%s %s)" % ("Add" if s.value.func.attr == "add" else "Remove", self.z(s.value.args[0]))
        if isinstance(s, ast.AugAssign) and isinstance(s.op, ast.Add):
            if _self_attr(s.target) == "_r":
                return "(SSetR (ZAdd ZR %s))" % self.z(s.value)
            if isinstance(s.target, ast.Name) and s.target.id in ZL4:
                return "(SSetZ %s (ZAdd (ZL %s) %s))" % (ZL4[s.target.id], ZL4[s.target.id], self.z(s.value))
        if isinstance(s, ast.Assign) and len(s.targets) == 1:
            t, v = s.targets[0], s.value
            c = self.conv(t, v)
            if c:
                return c
            if isinstance(t, ast.Name):
                if t.id == "snapshots" and ast.unparse(v) == "set()":
                    return "SSetNew"
                if t.id in BL4 and isinstance(v, ast.Constant) and isinstance(v.value, bool):
                    return "(SSetB %s %s)" % (BL4[t.id], "true" if v.value else "false")
                if t.id in SL4 and isinstance(v, ast.Constant) and v.value is None:
                    return "(SSetS %s None)" % SL4[t.id]
                if t.id in SL4 and _is_st_const(v):
                    return "(SSetS %s (Some %s))" % (SL4[t.id], v.attr)
                if t.id in ZL4:
                    return "(SSetZ %s %s)" % (ZL4[t.id], self.z(v))
            a = _self_attr(t)
            if a == "_n":
                return "(SSetN %s)" % self.z(v)
            if a == "_exhausted" and isinstance(v, ast.Constant) and isinstance(v.value, bool):
                return "(SSetX %s)" % ("true" if v.value else "false")
        raise Untranslatable("statement " + ast.dump(s)[:100])


def gen_converter(repo):
    _check_protocol(repo)
    tree = ast.parse(open(os.path.join(repo, "checkpoint_schedules", "hrevolve.py")).read())
    classes = {c.name: c for c in ast.walk(tree) if isinstance(c, ast.ClassDef)}
    c = classes.get("RevolveCheckpointSchedule")
    if c is None:
        raise Untranslatable("class RevolveCheckpointSchedule")
    ms = _methods(c)
    f = ms.get("_iterator")
    if f is None or [a.arg for a in f.args.args] != ["self"] or f.decorator_list:
        raise Untranslatable("RevolveCheckpointSchedule._iterator(self)")
    ex = ms.get("is_exhausted")
    exb = _strip_doc(ex.body) if ex is not None else []
    if len(exb) != 1 or not isinstance(exb[0], ast.Return) or ast.unparse(exb[0].value) != "self._exhausted":
        raise Untranslatable("RevolveCheckpointSchedule.is_exhausted is not `return self._exhausted`")
    fi, asg, sup = _init_assigns(c)
    if sup is None or ast.unparse(sup) != "super().__init__(max_n)" or ast.unparse(asg.get("_exhausted", ast.Constant(value=None))) != "False" \
            or ast.unparse(asg.get("_schedule", ast.Constant(value=None))) != "schedule":
        raise Untranslatable("RevolveCheckpointSchedule.__init__: super().__init__(max_n); self._exhausted = False; self._schedule = schedule")
    for sub in ("Revolve", "DiskRevolve", "PeriodicDiskRevolve", "HRevolve"):
        sc = classes.get(sub)
        if sc is None or any(m in _methods(sc) for m in ("_iterator", "__next__", "__iter__", "finalize", "is_exhausted", "n", "r", "max_n")):
            raise Untranslatable("%s overrides part of the iteration" % sub)
    return "\n".join(["(* GENERATED by harness/translate.py from checkpoint_schedules/hrevolve.py (RevolveCheckpointSchedule._iterator) -- do not edit *)",
                      "From Coq Require Import ZArith List Bool.", "From CS Require Import Actions Ops RevConv ConvKinds GenLang4 GenConv.", "Import ListNotations.", "Open Scope Z_scope.", "",
                      "Definition conv_prog : stmt :=", "  %s." % GenTr4().stmts(f.body),
                      "Lemma conv_prog_is_model : conv_prog = GenConv.conv_prog_model.", "Proof. reflexivity. Qed.", ""]) + "\n"


GENERATORS["ConverterGen"] = gen_converter

# ---------------------------------------------------------------------------------------------------------------------------
# mixed.py: MixedCheckpointSchedule._iterator -> coq/Model/GenLang5.v
ZL5 = {"n0": "Ln0", "n1": "Ln1", "cp_n": "Lcp_n"}
KL5 = {"step_type": "Lstep_type", "cp_step_type": "Lcp_step_type", "next_step_type": "Lnext_step_type"}
BL5 = {"reuse_snapshot": "Lreuse", "cp_delete": "Lcp_delete"}
EXN5 = ("RuntimeError", "InvalidForwardStep", "InvalidActionIndex")
PLANNER_SELECT = ("if numba is None:\n    warnings.warn('Numba not available -- using memoization', RuntimeWarning)\n    schedule = None\nelse:\n"
                  "    schedule = mixed_steps_tabulation(self._max_n, self._snapshots)")


def _steptype(e):
    return STEPK[e.attr] if isinstance(e, ast.Attribute) and isinstance(e.value, ast.Name) and e.value.id == "StepType" and e.attr in STEPK else None


class GenTr5:
    def z(self, e):
        if isinstance(e, ast.Constant) and isinstance(e.value, int) and not isinstance(e.value, bool):
            return "(ZC %d)" % e.value
        a = _self_attr(e)
        if a in ("_n", "_r", "_max_n", "_snapshots"):
            return {"_n": "ZN", "_r": "ZR", "_max_n": "ZMax", "_snapshots": "ZSnaps"}[a]
        if isinstance(e, ast.Name) and e.id in ZL5:
            return "(ZL %s)" % ZL5[e.id]
        if isinstance(e, ast.BinOp) and isinstance(e.op, (ast.Add, ast.Sub)):
            return "(%s %s %s)" % ("ZAdd" if isinstance(e.op, ast.Add) else "ZSub", self.z(e.left), self.z(e.right))
        if isinstance(e, ast.Call) and isinstance(e.func, ast.Name) and len(e.args) == 1 and not e.keywords and isinstance(e.args[0], ast.Name):
            if e.func.id == "len" and e.args[0].id == "snapshots":
                return "ZLenStack"
            if e.func.id == "len" and e.args[0].id == "snapshot_n":
                return "ZLenSet"
            if e.func.id == "int" and e.args[0].id in BL5:
                return "(ZInt %s)" % BL5[e.args[0].id]
        raise Untranslatable("integer expression " + ast.dump(e)[:90])

    def top(self, e, k):
        """snapshots[-1][k] / snapshots[-1][:2]"""
        if not (isinstance(e, ast.Subscript) and isinstance(e.value, ast.Subscript) and isinstance(e.value.value, ast.Name) and e.value.value.id == "snapshots"
                and ast.unparse(e.value.slice) == "-1"):
            return False
        return ast.unparse(e.slice) == k

    def b(self, e):
        if isinstance(e, ast.Constant) and e.value is True:
            return "BTrue"
        if isinstance(e, ast.Name) and e.id in BL5:
            return "(BV %s)" % BL5[e.id]
        if isinstance(e, ast.UnaryOp) and isinstance(e.op, ast.Not):
            return "(BNot %s)" % self.b(e.operand)
        if isinstance(e, ast.Call) and isinstance(e.func, ast.Name) and e.func.id == "bool" and len(e.args) == 1 and not e.keywords:
            return self.b(e.args[0])
        if isinstance(e, ast.BoolOp):
            nm = "BOr" if isinstance(e.op, ast.Or) else "BAnd"
            out = self.b(e.values[-1])
            for v in reversed(e.values[:-1]):
                out = "(%s %s %s)" % (nm, self.b(v), out)
            return out
        if isinstance(e, ast.Compare) and len(e.ops) == 1:
            op, l, r = e.ops[0], e.left, e.comparators[0]
            if _self_attr(l) == "_max_n" and isinstance(r, ast.Constant) and r.value is None and isinstance(op, ast.Is):
                return "BMaxIsNone"
            if isinstance(l, ast.Name) and l.id in KL5:
                if isinstance(op, ast.Eq) and _steptype(r):
                    return "(BKindIs %s %s)" % (KL5[l.id], _steptype(r))
                if isinstance(op, ast.NotEq) and isinstance(r, ast.Name) and r.id in KL5:
                    return "(BKindNe %s %s)" % (KL5[l.id], KL5[r.id])
                if isinstance(op, (ast.In, ast.NotIn)) and isinstance(r, ast.Set) and r.elts and all(_steptype(x) for x in r.elts):
                    t = "(BKindIn %s [%s])" % (KL5[l.id], "; ".join(_steptype(x) for x in r.elts))
                    return t if isinstance(op, ast.In) else "(BNot %s)" % t
            if isinstance(op, ast.In) and isinstance(r, ast.Name) and r.id == "snapshot_n":
                return "(BInSet %s)" % self.z(l)
            if isinstance(op, ast.NotEq) and self.top(l, ":2") and isinstance(r, ast.Tuple) and len(r.elts) == 2 and isinstance(r.elts[0], ast.Name) and r.elts[0].id in KL5:
                return "(BTopNe %s %s)" % (KL5[r.elts[0].id], self.z(r.elts[1]))
            if isinstance(op, ast.Lt) and self.top(l, "2"):
                return "(BTopEndLt %s)" % self.z(r)
            for k, nm in ((ast.Eq, "BEq"), (ast.NotEq, "BNe"), (ast.Lt, "BLt"), (ast.Gt, "BGt"), (ast.LtE, "BLe"), (ast.GtE, "BGe")):
                if isinstance(op, k):
                    return "(%s %s %s)" % (nm, self.z(l), self.z(r))
        raise Untranslatable("condition " + ast.dump(e)[:100])

    def sv(self, e):
        if _is_st_const(e):
            return "(SC %s)" % e.attr
        if _self_attr(e) == "_storage":
            return "SStg"
        raise Untranslatable("storage argument")

    def bc(self, e):
        if isinstance(e, ast.Constant) and isinstance(e.value, bool):
            return "true" if e.value else "false"
        raise Untranslatable("boolean constant")

    def action(self, c):
        if not (isinstance(c, ast.Call) and isinstance(c.func, ast.Name) and not c.keywords):
            raise Untranslatable("yielded value")
        f, a = c.func.id, c.args
        if f == "Forward" and len(a) == 5:
            return "(AForward %s %s %s %s %s)" % (self.z(a[0]), self.z(a[1]), self.bc(a[2]), self.bc(a[3]), self.sv(a[4]))
        if f == "Reverse" and len(a) == 3:
            return "(AReverse %s %s %s)" % (self.z(a[0]), self.z(a[1]), self.bc(a[2]))
        if f in ("Copy", "Move") and len(a) == 3:
            return "(A%s %s %s %s)" % (f, self.z(a[0]), self.sv(a[1]), self.sv(a[2]))
        if f in ("EndForward", "EndReverse") and not a:
            return "A" + f
        raise Untranslatable("action " + f)

    def stmts(self, body):
        body = _strip_doc(body)
        if not body:
            return "SSkip"
        parts = [self.stmt(x) for x in body]
        out = parts[-1]
        for x in reversed(parts[:-1]):
            out = "(SSeq %s %s)" % (x, out)
        return out

    def plan_call(self, s):
        """k, n | _, _ = mixed_step_memoization(a, b)   or   ... = schedule[a, b]"""
        if not (isinstance(s, ast.Assign) and len(s.targets) == 1 and isinstance(s.targets[0], ast.Tuple) and len(s.targets[0].elts) == 3
                and all(isinstance(x, ast.Name) for x in s.targets[0].elts)):
            return None
        k, n, c = (x.id for x in s.targets[0].elts)
        if k not in KL5 or c != "_" or (n != "_" and n not in ZL5):
            return None
        v = s.value
        if isinstance(v, ast.Call) and isinstance(v.func, ast.Name) and v.func.id == "mixed_step_memoization" and len(v.args) == 2 and not v.keywords:
            a, b = v.args
            how = "memo"
        elif isinstance(v, ast.Subscript) and isinstance(v.value, ast.Name) and v.value.id == "schedule" and isinstance(v.slice, ast.Tuple) and len(v.slice.elts) == 2:
            a, b = v.slice.elts
            how = "table"
        else:
            return None
        return how, "(SPlan %s %s %s %s)" % (KL5[k], "None" if n == "_" else "(Some %s)" % ZL5[n], self.z(a), self.z(b))

    def stmt(self, s):
        if isinstance(s, ast.If):
            # `if schedule is None: <planner call> else: <table lookup>`: the two ways of asking the planner the model abstracts by cfg.plan
            if ast.unparse(s.test) == "schedule is None" and len(s.body) == 1 and len(s.orelse) == 1:
                a, b = self.plan_call(s.body[0]), self.plan_call(s.orelse[0])
                if a and b and a[0] == "memo" and b[0] == "table" and a[1] == b[1]:
                    return a[1]
                raise Untranslatable("planner selection")
            if ast.unparse(s) == PLANNER_SELECT:
                return "SSkip"
            return "(SIf %s %s %s)" % (self.b(s.test), self.stmts(s.body), self.stmts(s.orelse))
        if isinstance(s, ast.While) and not s.orelse:
            return "(SWhile %s %s)" % (self.b(s.test), self.stmts(s.body))
        if isinstance(s, ast.Break):
            return "SBreak"
        if isinstance(s, ast.Raise) and s.cause is None:
            nm = s.exc.func.id if isinstance(s.exc, ast.Call) and isinstance(s.exc.func, ast.Name) else getattr(s.exc, "id", None)
            if nm in EXN5:
                return "(SRaise %s)" % nm
        if isinstance(s, ast.Expr) and isinstance(s.value, ast.Yield) and s.value.value is not None:
            return "(SYield %s)" % self.action(s.value.value)
        if isinstance(s, ast.Expr) and isinstance(s.value, ast.Call) and isinstance(s.value.func, ast.Attribute) and isinstance(s.value.func.value, ast.Name) and not s.value.keywords:
            obj, m, a = s.value.func.value.id, s.value.func.attr, s.value.args
            if obj == "snapshot_n" and m in ("add", "remove") and len(a) == 1:
                return "(SSet%s %s)" % ("Add" if m == "add" else "Remove", self.z(a[0]))
            if obj == "snapshots" and m == "pop" and not a:
                return "SPop"
            if obj == "snapshots" and m == "append" and len(a) == 1 and isinstance(a[0], ast.Tuple) and len(a[0].elts) == 3 and _steptype(a[0].elts[0]):
                return "(SPush %s %s %s)" % (_steptype(a[0].elts[0]), self.z(a[0].elts[1]), self.z(a[0].elts[2]))
        if isinstance(s, ast.AugAssign) and isinstance(s.op, ast.Add):
            if _self_attr(s.target) in ("_n", "_r"):
                x = "N" if _self_attr(s.target) == "_n" else "R"
                return "(SSet%s (ZAdd Z%s %s))" % (x, x, self.z(s.value))
            if isinstance(s.target, ast.Name) and s.target.id in ZL5:
                return "(SSetZ %s (ZAdd (ZL %s) %s))" % (ZL5[s.target.id], ZL5[s.target.id], self.z(s.value))
        if isinstance(s, ast.Assign) and len(s.targets) == 1:
            t, v = s.targets[0], s.value
            if isinstance(t, ast.Tuple) and len(t.elts) == 3 and all(isinstance(x, ast.Name) for x in t.elts) and ast.unparse(v) == "snapshots[-1]" \
                    and t.elts[0].id in KL5 and t.elts[1].id in ZL5 and t.elts[2].id == "_":
                return "(STop %s %s)" % (KL5[t.elts[0].id], ZL5[t.elts[1].id])
            if isinstance(t, ast.Name):
                if t.id == "snapshot_n" and ast.unparse(v) == "set()":
                    return "SNewSet"
                if t.id == "snapshots" and ast.unparse(v) == "[]":
                    return "SNewStack"
                if t.id in KL5 and _steptype(v):
                    return "(SSetK %s %s)" % (KL5[t.id], _steptype(v))
                if t.id in BL5:
                    return "(SSetB %s %s)" % (BL5[t.id], self.b(v))
                if t.id in ZL5:
                    return "(SSetZ %s %s)" % (ZL5[t.id], self.z(v))
            a = _self_attr(t)
            if a == "_n":
                return "(SSetN %s)" % self.z(v)
            if a == "_exhausted" and isinstance(v, ast.Constant) and isinstance(v.value, bool):
                return "(SSetX %s)" % ("true" if v.value else "false")
        raise Untranslatable("statement " + ast.dump(s)[:100])


def gen_mixed(repo):
    _check_protocol(repo)
    tree = ast.parse(open(os.path.join(repo, "checkpoint_schedules", "mixed.py")).read())
    classes = {c.name: c for c in ast.walk(tree) if isinstance(c, ast.ClassDef)}
    c = classes.get("MixedCheckpointSchedule")
    if c is None:
        raise Untranslatable("class MixedCheckpointSchedule")
    ms = _methods(c)
    f = ms.get("_iterator")
    if f is None or [a.arg for a in f.args.args] != ["self"] or f.decorator_list:
        raise Untranslatable("MixedCheckpointSchedule._iterator(self)")
    for m in ("__next__", "__iter__", "finalize", "n", "r", "max_n", "is_running"):
        if m in ms:
            raise Untranslatable("MixedCheckpointSchedule overrides %s" % m)
    ex = ms.get("is_exhausted")
    exb = _strip_doc(ex.body) if ex is not None else []
    if len(exb) != 1 or not isinstance(exb[0], ast.Return) or ast.unparse(exb[0].value) != "self._exhausted":
        raise Untranslatable("MixedCheckpointSchedule.is_exhausted is not `return self._exhausted`")
    fi = ms.get("__init__")
    MX_INIT = ("self, max_n, snapshots, *, storage=StorageType.DISK",
               "if snapshots < min(1, max_n - 1):\n    raise ValueError('Invalid number of snapshots')\nif storage not in [StorageType.RAM, StorageType.DISK]:\n"
               "    raise ValueError('Invalid storage')\nsuper().__init__(max_n)\nself._exhausted = False\nself._snapshots = min(snapshots, max_n - 1)\nself._storage = storage")
    if fi is None or (ast.unparse(fi.args), "\n".join(ast.unparse(x) for x in _strip_doc(fi.body))) != MX_INIT:
        raise Untranslatable("MixedCheckpointSchedule.__init__ is not the constructor the model mirrors")
    return "\n".join(["(* GENERATED by harness/translate.py from checkpoint_schedules/mixed.py (MixedCheckpointSchedule._iterator) -- do not edit *)",
                      "From Coq Require Import ZArith List Bool.", "From CS Require Import Actions Mixed GenLang5 GenMixed.", "Import ListNotations.", "Open Scope Z_scope.", "",
                      "Definition mixed_prog : stmt :=", "  %s." % GenTr5().stmts(f.body),
                      "Lemma mixed_prog_is_model : mixed_prog = GenMixed.mixed_prog_model.", "Proof. reflexivity. Qed.", ""]) + "\n"


GENERATORS["MixedGen"] = gen_mixed


# ---------------------------------------------------------------------------------------------------------------------------
# hrevolve_sequences/{revolve,disk_revolve,periodic_disk_revolve}.py: the sequence generators -> Gallina functions building the
# flattened operation list (Model/Ops.v), in the result monad.  `sequence.insert(operation(NAME, arg))` appends one operation,
# `sequence.insert_sequence(f(...)[.shift(k) | .remove_useless_wm()])` appends a recursively built list; statements are translated
# with their continuation (an `if` whose branches do not all return is followed by the rest in both branches).  Recursion is
# bounded by a fuel argument, an artefact of the embedding: the function's own recursive calls use the predecessor of its fuel,
# calls of another generator the expression in SEQ_FUEL.
OPN1 = {"Read_memory": "ORM", "Write_memory": "OWM", "Discard_memory": "ODM", "Read_disk": "ORD", "Write_disk": "OWD", "Discard_disk": "ODD",
        "Write_Forward_memory": "OWFM", "Discard_Forward_memory": "ODFM"}
OPN2 = {"Forward": "OF", "Backward": "OB"}
SEQ_FUEL = {("disk_revolve", "revolve"): "(Z.to_nat (2 * l + 4))", ("periodic_disk_revolve", "revolve", "l - current_task"): "(Z.to_nat (2 * l + 4))",
            ("periodic_disk_revolve", "revolve", "mx - 1"): "(Z.to_nat (2 * mx + 4))"}
WHILE_FUEL = {"periodic_disk_revolve": "(Z.to_nat l)"}      # a bound on the iterations of its two `while` loops (each moves current_task by mx >= 1 within 0..l)
SEQ_PREAMBLE = {
    "revolve": ("l, cm, rd, wd, fwd_cost, bwd_cost, opt_0=None",
                "params = revolver_parameters(wd, rd, fwd_cost, bwd_cost)\nparameters = dict(params)\nif opt_0 is None:\n    opt_0 = get_opt_0_table(l, cm, fwd_cost, bwd_cost)\n"
                "sequence = Sequence(Function('Revolve', l, cm), concat=parameters['concat'])\noperation = partial(Op, params=parameters)"),
    "disk_revolve": ("l, cm, rd, wd, fwd_cost, bwd_cost, opt_0=None, opt_1d=None, opt_inf=None",
                     "params = revolver_parameters(wd, rd, fwd_cost, bwd_cost)\nparameters = dict(params)\nuf = parameters['uf']\nub = parameters['ub']\nrd = parameters['rd']\nwd = parameters['wd']\n"
                     "one_read_disk = parameters['one_read_disk']\nif opt_0 is None:\n    opt_0 = get_opt_0_table(l, cm, uf, ub)\nif opt_1d is None and (not one_read_disk):\n"
                     "    opt_1d = get_opt_1d_table(l, cm, ub, uf, rd, one_read_disk, opt_0=opt_0)\nif opt_inf is None:\n"
                     "    opt_inf = get_opt_inf_table(l, cm, uf, ub, rd, wd, one_read_disk, opt_0=opt_0, opt_1d=opt_1d)\n"
                     "sequence = Sequence(Function('Disk-Revolve', l, cm), concat=parameters['concat'])\noperation = partial(Op, params=parameters)"),
    "periodic_disk_revolve": ("l, cm, rd, wd, uf, ub, opt_0=None, opt_1d=None, mmax=None",
        "params = revolver_parameters(wd, rd, uf, ub)\nparameters = dict(params)\nmx = parameters['mx']\none_read_disk = parameters['one_read_disk']\nfast = parameters['fast']\nif mmax is None:\n    if one_read_disk:\n        mmax = mxrr_close_formula(cm, uf, rd, wd)\n        if mx is None:\n            mx = mmax\n    else:\n        mmax = compute_mmax(params['cm'], params['wd'], params['rd'], params['uf'])\nif mx is not None:\n    mmax = max(mmax, mx) + 1\nif opt_0 is None:\n    opt_0 = get_opt_0_table(mmax, cm, params['uf'], params['ub'])\nif opt_1d is None and (not one_read_disk):\n    opt_1d = get_opt_1d_table(mmax, cm, ub, uf, rd, one_read_disk, opt_0=opt_0)\nsequence = Sequence(Function('Periodic-Disk-Revolve', l, cm), concat=parameters['concat'])\noperation = partial(Op, params=parameters)\nif mx is None:\n    if one_read_disk:\n        mx = mxrr_close_formula(cm, uf, rd, wd)\n    elif fast:\n        mx = mx_close_formula(cm, opt_0=opt_0, opt_1d=opt_1d, **parameters)\n    else:\n        mx = compute_mx(cm, opt_0=opt_0, opt_1d=opt_1d, **parameters)\nprint('We use periods of size ', mx)"),
}
REVOLVER_PARAMETERS = ("wd, rd, uf, ub",
                       "params = {'uf': uf, 'ub': ub, 'up': 1, 'wd': wd, 'rd': rd, 'mx': None, 'one_read_disk': True, 'fast': False, 'concat': 0, 'print_table': 'None'}\nreturn params")
# the calls the translator accepts: callee -> (positional argument names after the first two, keywords), and how they are emitted
SEQ_CALLS = {
    ("revolve", "revolve"): (["wd", "rd", "fwd_cost", "bwd_cost"], {"opt_0": "opt_0"}, "revolve_gen {fuel} opt_0 uf {a0} {a1}"),
    ("disk_revolve", "disk_revolve"): (["rd", "wd", "uf", "ub"], {"opt_0": "opt_0", "opt_1d": "opt_1d", "opt_inf": "opt_inf"}, "disk_revolve_gen {fuel} opt_0 opt_inf uf rd wd {a0} {a1}"),
    ("disk_revolve", "revolve"): (["rd", "wd", "uf", "ub"], {"opt_0": "opt_0"}, "revolve_gen {fuel} opt_0 uf {a0} {a1}"),
    ("periodic_disk_revolve", "revolve"): (["rd", "wd", "uf", "ub"], {"opt_0": "opt_0"}, "revolve_gen {fuel} opt_0 uf {a0} {a1}"),
}


class SeqTr:
    def __init__(self, fname, names, consts):
        self.fname, self.names, self.consts = fname, dict(names), dict(consts)   # Python name -> Gallina term; names bound to a constant boolean
        self.n = 0

    def fresh(self):
        self.n += 1
        return "x%d_" % self.n

    # an integer expression; reads of the tables are collected (left to right) as monadic binds
    def z(self, e, binds):
        if isinstance(e, ast.Constant) and isinstance(e.value, int) and not isinstance(e.value, bool):
            return str(e.value) if e.value >= 0 else "(%d)" % e.value
        if isinstance(e, ast.UnaryOp) and isinstance(e.op, ast.USub) and isinstance(e.operand, ast.Constant) and isinstance(e.operand.value, int):
            return "(-%d)" % e.operand.value
        if isinstance(e, ast.Name) and e.id in self.names:
            return self.names[e.id]
        if isinstance(e, ast.Subscript) and isinstance(e.value, ast.Name) and e.value.id == "parameters" and isinstance(e.slice, ast.Constant) and e.slice.value == "uf" and "parameters.uf" in self.names:
            return self.names["parameters.uf"]
        if isinstance(e, ast.BinOp) and isinstance(e.op, (ast.Add, ast.Sub, ast.Mult)):
            a = self.z(e.left, binds)
            b = self.z(e.right, binds)
            return "(%s %s %s)" % (a, {ast.Add: "+", ast.Sub: "-", ast.Mult: "*"}[type(e.op)], b)
        if isinstance(e, ast.Subscript):
            v = e.value
            if isinstance(v, ast.Subscript) and isinstance(v.value, ast.Name) and v.value.id == "opt_0" and "opt_0" in self.names:
                i, j = self.z(v.slice, binds), self.z(e.slice, binds)
                x = self.fresh()
                binds.append("do %s <- tget opt_0 %s %s;" % (x, i, j))
                return x
            if isinstance(v, ast.Name) and v.id == "opt_inf" and "opt_inf" in self.names:
                i = self.z(e.slice, binds)
                x = self.fresh()
                binds.append("do %s <- lget opt_inf %s;" % (x, i))
                return x
        if isinstance(e, ast.Call) and isinstance(e.func, ast.Name) and e.func.id == "min" and len(e.args) == 1 and not e.keywords and isinstance(e.args[0], ast.Name) and e.args[0].id in self.names:
            x = self.fresh()
            binds.append("do %s <- py_min %s;" % (x, self.names[e.args[0].id]))
            return x
        raise Untranslatable("integer expression " + ast.dump(e)[:100])

    def cond(self, e, binds):
        if isinstance(e, ast.Compare) and len(e.ops) == 1:
            a, b = self.z(e.left, binds), self.z(e.comparators[0], binds)
            op = e.ops[0]
            for k, t in ((ast.Eq, "(%s =? %s)"), (ast.NotEq, "negb (%s =? %s)"), (ast.Lt, "(%s <? %s)"), (ast.Gt, "(%s >? %s)"), (ast.LtE, "(%s <=? %s)"), (ast.GtE, "(%s >=? %s)")):
                if isinstance(op, k):
                    return t % (a, b)
        raise Untranslatable("condition " + ast.dump(e)[:100])

    def operation(self, e, binds):
        if not (isinstance(e, ast.Call) and isinstance(e.func, ast.Name) and e.func.id == "operation" and len(e.args) == 2 and not e.keywords
                and isinstance(e.args[0], ast.Constant) and isinstance(e.args[0].value, str)):
            raise Untranslatable("operation " + ast.dump(e)[:100])
        nm, a = e.args[0].value, e.args[1]
        if nm in OPN2 and isinstance(a, ast.List) and len(a.elts) == 2:
            return "%s %s %s" % (OPN2[nm], self.z(a.elts[0], binds), self.z(a.elts[1], binds))
        if nm in OPN1 and not isinstance(a, ast.List):
            return "%s %s" % (OPN1[nm], self.z(a, binds))
        raise Untranslatable("operation name / argument " + ast.dump(e)[:100])

    def call(self, e, binds):
        """f(...)[.shift(k) | .remove_useless_wm()] -> a term of type list op, the call bound monadically"""
        post = None
        if isinstance(e, ast.Call) and isinstance(e.func, ast.Attribute) and e.func.attr in ("shift", "remove_useless_wm"):
            if e.func.attr == "shift" and len(e.args) == 1 and not e.keywords:
                post = "shift %s" % self.z(e.args[0], binds)
            elif e.func.attr == "remove_useless_wm" and not e.args and not e.keywords:
                post = "remove_useless_wm"
            else:
                raise Untranslatable("sequence method call " + ast.dump(e)[:100])
            e = e.func.value
        if not (isinstance(e, ast.Call) and isinstance(e.func, ast.Name) and (self.fname, e.func.id) in SEQ_CALLS):
            raise Untranslatable("sequence expression " + ast.dump(e)[:100])
        pos, kws, fmt = SEQ_CALLS[(self.fname, e.func.id)]
        if len(e.args) != 2 + len(pos) or [ast.unparse(a) for a in e.args[2:]] != pos or {k.arg: ast.unparse(k.value) for k in e.keywords} != kws:
            raise Untranslatable("arguments of the call " + ast.unparse(e)[:120])
        a0, a1 = self.z(e.args[0], binds), self.z(e.args[1], binds)
        if e.func.id == self.fname:
            fuel = "f"
        else:
            fuel = SEQ_FUEL.get((self.fname, e.func.id, ast.unparse(e.args[0])), SEQ_FUEL.get((self.fname, e.func.id)))
            if fuel is None:
                raise Untranslatable("no fuel policy for the call " + ast.unparse(e)[:100])
        x = self.fresh()
        binds.append("do %s <- %s;" % (x, fmt.format(fuel=fuel, a0=a0, a1=a1)))
        return "(%s %s)" % (post, x) if post else x

    def block(self, stmts, k):
        """k: Gallina text for what follows the block (None: nothing may follow -- the end of the function body)"""
        if not stmts:
            if k is None:
                raise Untranslatable("%s: the body can end without a return" % self.fname)
            return k
        s, rest = stmts[0], stmts[1:]
        if isinstance(s, ast.Return):
            if not (isinstance(s.value, ast.Name) and s.value.id == "sequence"):
                raise Untranslatable("return " + ast.dump(s)[:80])
            return "Ok sequence"
        if isinstance(s, ast.Raise):
            exc = s.exc.func.id if isinstance(s.exc, ast.Call) and isinstance(s.exc.func, ast.Name) else None
            if exc not in ("ValueError", "KeyError", "RuntimeError"):
                raise Untranslatable("raise " + ast.dump(s)[:80])
            return "Err %s" % exc
        if isinstance(s, ast.If):
            if isinstance(s.test, ast.Name) and s.test.id in self.consts:
                return self.block((s.body if self.consts[s.test.id] else s.orelse) + rest, k)
            if isinstance(s.test, ast.BoolOp) and isinstance(s.test.op, ast.Or) and isinstance(s.test.values[0], ast.Name) and self.consts.get(s.test.values[0].id) is True:
                return self.block(s.body + rest, k)            # `True or X`: X is not evaluated
            binds = []
            c = self.cond(s.test, binds)
            kk = self.block(rest, k) if (rest or k is not None) else None
            a = self.block(s.body, kk)
            b = self.block(s.orelse, kk)
            return " ".join(binds + ["if %s then (%s) else (%s)" % (c, a, b)])
        if isinstance(s, ast.Expr) and isinstance(s.value, ast.Call) and isinstance(s.value.func, ast.Attribute) and isinstance(s.value.func.value, ast.Name) \
                and s.value.func.value.id == "sequence" and len(s.value.args) == 1 and not s.value.keywords:
            binds = []
            if s.value.func.attr == "insert":
                t = "[%s]" % self.operation(s.value.args[0], binds)
            elif s.value.func.attr == "insert_sequence":
                t = self.call(s.value.args[0], binds)
            else:
                raise Untranslatable("statement " + ast.dump(s)[:100])
            return " ".join(binds + ["let sequence := sequence ++ %s in" % t, self.block(rest, k)])
        if isinstance(s, ast.Assign) and len(s.targets) == 1 and isinstance(s.targets[0], ast.Name):
            x, v = s.targets[0].id, s.value
            if isinstance(v, ast.ListComp) and len(v.generators) == 1 and not v.generators[0].ifs and isinstance(v.generators[0].target, ast.Name) \
                    and ast.unparse(v.generators[0].iter).startswith("range(") and len(v.generators[0].iter.args) == 2:
                j = v.generators[0].target.id
                binds = []
                lo, hi = self.z(v.generators[0].iter.args[0], binds), self.z(v.generators[0].iter.args[1], binds)
                if binds:
                    raise Untranslatable("range bounds " + ast.unparse(v))
                old = self.names.get(j)
                self.names[j] = j
                inner = []
                body = self.z(v.elt, inner)
                if old is None:
                    del self.names[j]
                else:
                    self.names[j] = old
                self.names[x] = x
                return "do %s <- map_res (fun %s => %s Ok %s) (zrange %s %s); %s" % (x, j, " ".join(inner), body, lo, hi, self.block(rest, k))
            if isinstance(v, ast.Call) and isinstance(v.func, ast.Name) and v.func.id == "argmin" and len(v.args) == 1 and isinstance(v.args[0], ast.Name) and v.args[0].id in self.names:
                self.names[x] = x
                return "do %s <- py_argmin %s; %s" % (x, self.names[v.args[0].id], self.block(rest, k))
        if isinstance(s, ast.Assign) and len(s.targets) == 1 and isinstance(s.targets[0], ast.Name) and isinstance(s.value, ast.Constant) and type(s.value.value) is int \
                and s.targets[0].id not in self.names:
            self.names[s.targets[0].id] = s.targets[0].id
            return "let %s := %d in %s" % (s.targets[0].id, s.value.value, self.block(rest, k))
        if isinstance(s, ast.AugAssign) and isinstance(s.target, ast.Name) and s.target.id in getattr(self, "loopvars", ()) and isinstance(s.op, (ast.Add, ast.Sub)):
            binds = []
            v = self.z(s.value, binds)
            if binds:
                raise Untranslatable("augmented assignment " + ast.unparse(s))
            return "let %s := %s %s %s in %s" % (s.target.id, s.target.id, "+" if isinstance(s.op, ast.Add) else "-", v, self.block(rest, k))
        if isinstance(s, ast.While) and not s.orelse and self.fname in WHILE_FUEL:
            vs = sorted({n.target.id for n in ast.walk(s) if isinstance(n, ast.AugAssign) and isinstance(n.target, ast.Name)})
            if len(vs) != 1 or vs[0] not in self.names or any(isinstance(n, (ast.Break, ast.Continue, ast.Return)) for n in ast.walk(s)):
                raise Untranslatable("while loop " + ast.unparse(s.test))
            v = vs[0]
            binds = []
            c = self.cond(s.test, binds)
            if binds:
                raise Untranslatable("while condition " + ast.unparse(s.test))
            self.loopvars = (v,)
            body = self.block(s.body, "Ok (%s, sequence)" % v)
            self.loopvars = ()
            return "do st_ <- while_ %s (fun %s => %s) (fun %s sequence => %s) %s sequence; let %s := fst st_ in let sequence := snd st_ in %s" % (
                WHILE_FUEL[self.fname], v, c, v, body, v, v, self.block(rest, k))
        if isinstance(s, ast.For) and not s.orelse and isinstance(s.target, ast.Name) and isinstance(s.iter, ast.Call) and isinstance(s.iter.func, ast.Name) \
                and s.iter.func.id == "range" and len(s.iter.args) == 3 and ast.unparse(s.iter.args[2]) == "-1":
            binds = []
            start, stop = self.z(s.iter.args[0], binds), self.z(s.iter.args[1], binds)
            if binds:
                raise Untranslatable("range bounds " + ast.unparse(s.iter))
            i = s.target.id
            old = self.names.get(i)
            self.names[i] = i
            body = self.block(s.body, "Ok sequence")
            if old is None:
                del self.names[i]
            else:
                self.names[i] = old
            return "do sequence <- for_down (Z.to_nat (%s - %s)) %s (fun %s sequence => %s) sequence; %s" % (start, stop, start, i, body, self.block(rest, k))
        raise Untranslatable("statement " + ast.dump(s)[:100])


def _seq_function(repo, mod, fname):
    tree = ast.parse(open(os.path.join(repo, "checkpoint_schedules", "hrevolve_sequences", mod + ".py")).read())
    fns = [n for n in tree.body if isinstance(n, ast.FunctionDef) and n.name == fname]
    if len(fns) != 1 or fns[0].decorator_list:
        raise Untranslatable("def %s in %s.py" % (fname, mod))
    f = fns[0]
    body = _strip_doc(f.body)
    pre_args, pre_text = SEQ_PREAMBLE[fname]
    n = len(pre_text.split("\n"))
    k = 0
    acc = []
    while k < len(body) and len("\n".join(acc).split("\n")) < n:
        acc.append(ast.unparse(body[k]))
        k += 1
    if ast.unparse(f.args) != pre_args or "\n".join(acc) != pre_text:
        raise Untranslatable("%s: signature / preamble is not the one the translation assumes" % fname)
    return body[k:]


# the constructors of the four classes: which generator they call, with which arguments in which order (DiskRevolve and
# PeriodicDiskRevolve hand (wd, rd) to parameters named (rd, wd): RevConv.sequence mirrors exactly that), and the default costs
REV_CTORS = {
    "RevolveCheckpointSchedule": ("self, max_n, snapshots_in_ram, snapshots_on_disk, schedule",
                                  "super().__init__(max_n)\nassert snapshots_in_ram >= min(1, max_n - 1)\nassert max_n > 0\nself._exhausted = False\n"
                                  "self._snapshots_on_disk = snapshots_on_disk\nself._snapshots_in_ram = snapshots_in_ram\nself._schedule = schedule"),
    "Revolve": ("self, max_n, snapshots_in_ram, uf=1, ub=1, wd=2, rd=2",
                "schedule = list(revolve(max_n - 1, snapshots_in_ram, wd, rd, uf, ub))\nsuper().__init__(max_n, snapshots_in_ram, 0, schedule)"),
    "DiskRevolve": ("self, max_n, snapshots_in_ram, uf=1, ub=1, wd=2, rd=2",
                    "schedule = list(disk_revolve(max_n - 1, snapshots_in_ram, wd, rd, uf, ub))\nsuper().__init__(max_n, snapshots_in_ram, None, schedule)"),
    "PeriodicDiskRevolve": ("self, max_n, snapshots_in_ram, uf=1, ub=1, wd=2, rd=2",
                            "schedule = list(periodic_disk_revolve(max_n - 1, snapshots_in_ram, wd, rd, uf, ub))\nsuper().__init__(max_n, snapshots_in_ram, None, schedule)"),
}


def _check_seq_env(repo):
    cl = ast.parse(open(os.path.join(repo, "checkpoint_schedules", "hrevolve.py")).read())
    for cname, (args, body) in REV_CTORS.items():
        cs_ = [c for c in cl.body if isinstance(c, ast.ClassDef) and c.name == cname]
        init = _methods(cs_[0]).get("__init__") if len(cs_) == 1 else None
        if init is None or init.decorator_list or ast.unparse(init.args) != args or "\n".join(ast.unparse(x) for x in _strip_doc(init.body)) != body:
            raise Untranslatable("%s.__init__ is not the constructor the model mirrors" % cname)
    ut = ast.parse(open(os.path.join(repo, "checkpoint_schedules", "hrevolve_sequences", "utils.py")).read())
    rp = [n for n in ut.body if isinstance(n, ast.FunctionDef) and n.name == "revolver_parameters"]
    if len(rp) != 1 or (ast.unparse(rp[0].args), "\n".join(ast.unparse(x) for x in _strip_doc(rp[0].body))) != REVOLVER_PARAMETERS:
        raise Untranslatable("utils.revolver_parameters is not the dictionary the translation assumes")


# ---- hrevolve.py: hrevolve_aux / hrevolve_recurse (mutually recursive; costs are integers or +infinity: HRevSeq.cost) ----
OPN2K = {"Read": "OR", "Write": "OW", "Discard": "OD", "Write_Forward": "OWF", "Discard_Forward": "ODF"}
H_PREAMBLE = {
    "hrevolve_aux": ("l, K, cmem, cvect, wvect, rvect, hoptp=None, hopt=None, **params",
                     "uf = params['uf']\nub = params['ub']\nif hoptp is None or hopt is None:\n    hoptp, hopt = get_hopt_table(l, cvect, wvect, rvect, ub, uf)\n"
                     "sequence = Sequence(Function('hrevolve_aux', l, [K, cmem]), levels=len(cvect), concat=params['concat'])\noperation = partial(Op, params=params)"),
    "hrevolve_recurse": ("l, K, cmem, cvect, wvect, rvect, hoptp=None, hopt=None, **params",
                         "parameters = dict(params)\nuf = params['uf']\nub = params['ub']\nif hoptp is None or hopt is None:\n    hoptp, hopt = get_hopt_table(l, cvect, wvect, rvect, ub, uf)\n"
                         "sequence = Sequence(Function('HRevolve', l, [K, cmem]), levels=len(cvect), concat=parameters['concat'])\noperation = partial(Op, params=parameters)"),
}
H_TOP = ("l, cvect, wvect, rvect, fwd_cost, bwd_cost",
         "params = revolver_parameters(wvect, rvect, fwd_cost, bwd_cost)\nh_rev = hrevolve_recurse(l, len(cvect) - 1, cvect[-1], cvect, wvect, rvect, hoptp=None, hopt=None, **params)\nreturn h_rev")
H_CTOR = "cvec = (snapshots_in_ram, snapshots_on_disk)\nwc = [0, wd]\nrc = [0, rd]\nschedule = list(hrevolve(max_n - 1, cvec, wc, rc, uf, ub))\nsuper().__init__(max_n, snapshots_in_ram, snapshots_on_disk, schedule)"
H_LAST = ["aux = sequence", "while aux.type == 'Function':\n    aux = aux.sequence[-1]"]      # followed by: if aux.type != 'Discard': sequence.insert(operation('Discard', [0, 0]))


class HSeqTr(SeqTr):
    VEC = {"cvect": "cvec", "wvect": "wvec", "rvect": "rvec"}

    def is_cost(self, e):
        return any(isinstance(n, ast.Name) and n.id in ("hopt", "hoptp", "list_mem") for n in ast.walk(e))

    def z(self, e, binds):
        if isinstance(e, ast.Subscript) and isinstance(e.value, ast.Name) and e.value.id in self.VEC:
            return "(%s p %s)" % (self.VEC[e.value.id], self.z(e.slice, binds))
        if isinstance(e, ast.Name) and e.id == "uf":
            return "(ufv p)"
        return SeqTr.z(self, e, binds)

    def c(self, e, binds):
        """a cost-valued expression"""
        if isinstance(e, ast.BinOp) and isinstance(e.op, ast.Add):
            a = self.c(e.left, binds)
            b = self.c(e.right, binds)
            return "(cadd %s %s)" % (a, b)
        if isinstance(e, ast.Subscript) and isinstance(e.value, ast.Subscript) and isinstance(e.value.value, ast.Subscript) and isinstance(e.value.value.value, ast.Name) \
                and e.value.value.value.id in ("hopt", "hoptp"):
            k, a, b = self.z(e.value.value.slice, binds), self.z(e.value.slice, binds), self.z(e.slice, binds)
            x = self.fresh()
            binds.append("do %s <- get (%s T %s) %s %s;" % (x, e.value.value.value.id, k, a, b))
            return x
        if isinstance(e, ast.Call) and isinstance(e.func, ast.Name) and e.func.id == "min" and len(e.args) == 1 and not e.keywords and isinstance(e.args[0], ast.Name) and e.args[0].id in self.names:
            x = self.fresh()
            binds.append("do %s <- py_cmin %s;" % (x, self.names[e.args[0].id]))
            return x
        if self.is_cost(e):
            raise Untranslatable("cost expression " + ast.dump(e)[:100])
        return "(Fin %s)" % self.z(e, binds)

    def cond(self, e, binds):
        if isinstance(e, ast.BoolOp) and isinstance(e.op, ast.And) and len(e.values) == 2:
            a = self.cond(e.values[0], binds)
            n = len(binds)
            b = self.cond(e.values[1], binds)
            if len(binds) != n:
                raise Untranslatable("a table read in the right operand of `and`")
            return "(%s && %s)" % (a, b)
        if isinstance(e, ast.Compare) and len(e.ops) == 1 and isinstance(e.ops[0], ast.Lt) and (self.is_cost(e.left) or self.is_cost(e.comparators[0])):
            a = self.c(e.left, binds)
            b = self.c(e.comparators[0], binds)
            return "clt %s %s" % (a, b)
        return SeqTr.cond(self, e, binds)

    def operation(self, e, binds):
        if isinstance(e, ast.Call) and isinstance(e.func, ast.Name) and e.func.id == "operation" and len(e.args) == 2 and not e.keywords \
                and isinstance(e.args[0], ast.Constant) and e.args[0].value in OPN2K and isinstance(e.args[1], ast.List) and len(e.args[1].elts) == 2:
            return "%s %s %s" % (OPN2K[e.args[0].value], self.z(e.args[1].elts[0], binds), self.z(e.args[1].elts[1], binds))
        if isinstance(e, ast.Call) and len(e.args) == 2 and isinstance(e.args[0], ast.Constant) and e.args[0].value in OPN1:
            raise Untranslatable("operation " + ast.dump(e)[:80])
        return SeqTr.operation(self, e, binds)

    def call(self, e, binds):
        post = None
        if isinstance(e, ast.Call) and isinstance(e.func, ast.Attribute) and e.func.attr == "shift" and len(e.args) == 1 and not e.keywords:
            post = "shift %s" % self.z(e.args[0], binds)
            e = e.func.value
        if not (isinstance(e, ast.Call) and isinstance(e.func, ast.Name) and e.func.id in ("hrevolve_aux", "hrevolve_recurse") and len(e.args) == 6
                and [ast.unparse(a) for a in e.args[3:]] == ["cvect", "wvect", "rvect"]
                and [(k.arg, ast.unparse(k.value)) for k in e.keywords] in ([("hoptp", "hoptp"), ("hopt", "hopt"), (None, "params")], [("hoptp", "hoptp"), ("hopt", "hopt"), (None, "parameters")])):
            raise Untranslatable("sequence expression " + ast.unparse(e)[:120])
        if [k.value.id for k in e.keywords if k.arg is None] != [self.kwname]:
            raise Untranslatable("keyword parameters passed on: " + ast.unparse(e)[:120])
        a = [self.z(x, binds) for x in e.args[:3]]
        x = self.fresh()
        binds.append("do %s <- %s f p T %s %s %s;" % (x, {"hrevolve_aux": "aux_gen", "hrevolve_recurse": "recurse_gen"}[e.func.id], a[0], a[1], a[2]))
        return "(%s %s)" % (post, x) if post else x

    def block(self, stmts, k):
        # the test "the sequence built so far ends with a Discard" (walks down the nested Function objects to the last operation)
        if len(stmts) >= 3 and [ast.unparse(x) for x in stmts[:2]] == H_LAST and ast.unparse(stmts[2]) == "if aux.type != 'Discard':\n    sequence.insert(operation('Discard', [0, 0]))":
            return "let sequence := if is_discard (last_op sequence) then sequence else sequence ++ [OD 0 0] in " + self.block(stmts[3:], k)
        if stmts and isinstance(stmts[0], ast.Assign) and len(stmts[0].targets) == 1 and isinstance(stmts[0].targets[0], ast.Name) and isinstance(stmts[0].value, ast.ListComp):
            s, v = stmts[0], stmts[0].value
            if len(v.generators) == 1 and not v.generators[0].ifs and isinstance(v.generators[0].target, ast.Name) and ast.unparse(v.generators[0].iter).startswith("range(") \
                    and len(v.generators[0].iter.args) == 2:
                j, x = v.generators[0].target.id, s.targets[0].id
                binds = []
                lo, hi = self.z(v.generators[0].iter.args[0], binds), self.z(v.generators[0].iter.args[1], binds)
                if binds:
                    raise Untranslatable("range bounds " + ast.unparse(v))
                self.names[j] = j
                inner = []
                body = self.c(v.elt, inner)
                del self.names[j]
                self.names[x] = x
                return "do %s <- map_res (fun %s => %s Ok %s) (zrange %s %s); %s" % (x, j, " ".join(inner), body, lo, hi, self.block(stmts[1:], k))
        if stmts and isinstance(stmts[0], ast.Assign) and isinstance(stmts[0].value, ast.Call) and isinstance(stmts[0].value.func, ast.Name) and stmts[0].value.func.id == "argmin" \
                and len(stmts[0].value.args) == 1 and isinstance(stmts[0].value.args[0], ast.Name) and stmts[0].value.args[0].id in self.names and isinstance(stmts[0].targets[0], ast.Name):
            x = stmts[0].targets[0].id
            self.names[x] = x
            return "do %s <- py_cargmin %s; %s" % (x, self.names[stmts[0].value.args[0].id], self.block(stmts[1:], k))
        return SeqTr.block(self, stmts, k)


def _h_function(tree, fname):
    fns = [n for n in tree.body if isinstance(n, ast.FunctionDef) and n.name == fname]
    if len(fns) != 1 or fns[0].decorator_list:
        raise Untranslatable("def %s in hrevolve_sequences/hrevolve.py" % fname)
    f = fns[0]
    body = _strip_doc(f.body)
    pre_args, pre_text = H_PREAMBLE[fname]
    n = len(pre_text.split("\n"))
    k, acc = 0, []
    while k < len(body) and len("\n".join(acc).split("\n")) < n:
        acc.append(ast.unparse(body[k]))
        k += 1
    if ast.unparse(f.args) != pre_args or "\n".join(acc) != pre_text:
        raise Untranslatable("%s: signature / preamble is not the one the translation assumes" % fname)
    return body[k:]


def gen_hseq(repo):
    _check_seq_env(repo)
    tree = ast.parse(open(os.path.join(repo, "checkpoint_schedules", "hrevolve_sequences", "hrevolve.py")).read())
    top = [n for n in tree.body if isinstance(n, ast.FunctionDef) and n.name == "hrevolve"]
    if len(top) != 1 or (ast.unparse(top[0].args), "\n".join(ast.unparse(x) for x in _strip_doc(top[0].body))) != H_TOP:
        raise Untranslatable("hrevolve() is not the top-level call the model mirrors")
    cl = ast.parse(open(os.path.join(repo, "checkpoint_schedules", "hrevolve.py")).read())
    hc = [c for c in cl.body if isinstance(c, ast.ClassDef) and c.name == "HRevolve"]
    init = _methods(hc[0]).get("__init__") if len(hc) == 1 else None
    if init is None or ast.unparse(init.args) != "self, max_n, snapshots_in_ram, snapshots_on_disk, uf=1, ub=1, wd=2, rd=2" or "\n".join(ast.unparse(x) for x in _strip_doc(init.body)) != H_CTOR:
        raise Untranslatable("HRevolve.__init__ is not the call of hrevolve() the model mirrors")
    ta = HSeqTr("hrevolve_aux", {"l": "l", "K": "K", "cmem": "cmem"}, {})
    ta.kwname = "params"
    ax = ta.block(_h_function(tree, "hrevolve_aux"), None)
    tr = HSeqTr("hrevolve_recurse", {"l": "l", "K": "K", "cmem": "cmem"}, {})
    tr.kwname = "parameters"
    rc = tr.block(_h_function(tree, "hrevolve_recurse"), None)
    return "\n".join(["(* GENERATED by harness/translate.py from checkpoint_schedules/hrevolve_sequences/hrevolve.py (hrevolve_aux, hrevolve_recurse) -- do not edit *)",
                      "From Coq Require Import ZArith List Bool.", "From CS Require Import Actions Ops HRevSeq SeqGenSpec HSeqGenSpec.", "Import ListNotations.", "Open Scope Z_scope.", "",
                      "Fixpoint aux_gen (fuel : nat) (p : hp) (T : tabs) (l K cmem : Z) {struct fuel} : res (list op) :=", "  match fuel with O => Err OutOfFuel | S f =>",
                      "  let sequence : list op := [] in", "  " + ax, "  end",
                      "with recurse_gen (fuel : nat) (p : hp) (T : tabs) (l K cmem : Z) {struct fuel} : res (list op) :=", "  match fuel with O => Err OutOfFuel | S f =>",
                      "  let sequence : list op := [] in", "  " + rc, "  end.", "",
                      "Lemma aux_gen_is_shape : aux_gen = aux_shape.", "Proof. reflexivity. Qed.",
                      "Lemma recurse_gen_is_shape : recurse_gen = recurse_shape.", "Proof. reflexivity. Qed.",
                      "Lemma recurse_gen_is_model : forall fuel p T l K cmem, 0 <= l -> recurse_gen fuel p T l K cmem = HRevSeq.recurse fuel p T l K cmem.",
                      "Proof. rewrite recurse_gen_is_shape. exact recurse_shape_is_model. Qed.", ""]) + "\n"


GENERATORS["HSeqGen"] = gen_hseq


# ---- hrevolve.py: get_hopt_table (two storage levels: the class HRevolve passes cvect / wvect / rvect of length 2) ----
# The tables opt[k][l][m] / optp[k][l][m] are the four fields of HRevSeq.tabs; an assignment is `hset`, a read `hget` (IndexError outside
# the lists, as in Python for non-negative indices).  float('inf') is HRevSeq.Inf, `/ 2` of the product l * (l + 1) exact division.
HOPT_PRE = ("lmax, cvect, wvect, rvect, ub, uf",
            ["K = len(cvect)", "assert len(wvect) == len(rvect) == len(cvect)",
             "opt = [[[float('inf')] * (cvect[i] + 1) for _ in range(lmax + 1)] for i in range(K)]",
             "optp = [[[float('inf')] * (cvect[i] + 1) for _ in range(lmax + 1)] for i in range(K)]"])


class TabTr:
    VEC = {"cvect": "cvec2 c0 c1", "wvect": "cvec2 w0 w1", "rvect": "cvec2 r0 r1"}
    NAMES = {"lmax": "lmax", "ub": "ub", "uf": "uf", "K": "2"}

    def __init__(self):
        self.names = dict(self.NAMES)
        self.n = 0

    def fresh(self):
        self.n += 1
        return "x%d_" % self.n

    def z(self, e):
        if isinstance(e, ast.Constant) and type(e.value) is int:
            return str(e.value) if e.value >= 0 else "(%d)" % e.value
        if isinstance(e, ast.Name) and e.id in self.names:
            return self.names[e.id]
        if isinstance(e, ast.Subscript) and isinstance(e.value, ast.Name) and e.value.id in self.VEC:
            return "(%s %s)" % (self.VEC[e.value.id], self.z(e.slice))
        if isinstance(e, ast.BinOp) and isinstance(e.op, (ast.Add, ast.Sub, ast.Mult)):
            return "(%s %s %s)" % (self.z(e.left), {ast.Add: "+", ast.Sub: "-", ast.Mult: "*"}[type(e.op)], self.z(e.right))
        if isinstance(e, ast.BinOp) and isinstance(e.op, ast.Div) and ast.unparse(e) == "l * (l + 1) / 2":
            return "((l * (l + 1)) / 2)"
        raise Untranslatable("integer expression " + ast.dump(e)[:100])

    def is_cost(self, e):
        return any(isinstance(n, ast.Name) and n.id in ("opt", "optp") for n in ast.walk(e))

    def tab3(self, e):
        if isinstance(e, ast.Subscript) and isinstance(e.value, ast.Subscript) and isinstance(e.value.value, ast.Subscript) and isinstance(e.value.value.value, ast.Name) \
                and e.value.value.value.id in ("opt", "optp"):
            return e.value.value.value.id == "optp", self.z(e.value.value.slice), self.z(e.value.slice), self.z(e.slice)
        return None

    def c(self, e, binds):
        t3 = self.tab3(e)
        if t3:
            x = self.fresh()
            binds.append("do %s <- hget %s T %s %s %s;" % (x, "true" if t3[0] else "false", t3[1], t3[2], t3[3]))
            return x
        if isinstance(e, ast.BinOp) and isinstance(e.op, ast.Add) and self.is_cost(e):
            a = self.c(e.left, binds)
            b = self.c(e.right, binds)
            return "(cadd %s %s)" % (a, b)
        if isinstance(e, ast.Call) and isinstance(e.func, ast.Name) and e.func.id == "min" and not e.keywords:
            if len(e.args) == 2:
                a = self.c(e.args[0], binds)
                b = self.c(e.args[1], binds)
                return "(cmin %s %s)" % (a, b)
            if len(e.args) == 1:
                return "(cmin_list %s Inf)" % self.clist(e.args[0], binds)
        if self.is_cost(e):
            raise Untranslatable("cost expression " + ast.dump(e)[:100])
        return "(Fin %s)" % self.z(e)

    def clist(self, e, binds):
        """a non-empty list of costs: [x], a comprehension over range(1, l), or the concatenation of the two"""
        if isinstance(e, ast.BinOp) and isinstance(e.op, ast.Add):
            a = self.clist(e.left, binds)
            b = self.clist(e.right, binds)
            return "(%s ++ %s)" % (a, b)
        if isinstance(e, ast.List) and len(e.elts) == 1:
            return "[%s]" % self.c(e.elts[0], binds)
        if isinstance(e, ast.ListComp) and len(e.generators) == 1 and not e.generators[0].ifs and isinstance(e.generators[0].target, ast.Name) \
                and isinstance(e.generators[0].iter, ast.Call) and ast.unparse(e.generators[0].iter.func) == "range" and len(e.generators[0].iter.args) == 2:
            j = e.generators[0].target.id
            lo, hi = self.z(e.generators[0].iter.args[0]), self.z(e.generators[0].iter.args[1])
            self.names[j] = j
            inner = []
            body = self.c(e.elt, inner)
            del self.names[j]
            x = self.fresh()
            binds.append("do %s <- map_res (fun %s => %s Ok %s) (zrange %s %s);" % (x, j, " ".join(inner), body, lo, hi))
            return x
        raise Untranslatable("list of costs " + ast.dump(e)[:100])

    def cond(self, e):
        if isinstance(e, ast.BoolOp):
            return "(%s)" % ({ast.And: " && ", ast.Or: " || "}[type(e.op)].join(self.cond(v) for v in e.values))
        if isinstance(e, ast.Compare) and len(e.ops) == 1 and isinstance(e.ops[0], (ast.Eq, ast.Lt)):
            return "(%s %s %s)" % (self.z(e.left), "=?" if isinstance(e.ops[0], ast.Eq) else "<?", self.z(e.comparators[0]))
        raise Untranslatable("condition " + ast.dump(e)[:100])

    def block(self, stmts, k):
        if not stmts:
            return k
        s, rest = stmts[0], stmts[1:]
        if isinstance(s, ast.Return):
            if ast.unparse(s.value) != "(optp, opt)" or rest:
                raise Untranslatable("return " + ast.unparse(s))
            return "Ok T"
        if isinstance(s, ast.Assign) and len(s.targets) == 1 and isinstance(s.targets[0], ast.Name) and s.targets[0].id == "mmax":
            return "let mmax := %s in %s" % (self.z(s.value), self._with("mmax", lambda: self.block(rest, k)))
        if isinstance(s, ast.Assign) and len(s.targets) == 1 and self.tab3(s.targets[0]):
            t3 = self.tab3(s.targets[0])
            binds = []
            v = self.c(s.value, binds)
            return " ".join(binds + ["do T <- hset %s T %s %s %s %s;" % ("true" if t3[0] else "false", t3[1], t3[2], t3[3], v), self.block(rest, k)])
        if isinstance(s, ast.If) and not s.orelse and len(s.body) == 1 and isinstance(s.body[0], ast.Continue):
            return "if %s then Ok T else (%s)" % (self.cond(s.test), self.block(rest, k))
        if isinstance(s, ast.For) and not s.orelse and isinstance(s.target, ast.Name) and isinstance(s.iter, ast.Call) and ast.unparse(s.iter.func) == "range" and len(s.iter.args) in (1, 2):
            lo = "0" if len(s.iter.args) == 1 else self.z(s.iter.args[0])
            hi = self.z(s.iter.args[-1])
            v = s.target.id
            body = self._with(v, lambda: self.block(s.body, "Ok T"))
            return "do T <- range_for %s %s T (fun %s T => %s); %s" % (lo, hi, v, body, self.block(rest, k))
        raise Untranslatable("statement " + ast.dump(s)[:100])

    def _with(self, v, f):
        old = self.names.get(v)
        self.names[v] = v
        try:
            return f()
        finally:
            if old is None:
                self.names.pop(v, None)
            else:
                self.names[v] = old


def gen_hopt(repo):
    tree = ast.parse(open(os.path.join(repo, "checkpoint_schedules", "hrevolve_sequences", "hrevolve.py")).read())
    fns = [n for n in tree.body if isinstance(n, ast.FunctionDef) and n.name == "get_hopt_table"]
    if len(fns) != 1 or fns[0].decorator_list:
        raise Untranslatable("def get_hopt_table")
    body = _strip_doc(fns[0].body)
    if ast.unparse(fns[0].args) != HOPT_PRE[0] or [ast.unparse(x) for x in body[:4]] != HOPT_PRE[1]:
        raise Untranslatable("get_hopt_table: signature / initialisation of the tables")
    t = TabTr().block(body[4:], None)
    return "\n".join(["(* GENERATED by harness/translate.py from checkpoint_schedules/hrevolve_sequences/hrevolve.py (get_hopt_table) -- do not edit *)",
                      "From Coq Require Import ZArith List Bool.", "From CS Require Import Actions Ops HRevSeq HoptGenSpec.", "Import ListNotations.", "Open Scope Z_scope.", "",
                      "Definition hopt_gen (lmax c0 c1 w0 w1 r0 r1 ub uf : Z) : res tabs :=",
                      "  let T := {| optp0 := mk lmax c0; opt0 := mk lmax c0; optp1 := mk lmax c1; opt1 := mk lmax c1 |} in", "  " + t + ".", "",
                      "Lemma hopt_gen_is_shape : hopt_gen = hopt_shape.", "Proof. reflexivity. Qed.",
                      "Lemma hopt_gen_is_model : forall lmax c0 c1 w0 w1 r0 r1 ub uf, hopt_gen lmax c0 c1 w0 w1 r0 r1 ub uf = HRevSeq.get_hopt_table lmax c0 c1 w0 w1 r0 r1 ub uf.",
                      "Proof. rewrite hopt_gen_is_shape. exact hopt_shape_is_model. Qed.", ""]) + "\n"


GENERATORS["HoptGen"] = gen_hopt


# ---- disk_revolve.py: get_opt_inf_table (one_read_disk = True): the Table is a list that only grows by append ----
OPTINF_PRE = ("lmax, cm, uf, ub, rd, wd, one_read_disk, print_table=None, opt_0=None, opt_1d=None",
              ["if opt_0 is None:\n    opt_0 = get_opt_0_table(lmax, cm, uf, ub)",
               "if opt_1d is None and (not one_read_disk):\n    opt_1d = get_opt_1d_table(lmax, cm, ub, uf, rd, one_read_disk, opt_0=opt_0)",
               "opt_inf = Table()", "if __name__ == '__main__' and print_table:\n    opt_inf.set_to_print(print_table)"])


def gen_optinf(repo):
    _check_seq_env(repo)          # one_read_disk is True in every call (revolver_parameters)
    tree = ast.parse(open(os.path.join(repo, "checkpoint_schedules", "hrevolve_sequences", "disk_revolve.py")).read())
    fns = [n for n in tree.body if isinstance(n, ast.FunctionDef) and n.name == "get_opt_inf_table"]
    if len(fns) != 1 or fns[0].decorator_list:
        raise Untranslatable("def get_opt_inf_table")
    body = _strip_doc(fns[0].body)
    if ast.unparse(fns[0].args) != OPTINF_PRE[0] or [ast.unparse(x) for x in body[:4]] != OPTINF_PRE[1]:
        raise Untranslatable("get_opt_inf_table: signature / preamble")
    tr = SeqTr("get_opt_inf_table", {"lmax": "lmax", "cm": "cm", "uf": "uf", "ub": "ub", "rd": "rd", "wd": "wd", "opt_0": "opt_0", "opt_inf": "opt_inf"}, {"one_read_disk": True})

    def app(call, binds):
        if not (isinstance(call, ast.Expr) and isinstance(call.value, ast.Call) and ast.unparse(call.value.func) == "opt_inf.append" and len(call.value.args) == 1 and not call.value.keywords):
            raise Untranslatable("statement " + ast.unparse(call)[:80])
        a = call.value.args[0]
        if isinstance(a, ast.Call) and isinstance(a.func, ast.Name) and a.func.id == "min" and len(a.args) == 2 and not a.keywords:
            x, y = tr.z(a.args[0], binds), tr.z(a.args[1], binds)
            return "(Z.min %s %s)" % (x, y)
        return tr.z(a, binds)

    def block(stmts):
        if not stmts:
            return "Ok opt_inf"
        s, rest = stmts[0], stmts[1:]
        if isinstance(s, ast.Return):
            if ast.unparse(s.value) != "opt_inf" or rest:
                raise Untranslatable("return " + ast.unparse(s))
            return "Ok opt_inf"
        if isinstance(s, ast.If):
            if isinstance(s.test, ast.Name) and s.test.id in tr.consts:
                return block((s.body if tr.consts[s.test.id] else s.orelse) + rest)
            binds = []
            c = tr.cond(s.test, binds)
            if binds or len(s.body) != 1 or len(s.orelse) != 1:
                raise Untranslatable("if " + ast.unparse(s.test))
            ba, bb = [], []
            a, b = app(s.body[0], ba), app(s.orelse[0], bb)
            if ba or bb:
                raise Untranslatable("if " + ast.unparse(s.test))
            return "let opt_inf := if %s then opt_inf ++ [%s] else opt_inf ++ [%s] in %s" % (c, a, b, block(rest))
        if isinstance(s, ast.Assign) and len(s.targets) == 1 and isinstance(s.targets[0], ast.Name) and isinstance(s.value, ast.Call) and ast.unparse(s.value.func) == "min" \
                and len(s.value.args) == 1 and isinstance(s.value.args[0], ast.ListComp):
            # x = min([comprehension])
            tmp = ast.Assign(targets=[ast.Name(id="cands_", ctx=ast.Store())], value=s.value.args[0])
            x = s.targets[0].id
            tr.names[x] = x
            return tr.block([tmp], "do %s <- py_min cands_; %s" % (x, block(rest)))
        if isinstance(s, ast.For) and not s.orelse and isinstance(s.target, ast.Name) and ast.unparse(s.iter.func) == "range" and len(s.iter.args) == 2:
            binds = []
            lo, hi = tr.z(s.iter.args[0], binds), tr.z(s.iter.args[1], binds)
            v = s.target.id
            tr.names[v] = v
            body = block(s.body)
            del tr.names[v]
            return "do opt_inf <- range_for %s %s opt_inf (fun %s opt_inf => %s); %s" % (lo, hi, v, body, block(rest))
        binds = []
        v = app(s, binds)
        return " ".join(binds + ["let opt_inf := opt_inf ++ [%s] in" % v, block(rest)])

    t = block(body[4:])
    return "\n".join(["(* GENERATED by harness/translate.py from checkpoint_schedules/hrevolve_sequences/disk_revolve.py (get_opt_inf_table) -- do not edit *)",
                      "From Coq Require Import ZArith List Bool.", "From CS Require Import Actions Ops RevSeq HRevSeq SeqGenSpec OptInfGenSpec.", "Import ListNotations.", "Open Scope Z_scope.", "",
                      "Definition optinf_gen (lmax cm uf ub rd wd : Z) (opt_0 : list (list Z)) : res (list Z) :=",
                      "  let opt_inf : list Z := [] in", "  " + t + ".", "",
                      "Lemma optinf_gen_is_shape : optinf_gen = optinf_shape.", "Proof. reflexivity. Qed.",
                      "Lemma optinf_gen_is_model : forall lmax cm uf ub rd wd opt_0, optinf_gen lmax cm uf ub rd wd opt_0 = RevSeq.get_opt_inf_table lmax cm uf ub rd wd opt_0.",
                      "Proof. rewrite optinf_gen_is_shape. exact optinf_shape_is_model. Qed.", ""]) + "\n"


GENERATORS["OptInfGen"] = gen_optinf


# ---- revolve.py: get_opt_0_table: opt is a list of Tables (rows) that only grow by append ----
OPT0_PRE = ("lmax, mmax, uf, ub, print_table=None",
            ["opt = [Table() for _ in range(mmax + 1)]", "if __name__ == '__main__' and print_table:\n    opt[mmax].set_to_print(print_table)"])


class Opt0Tr:
    def __init__(self):
        self.names = {"lmax": "lmax", "mmax": "mmax", "uf": "uf", "ub": "ub"}
        self.n = 0

    def fresh(self):
        self.n += 1
        return "x%d_" % self.n

    def z(self, e, binds):
        if isinstance(e, ast.Constant) and type(e.value) is int:
            return str(e.value) if e.value >= 0 else "(%d)" % e.value
        if isinstance(e, ast.Name) and e.id in self.names:
            return self.names[e.id]
        if isinstance(e, ast.BinOp) and isinstance(e.op, ast.Div) and ast.unparse(e) == "l * (l + 1) / 2":
            return "((l * (l + 1)) / 2)"
        if isinstance(e, ast.BinOp) and isinstance(e.op, (ast.Add, ast.Sub, ast.Mult)):
            a = self.z(e.left, binds)
            b = self.z(e.right, binds)
            return "(%s %s %s)" % (a, {ast.Add: "+", ast.Sub: "-", ast.Mult: "*"}[type(e.op)], b)
        if isinstance(e, ast.Subscript) and isinstance(e.value, ast.Subscript) and isinstance(e.value.value, ast.Name) and e.value.value.id == "opt":
            i, j = self.z(e.value.slice, binds), self.z(e.slice, binds)
            x = self.fresh()
            binds.append("do %s <- tget opt %s %s;" % (x, i, j))
            return x
        raise Untranslatable("integer expression " + ast.dump(e)[:100])

    def block(self, stmts):
        if not stmts:
            return "Ok opt"
        s, rest = stmts[0], stmts[1:]
        if isinstance(s, ast.Return):
            if ast.unparse(s.value) != "opt" or rest:
                raise Untranslatable("return " + ast.unparse(s))
            return "Ok opt"
        if isinstance(s, ast.For) and not s.orelse and isinstance(s.target, ast.Name) and isinstance(s.iter, ast.Call) and ast.unparse(s.iter.func) == "range" and len(s.iter.args) in (1, 2):
            binds = []
            lo = "0" if len(s.iter.args) == 1 else self.z(s.iter.args[0], binds)
            hi = self.z(s.iter.args[-1], binds)
            if binds:
                raise Untranslatable("range bounds")
            v = s.target.id
            old = self.names.get(v)
            self.names[v] = v
            body = self.block(s.body)
            if old is None:
                del self.names[v]
            else:
                self.names[v] = old
            return "do opt <- range_for %s %s opt (fun %s opt => %s); %s" % (lo, hi, v, body, self.block(rest))
        if isinstance(s, ast.If) and not s.orelse and isinstance(s.test, ast.Compare) and len(s.test.ops) == 1 and isinstance(s.test.ops[0], ast.GtE):
            binds = []
            a, b = self.z(s.test.left, binds), self.z(s.test.comparators[0], binds)
            if binds:
                raise Untranslatable("condition")
            return "do opt <- (if (%s >=? %s) then (%s) else Ok opt); %s" % (a, b, self.block(s.body), self.block(rest))
        if isinstance(s, ast.Assign) and len(s.targets) == 1 and isinstance(s.targets[0], ast.Name) and isinstance(s.value, ast.Call) and ast.unparse(s.value.func) == "min" \
                and len(s.value.args) == 1 and isinstance(s.value.args[0], ast.ListComp):
            v = s.value.args[0]
            g = v.generators[0]
            if len(v.generators) != 1 or g.ifs or not isinstance(g.target, ast.Name) or not (isinstance(g.iter, ast.Call) and ast.unparse(g.iter.func) == "range" and len(g.iter.args) == 2):
                raise Untranslatable("comprehension " + ast.unparse(v))
            binds = []
            lo, hi = self.z(g.iter.args[0], binds), self.z(g.iter.args[1], binds)
            if binds:
                raise Untranslatable("range bounds")
            self.names[g.target.id] = g.target.id
            inner = []
            body = self.z(v.elt, inner)
            del self.names[g.target.id]
            x = s.targets[0].id
            self.names[x] = x
            return "do cands_ <- map_res (fun %s => %s Ok %s) (zrange %s %s); do %s <- py_min cands_; %s" % (g.target.id, " ".join(inner), body, lo, hi, x, self.block(rest))
        if isinstance(s, ast.Expr) and isinstance(s.value, ast.Call) and isinstance(s.value.func, ast.Attribute) and s.value.func.attr == "append" and len(s.value.args) == 1 and not s.value.keywords \
                and isinstance(s.value.func.value, ast.Subscript) and isinstance(s.value.func.value.value, ast.Name) and s.value.func.value.value.id == "opt":
            binds = []
            i = self.z(s.value.func.value.slice, binds)
            v = self.z(s.value.args[0], binds)
            return " ".join(binds + ["do opt <- row_append opt %s %s;" % (i, v), self.block(rest)])
        raise Untranslatable("statement " + ast.dump(s)[:100])


def gen_opt0(repo):
    tree = ast.parse(open(os.path.join(repo, "checkpoint_schedules", "hrevolve_sequences", "revolve.py")).read())
    fns = [n for n in tree.body if isinstance(n, ast.FunctionDef) and n.name == "get_opt_0_table"]
    if len(fns) != 1 or fns[0].decorator_list:
        raise Untranslatable("def get_opt_0_table")
    body = _strip_doc(fns[0].body)
    if ast.unparse(fns[0].args) != OPT0_PRE[0] or [ast.unparse(x) for x in body[:2]] != OPT0_PRE[1]:
        raise Untranslatable("get_opt_0_table: signature / creation of the tables")
    t = Opt0Tr().block(body[2:])
    return "\n".join(["(* GENERATED by harness/translate.py from checkpoint_schedules/hrevolve_sequences/revolve.py (get_opt_0_table) -- do not edit *)",
                      "From Coq Require Import ZArith List Bool.", "From CS Require Import Actions Ops RevSeq HRevSeq SeqGenSpec Opt0GenSpec.", "Import ListNotations.", "Open Scope Z_scope.", "",
                      "Definition opt0_gen (lmax mmax uf ub : Z) : res (list (list Z)) :=",
                      "  let opt : list (list Z) := repeat [] (Z.to_nat (mmax + 1)) in", "  " + t + ".", "",
                      "Lemma opt0_gen_is_shape : opt0_gen = opt0_shape.", "Proof. reflexivity. Qed.",
                      "Lemma opt0_gen_is_model : forall lmax mmax uf ub, 0 <= mmax -> opt0_gen lmax mmax uf ub = RevSeq.get_opt_0_table lmax mmax uf ub.",
                      "Proof. rewrite opt0_gen_is_shape. exact opt0_shape_is_model. Qed.", ""]) + "\n"


GENERATORS["Opt0Gen"] = gen_opt0


# ---- mixed.py: mixed_steps_tabulation: schedule[n_i, s_i, :] is one cell (kind, advance, cost) of Mixed.table ----
# An assignment of a cell is Mixed.tset (the loop bounds keep every index inside the array the first statement allocates; an index
# outside it would be an IndexError in numpy and is a no-op in this reading), a read Mixed.tget with IndexError, `assert` raises
# AssertionError, int64 arithmetic is exact (no wrap-around is modelled), `//` is Z.div.
TABUL_PRE = ("n, s", ["njit"], ["schedule = np.zeros((n + 1, s + 1, 3), dtype=np.int64)", "schedule[:, :, 0] = _NONE", "schedule[:, :, 1] = 0", "schedule[:, :, 2] = -1"])
TABUL_KINDS = {"_NONE": ("KNone", "NONE"), "_FORWARD": ("KForward", "FORWARD"), "_FORWARD_REVERSE": ("KFR", "FORWARD_REVERSE"), "_WRITE_ADJ_DEPS": ("KAdj", "WRITE_ADJ_DEPS"),
               "_WRITE_ICS": ("KIcs", "WRITE_ICS")}


class TabulTr:
    def __init__(self):
        self.names = {"n": "n", "s": "s"}
        self.n = 0

    def fresh(self):
        self.n += 1
        return "x%d_" % self.n

    def cell(self, e):
        """schedule[a, b, k] -> (a, b, k)"""
        if isinstance(e, ast.Subscript) and isinstance(e.value, ast.Name) and e.value.id == "schedule" and isinstance(e.slice, ast.Tuple) and len(e.slice.elts) == 3:
            return e.slice.elts
        return None

    def z(self, e, binds):
        if isinstance(e, ast.Constant) and type(e.value) is int:
            return str(e.value) if e.value >= 0 else "(%d)" % e.value
        if isinstance(e, ast.Name) and e.id in self.names:
            return self.names[e.id]
        c = self.cell(e)
        if c is not None and isinstance(c[2], ast.Constant) and c[2].value == 2:
            a, b = self.z(c[0], binds), self.z(c[1], binds)
            x = self.fresh()
            binds.append("do %s <- tget schedule %s %s;" % (x, a, b))
            return "(snd %s)" % x
        if isinstance(e, ast.BinOp) and isinstance(e.op, (ast.Add, ast.Sub, ast.Mult, ast.FloorDiv)):
            a = self.z(e.left, binds)
            b = self.z(e.right, binds)
            return "(%s %s %s)" % (a, {ast.Add: "+", ast.Sub: "-", ast.Mult: "*", ast.FloorDiv: "/"}[type(e.op)], b)
        raise Untranslatable("integer expression " + ast.dump(e)[:100])

    def cmp(self, e, binds):
        if isinstance(e, ast.Compare) and len(e.ops) == 1:
            a, b = self.z(e.left, binds), self.z(e.comparators[0], binds)
            for k, t in ((ast.Eq, "=?"), (ast.Lt, "<?"), (ast.Gt, ">?"), (ast.LtE, "<=?")):
                if isinstance(e.ops[0], k):
                    return "(%s %s %s)" % (a, t, b)
        raise Untranslatable("condition " + ast.dump(e)[:100])

    def branch(self, test, then, els):
        """if test: then else: els -- `or` evaluates its right operand (and the reads in it) only when the left one is false"""
        if isinstance(test, ast.BoolOp) and isinstance(test.op, ast.Or) and len(test.values) == 2:
            return self.branch(test.values[0], then, self.branch(test.values[1], then, els))
        binds = []
        c = self.cmp(test, binds)
        return " ".join(binds + ["if %s then (%s) else (%s)" % (c, then, els)])

    def block(self, stmts, k):
        if not stmts:
            return k
        s, rest = stmts[0], stmts[1:]
        if isinstance(s, ast.Return):
            if ast.unparse(s.value) != "schedule" or rest:
                raise Untranslatable("return " + ast.unparse(s))
            return "Ok schedule"
        if isinstance(s, ast.Raise):
            if not (isinstance(s.exc, ast.Call) and isinstance(s.exc.func, ast.Name) and s.exc.func.id == "RuntimeError"):
                raise Untranslatable("raise " + ast.unparse(s)[:60])
            return "Err RuntimeError"
        if isinstance(s, ast.Assert) and s.msg is None:
            binds = []
            c = self.cmp(s.test, binds)
            return " ".join(binds + ["if negb %s then Err AssertionError else (%s)" % (c, self.block(rest, k))])
        if isinstance(s, ast.Assign) and len(s.targets) == 1 and isinstance(s.targets[0], ast.Name) and s.targets[0].id == "m1":
            binds = []
            v = self.z(s.value, binds)
            self.names["m1"] = "m1"
            return " ".join(binds + ["let m1 := %s in" % v, self.block(rest, k)])
        if isinstance(s, ast.Assign) and len(s.targets) == 1 and self.cell(s.targets[0]) is not None:
            c = self.cell(s.targets[0])
            if not (isinstance(c[2], ast.Slice) and c[2].lower is None and c[2].upper is None and c[2].step is None and isinstance(s.value, ast.Tuple) and len(s.value.elts) == 3
                    and isinstance(s.value.elts[0], ast.Name) and s.value.elts[0].id in TABUL_KINDS):
                raise Untranslatable("assignment " + ast.unparse(s)[:80])
            binds = []
            a, b = self.z(c[0], binds), self.z(c[1], binds)
            x, y = self.z(s.value.elts[1], binds), self.z(s.value.elts[2], binds)
            return " ".join(binds + ["let schedule := tset schedule %s %s (%s, %s, %s) in" % (a, b, TABUL_KINDS[s.value.elts[0].id][0], x, y), self.block(rest, k)])
        if isinstance(s, ast.If):
            kk = self.block(rest, k)
            return self.branch(s.test, self.block(s.body, kk), self.block(s.orelse, kk))
        if isinstance(s, ast.For) and not s.orelse and isinstance(s.target, ast.Name) and isinstance(s.iter, ast.Call) and ast.unparse(s.iter.func) == "range" and len(s.iter.args) in (1, 2):
            binds = []
            lo = "0" if len(s.iter.args) == 1 else self.z(s.iter.args[0], binds)
            hi = self.z(s.iter.args[-1], binds)
            if binds:
                raise Untranslatable("range bounds")
            v = s.target.id
            old = self.names.get(v)
            self.names[v] = v
            body = self.block(s.body, "Ok schedule")
            if old is None:
                del self.names[v]
            else:
                self.names[v] = old
            return "do schedule <- loop (Z.to_nat (%s - %s)) %s schedule (fun %s schedule => %s); %s" % (hi, lo, lo, v, body, self.block(rest, k))
        raise Untranslatable("statement " + ast.dump(s)[:100])


def gen_tabul(repo):
    tree = ast.parse(open(os.path.join(repo, "checkpoint_schedules", "mixed.py")).read())
    fns = [n for n in tree.body if isinstance(n, ast.FunctionDef) and n.name == "mixed_steps_tabulation"]
    if len(fns) != 1:
        raise Untranslatable("def mixed_steps_tabulation")
    body = _strip_doc(fns[0].body)
    if ast.unparse(fns[0].args) != TABUL_PRE[0] or [ast.unparse(d) for d in fns[0].decorator_list] != TABUL_PRE[1] or [ast.unparse(x) for x in body[:4]] != TABUL_PRE[2]:
        raise Untranslatable("mixed_steps_tabulation: signature / allocation of the array")
    consts = {ast.unparse(n.targets[0]): ast.unparse(n.value) for n in tree.body if isinstance(n, ast.Assign) and len(n.targets) == 1 and ast.unparse(n.targets[0]) in TABUL_KINDS}
    if consts != {k: "int(StepType.%s)" % v[1] for k, v in TABUL_KINDS.items()}:
        raise Untranslatable("the integer codes of the step types")
    t = TabulTr().block(body[4:], None)
    return "\n".join(["(* GENERATED by harness/translate.py from checkpoint_schedules/mixed.py (mixed_steps_tabulation) -- do not edit *)",
                      "From Coq Require Import ZArith List Bool.", "From CS Require Import Actions Mixed TabulGenSpec.", "Import ListNotations.", "Open Scope Z_scope.", "",
                      "Definition tabul_gen (n s : Z) : res table :=",
                      "  let schedule : table := repeat (repeat (KNone, 0, -1) (Z.to_nat (s + 1))) (Z.to_nat (n + 1)) in", "  " + t + ".", "",
                      "Lemma tabul_gen_is_shape : tabul_gen = tabul_shape.", "Proof. reflexivity. Qed.",
                      "Lemma tabul_gen_is_model : forall n s t, 1 <= n -> (tabul_gen n s = Ok t <-> Mixed.tabulate n s = Ok t).",
                      "Proof. rewrite tabul_gen_is_shape. exact tabul_shape_is_model. Qed.", ""]) + "\n"


GENERATORS["TabulGen"] = gen_tabul


# ---- textual pins: library code the translations above READ symbolically, or that the model mirrors by hand ----
# No Gallina is produced from these: the obligation is that the code is, statement for statement (docstrings and comments aside), the
# text the reading / the hand-written model was written for and validated against by the correspondence.  A change to any of them
# breaks the obligation (fail-closed), whatever the sizes at which its effect would show.
import hashlib


def _norm_src(node):
    for n in ast.walk(node):
        if isinstance(n, (ast.FunctionDef, ast.ClassDef, ast.Module)) and n.body and isinstance(n.body[0], ast.Expr) and isinstance(n.body[0].value, ast.Constant) \
                and isinstance(n.body[0].value.value, str):
            n.body = n.body[1:] or [ast.Pass()]
    return hashlib.sha256(ast.unparse(node).encode()).hexdigest()[:16]


def _pin(repo, path, names, expected):
    tree = ast.parse(open(os.path.join(repo, "checkpoint_schedules", path)).read())
    if names is None:
        got = {"<module>": _norm_src(tree)}
    else:
        got = {n.name: _norm_src(n) for n in tree.body if isinstance(n, (ast.FunctionDef, ast.ClassDef)) and n.name in names}
    for k, v in expected.items():
        if got.get(k) != v:
            raise Untranslatable("%s: %s is not the text the model was written for (pin %s, now %s)" % (path, k, v, got.get(k)))


PINS = {
    "SeqPins": [("hrevolve_sequences/basic_functions.py", None, {"<module>": "c2a559c085e9aab7"}),     # Operation, Function, Sequence (insert, insert_sequence, shift,
                                                                                                         # remove_useless_wm, flattening), Table, argmin, beta
                ("hrevolve_sequences/utils.py", None, {"<module>": "5dec6211a6cc04ee"}),
                ("hrevolve_sequences/periodic_disk_revolve.py", ["mxrr_close_formula"], {"mxrr_close_formula": "118c81b5a68267f1"})],
    "AllocPins": [("multistage.py", ["allocate_snapshots"], {"allocate_snapshots": "81c29679bb7b0e80"})],
    "HelperPins": [("multistage.py", ["optimal_extra_steps", "optimal_steps_binomial"], {"optimal_extra_steps": "4715cfdda862c18a", "optimal_steps_binomial": "66212afe4ec6ed38"}),
                   ("mixed.py", ["optimal_steps_mixed", "cache_step"], {"optimal_steps_mixed": "26df9b27700e87d8", "cache_step": "f89f2654d9779d7a"})],
    "EnumPins": [("schedule.py", ["StorageType", "StepType"], {"StorageType": "16cc545c909b3eb5", "StepType": "9ad1b5cb46f49a29"})],
}


def _gen_pins(name):
    def g(repo):
        for path, names, expected in PINS[name]:
            _pin(repo, path, names, expected)
        return "\n".join(["(* GENERATED by harness/translate.py (%s): the pinned library text is unchanged -- do not edit *)" % name,
                          "Lemma %s_unchanged : True." % name.lower(), "Proof. exact I. Qed.", ""]) + "\n"
    return g


for _n in PINS:
    GENERATORS[_n] = _gen_pins(_n)


# ---- basic_functions.py: argmin(list) -- used on lists of numbers and on lists of float costs that may be infinite: rendered once, over
# any element type with its `<=` ----
class ArgminTr:
    def __init__(self):
        self.n = 0
        self.state = []          # the variables assigned before the loop, in order: the loop threads them

    def fresh(self):
        self.n += 1
        return "x%d_" % self.n

    def elem(self, e, binds):
        """list[i] -> a bound variable"""
        if isinstance(e, ast.Subscript) and isinstance(e.value, ast.Name) and e.value.id == "list":
            i = e.slice
            ix = str(i.value) if isinstance(i, ast.Constant) and type(i.value) is int else (i.id if isinstance(i, ast.Name) and i.id == "i" else None)
            if ix is not None:
                x = self.fresh()
                binds.append("do %s <- geti A list %s;" % (x, ix))
                return x
        raise Untranslatable("element expression " + ast.dump(e)[:80])

    def block(self, stmts, k, inloop):
        if not stmts:
            return k
        s, rest = stmts[0], stmts[1:]
        if isinstance(s, ast.Assign) and len(s.targets) == 1 and isinstance(s.targets[0], ast.Name):
            x = s.targets[0].id
            if not inloop and x not in self.state:
                self.state.append(x)
            if x not in self.state:
                raise Untranslatable("assignment to " + x)
            if isinstance(s.value, ast.Constant) and type(s.value.value) is int:
                return "let %s := %d in %s" % (x, s.value.value, self.block(rest, k, inloop))
            if isinstance(s.value, ast.Name) and s.value.id == "i" and inloop:
                return "let %s := i in %s" % (x, self.block(rest, k, inloop))
            binds = []
            v = self.elem(s.value, binds)
            if not inloop:
                return "do %s <- geti A list %s; %s" % (x, binds[0].split()[-1].rstrip(";"), self.block(rest, k, inloop))
            return " ".join(binds + ["let %s := %s in" % (x, v), self.block(rest, k, inloop)])
        if isinstance(s, ast.For) and not s.orelse and not inloop and ast.unparse(s.target) == "(i, _)" and ast.unparse(s.iter) == "enumerate(list)" and len(self.state) == 2:
            a, b = self.state
            body = self.block(s.body, "Ok (%s, %s)" % (a, b), True)
            unpack = "let %s := fst st_ in let %s := snd st_ in" % (a, b)
            return "do st_ <- for_ 0 (length list) (%s, %s) (fun i st_ => %s %s); %s %s" % (a, b, unpack, body, unpack, self.block(rest, k, inloop))
        if isinstance(s, ast.If) and not s.orelse and inloop and isinstance(s.test, ast.Compare) and len(s.test.ops) == 1 and isinstance(s.test.ops[0], ast.LtE) \
                and isinstance(s.test.comparators[0], ast.Name) and s.test.comparators[0].id in self.state:
            binds = []
            x = self.elem(s.test.left, binds)
            kk = self.block(rest, k, inloop)
            return " ".join(binds + ["if le %s %s then (%s) else (%s)" % (x, s.test.comparators[0].id, self.block(s.body, kk, inloop), kk)])
        if isinstance(s, ast.Return) and not inloop and not rest and isinstance(s.value, ast.BinOp) and isinstance(s.value.op, ast.Add) and ast.unparse(s.value.left) == "1" \
                and isinstance(s.value.right, ast.Name) and s.value.right.id in self.state:
            return "Ok (1 + %s)" % s.value.right.id
        raise Untranslatable("statement " + ast.dump(s)[:100])


def gen_argmin(repo):
    tree = ast.parse(open(os.path.join(repo, "checkpoint_schedules", "hrevolve_sequences", "basic_functions.py")).read())
    fns = [n for n in tree.body if isinstance(n, ast.FunctionDef) and n.name == "argmin"]
    if len(fns) != 1 or fns[0].decorator_list or ast.unparse(fns[0].args) != "list":
        raise Untranslatable("def argmin(list)")
    t = ArgminTr().block(_strip_doc(fns[0].body), None, False)
    return "\n".join(["(* GENERATED by harness/translate.py from checkpoint_schedules/hrevolve_sequences/basic_functions.py (argmin) -- do not edit *)",
                      "From Coq Require Import ZArith List Bool.", "From CS Require Import Actions Ops RevSeq HRevSeq SeqGenSpec HSeqGenSpec ArgminGenSpec.", "Import ListNotations.", "Open Scope Z_scope.", "",
                      "Section ARGMIN.", "Variable A : Type.", "Variable le : A -> A -> bool.",
                      "Definition argmin_gen (list : list A) : res Z :=", "  " + t + ".", "End ARGMIN.", "",
                      "Lemma argmin_gen_is_shape : argmin_gen = argmin_shape.", "Proof. reflexivity. Qed.",
                      "Lemma argmin_gen_is_model : forall l, argmin_gen Z Z.leb l = py_argmin l.", "Proof. rewrite argmin_gen_is_shape. exact argmin_shape_is_model. Qed.",
                      "Lemma cargmin_gen_is_model : forall l, argmin_gen cost cle l = py_cargmin l.", "Proof. rewrite argmin_gen_is_shape. exact cargmin_shape_is_model. Qed.", ""]) + "\n"


GENERATORS["ArgminGen"] = gen_argmin


def gen_seq(repo):
    _check_seq_env(repo)
    rv = SeqTr("revolve", {"l": "l", "cm": "cm", "opt_0": "opt_0", "parameters.uf": "uf"}, {}).block(_seq_function(repo, "revolve", "revolve"), None)
    dk = SeqTr("disk_revolve", {"l": "l", "cm": "cm", "opt_0": "opt_0", "opt_inf": "opt_inf", "uf": "uf", "rd": "rd", "wd": "wd"}, {"one_read_disk": True}).block(
        _seq_function(repo, "disk_revolve", "disk_revolve"), None)
    pr = SeqTr("periodic_disk_revolve", {"l": "l", "cm": "cm", "opt_0": "opt_0", "uf": "uf", "mx": "mx"}, {"one_read_disk": True}).block(
        _seq_function(repo, "periodic_disk_revolve", "periodic_disk_revolve"), None)
    return "\n".join(["(* GENERATED by harness/translate.py from checkpoint_schedules/hrevolve_sequences/{revolve,disk_revolve,periodic_disk_revolve}.py -- do not edit *)",
                      "From Coq Require Import ZArith List Bool.", "From CS Require Import Actions Ops RevSeq SeqGenSpec.", "Import ListNotations.", "Open Scope Z_scope.", "",
                      "Fixpoint revolve_gen (fuel : nat) (opt_0 : list (list Z)) (uf l cm : Z) : res (list op) :=", "  match fuel with O => Err OutOfFuel | S f =>",
                      "  let sequence : list op := [] in", "  " + rv, "  end.", "",
                      "Fixpoint disk_revolve_gen (fuel : nat) (opt_0 : list (list Z)) (opt_inf : list Z) (uf rd wd l cm : Z) : res (list op) :=", "  match fuel with O => Err OutOfFuel | S f =>",
                      "  let sequence : list op := [] in", "  " + dk, "  end.", "",
                      "Definition periodic_gen (opt_0 : list (list Z)) (uf mx l cm : Z) : res (list op) :=",
                      "  let sequence : list op := [] in", "  " + pr + ".", "",
                      "Lemma periodic_gen_is_shape : periodic_gen = periodic_shape.", "Proof. reflexivity. Qed.",
                      "Lemma periodic_gen_is_model : forall opt_0 uf mx l cm, 1 <= mx -> 0 <= l -> periodic_gen opt_0 uf mx l cm = periodic_body opt_0 uf mx l cm.",
                      "Proof. rewrite periodic_gen_is_shape. exact periodic_shape_is_model. Qed.",
                      "Lemma revolve_gen_is_shape : revolve_gen = revolve_shape.", "Proof. reflexivity. Qed.",
                      "Lemma disk_revolve_gen_is_shape : disk_revolve_gen = disk_revolve_shape.", "Proof. reflexivity. Qed.",
                      "Lemma revolve_gen_is_model : forall fuel opt_0 uf l cm, revolve_gen fuel opt_0 uf l cm = RevSeq.revolve fuel opt_0 uf l cm.",
                      "Proof. rewrite revolve_gen_is_shape. exact revolve_shape_is_model. Qed.",
                      "Lemma disk_revolve_gen_is_model : forall fuel opt_0 opt_inf uf rd wd l cm, disk_revolve_gen fuel opt_0 opt_inf uf rd wd l cm = RevSeq.disk_revolve fuel opt_0 opt_inf uf rd wd l cm.",
                      "Proof. rewrite disk_revolve_gen_is_shape. exact disk_revolve_shape_is_model. Qed.", ""]) + "\n"


GENERATORS["SeqGen"] = gen_seq


if __name__ == "__main__":
    repo = os.environ.get("VERIF_REPO", "/repo")
    for name, g in GENERATORS.items():
        try:
            sys.stdout.write(g(repo))
        except Untranslatable as e:
            print("UNTRANSLATABLE %s: %s" % (name, e))
            sys.exit(2)
