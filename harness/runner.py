"""Run the extracted model and the implementation on the same case lines, in parallel chunks, and pair the traces."""
import os
import subprocess
import sys
import concurrent.futures as cf

HERE = os.path.dirname(os.path.abspath(__file__))
VERIF = os.path.dirname(HERE)
DRIVER = os.path.join(VERIF, "coq", "Extract", "model_driver")
PY = "/venv/bin/python"
REPO = os.environ.get("VERIF_REPO", "/repo")


def split_traces(text):
    """'#id' headed blocks -> dict id -> list of lines"""
    out, cur, key = {}, None, None
    for line in text.splitlines():
        if line.startswith("#"):
            key = line[1:]
            cur = []
            out[key] = cur
        elif cur is not None:
            cur.append(line)
    return out


def _run(cmd, text, env=None, timeout=3600):
    p = subprocess.run(cmd, input=text, capture_output=True, text=True, env=env, timeout=timeout)
    return p.returncode, p.stdout, p.stderr


def run_model(chunk):
    code, out, err = _run(["sh", "-c", "ulimit -s unlimited 2>/dev/null; exec " + DRIVER], "\n".join(chunk) + "\n")
    return code, out, err


def run_impl(chunk):
    env = dict(os.environ)
    env.pop("PYTHONOPTIMIZE", None)
    if chunk and ".pyO:" in chunk[0].split(" ", 2)[1]:
        env["PYTHONOPTIMIZE"] = "1"          # python -O: assert statements are compiled away
    env["PYTHONPATH"] = REPO
    env["PYTHONHASHSEED"] = "0"
    env["CHECKPOINT_SCHEDULES_VERIF"] = "1"
    code, out, err = _run([PY, os.path.join(HERE, "impl.py")], "\n".join(chunk) + "\n", env=env)
    return code, out, err


def run_all(cases, jobs=16, chunks_per_job=6):
    """returns (model: id->lines, impl: id->lines, errors: list of str)"""
    n = max(1, jobs * chunks_per_job)
    # contiguous blocks: cases of one component (and neighbouring parameter tuples) run in the same process, so that
    # state leaking from one construction into the next (C15) has a chance to show
    # ... except the cold-start cases (component name ending in .cold), which each get a process of their own
    # ... and the cases of components ending in .pyO, which run together in an interpreter started with assertions disabled
    cold = [l for l in cases if ".cold:" in l.split(" ", 2)[1]]
    pyo = [l for l in cases if ".pyO:" in l.split(" ", 2)[1]]
    # ... and the cases of a component ending in .seq, which run one after the other, in the order generated, in a process of their own
    seqs = {}
    for l in cases:
        cid = l.split(" ", 2)[1]
        if ".seq:" in cid:
            seqs.setdefault(cid.split(":")[0], []).append(l)
    cases = [l for l in cases if ".cold:" not in l.split(" ", 2)[1] and ".pyO:" not in l.split(" ", 2)[1] and ".seq:" not in l.split(" ", 2)[1]]
    size = max(1, -(-len(cases) // n))
    chunks = [cases[i:i + size] for i in range(0, len(cases), size)] + [[l] for l in cold] + ([pyo] if pyo else []) + list(seqs.values())
    model, impl, errors = {}, {}, []
    with cf.ThreadPoolExecutor(max_workers=jobs) as ex:
        futs = {}
        for c in chunks:
            # I lines (interleaved objects) go to the implementation only; their per-object S lines to the model only
            cm = [l for l in c if not l.startswith("I ")]
            ci = [l for l in c if not l.startswith("S inter.")]
            if cm:
                futs[ex.submit(run_model, cm)] = ("model", cm)
            if ci:
                futs[ex.submit(run_impl, ci)] = ("impl", ci)
        for f in cf.as_completed(futs):
            side, c = futs[f]
            try:
                code, out, err = f.result()
            except Exception as e:  # noqa
                errors.append("%s chunk failed: %r" % (side, e))
                continue
            if code != 0:
                errors.append("%s chunk exit %d: %s" % (side, code, err.strip()[-400:]))
            (model if side == "model" else impl).update(split_traces(out))
    return model, impl, errors


if __name__ == "__main__":
    cases = [l for l in open(sys.argv[1]).read().splitlines() if l.strip()]
    import time
    t = time.time()
    model, impl, errors = run_all(cases)
    print("ran", len(cases), "cases in %.1fs" % (time.time() - t), "errors:", errors[:3])
    bad = 0
    for line in cases:
        cid = line.split()[1]
        if model.get(cid) != impl.get(cid):
            bad += 1
            if bad <= int(sys.argv[2]) if len(sys.argv) > 2 else 10:
                print("MISMATCH", line)
                a, b = model.get(cid), impl.get(cid)
                if a is None or b is None:
                    print("   missing:", "model" if a is None else "impl")
                    continue
                for i in range(max(len(a), len(b))):
                    x = a[i] if i < len(a) else "<end>"
                    y = b[i] if i < len(b) else "<end>"
                    if x != y:
                        print("   line", i, "\n     model:", x, "\n     impl: ", y)
                        break
    print("mismatches:", bad)
