"""Per-property configuration: which correspondence components a property depends on, how trace lines are projected
before model and implementation are compared for that property, and the property's oracle on implementation traces."""
import re

ALL_STREAM = ["stream.", "hist.", "ctor."]


def parse_line(l):
    """-> (kind, outcome/result, obs dict) ; kind in N F O CTOR MON VAL"""
    if l.startswith("N ") or l.startswith("F "):
        head, _, obs = l.partition(" | ")
        return l[0], head[2:], dict(kv.split("=", 1) for kv in obs.split())
    if l.startswith("O "):
        return "O", None, dict(kv.split("=", 1) for kv in l[2:].split())
    if l.startswith("MON "):
        parts = l.split()
        return "MON", parts[1], dict(kv.split("=", 1) for kv in parts[2:])
    if l.startswith("CTOR "):
        return "CTOR", l[5:], {}
    return "RAW", l, {}


def proj(fields=(), mon=None, fin=False, obs0=False, finfields=("n", "r", "m")):
    """projection keeping the outcome of every N line, the listed observer fields, optionally F lines, and of the
    MON line its status plus the listed keys (mon=None drops the MON line, mon='*' keeps it whole)"""
    def f(lines):
        out = []
        for l in lines:
            k, o, d = parse_line(l)
            if k == "N":
                out.append("N " + o + "".join(" %s=%s" % (x, d.get(x)) for x in fields))
            elif k == "F":
                if fin:
                    out.append("F " + o + "".join(" %s=%s" % (x, d.get(x)) for x in finfields))
            elif k == "O":
                if obs0:
                    out.append("O" + "".join(" %s=%s" % (x, d.get(x)) for x in fields))
            elif k == "MON":
                if mon == "*":
                    out.append(l)
                elif mon is not None:
                    out.append("MON " + (o + " " if "status" in mon else "") + " ".join("%s=%s" % (x, d.get(x)) for x in mon if x != "status"))
            else:
                out.append(l)
        return out
    return f


FULL = lambda lines: list(lines)  # noqa

PROPS = {
    "C01": dict(comps=["stream.", "inter."], project=proj(mon="*")),
    "C02": dict(comps=["stream.", "inter."], project=proj(mon="*")),
    "C03": dict(comps=["stream.", "inter."], project=proj(mon="*")),
    "C04": dict(comps=["stream.", "inter."], project=proj(mon="*")),
    "C05": dict(comps=["stream.multistage", "stream.revolve", "fn.n_advance", "fn.optimal_extra_steps", "fn.optimal_steps_binomial"],
                project=proj(mon=("status", "fwd")), drop_actions=True),
    "C06": dict(comps=["stream.mixed", "fn.optimal_steps_mixed", "fn.mixed_step_memoization"], project=proj(mon=("status", "fwd")), drop_actions=True),
    "C07": dict(comps=["stream.revolve", "stream.disk", "stream.periodic", "stream.hrevolve", "fn.get_opt_0_table", "fn.get_opt_inf_table",
                       "fn.get_hopt_table", "fn.argmin", "seq."], project=proj(mon=("fwd", "dw", "dr")), drop_actions=True),
    "C08": dict(comps=["stream.", "hist.", "inter."], project=proj(fields=("n", "r", "m"), mon=("status",), fin=True, obs0=True)),
    "C09": dict(comps=["stream.", "hist."], project=proj(fields=("x", "run"), obs0=True, fin=True, finfields=("x", "run"))),
    "C10": dict(comps=["hist.", "stream.basic", "stream.twolevel"], project=proj(fields=(), fin=True)),
    "C11": dict(comps=["stream.", "hist.", "ctor."], project=proj(fields=("u",), obs0=True, fin=True, finfields=("u",))),
    "C12": dict(comps=["stream.", "inter."], project=proj(mon="*")),
    "C13": dict(comps=["stream.twolevel", "hist.twolevel", "fn.n_advance"], project=proj(mon="*")),
    "C14": dict(comps=["stream.multistage", "fn.allocate_snapshots"], project=proj(mon="*")),
    "C15": dict(comps=["hist.", "inter.", "fresh.", "stream.multistage", "stream.mixed", "fn.allocate_snapshots"],
                project=proj(fields=("n", "r", "m", "x", "run"), mon="*", fin=True, obs0=True, finfields=("n", "r", "m", "x", "run"))),   # everything but uses_storage_type
    "C16": dict(comps=["stream.mixed", "ctor.mixed", "hist.mixed", "fn.mixed_steps_tabulation", "fn.mixed_step_memoization"], project=proj()),
    "C17": dict(comps=["ctor.", "stream."], project=proj()),
    "C18": dict(comps=["stream.", "hist.", "val.", "inter."], project=lambda ls: [l for l in proj()(ls)]),
    "C19": dict(comps=["stream.periodic", "seq.periodic", "fn.mxrr_close_formula", "fn.beta"], project=proj(mon="*")),
}


def depends(pid, cid):
    return any(cid.startswith(c) for c in PROPS[pid]["comps"])


def project(pid, cid, lines):
    if lines is None:
        return None
    p = PROPS[pid]
    out = p["project"](lines)
    if p.get("drop_actions") and not cid.startswith("fn.") and not cid.startswith("seq."):
        out = [l for l in out if not l.startswith("N ")]
    return out
