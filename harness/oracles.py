"""Property oracles evaluated on the implementation's traces (never on the model's).  They find the concrete failing
input when a theorem or the correspondence no longer checks, and re-observe known findings.  Support, never the claim."""
import functools
from math import comb
from props import parse_line
from oracle import ERR_PROPERTY, Monitor

D8_CLASSES = ("disk", "periodic", "hrevolve")


def case_info(line):
    t = line.split()
    cid = t[1]
    if t[0] != "S":
        return dict(kind="V", cid=cid, fn=t[2], args=t[3:])
    bars = [i for i, x in enumerate(t) if x == "|"]
    ps = t[2:bars[0]]
    xp = t[bars[0] + 1:bars[1]]
    ops = t[bars[1] + 1:]
    return dict(kind="S", cid=cid, ps=ps, cls=ps[0], N=int(xp[0]), keep=xp[1] == "1",
                bram=None if xp[2] == "-" else int(xp[2]), bdisk=None if xp[3] == "-" else int(xp[3]), ops=ops)


def actions_of(trace):
    """[(action text, obs dict)] for yielded actions, in order"""
    out = []
    for l in trace:
        k, o, d = parse_line(l)
        if k == "N" and o.startswith("Y:"):
            out.append((o[2:], d))
    return out


def parse_action(s):
    if s in ("EF", "ER"):
        return (s,)
    k, rest = s[0], s[2:-1].split(",")
    if k == "F":
        return ("F", int(rest[0]), int(rest[1]), rest[2] == "T", rest[3] == "T", rest[4])
    if k == "R":
        return ("R", int(rest[0]), int(rest[1]), rest[2] == "T")
    return (k, int(rest[0]), rest[1], rest[2])


def mon_of(trace):
    for l in trace:
        if l.startswith("MON "):
            k, o, d = parse_line(l)
            return o, d
    return None, {}


def obs_int(v):
    try:
        return int(v)
    except Exception:  # noqa
        return None


def rerun_monitor(info, acts, repair_d8=False, lenient=False):
    """run the Python reference executor over a list of (text, obs); optionally with the D8 repair applied to the stream:
    a Copy(p, DISK, WORK) that is the last access of DISK checkpoint p and is immediately followed by
    Forward(p, _, True, False, RAM) is read as a Move."""
    parsed = [parse_action(a) for a, _ in acts]
    as_move = set()
    if repair_d8:
        last_access = {}
        for i, a in enumerate(parsed):
            if a[0] in ("C", "M") and a[2] == "DISK":
                last_access[a[1]] = i
            if a[0] == "F" and a[5] == "DISK" and (a[3] or a[4]):
                last_access[a[1]] = i
        for p, i in last_access.items():
            a = parsed[i]
            if a[0] == "C" and a[3] == "WORK" and i + 1 < len(parsed):
                b = parsed[i + 1]
                if b[0] == "F" and b[1] == p and b[3] and not b[4] and b[5] == "RAM":
                    as_move.add(i)
    m = Monitor(info["N"], info["keep"], info["bram"], info["bdisk"], lenient=lenient)
    for i, ((txt, d), a) in enumerate(zip(acts, parsed)):
        if i in as_move:
            a = ("M",) + a[1:]
        mx = d.get("m")
        m.step(a, obs_int(d.get("n")), obs_int(d.get("r")), None if mx == "None" else obs_int(mx), d.get("x") == "T")
    return m, as_move


# ---------------------------------------------------------------- executor-level findings (C01-C04, C08, C12, C18)
def executor_findings(cases, impl):
    """-> list of dict(pid, cid, line, err, index, d8): per case, the first error of each property, found by running
    the reference executor leniently over the implementation's stream (a violation of one property must not hide a
    later violation of another).  d8 = the error disappears under the D8 repair of the stream (known finding)."""
    out = []
    for line in cases:
        if not line.startswith("S "):
            continue
        info = case_info(line)
        cid = info["cid"]
        if not (cid.startswith("stream.") or cid.startswith("inter.")):
            continue
        tr = impl.get(cid)
        if not tr:
            continue
        st, _ = mon_of(tr)
        if st is None or st == "ok":
            continue
        if cid.startswith("inter."):
            # an object of an interleaved case: the failing input is the whole case (the I line), not the object alone
            il = next((l for l in cases if l.startswith("I " + cid.split("/")[0] + " ")), None)
            if il is None and not any(l.startswith("I ") for l in cases):
                il = line
            if il is None:
                continue
            sline, line = line, il
        acts = actions_of(tr)
        try:
            m1, _ = rerun_monitor(info, acts, lenient=True)
        except Exception:  # noqa  (non-canonical action text: reported by the C18 oracle)
            continue
        raw = m1.errors
        first_raw = raw[0] if raw else None
        rep_codes = None
        if info["cls"] == "rev" and info["ps"][1] in D8_CLASSES:
            m2, moved = rerun_monitor(info, acts, repair_d8=True, lenient=True)
            if moved:
                rep_codes = set(e for e, _ in m2.errors)
        seen = set()
        for e, idx in raw:
            pid = ERR_PROPERTY.get(e, "C01")
            if pid in seen:
                continue
            seen.add(pid)
            d8 = rep_codes is not None and e in ("E_leftover", "E_budget_DISK") and e not in rep_codes
            f = dict(pid=pid, cid=cid, line=line, err=e, index=idx, d8=d8)
            if cid.startswith("inter."):
                f["sline"] = sline          # the object's own parameters (known-findings are matched on these)
                f["what"] = "object %s of this interleaved case: %s at action %d of its stream" % (cid.split("/")[1], e, idx)
                out.append(f)
                continue
            if first_raw is not None and (e, idx) != first_raw:
                f["what"] = "%s at action %d (executor run leniently; an earlier requirement already failed: %s at action %d)" % (e, idx, first_raw[0], first_raw[1])
            else:
                f["what"] = "%s at action %d" % (e, idx)
            out.append(f)
    return out


# ---------------------------------------------------------------- closed forms / clean DPs (independent of the library)
def beta(s, t):
    return comb(s + t, s) if t >= 0 and s >= 0 else 0


def gw_extra(n, s):
    """Griewank-Walther optimum number of extra forward steps for n steps and s checkpoints (closed form)"""
    if n <= 1:
        return 0
    s = min(s, n - 1)
    t = 0
    while beta(s, t) < n:
        t += 1
    return t * n - beta(s + 1, t - 1)


@functools.lru_cache(maxsize=None)
def mixed_opt(n, s):
    """optimum of the mixed recurrence (Maddison 2024), written from the paper's recurrence"""
    s = min(s, n - 1)
    if n <= s + 1:
        return n
    if s == 1:
        return n * (n + 1) // 2 - 1
    best = 1 + mixed_opt(n - 1, s - 1)
    for i in range(2, n):
        best = min(best, i + mixed_opt(i, s) + mixed_opt(n - i, s - 1))
    return best


def fail(pid, info, line, what, err):
    return dict(pid=pid, cid=info["cid"], line=line, err=err, what=what, d8=False)


def oracle_steps(cases, impl):
    """C05 / C06: forward totals of complete, accepted streams"""
    out = []
    for line in cases:
        if not line.startswith("S stream."):
            continue
        info = case_info(line)
        tr = impl.get(info["cid"])
        if not tr:
            continue
        st, d = mon_of(tr)
        pid_cls = "C06" if info["cls"] == "mixed" else ("C05" if info["cls"] == "multi" or (info["cls"] == "rev" and info["ps"][1] == "revolve") else None)
        if pid_cls and in_domain(info) and any(o[0] in "rlLb" for o in info["ops"]):
            # the property speaks about the forward total of a full pass: valid parameters that give no complete pass (an exception at
            # construction or at a request, before the first EndReverse) perform no optimal pass at all
            exc = tr[0] if tr[0].startswith("CTOR EXC") else next((o for k, o, _ in (parse_line(l) for l in tr if l.startswith("N ")) if o.startswith("EXC")), None)
            done = any(parse_line(l)[1] == "Y:ER" for l in tr if l.startswith("N "))
            if exc and not done:
                out.append(fail(pid_cls, info, line, "valid parameters, but no complete pass whose forward total could be optimal: %s" % exc, "no_pass"))
                continue
        if st != "ok" or d.get("passes") != "1":
            continue
        fwd, N = int(d["fwd"]), info["N"]
        if info["cls"] == "multi":
            s = min(int(info["ps"][2]), N - 1) + min(int(info["ps"][3]), N - 1)
            want = N + gw_extra(N, s)
            if fwd != want:
                out.append(fail("C05", info, line, "forward steps %d, Griewank-Walther optimum %d" % (fwd, want), "steps"))
        elif info["cls"] == "rev" and info["ps"][1] == "revolve":
            want = N + gw_extra(N, int(info["ps"][3]))
            if fwd != want:
                out.append(fail("C05", info, line, "forward steps %d, Griewank-Walther optimum %d" % (fwd, want), "steps"))
        elif info["cls"] == "mixed":
            want = mixed_opt(N, max(int(info["ps"][2]), 0)) if N >= 1 else None
            if want is not None and fwd != want:
                out.append(fail("C06", info, line, "forward steps %d, mixed optimum %d" % (fwd, want), "steps"))
    for line in cases:
        if line.startswith("V fn.optimal_steps_binomial") or line.startswith("V fn.optimal_extra_steps") or line.startswith("V fn.optimal_steps_mixed"):
            info = case_info(line)
            tr = impl.get(info["cid"])
            if not tr or tr[0].startswith("EXC"):
                continue
            n, s = int(info["args"][0]), int(info["args"][1])
            if n < 1 or s < min(1, n - 1):
                continue
            if info["fn"] == "osm":
                want, pid = mixed_opt(n, s), "C06"
            else:
                want, pid = gw_extra(n, s) + (n if info["fn"] == "osb" else 0), "C05"
            if tr[0] != str(want):
                out.append(fail(pid, info, line, "%s(%d,%d) = %s, optimum %d" % (info["fn"], n, s, tr[0], want), "helper"))
    return out


# ---------------------------------------------------------------- C09 flags / conclusion, C02 nothing after the end
def oracle_flags(cases, impl):
    out = []
    for line in cases:
        if not line.startswith("S "):
            continue
        info = case_info(line)
        cid = info["cid"]
        if not (cid.startswith("stream.") or cid.startswith("hist.")):
            continue
        tr = impl.get(cid)
        if not tr or tr[0].startswith("CTOR"):
            continue
        cls = info["cls"]
        multi_pass = cls in ("mem", "two") or (cls == "disk" and info["ps"][1] == "0")
        final = "EF" if cls == "none" else "ER"
        done = False
        nexts = 0
        raised = False
        for i, l in enumerate(tr):
            k, o, d = parse_line(l)
            if k == "O":
                if d.get("run") != "F":
                    out.append(fail("C09", info, line, "is_running is %s before the first action is requested" % d.get("run"), "is_running"))
                    break
                if d.get("x") != "F":
                    out.append(fail("C09", info, line, "is_exhausted is %s before any action" % d.get("x"), "is_exhausted"))
                    break
            if k == "F" and nexts == 0 and d.get("run") != "F":
                out.append(fail("C09", info, line, "is_running true before the first next()", "is_running"))
                break
            if k in ("N", "F") and nexts > 0 and d.get("run") != "T":
                out.append(fail("C09", info, line, "is_running is %s after an action was requested (line %d)" % (d.get("run"), i), "is_running"))
                break
            if k == "F" and d.get("x") != ("T" if done else "F"):
                # a finalize call emits nothing: is_exhausted still says whether the final action has been emitted
                out.append(fail("C09", info, line, "is_exhausted is %s right after a finalize call (line %d) although the final action has%s been emitted"
                                % (d.get("x"), i, "" if done else " not"), "is_exhausted_finalize"))
                break
            if k != "N":
                continue
            nexts += 1
            if d.get("run") != "T":
                out.append(fail("C09", info, line, "is_running is %s after next() (line %d)" % (d.get("run"), i), "is_running"))
                break
            if o.startswith("EXC"):
                raised = True
                continue
            if done and not multi_pass:
                if o != "STOP":
                    out.append(fail("C02" if o.startswith("Y:") else "C09", info, line, "%s after the final action (line %d)" % (o, i), "after_end"))
                    break
                if d.get("x") != "T":
                    out.append(fail("C09", info, line, "is_exhausted False after the final action (line %d)" % i, "is_exhausted"))
                    break
                continue
            if o == "STOP":
                if not raised and not done:
                    out.append(fail("C09", info, line, "StopIteration before the final action (line %d)" % i, "early_stop"))
                    break
                continue
            is_final = (o == "Y:" + final) and not multi_pass
            want = "T" if is_final else "F"
            if d.get("x") != want:
                out.append(fail("C09", info, line, "is_exhausted is %s at %s (line %d), expected %s" % (d.get("x"), o, i, want), "is_exhausted"))
                break
            if is_final:
                done = True
        # repeated passes are exact repeats (multi-pass classes, stream.* cases run >= 2 passes)
        if multi_pass and cid.startswith("stream."):
            acts = [a for a, _ in actions_of(tr)]
            # "arbitrarily many": a further calculation that breaks off with an exception is not a repeat of the first
            outs = [parse_line(l)[1] for l in tr if l.startswith("N ")]
            if in_domain(info) and "Y:EF" in outs:
                exc = next((o for o in outs[outs.index("Y:EF"):] if o.startswith("EXC")), None)
                if exc:
                    out.append(fail("C09", info, line, "adjoint calculation %d breaks off with %s: this class permits arbitrarily many calculations, each a repeat of the first"
                                    % (acts[acts.index("EF"):].count("ER") + 1 if "EF" in acts else 1, exc), "pass_breaks_off"))
            if "EF" in acts:
                rest = acts[acts.index("EF") + 1:]
                passes, cur = [], []
                for a in rest:
                    cur.append(a)
                    if a == "ER":
                        passes.append(cur)
                        cur = []
                for j in range(1, len(passes)):
                    if passes[j] != passes[0]:
                        out.append(fail("C09", info, line, "adjoint pass %d differs from pass 1" % (j + 1), "repeat"))
                        break
                # ... and executable: no requirement of the reference executor fails after the first EndReverse
                st, _ = mon_of(tr)
                if st not in (None, "ok") and "ER" in acts:
                    first_er = acts.index("ER")
                    try:
                        m1, _ = rerun_monitor(info, actions_of(tr), lenient=True)
                        later = [(e, i) for e, i in m1.errors if i > first_er]
                    except Exception:  # noqa
                        later = []
                    if later:
                        out.append(fail("C09", info, line, "a repeated adjoint calculation is not executable: %s at action %d (first EndReverse is action %d)"
                                        % (later[0][0], later[0][1], first_er), "repeat_not_executable"))
    return out


# ---------------------------------------------------------------- C10 finalize
def oracle_finalize(cases, impl):
    out = []
    for line in cases:
        if not line.startswith("S "):
            continue
        info = case_info(line)
        tr = impl.get(info["cid"])
        if not tr or tr[0].startswith("CTOR"):
            continue
        # second pass with op alignment: ops and N/F lines correspond one to one unless a run op is present
        if any(o[0] in "rlLb" for o in info["ops"]):
            continue
        lines = [l for l in tr if l[0] in "NF" and l[1] == " "]
        state = parse_line(tr[0])[2]
        expect_ef = False
        for op, l in zip(info["ops"], lines):
            k, o, d = parse_line(l)
            if op[0] in "fg":
                kk = int(op[1:])
                n0, m0 = int(state["n"]), state["m"]
                if kk < 1:
                    want, new = "EXC:ValueError", state
                elif m0 == "None":
                    if n0 >= kk:
                        want, new = "ok", dict(state, n=str(kk), m=str(kk))
                        expect_ef = True
                    else:
                        want, new = "EXC:RuntimeError", state
                else:
                    if n0 == kk and int(m0) == kk:
                        want, new = "ok", state
                    else:
                        want, new = "EXC:RuntimeError", state
                got = (o, d["n"], d["r"], d["m"])
                exp = (want, new["n"], new["r"], new["m"])
                if got != exp:
                    out.append(fail("C10", info, line, "finalize(%d) with n=%s max_n=%s gave %s, expected %s" % (kk, state["n"], m0, got, exp), "finalize"))
                    break
            else:
                if expect_ef and o != "Y:EF":   # a yield of something else, an exception or StopIteration
                    out.append(fail("C10", info, line, "after a successful finalize the next request gives %s, not EndForward" % o, "next_endforward"))
                    break
                expect_ef = False
            state = d
    return out


# ---------------------------------------------------------------- C11 uses_storage_type
def oracle_uses(cases, impl):
    out = []
    for line in cases:
        if not line.startswith("S "):
            continue
        info = case_info(line)
        tr = impl.get(info["cid"])
        if not tr or tr[0].startswith("CTOR"):
            continue
        touched = set()
        for a, d in actions_of(tr):
            p = parse_action(a)
            if p[0] == "F" and p[5] in ("RAM", "DISK") and (p[3] or p[4]):
                touched.add(p[5])
            if p[0] in ("C", "M"):
                for s in (p[2], p[3]):
                    if s in ("RAM", "DISK"):
                        touched.add(s)
        for l in tr:
            k, o, d = parse_line(l)
            if k in ("O", "N", "F"):
                u = d.get("u", "").split(",")
                if len(u) != 4:
                    continue
                bad = [x for x in u if x.startswith("E") or x.startswith("?")]
                if bad:
                    out.append(fail("C11", info, line, "uses_storage_type raised / returned %s" % bad, "raises"))
                    break
                miss = [s for s, x in zip(("RAM", "DISK"), u[:2]) if s in touched and x != "T"]
                if miss:
                    out.append(fail("C11", info, line, "stream touches %s but uses_storage_type is %s" % (miss, u[:2]), "under_report"))
                    break
    return out


# ---------------------------------------------------------------- C17 constructor box
def in_domain(info):
    cls, ps = info["cls"], info["ps"]
    if cls == "multi":
        n, ram, disk = int(ps[1]), int(ps[2]), int(ps[3])
        return n >= 1 and ram >= 0 and disk >= 0 and (n == 1 or ram + disk >= 1)
    if cls == "mixed":
        n, s = int(ps[1]), int(ps[2])
        return n >= 1 and s >= 0 and (n == 1 or s >= 1) and ps[3] in ("RAM", "DISK")
    if cls == "two":
        return int(ps[1]) >= 1 and int(ps[2]) >= 0 and ps[3] in ("RAM", "DISK") and info["N"] >= 1
    if cls == "rev":
        n, ram = int(ps[2]), int(ps[3])
        return n >= 1 and ram >= 0 and int(ps[4]) >= 0 and (n == 1 or ram >= 1)
    return info["N"] >= 1


def oracle_ctor(cases, impl):
    out = []
    for line in cases:
        if not line.startswith("S "):
            continue
        info = case_info(line)
        cid = info["cid"]
        if not (cid.startswith("ctor.") or cid.startswith("stream.")):
            continue
        tr = impl.get(cid)
        if not tr:
            continue
        dom = in_domain(info)
        ns = [parse_line(l) for l in tr if l.startswith("N ")]
        if tr[0].startswith("CTOR"):
            if dom:
                out.append(fail("C17", info, line, "valid parameters rejected at construction: %s" % tr[0], "valid_rejected"))
            continue
        yielded = False
        for k, o, d in ns:
            if o.startswith("EXC"):
                if yielded:
                    out.append(fail("C17", info, line, "%s raised after an action had been emitted" % o, "late_raise"))
                elif dom:
                    out.append(fail("C17", info, line, "valid parameters raise %s at the first next()" % o, "valid_rejected"))
                break
            if o.startswith("Y:"):
                yielded = True
        else:
            if not dom and yielded:
                out.append(fail("C17", info, line, "parameters outside the documented domain produced actions", "invalid_accepted"))
            if dom and cid.startswith("stream.") and info["cls"] not in ("none",) and any(o[0] in "rlL" for o in info["ops"]):   # (a run was asked for)
                st, d = mon_of(tr)
                if not any(o == "Y:ER" for k, o, _ in ns):
                    out.append(fail("C17", info, line, "valid parameters did not yield a complete stream", "incomplete"))
    return out


# ---------------------------------------------------------------- C08 on histories: r counts the reversed steps
def oracle_r_hist(cases, impl):
    """C08, the part that needs no executor: `r` read after any request or finalize call equals the number of steps reversed
    since the adjoint calculation began (reset at an EndReverse after which another pass is permitted); a finalize call
    never changes it.  Judged on hist.* cases (the stream.* cases go through the monitor's M_r)."""
    out = []
    for line in cases:
        if not line.startswith("S hist."):
            continue
        info = case_info(line)
        tr = impl.get(info["cid"])
        if not tr or tr[0].startswith("CTOR"):
            continue
        rr = 0
        for i, l in enumerate(tr):
            k, o, d = parse_line(l)
            if k not in ("N", "F"):
                continue
            if k == "N":
                if o.startswith("EXC"):
                    break
                if o.startswith("Y:"):
                    try:
                        a = parse_action(o[2:])
                    except Exception:  # noqa
                        break
                    if a[0] == "R":
                        rr += a[1] - a[2]
                    elif a[0] == "ER" and d.get("x") != "T":
                        rr = 0
            r = obs_int(d.get("r"))
            if r is not None and r != rr:
                out.append(fail("C08", info, line, "r is %d after %s (line %d) although %d step(s) have been reversed in this adjoint calculation"
                                % (r, "a finalize call" if k == "F" else o, i, rr), "r_hist"))
                break
    return out


# ---------------------------------------------------------------- C19: the period equals the closed form, on the helper itself
def oracle_mxrr(cases, impl):
    out = []
    for line in cases:
        if not line.startswith("V fn.mxrr_close_formula"):
            continue
        info = case_info(line)
        tr = impl.get(info["cid"])
        if not tr:
            continue
        cm, uf, rd, wd = (int(x) for x in info["args"][:4])
        if cm < 0 or uf <= 0 or wd + rd < 0:
            continue
        t = 0
        while comb(cm + 1 + t, t) * uf <= wd + rd:
            t += 1
        want = comb(cm + t, t)
        if tr[0] != str(want):
            out.append(fail("C19", info, line, "mxrr_close_formula(cm=%d, uf=%d, rd=%d, wd=%d) = %s, the closed form gives %d" % (cm, uf, rd, wd, tr[0], want), "period"))
    return out


# ---------------------------------------------------------------- C16 on single entries (V tabmemo n s)
def oracle_tabmemo(cases, impl):
    out = []
    for line in cases:
        if line.startswith("V fn.mixed_step_memoization"):
            info = case_info(line)
            tr = impl.get(info["cid"])
            if info["fn"] == "memosweep" and tr and "err=none" not in tr[0] and " tab=(" in tr[0]:
                out.append(fail("C16", info, line, "the memoised planner fails where the tabulated planner has an entry: %s" % tr[0], "memo_fails"))
            continue
        if not line.startswith("V fn.mixed_steps_tabulation"):
            continue
        info = case_info(line)
        if info["fn"] != "tabmemo":
            continue
        tr = impl.get(info["cid"])
        if not tr:
            continue
        parts = tr[0].split()
        if len(parts) != 2 or parts[0] != parts[1]:
            out.append(fail("C16", info, line, "tabulated and memoised planner disagree at (%s, %s): %s" % (info["args"][0], info["args"][1], tr[0]), "entry"))
    return out


# ---------------------------------------------------------------- C05 / C13 on the helper: the advance n_advance returns is optimal
def oracle_nadv(cases, impl):
    """n_advance(n, s) = a is a first advance of a step-optimal schedule iff
    E(n, s) = a + E(a, s) + E(n - a, s - 1), E = the Griewank-Walther closed form (s = min(s, n - 1); s = 1: a = n - 1)."""
    out = []
    for line in cases:
        if not line.startswith("V fn.n_advance"):
            continue
        info = case_info(line)
        tr = impl.get(info["cid"])
        if not tr or tr[0].startswith("EXC") or tr[0].startswith("?"):
            continue
        n, s = int(info["args"][0]), int(info["args"][1])
        if n < 2 or s < 1:
            continue
        try:
            a = int(tr[0])
        except ValueError:
            continue
        s = min(s, n - 1)
        if s == 1:
            ok = a == n - 1
        else:
            ok = 1 <= a <= n - 1 and gw_extra(n, s) == a + gw_extra(a, s) + gw_extra(n - a, s - 1)
        if not ok:
            for pid in ("C05", "C13"):
                out.append(fail(pid, info, line, "n_advance(%d, %s, %s) = %d is not the first advance of a step-optimal schedule (E(n,s) = %d)"
                                % (n, info["args"][1], info["args"][2], a, gw_extra(n, s)), "advance"))
    return out


# ---------------------------------------------------------------- C02, pass structure read directly off the stream
def oracle_passes(cases, impl):
    """C02 as stated, independent of the executor's exhaustion bookkeeping: after EndForward, every EndReverse closes an
    adjoint calculation whose Reverse actions covered N-1 .. 0 contiguously, each step once (so no empty pass either);
    before EndForward no Reverse / EndReverse; EndForward once.  Only complete passes are judged (a trace may be cut)."""
    out = []
    for line in cases:
        if not line.startswith("S stream."):
            continue
        info = case_info(line)
        tr = impl.get(info["cid"])
        if not tr or tr[0].startswith("CTOR"):
            continue
        N = info["N"]
        seen_ef, pos, npass = 0, None, 0
        for idx, (a, d) in enumerate(actions_of(tr)):
            try:
                p = parse_action(a)
            except Exception:  # noqa
                break
            what = None
            if p[0] == "EF":
                seen_ef += 1
                pos = N
                if seen_ef > 1:
                    what = "EndForward emitted twice"
            elif p[0] == "R":
                if not seen_ef:
                    what = "Reverse before EndForward"
                elif p[1] != pos or not p[2] < p[1]:
                    what = "Reverse(%d,%d) where the adjoint stands at %s" % (p[1], p[2], pos)
                else:
                    pos = p[2]
            elif p[0] == "ER":
                if not seen_ef:
                    what = "EndReverse before EndForward"
                elif pos != 0:
                    what = "EndReverse of adjoint calculation %d with the adjoint at step %s, not 0" % (npass + 1, pos)
                npass += 1
                pos = N
            if what:
                out.append(fail("C02", info, line, what + " (action %d)" % idx, "passes"))
                break
        else:
            # a stream of valid parameters that breaks off with an exception: the forward never reaches EndForward, or an adjoint
            # calculation stops above step 0 -- steps that are never reversed
            if in_domain(info) and any(o[0] in "rlLb" for o in info["ops"]):
                exc = next(((i, o) for i, (k, o, _) in enumerate(parse_line(l) for l in tr if l.startswith("N ")) if o.startswith("EXC")), None)
                if exc is not None:
                    where = "before EndForward" if not seen_ef else ("in adjoint calculation %d with the adjoint at step %s: steps below it are never reversed" % (npass + 1, pos))
                    out.append(fail("C02", info, line, "%s %s (request %d)" % (exc[1], where, exc[0]), "broken_off"))
                elif any(parse_line(l)[1] == "STOP" for l in tr if l.startswith("N ")):
                    # ... or that simply stops (StopIteration) before EndForward, in the middle of an adjoint calculation, or after
                    # EndForward without the adjoint calculation every class but NoneCheckpointSchedule permits
                    if not seen_ef:
                        out.append(fail("C02", info, line, "StopIteration before EndForward: the forward calculation is never concluded", "stopped_short"))
                    elif pos not in (N, 0) or (npass == 0 and info["cls"] != "none"):
                        out.append(fail("C02", info, line, "StopIteration with the adjoint at step %s in adjoint calculation %d: steps below it are never reversed" % (pos, npass + 1), "stopped_short"))
    return out


# ---------------------------------------------------------------- C18 value checks come from impl.py as VAL lines
def oracle_values(cases, impl):
    out = []
    for line in cases:
        info = case_info(line)
        tr = impl.get(info["cid"])
        if not tr:
            continue
        for l in tr:
            if l.startswith("VAL "):
                out.append(fail("C18", info, line, l[4:], "value"))
                break
            if l.startswith("N Y:") and "?" in l.split(" | ")[0]:
                out.append(fail("C18", info, line, "field of an unexpected type: " + l.split(" | ")[0], "type"))
                break
            if l.startswith("N Y:"):
                w = malformed(l.split(" | ")[0].split()[1][2:])
                if w:
                    out.append(fail("C18", info, line, w, "malformed"))
                    break
    return out


def malformed(txt):
    """C18, first sentence, on one emitted action (whatever the history it was emitted in); '' when well formed"""
    try:
        a = parse_action(txt)
    except Exception:  # noqa
        return "unparsable action " + txt
    if a[0] == "F":
        _, n0, n1, wi, wa, sg = a
        if not 0 <= n0 < n1:
            return "Forward without 0 <= n0 < n1: " + txt
        if sg in ("RAM", "DISK") and not (wi or wa):
            return "Forward names a checkpoint storage but writes nothing: " + txt
        if sg == "NONE" and (wi or wa):
            return "Forward writes to storage NONE: " + txt
        if sg not in ("RAM", "DISK", "WORK", "NONE"):
            return "Forward storage is not a StorageType: " + txt
    elif a[0] == "R":
        _, n1, n0, _ = a
        if not 0 <= n0 < n1:
            return "Reverse without n1 > n0 >= 0: " + txt
    elif a[0] in ("C", "M"):
        _, n, src, dst = a
        if n < 0 or src not in ("RAM", "DISK") or dst not in ("RAM", "DISK", "WORK", "NONE"):
            return "Copy/Move with a bad step, source or destination: " + txt
    return ""


def all_findings(cases, impl):
    f = []
    f += executor_findings(cases, impl)
    f += oracle_steps(cases, impl)
    f += oracle_flags(cases, impl)
    f += oracle_finalize(cases, impl)
    f += oracle_uses(cases, impl)
    f += oracle_ctor(cases, impl)
    f += oracle_values(cases, impl)
    f += oracle_passes(cases, impl)
    f += oracle_r_hist(cases, impl)
    f += oracle_mxrr(cases, impl)
    f += oracle_tabmemo(cases, impl)
    f += oracle_nadv(cases, impl)
    return f


# ---------------------------------------------------------------- C07: cost optimum of the Revolve family
def stream_cost_vector(tr):
    fwd = dw = dr = 0
    for a, _ in actions_of(tr):
        p = parse_action(a)
        if p[0] == "F":
            fwd += p[2] - p[1]
            if p[5] == "DISK" and (p[3] or p[4]):
                dw += 1
        elif p[0] in ("C", "M"):
            if p[2] == "DISK":
                dr += 1
            if p[3] == "DISK":
                dw += 1
    return fwd, dw, dr


class CleanDP:
    """the three cost recurrences written from the papers (costs in their documented roles); l = N - 1"""
    def __init__(self, uf, ub, wd, rd):
        self.uf, self.ub, self.wd, self.rd = uf, ub, wd, rd
        self._o0 = {}
        self._oi = {}
        self._h = {}

    def opt0(self, m, l):
        if l == 0:
            return self.ub
        if m == 0:
            return float("inf")
        if l == 1:
            return self.uf + 2 * self.ub
        if m == 1:
            return (l + 1) * self.ub + l * (l + 1) // 2 * self.uf
        k = (m, l)
        if k not in self._o0:
            self._o0[k] = min(j * self.uf + self.opt0(m - 1, l - j) + self.opt0(m, j - 1) for j in range(1, l))
        return self._o0[k]

    def optinf(self, cm, l):
        if l == 0:
            return self.ub
        if l == 1:
            return self.uf + 2 * self.ub if cm > 0 else self.wd + self.uf + 2 * self.ub + self.rd
        k = (cm, l)
        if k not in self._oi:
            self._oi[k] = min(self.opt0(cm, l), min(self.wd + j * self.uf + self.optinf(cm, l - j) + self.rd + self.opt0(cm, j - 1)
                                                   for j in range(1, l)))
        return self._oi[k]

    # H-Revolve, K = 2 levels (RAM: w = r = 0; DISK: wd, rd), c = (c0, c1).  optp: x_0 already stored in level k.
    def hopt(self, c0, c1, k, l, m, primed):
        w = (0, self.wd)
        r = (0, self.rd)
        cv = (c0, c1)
        inf = float("inf")
        key = (c0, c1, k, l, m, primed)
        if key in self._h:
            return self._h[key]
        if l == 0:
            v = self.ub
        elif k == 0 and m == 0:
            v = inf
        elif l == 1:
            v = self.uf + 2 * self.ub + r[0] + (0 if primed else w[0])
        elif k == 0:
            if m == 1:
                vp = (l + 1) * self.ub + l * (l + 1) // 2 * self.uf + l * r[0]
            else:
                vp = min([j * self.uf + self.hopt(c0, c1, 0, l - j, m - 1, False) + r[0] + self.hopt(c0, c1, 0, j - 1, m, True)
                          for j in range(1, l)] + [self.hopt(c0, c1, 0, l, 1, True)])
            v = vp if primed else w[0] + vp
        else:
            lower = self.hopt(c0, c1, k - 1, l, cv[k - 1], False)
            if m == 0:
                v = inf if primed else lower
            else:
                vp = min([lower] + [j * self.uf + self.hopt(c0, c1, k, l - j, m - 1, False) + r[k] + self.hopt(c0, c1, k, j - 1, m, True)
                                    for j in range(1, l)])
                v = vp if primed else min(lower, w[k] + vp)
        self._h[key] = v
        return v


def oracle_costs(cases, impl):
    out = []
    dps = {}
    costs = {}          # (kind, N, r, d, costvec) -> cost
    lines = {}
    import sys
    sys.setrecursionlimit(20000)
    for line in cases:
        if not line.startswith("S stream."):
            continue
        info = case_info(line)
        if info["cls"] != "rev":
            continue
        tr = impl.get(info["cid"])
        if not tr or tr[0].startswith("CTOR"):
            continue
        acts = [a for a, _ in actions_of(tr)]
        if not acts or acts[-1] != "ER" or any(l.startswith("N EXC") for l in tr):
            continue
        kind = info["ps"][1]
        N, r, d, uf, ub, wd, rd = (int(x) for x in info["ps"][2:9])
        if N > (60 if kind == "hrevolve" else 420):
            continue
        fwd, dw, dr = stream_cost_vector(tr)
        cost = uf * fwd + ub * N + wd * dw + rd * dr
        key = (uf, ub, wd, rd)
        dp = dps.setdefault(key, CleanDP(uf, ub, wd, rd))
        l = N - 1
        want = None
        if kind == "revolve":
            want = dp.opt0(r, l)
        elif kind == "disk":
            want = dp.optinf(r, l)
        elif kind == "hrevolve":
            want = dp.hopt(r, d, 1, l, d, False)
        # the papers count the stored (taped) forward step inside ub: the stream performs N such steps
        if want is not None and want != float("inf") and cost != want + N * uf:
            out.append(fail("C07", info, line, "stream cost %d (fwd=%d, rev=%d, disk writes=%d, disk reads=%d) but the optimum is %d"
                            % (cost, fwd, N, dw, dr, want + N * uf), "cost"))
        costs[(kind, N, r, d if kind == "hrevolve" else 0, key)] = cost
        lines[(kind, N, r, d if kind == "hrevolve" else 0, key)] = (info, line)
    for (kind, N, r, d, key), cost in costs.items():
        info, line = lines[(kind, N, r, d, key)]
        if kind == "hrevolve" and ("hrevolve", N, r, d + 1, key) in costs and costs[("hrevolve", N, r, d + 1, key)] > cost:
            out.append(fail("C07", info, line, "cost with %d disk units is %d, with %d it is %d" % (d, cost, d + 1, costs[("hrevolve", N, r, d + 1, key)]), "mono_d"))
        if kind == "disk" and ("revolve", N, r, 0, key) in costs and cost > costs[("revolve", N, r, 0, key)]:
            out.append(fail("C07", info, line, "cost(DiskRevolve) %d > cost(Revolve) %d" % (cost, costs[("revolve", N, r, 0, key)]), "disk_le_rev"))
        if kind == "periodic" and ("disk", N, r, 0, key) in costs and cost < costs[("disk", N, r, 0, key)]:
            out.append(fail("C07", info, line, "cost(PeriodicDiskRevolve) %d < cost(DiskRevolve) %d" % (cost, costs[("disk", N, r, 0, key)]), "periodic_ge_disk"))
    return out


# ---------------------------------------------------------------- C13: TwoLevel
def oracle_twolevel(cases, impl):
    out = []
    for line in cases:
        if not line.startswith("S stream.twolevel"):
            continue
        info = case_info(line)
        tr = impl.get(info["cid"])
        if not tr or tr[0].startswith("CTOR"):
            continue
        P, b, bst = int(info["ps"][1]), int(info["ps"][2]), info["ps"][3]
        N = info["N"]
        acts = [parse_action(a) for a, _ in actions_of(tr)]
        if ("EF",) not in acts:
            continue
        iEF = acts.index(("EF",))
        want = [("F", k * P, (k + 1) * P, True, False, "DISK") for k in range(-(-N // P))]
        if acts[:iEF] != want:
            out.append(fail("C13", info, line, "forward phase is %r, expected periodic DISK checkpoints every %d steps" % (acts[:iEF][:4], P), "forward"))
            continue
        passes, cur = [], []
        for a in acts[iEF + 1:]:
            cur.append(a)
            if a == ("ER",):
                passes.append(cur)
                cur = []
        bad = None
        # an adjoint pass of valid parameters that breaks off with an exception recomputes no block (or not all of them) at all
        exc = next((o for k, o, _ in (parse_line(l) for l in tr if l.startswith("N ")) if o.startswith("EXC")), None)
        if exc and in_domain(info) and any(o[0] in "rlLb" for o in info["ops"]):
            out.append(fail("C13", info, line, "pass %d breaks off with %s after %d action(s): its period blocks are not recomputed" % (len(passes) + 1, exc, len(cur)), "broken_off"))
            continue
        for pi, ps in enumerate(passes):
            per_block = {}
            for a in ps:
                if a[0] == "F":
                    blk = a[1] // P
                    per_block[blk] = per_block.get(blk, 0) + (a[2] - a[1])
                    if a[3] and a[5] != bst:
                        bad = "pass %d: extra restart checkpoint of step %d written to %s, binomial storage is %s" % (pi + 1, a[1], a[5], bst)
            for blk in range(-(-N // P)):
                L = min((blk + 1) * P, N) - blk * P
                wantb = L + gw_extra(L, b + 1)
                if per_block.get(blk, 0) != wantb and bad is None:
                    bad = "pass %d: block [%d,%d) recomputed with %d forward steps, binomial optimum for %d steps and %d units is %d" % (
                        pi + 1, blk * P, blk * P + L, per_block.get(blk, 0), L, b + 1, wantb)
        if bad:
            out.append(fail("C13", info, line, bad, "blocks"))
    return out


# ---------------------------------------------------------------- C14: Multistage split
def oracle_split(cases, impl):
    out = []
    groups = {}
    for line in cases:
        if not line.startswith("S stream.multistage"):
            continue
        info = case_info(line)
        tr = impl.get(info["cid"])
        if not tr or tr[0].startswith("CTOR"):
            continue
        N, ram, disk, tj = int(info["ps"][1]), int(info["ps"][2]), int(info["ps"][3]), info["ps"][4]
        acts = [parse_action(a) for a, _ in actions_of(tr)]
        if not acts or acts[-1] != ("ER",):
            continue
        s = min(min(ram, N - 1) + min(disk, N - 1), N - 1)
        erased = [tuple("*" if (isinstance(x, str) and x in ("RAM", "DISK")) else x for x in a) for a in acts]
        groups.setdefault((N, s, tj), []).append((info, line, erased))
        # per stack position: storage and access counts
        depth = -1
        lab = {}
        weight = {}
        bad = None
        for a in acts:
            if a[0] == "F" and a[3]:
                depth += 1
                if lab.setdefault(depth, a[5]) != a[5]:
                    bad = "stack position %d is written to %s after having been %s" % (depth, a[5], lab[depth])
                weight[depth] = weight.get(depth, 0) + 1
            elif a[0] in ("C", "M"):
                if lab.get(depth) != a[2]:
                    bad = "stack position %d read from %s but written to %s" % (depth, a[2], lab.get(depth))
                weight[depth] = weight.get(depth, 0) + 1
                if a[0] == "M":
                    depth -= 1
        nram = sum(1 for v in lab.values() if v == "RAM")
        if bad is None and nram > min(ram, max(N - 1, 0)):
            bad = "%d stack positions are labelled RAM, %d RAM units were declared" % (nram, ram)
        if bad is None:
            disk_traffic = sum(w for dpt, w in weight.items() if lab[dpt] == "DISK")
            k = min(min(ram, max(N - 1, 0)), len(weight))
            best = sum(weight.values()) - sum(sorted(weight.values(), reverse=True)[:k])
            if disk_traffic != best:
                bad = "DISK accesses %d, minimum over all assignments of %d positions to RAM is %d" % (disk_traffic, k, best)
        if bad:
            out.append(fail("C14", info, line, bad, "split"))
    for key, lst in groups.items():
        for info, line, er in lst[1:]:
            if er != lst[0][2]:
                out.append(fail("C14", info, line, "stream differs from the stream of %s by more than storage labels" % " ".join(lst[0][0]["ps"]), "labels_only"))
                break
    return out


# ---------------------------------------------------------------- C16: both Mixed planner paths
def oracle_paths(cases, impl):
    out = []
    seen = {}
    for line in cases:
        if not line.startswith("S "):
            continue
        info = case_info(line)
        if info["cls"] != "mixed":
            continue
        tr = impl.get(info["cid"])
        if tr is None:
            continue
        key = (tuple(info["ps"][1:4]), tuple(info["ops"]), info["cid"].split(":")[0])
        acts = [l.split(" | ")[0] for l in tr if l.startswith("N ") or l.startswith("CTOR")]
        if key in seen and seen[key][0] != info["ps"][4]:
            if seen[key][1] != acts:
                out.append(fail("C16", info, line, "stream on the %s path differs from the %s path" % (info["ps"][4], seen[key][0]), "paths"))
        else:
            seen[key] = (info["ps"][4], acts)
    return out


# ---------------------------------------------------------------- C19: PeriodicDiskRevolve
def oracle_periodic(cases, impl):
    out = []
    for line in cases:
        if not line.startswith("S stream.periodic"):
            continue
        info = case_info(line)
        tr = impl.get(info["cid"])
        if not tr or tr[0].startswith("CTOR"):
            continue
        N, r, d, uf, ub, wd, rd = (int(x) for x in info["ps"][2:9])
        acts = [parse_action(a) for a, _ in actions_of(tr)]
        if not acts or acts[-1] != ("ER",) or ("EF",) not in acts:
            continue
        t = 0
        while beta(r + 1, t) * uf <= wd + rd:
            t += 1
        m = beta(r, t)
        iEF = acts.index(("EF",))
        writes = [a[1] for a in acts[:iEF] if a[0] == "F" and a[5] == "DISK"]
        want = []
        j = 0
        while (N - 1) - j * m > m:
            want.append(j * m)
            j += 1
        bad = None
        if writes != want:
            bad = "disk checkpoints of the forward sweep at %r, expected %r (period %d)" % (writes, want, m)
        late = [a for a in acts[iEF:] if (a[0] == "F" and a[5] == "DISK") or (a[0] in ("C", "M") and a[3] == "DISK")]
        if bad is None and late:
            bad = "DISK written after EndForward: %r" % (late[0],)
        reads = {}
        for a in acts:
            if a[0] in ("C", "M") and a[2] == "DISK":
                reads[a[1]] = reads.get(a[1], 0) + 1
        if bad is None and (sorted(reads) != sorted(want) or any(v != 1 for v in reads.values())):
            bad = "disk checkpoints read %r, each of %r should be read exactly once" % (reads, want)
        if bad is None and N <= 60:
            # each segment is reversed with the memory-only Revolve optimum: the disk segments [j m, (j+1) m) are
            # recomputed in full after EndForward; the final segment [k m, N) was swept (and its last step taped) before it
            k = len(want)
            segs = [(j * m, (j + 1) * m) for j in range(k)] + [(k * m, N)]
            fw = {}
            for a in acts[iEF:]:
                if a[0] == "F":
                    seg = min(a[1] // m, k)
                    fw[seg] = fw.get(seg, 0) + (a[2] - a[1])
            for i, (a0, b0) in enumerate(segs):
                L = b0 - a0
                wantf = (L + gw_extra(L, r)) - (L if i == k else 0)
                if fw.get(i, 0) != wantf:
                    bad = "segment [%d,%d) recomputed with %d forward steps after EndForward, Revolve optimum gives %d" % (a0, b0, fw.get(i, 0), wantf)
                    break
        if bad:
            out.append(fail("C19", info, line, bad, "periodic"))
    return out


_base_all_findings = all_findings


def all_findings(cases, impl):  # noqa: F811
    f = _base_all_findings(cases, impl)
    f += oracle_costs(cases, impl)
    f += oracle_twolevel(cases, impl)
    f += oracle_split(cases, impl)
    f += oracle_paths(cases, impl)
    f += oracle_periodic(cases, impl)
    return f
