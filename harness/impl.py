"""Run case lines (same format as the model driver reads) against the implementation in /repo's working tree and
print the canonical trace.  Usage: impl.py < cases > trace    (PYTHONPATH must point at the repository)."""
import sys
import os
import io
import contextlib
import warnings

sys.path.insert(0, os.path.dirname(os.path.abspath(__file__)))
import canon  # noqa: E402
from oracle import Monitor  # noqa: E402

warnings.simplefilter("ignore")
import checkpoint_schedules as cs  # noqa: E402
from checkpoint_schedules import StorageType  # noqa: E402

mixed_mod = sys.modules["checkpoint_schedules.mixed"]
multistage_mod = sys.modules["checkpoint_schedules.multistage"]
_numba_orig = mixed_mod.numba

TRAJ = {"max": "maximum", "rev": "revolve"}
STG = {"RAM": StorageType.RAM, "DISK": StorageType.DISK, "WORK": StorageType.WORK, "NONE": StorageType.NONE}


def construct(ps):
    k = ps[0]
    mixed_mod.numba = _numba_orig
    if k == "none":
        return cs.NoneCheckpointSchedule()
    if k == "mem":
        return cs.SingleMemoryStorageSchedule()
    if k == "disk":
        return cs.SingleDiskStorageSchedule(move_data=(ps[1] == "1"))
    if k == "two":
        return cs.TwoLevelCheckpointSchedule(int(ps[1]), int(ps[2]), binomial_storage=STG[ps[3]], binomial_trajectory=TRAJ[ps[4]])
    if k == "multi":
        return cs.MultistageCheckpointSchedule(int(ps[1]), int(ps[2]), int(ps[3]), trajectory=TRAJ[ps[4]])
    if k == "mixed":
        # the tabulated planner is the code path taken when numba is importable; without numba installed the
        # module's fallback njit is the identity, so forcing `numba` to a sentinel runs that very function as Python
        mixed_mod.numba = object() if ps[4] == "tab" else None
        obj = cs.MixedCheckpointSchedule(int(ps[1]), int(ps[2]), storage=STG[ps[3]])
        obj._verif_numba = mixed_mod.numba
        return obj
    if k == "rev":
        n, r, d, uf, ub, wd, rd = (int(x) for x in ps[2:9])
        if len(ps) > 9 and int(ps[9]) > 1:     # fractional costs (see gen.rev)
            sc = int(ps[9])
            uf, ub, wd, rd = uf / sc, ub / sc, wd / sc, rd / sc
        if ps[1] == "revolve":
            return cs.Revolve(n, r, uf=uf, ub=ub, wd=wd, rd=rd)
        if ps[1] == "disk":
            return cs.DiskRevolve(n, r, uf=uf, ub=ub, wd=wd, rd=rd)
        if ps[1] == "periodic":
            return cs.PeriodicDiskRevolve(n, r, uf=uf, ub=ub, wd=wd, rd=rd)
        if ps[1] == "hrevolve":
            return cs.HRevolve(n, r, d, uf=uf, ub=ub, wd=wd, rd=rd)
    raise ValueError("params " + " ".join(ps))


def parse_action(s):
    """canonical action text -> tuple for the oracle"""
    if s == "EF" or s == "ER":
        return (s,)
    k, rest = s[0], s[2:-1].split(",")
    if k == "F":
        return ("F", int(rest[0]), int(rest[1]), rest[2] == "T", rest[3] == "T", rest[4])
    if k == "R":
        return ("R", int(rest[0]), int(rest[1]), rest[2] == "T")
    return (k, int(rest[0]), rest[1], rest[2])


def split_bar(t):
    out, cur = [], []
    for x in t:
        if x == "|":
            out.append(cur)
            cur = []
        else:
            cur.append(x)
    out.append(cur)
    return out


class Runner:
    """one schedule object driven op by op"""
    def __init__(self, ident, toks):
        self.out = ["#" + ident]
        ps, xp, ops = split_bar(toks)
        self.ops = list(ops)
        N, keep = int(xp[0]), xp[1] == "1"
        bram = None if xp[2] == "-" else int(xp[2])
        bdisk = None if xp[3] == "-" else int(xp[3])
        self.s = None
        try:
            with contextlib.redirect_stdout(io.StringIO()):
                self.s = construct(ps)
        except Exception as e:  # noqa
            self.out.append("CTOR EXC:" + type(e).__name__)
            self.ops = []
            return
        self.mon = Monitor(N, keep, bram, bdisk)
        self.out.append("O " + canon.obs2s(self.s, StorageType))

    def do_next(self):
        s, out, mon = self.s, self.out, self.mon
        # the Mixed planner path is a module-level switch: select it for this object on every resumption
        if type(s).__name__ == "MixedCheckpointSchedule":
            mixed_mod.numba = getattr(s, "_verif_numba", mixed_mod.numba)
        try:
            with contextlib.redirect_stdout(io.StringIO()):
                a = next(s)
        except StopIteration:
            out.append("N STOP | " + canon.obs2s(s, StorageType))
            return None
        except Exception as e:  # noqa
            out.append("N EXC:" + type(e).__name__ + " | " + canon.obs2s(s, StorageType))
            return None
        return self.record(a)

    def record(self, a):
        s, out, mon = self.s, self.out, self.mon
        txt = canon.act2s(a)
        out.append("N Y:" + txt + " | " + canon.obs2s(s, StorageType))
        v = value_check(a)
        if v:
            out.append("VAL " + v)
        try:
            pa = parse_action(txt)
            mon.step(pa, s.n, s.r, s.max_n, bool(s.is_exhausted))
        except Exception:  # malformed text (non-canonical value): visible in the trace already
            if mon.err is None:
                mon.err = ("E_malformed", mon.count)
            mon.count += 1
        return txt

    def step(self):
        """execute the next op; False when no op is left"""
        if not self.ops:
            return False
        o = self.ops.pop(0)
        s, out = self.s, self.out
        if o == "n":
            self.do_next()
        elif o[0] in "fg":
            k = int(o[1:])
            if o[0] == "g":
                import numpy
                k = numpy.int64(k)
            try:
                s.finalize(k)
                r = "ok"
            except Exception as e:  # noqa
                r = "EXC:" + type(e).__name__
            out.append("F " + r + " | " + canon.obs2s(s, StorageType))
        elif o[0] == "r":
            k, lim = o[1:].split(":")
            k, lim = int(k), int(lim)
            while lim > 0:
                lim -= 1
                t = self.do_next()
                if t is None:
                    break
                if t == "ER":
                    k -= 1
                    if k <= 0:
                        break
        elif o == "c":
            # the client goes on with a shallow copy of the schedule (copy.copy shares the suspended generator: the stream continues)
            import copy
            self.s = copy.copy(s)
        elif o[0] == "b":
            # a `for` loop over the schedule that is left with break after k actions (wherever that is)
            k = int(o[1:])
            if type(s).__name__ == "MixedCheckpointSchedule":
                mixed_mod.numba = getattr(s, "_verif_numba", mixed_mod.numba)
            try:
                with contextlib.redirect_stdout(io.StringIO()):
                    if k > 0:
                        for a in s:
                            self.record(a)
                            k -= 1
                            if k <= 0:
                                break
                        else:
                            out.append("N STOP | " + canon.obs2s(s, StorageType))
            except Exception as e:  # noqa
                out.append("N EXC:" + type(e).__name__ + " | " + canon.obs2s(s, StorageType))
        elif o[0] in "lL":
            # the documented way of driving a schedule: `for action in schedule: ...; break` at EndReverse, k times
            k, lim = o[1:].split(":")
            k, lim = int(k), int(lim)
            while k > 0 and lim > 0:
                if type(s).__name__ == "MixedCheckpointSchedule":
                    mixed_mod.numba = getattr(s, "_verif_numba", mixed_mod.numba)
                ended = True
                try:
                    with contextlib.redirect_stdout(io.StringIO()):
                        for a in s:
                            lim -= 1
                            t = self.record(a)
                            if t == "ER":
                                k -= 1
                                ended = False
                                break
                            if t == "EF" and o[0] == "L":
                                # L: the forward loop is a `for` loop of its own, left at EndForward; the adjoint calculation(s) follow in further loops
                                ended = False
                                break
                            if lim <= 0:
                                ended = False
                                break
                except Exception as e:  # noqa
                    out.append("N EXC:" + type(e).__name__ + " | " + canon.obs2s(s, StorageType))
                    break
                if ended:
                    out.append("N STOP | " + canon.obs2s(s, StorageType))
                    break
        else:
            raise ValueError(o)
        return True

    def finish(self):
        if self.s is not None:
            self.out.append(self.mon.line())
        return self.out


def value_check(a):
    """C18: equality, repr round trip, len / iteration / membership of one emitted action; '' when fine"""
    import sys as _sys
    ns = {"Forward": cs.Forward, "Reverse": cs.Reverse, "Copy": cs.Copy, "Move": cs.Move, "EndForward": cs.EndForward,
          "EndReverse": cs.EndReverse, "StorageType": StorageType, "sys": _sys}
    try:   # the tabulated Mixed planner yields numpy integers, whose repr names the numpy module
        import numpy as _np
        ns["np"] = ns["numpy"] = _np
    except ImportError:
        pass
    try:
        b = eval(repr(a), ns)
        if type(b) is not type(a) or b.args != a.args:
            return "eval(repr(a)) differs from a: %r" % (a,)
        if not (a == b) or (a != b):
            return "a == eval(repr(a)) is False: %r" % (a,)
        if a == cs.EndForward() and type(a).__name__ != "EndForward":
            return "%r == EndForward()" % (a,)
        if type(a).__name__ in ("Forward", "Reverse"):
            n0, n1 = a.n0, a.n1
            if len(a) != n1 - n0:
                return "len(%r) = %d" % (a, len(a))
            if n1 - n0 <= 64:
                want = list(range(n0, n1)) if type(a).__name__ == "Forward" else list(range(n1 - 1, n0 - 1, -1))
                if list(a) != want:
                    return "list(%r) = %r" % (a, list(a))
            for x in (n0 - 1, n0, n1 - 1, n1):
                if (x in a) != (n0 <= x < n1):
                    return "%d in %r is %r" % (x, a, x in a)
    except Exception as e:  # noqa
        return "value operation raised %s on %r" % (type(e).__name__, a)
    return ""


def run_sched(ident, toks, out):
    r = Runner(ident, toks)
    while r.step():
        pass
    out.extend(r.finish())


def run_interleaved(ident, toks, out):
    """I <id> <order...> | <sub-case 1 tokens> || <sub-case 2 tokens> ...   (sub-case = class params | xparams | ops)
    objects are constructed in order, then ops are executed in the global order given (object indices); leftover ops
    are run object by object at the end.  Output: one block per object, ids <id>/<j>."""
    bar = toks.index("|")
    order = [int(x) for x in toks[:bar]]
    subs, cur = [], []
    for x in toks[bar + 1:]:
        if x == "||":
            subs.append(cur)
            cur = []
        else:
            cur.append(x)
    subs.append(cur)
    rs = [Runner("%s/%d" % (ident, j), sub) for j, sub in enumerate(subs)]
    for j in order:
        rs[j].step()
    for r in rs:
        while r.step():
            pass
    for r in rs:
        out.extend(r.finish())


def res(f):
    try:
        with contextlib.redirect_stdout(io.StringIO()):
            return f()
    except Exception as e:  # noqa
        return "EXC:" + type(e).__name__


def num(v):
    if v == float("inf"):
        return "inf"
    if isinstance(v, float):
        if v != int(v):
            return "?float:" + repr(v)
        return str(int(v))
    return canon.i2s(v)


def zl(l):
    return "[" + ",".join(num(x) for x in l) + "]"


def run_val(ident, t, out):
    out.append("#" + ident)
    from checkpoint_schedules.hrevolve_sequences import basic_functions as bf
    rv = sys.modules["checkpoint_schedules.hrevolve_sequences.revolve"]
    dr = sys.modules["checkpoint_schedules.hrevolve_sequences.disk_revolve"]
    pr = sys.modules["checkpoint_schedules.hrevolve_sequences.periodic_disk_revolve"]
    hr = sys.modules["checkpoint_schedules.hrevolve_sequences.hrevolve"]
    k = t[0]
    if k == "nadv":
        r = res(lambda: canon.i2s(multistage_mod.n_advance(int(t[1]), int(t[2]), trajectory=TRAJ[t[3]])))
    elif k == "act":
        def f():
            import sys as _sys
            parts, cur = [], []
            for x in t[1:]:
                if x == "/":
                    parts.append(cur)
                    cur = []
                else:
                    cur.append(x)
            parts.append(cur)
            ST = {"RAM": StorageType.RAM, "DISK": StorageType.DISK, "WORK": StorageType.WORK, "NONE": StorageType.NONE}
            def mk(p):
                if p[0] == "F":
                    return cs.Forward(int(p[1]), int(p[2]), p[3] == "T", p[4] == "T", ST[p[5]])
                if p[0] == "R":
                    return cs.Reverse(int(p[1]), int(p[2]), p[3] == "T")
                if p[0] in ("C", "M"):
                    return (cs.Copy if p[0] == "C" else cs.Move)(int(p[1]), ST[p[2]], ST[p[3]])
                return cs.EndForward() if p[0] == "EF" else cs.EndReverse()
            a, b, kk, txt = mk(parts[0]), mk(parts[1]), int(parts[2][0]), parts[3][0].replace("_", " ")
            ns = {"Forward": cs.Forward, "Reverse": cs.Reverse, "Copy": cs.Copy, "Move": cs.Move, "EndForward": cs.EndForward,
                  "EndReverse": cs.EndReverse, "StorageType": StorageType, "sys": _sys}
            def g(h):
                try:
                    return h()
                except Exception as e:  # noqa
                    return "EXC:" + type(e).__name__
            span = (a.n1 - a.n0) if type(a).__name__ in ("Forward", "Reverse") else None
            eq, ne = a == b, a != b
            def rt():
                c = eval(repr(a), ns)
                return canon.b2s(type(c) is type(a) and c == a and not (c != a))
            def rd():
                try:
                    c = eval(txt, ns)
                except Exception:  # noqa
                    return "none"
                return canon.act2s(c)
            return ";".join([
                "repr=" + repr(a),
                "eq=" + (canon.b2s(eq) if eq is not ne else "?eq/ne:%r/%r" % (eq, ne)),
                "len=" + g(lambda: canon.i2s(len(a))),
                "iter=" + ("skip" if span is not None and span >= 65 else g(lambda: ",".join([canon.i2s(x) for x in a]))),
                "mem=" + g(lambda: canon.b2s(kk in a)),
                "rt=" + g(rt),
                "read=" + rd()])
        r = res(f)
    elif k == "oes":
        r = res(lambda: canon.i2s(multistage_mod.optimal_extra_steps(int(t[1]), int(t[2]))))
    elif k == "osb":
        r = res(lambda: canon.i2s(multistage_mod.optimal_steps_binomial(int(t[1]), int(t[2]))))
    elif k == "osm":
        r = res(lambda: canon.i2s(mixed_mod.optimal_steps_mixed(int(t[1]), int(t[2]))))
    elif k == "memo":
        def f():
            a, b, c = mixed_mod.mixed_step_memoization(int(t[1]), int(t[2]))
            return "(%d,%s,%s)" % (int(a), canon.i2s(b), canon.i2s(c))
        r = res(f)
    elif k == "memosweep":
        def f():
            lo, hi, s_ = int(t[1]), int(t[2]), int(t[3])
            cnt, tot, kinds = 0, 0, 0
            for n_ in range(lo, hi + 1):
                try:
                    a, b, c = mixed_mod.mixed_step_memoization(n_, s_)
                except Exception as e:  # noqa
                    try:        # what the other planner says about the same sub-problem
                        tb = "(%d,%d,%d)" % tuple(int(x) for x in mixed_mod.mixed_steps_tabulation(n_, s_)[n_, min(s_, n_ - 1)])
                    except Exception as e2:  # noqa
                        tb = "EXC:" + type(e2).__name__
                    return "ok=%d sum=%d kinds=%d err=%d:%s tab=%s" % (cnt, tot, kinds, n_, type(e).__name__, tb)
                cnt += 1
                tot += int(b) + int(c)
                kinds += int(a)
            return "ok=%d sum=%d kinds=%d err=none" % (cnt, tot, kinds)
        r = res(f)
    elif k == "tabmemo":
        def f():
            n_, s_ = int(t[1]), int(t[2])
            tb = mixed_mod.mixed_steps_tabulation(n_, s_)
            a, b, c = mixed_mod.mixed_step_memoization(n_, s_)
            return "(%d,%d,%d) (%d,%s,%s)" % (tuple(int(x) for x in tb[n_, s_]) + (int(a), canon.i2s(b), canon.i2s(c)))
        r = res(f)
    elif k == "tab":
        def f():
            tb = mixed_mod.mixed_steps_tabulation(int(t[1]), int(t[2]))
            return ";".join(",".join("(%d,%d,%d)" % tuple(int(x) for x in tb[i, j]) for j in range(tb.shape[1])) for i in range(tb.shape[0]))
        r = res(f)
    elif k == "alloc":
        def f():
            w, a = multistage_mod.allocate_snapshots(int(t[1]), int(t[2]), int(t[3]), trajectory=TRAJ[t[4]])
            return zl(w) + " " + ",".join(canon.st2s(x) for x in a)
        r = res(f)
    elif k == "opt0":
        r = res(lambda: ";".join(zl(row.content) for row in rv.get_opt_0_table(int(t[1]), int(t[2]), int(t[3]), int(t[4]))))
    elif k == "optinf":
        l, cm, uf, ub, rd, wd = (int(x) for x in t[1:7])
        r = res(lambda: zl(dr.get_opt_inf_table(l, cm, uf, ub, rd, wd, True).content))
    elif k == "hopt":
        l, c0, c1, w0, w1, r0, r1, ub, uf = (int(x) for x in t[1:10])

        def f():
            optp, opt = hr.get_hopt_table(l, (c0, c1), (w0, w1), (r0, r1), ub, uf)
            tb = lambda T: ";".join(",".join(num(x) for x in row) for row in T)  # noqa
            return " / ".join([tb(optp[0]), tb(opt[0]), tb(optp[1]), tb(opt[1])])
        r = res(f)
    elif k == "seq":
        n, rr, d, uf, ub, wd, rd = (int(x) for x in t[2:9])

        def f():
            # the call sites of hrevolve.py, reproduced (the constructors themselves are exercised by the S cases)
            if t[1] == "revolve":
                sq = rv.revolve(n - 1, rr, wd, rd, uf, ub)
            elif t[1] == "disk":
                sq = dr.disk_revolve(n - 1, rr, wd, rd, uf, ub)
            elif t[1] == "periodic":
                sq = pr.periodic_disk_revolve(n - 1, rr, wd, rd, uf, ub)
            else:
                sq = hr.hrevolve(n - 1, (rr, d), [0, wd], [0, rd], uf, ub)
            return " ".join(repr(o) for o in list(sq))
        r = res(f)
    elif k == "mxrr":
        r = res(lambda: canon.i2s(pr.mxrr_close_formula(int(t[1]), int(t[2]), int(t[3]), int(t[4]))))
    elif k == "argmin":
        r = res(lambda: canon.i2s(bf.argmin([int(x) for x in t[1:]])))
    elif k == "pairs":
        r = res(lambda: pair_laws(int(t[1]), int(t[2])))
        if r != "ok":
            r = "VAL " + r
    elif k == "collect":
        r = res(lambda: collect_laws(int(t[1]), int(t[2])))
        if r != "ok":
            r = "VAL " + r
    elif k == "beta":
        r = res(lambda: num(bf.beta(int(t[1]), int(t[2]))))
    else:
        raise ValueError(k)
    out.append(r)


def pair_laws(seed, count):
    """C18: for random directly constructed pairs, a == b iff same kind and equal parameters; never raises"""
    import random
    rng = random.Random(seed)
    sts = [StorageType.RAM, StorageType.DISK, StorageType.WORK, StorageType.NONE]

    def mk():
        k = rng.randint(0, 5)
        a, b = rng.randint(0, 3), rng.randint(0, 3)
        if rng.random() < .4:      # integers that are not interned, built at run time
            a = int(str(rng.randint(257, 10 ** 12)))
        if k == 0:
            return ("F", a, a + 1 + b, rng.random() < .5, rng.random() < .5, rng.choice(sts))
        if k == 1:
            return ("R", a + 1 + b, a, rng.random() < .5)
        if k == 2:
            return ("C", a, rng.choice(sts[:2]), rng.choice(sts))
        if k == 3:
            return ("M", a, rng.choice(sts[:2]), rng.choice(sts))
        return ("EF",) if k == 4 else ("ER",)

    def build(t):
        return {"F": cs.Forward, "R": cs.Reverse, "C": cs.Copy, "M": cs.Move, "EF": cs.EndForward, "ER": cs.EndReverse}[t[0]](*t[1:])
    for _ in range(count):
        ta = mk()
        tb = ta if rng.random() < .3 else mk()
        tb = tuple(int(str(v)) if (isinstance(v, int) and not isinstance(v, bool)) else v for v in tb)
        a, b = build(ta), build(tb)
        try:
            eq = (a == b)
            ne = (a != b)
        except Exception as e:  # noqa
            return "%r == %r raised %s" % (a, b, type(e).__name__)
        if eq is not (ta == tb) or ne is not (ta != tb):
            return "%r == %r is %r" % (a, b, eq)
        v = value_check(a)
        if v:
            return v
    return "ok"


def collect_laws(seed, count):
    """C18 on actions that are kept: `count` pairwise different actions are constructed first and compared afterwards (with an equal
    action built then, with their repr read back, with their neighbour), and the actions of two runs of one schedule are collected
    and compared element by element"""
    import random
    rng = random.Random(seed)
    sts = [StorageType.RAM, StorageType.DISK, StorageType.WORK, StorageType.NONE]
    cls = {"F": cs.Forward, "R": cs.Reverse, "C": cs.Copy, "M": cs.Move}

    def mk(i):
        k = i % 4
        a = i // 4 + rng.randint(0, 1) * 10 ** 6
        if k == 0:
            return ("F", a, a + 1 + rng.randint(0, 3), rng.random() < .5, rng.random() < .5, rng.choice(sts))
        if k == 1:
            return ("R", a + 1 + rng.randint(0, 3), a, rng.random() < .5)
        return ("C" if k == 2 else "M", a, rng.choice(sts[:2]), rng.choice(sts))
    tups = [mk(i) for i in range(count)]
    acts = [cls[t[0]](*t[1:]) for t in tups]
    for i, (t, a) in enumerate(zip(tups, acts)):
        b = cls[t[0]](*[int(str(v)) if (isinstance(v, int) and not isinstance(v, bool)) else v for v in t[1:]])
        try:
            if not (a == b) or (a != b):
                return "action %d of %d kept ones: %r == (an equal action built later) is False" % (i, count, a)
            if i + 1 < count and (a == acts[i + 1] or not (a != acts[i + 1])):
                return "%r == %r is True" % (a, acts[i + 1])
        except Exception as e:  # noqa
            return "comparing %r raised %s" % (a, type(e).__name__)
        v = value_check(a)
        if v:
            return "action %d of %d kept ones: %s" % (i, count, v)
    N = 200 + count // 10
    with contextlib.redirect_stdout(io.StringIO()):
        s1 = list(iter_all(cs.Revolve(N, 4)))
        s2 = list(iter_all(cs.Revolve(N, 4)))
    if len(s1) != len(s2):
        return "two runs of Revolve(%d, 4) have %d and %d actions" % (N, len(s1), len(s2))
    for i, (a, b) in enumerate(zip(s1, s2)):
        if not (a == b) or (a != b):
            return "action %d of two runs of Revolve(%d, 4), collected first and compared afterwards: %r == %r is False" % (i, N, a, b)
    for i, a in enumerate(s1):
        v = value_check(a)
        if v:
            return "action %d of Revolve(%d, 4), checked after the run: %s" % (i, N, v)
    return "ok"


def iter_all(s):
    while True:
        try:
            yield next(s)
        except StopIteration:
            return


def run_lines(lines):
    out = []
    for line in lines:
        toks = line.split()
        if not toks:
            continue
        if toks[0] == "S":
            run_sched(toks[1], toks[2:], out)
        elif toks[0] == "I":
            run_interleaved(toks[1], toks[2:], out)
        elif toks[0] == "V":
            run_val(toks[1], toks[2:], out)
        else:
            raise ValueError(line)
    return out


if __name__ == "__main__":
    sys.stdout.write("\n".join(run_lines(sys.stdin.read().splitlines())) + "\n")
