#!/usr/bin/env python3
"""./check Cxx [--tier quick|thorough] [--replay FILE]

Decides one property: (1) proof layer -- the Coq development builds, Props/Cxx.v compiles, its Print Assumptions are
closed; (2) correspondence -- the extracted model and /repo's working tree agree on the generated cases, projected to
what the property's theorems depend on; (3) oracle -- the property evaluated on the implementation's traces;
(4) classification against known_findings.json; (5) evidence + verdict."""
import sys
import os
import json
import time
import hashlib
import subprocess
import fcntl
import pickle
import glob
import re

HERE = os.path.dirname(os.path.abspath(__file__))
VERIF = os.path.dirname(HERE)
sys.path.insert(0, HERE)
import gen  # noqa: E402
import runner  # noqa: E402
import props  # noqa: E402
import oracles  # noqa: E402
import extra  # noqa: E402

COQ = os.path.join(VERIF, "coq")
REPO = os.environ.get("VERIF_REPO", "/repo")
CACHE = os.path.join(VERIF, ".cache")
ALLOWED_AXIOMS = set()      # none: every property theorem must be closed under the global context
FORBIDDEN = re.compile(r"\b(Admitted|admit|Axiom|Axioms|Parameter|Parameters|Conjecture|Hypothesis|Variable|Admit Obligations|bypass_check|Unset Guard Checking|Unset Positivity Checking|Unset Universe Checking|type-in-type|impredicative-set|native_compute)\b")

TRUSTED_BASE = [
    "Coq 8.16.1 kernel (coqc); vm_compute for Examples; no native_compute",
    "no axioms: every Print Assumptions in Props/ must read 'Closed under the global context'",
    "extraction plugin with ExtrOcamlBasic only (Extract Inductive bool/option/unit/list/prod/sumbool/sumor; Z, positive, nat kept as inductive types); OCaml 4.13.1 ocamlopt",
    "coq/Extract/driver.ml (parsing, Z<->decimal, canonical printing)",
    "harness/*.py: case generators, canonical form, differ, cache key; Python oracle (cross-checked against Exec.v via the MON line on every stream)",
    "the reading of the English property into Model/Exec.v and the statements in Props/",
    "harness/translate.py (Python ast -> Gallina text, fail-closed; its reading of Python for the generators is GenLang*.run, for the functions the result monad with Python's exceptions; fuel policies; textually compared preambles and constructors; textual pins) -- DESIGN.md 7.1a, 9",
    "hand-written model: tied to /repo by the translation obligations of this property (coq/Gen/*.v, re-generated and re-checked on this run) and, for what is not translated (DESIGN.md 7.1a end, 10), by agreement on the generated cases only",
]


def sh(cmd, timeout, cwd=None):
    try:
        p = subprocess.run(cmd, shell=True, cwd=cwd, capture_output=True, text=True, timeout=timeout)
        return p.returncode, p.stdout + p.stderr
    except subprocess.TimeoutExpired as e:
        return 124, "timeout after %ss: %s" % (timeout, cmd)


def sha_files(paths):
    h = hashlib.sha256()
    for p in sorted(paths):
        h.update(p.encode())
        try:
            with open(p, "rb") as f:
                h.update(f.read())
        except OSError:
            h.update(b"<missing>")
    return h.hexdigest()


def strip_comments(s):
    out, depth, i = [], 0, 0
    while i < len(s):
        if s.startswith("(*", i):
            depth += 1
            i += 2
        elif s.startswith("*)", i) and depth:
            depth -= 1
            i += 2
        else:
            if not depth:
                out.append(s[i])
            i += 1
    return "".join(out)


# ------------------------------------------------------------------------------------------------ proof layer
def vfiles():
    return [p for p in glob.glob(os.path.join(COQ, "**", "*.v"), recursive=True) if "/Extract/gen/" not in p and "/Gen/" not in p]


# translation obligations: definitions regenerated from /repo's source on every run (harness/translate.py) and proved equal to
# the model by conversion; a property lists the generated files its theorems lean on
TRANSLATED = {"C05": ["NAdvanceGen", "MultistageGen", "SeqGen", "HSeqGen", "ArgminGen", "HoptGen", "OptInfGen", "Opt0Gen", "SeqPins", "AllocPins", "HelperPins", "HelperGen"], "C13": ["NAdvanceGen", "TwoLevelGen"], "C17": ["NAdvanceGen", "SeqGen", "HSeqGen", "ArgminGen", "HoptGen", "OptInfGen", "Opt0Gen", "MemoGen", "TabulGen", "SeqPins", "BasicGen", "TwoLevelGen", "MultistageGen", "ConverterGen", "MixedGen", "AllocPins", "EnumPins"], "C10": ["FinalizeGen"], "C18": ["ActValGen", "EnumPins"], "C11": ["ObserversGen", "EnumPins"],
              "C01": ["BasicGen", "TwoLevelGen", "MultistageGen", "ConverterGen", "ConvertGen", "MixedGen", "SeqGen", "HSeqGen", "ArgminGen", "HoptGen", "OptInfGen", "Opt0Gen", "MemoGen", "TabulGen", "SeqPins", "AllocPins", "EnumPins"], "C02": ["BasicGen", "TwoLevelGen", "MultistageGen", "ConverterGen", "MixedGen", "SeqGen", "HSeqGen", "ArgminGen", "HoptGen", "OptInfGen", "Opt0Gen", "MemoGen", "TabulGen", "SeqPins", "AllocPins", "EnumPins"],
              "C03": ["BasicGen", "TwoLevelGen", "MultistageGen", "ConverterGen", "MixedGen", "SeqGen", "HSeqGen", "ArgminGen", "HoptGen", "OptInfGen", "Opt0Gen", "MemoGen", "TabulGen", "SeqPins", "AllocPins", "EnumPins"], "C04": ["BasicGen", "TwoLevelGen", "MultistageGen", "ConverterGen", "MixedGen", "SeqGen", "HSeqGen", "ArgminGen", "HoptGen", "OptInfGen", "Opt0Gen", "MemoGen", "TabulGen", "SeqPins", "AllocPins", "EnumPins"],
              "C08": ["BasicGen", "TwoLevelGen", "MultistageGen", "ConverterGen", "MixedGen", "SeqGen", "HSeqGen", "ArgminGen", "HoptGen", "OptInfGen", "Opt0Gen", "MemoGen", "TabulGen", "SeqPins", "AllocPins", "EnumPins"], "C09": ["BasicGen", "TwoLevelGen", "MultistageGen", "ConverterGen", "MixedGen", "SeqGen", "HSeqGen", "ArgminGen", "HoptGen", "OptInfGen", "Opt0Gen", "MemoGen", "TabulGen", "SeqPins", "AllocPins", "EnumPins"],
              "C12": ["BasicGen", "TwoLevelGen", "MultistageGen", "ConverterGen", "ConvertGen", "MixedGen", "SeqGen", "HSeqGen", "ArgminGen", "HoptGen", "OptInfGen", "Opt0Gen", "MemoGen", "TabulGen", "SeqPins", "AllocPins", "EnumPins"], "C14": ["MultistageGen", "AllocPins"], "C06": ["MemoGen", "MixedGen", "TabulGen", "HelperPins", "MixHelperGen"], "C15": ["MemoGen", "HelperGen", "MixHelperGen", "HelperPins", "TabulGen", "BasicGen", "TwoLevelGen", "MultistageGen", "ConverterGen", "MixedGen", "SeqGen", "HSeqGen", "ArgminGen", "HoptGen", "OptInfGen", "Opt0Gen", "SeqPins", "AllocPins", "EnumPins"],
              "C16": ["MemoGen", "MixedGen", "TabulGen"], "C07": ["SeqGen", "HSeqGen", "ArgminGen", "HoptGen", "OptInfGen", "Opt0Gen", "SeqPins"], "C19": ["SeqGen", "HSeqGen", "ArgminGen", "HoptGen", "OptInfGen", "Opt0Gen", "SeqPins"]}
for _l in TRANSLATED.values():        # the period formula of PeriodicDiskRevolve goes wherever the sequence generators go
    if "SeqGen" in _l and "MxrrGen" not in _l:
        _l.insert(_l.index("SeqGen") + 1, "MxrrGen")
    if "AllocPins" in _l and "AllocGen" not in _l:   # the preamble and the final allocation of allocate_snapshots, wherever its pin goes
        _l.insert(_l.index("AllocPins"), "AllocGen")


def translation_layer(pid, res):
    import translate
    for name in TRANSLATED.get(pid, []):
        os.makedirs(os.path.join(COQ, "Gen"), exist_ok=True)
        path = os.path.join(COQ, "Gen", name + ".v")
        try:
            text = translate.GENERATORS[name](REPO)
        except translate.Untranslatable as e:
            text = None
            res["ok"] = False
            res["detail"].append("translation obligation %s: the source is outside the translator's subset (%s)" % (name, e))
        if text is None:
            continue
        if not (os.path.exists(path) and open(path).read() == text):
            open(path, "w").write(text)
        code, log = sh("coqc -R . CS Gen/%s.v" % name, 300, cwd=COQ)
        lemmas = re.findall(r"\bLemma\s+(\w+)", text)
        res["obligations"] += len(lemmas)
        res["theorems"] += ["Gen/%s.v:%s" % (name, l) for l in lemmas]
        if code == 0:
            res["discharged_extra"] = res.get("discharged_extra", 0) + len(lemmas)
        else:
            res["ok"] = False
            res["detail"].append("translation obligation Gen/%s.v (the definition regenerated from /repo's source is no longer convertible with the model): %s" % (name, log.strip()[-400:]))


def proof_layer(pid, tier):
    """-> dict(ok, obligations, discharged, detail, theorems, partial, refuted, log)"""
    res = dict(ok=True, detail=[], theorems=[], obligations=0, discharged=0, partial=[], refuted=[])
    # forbidden tokens anywhere in the development
    for p in vfiles():
        code = strip_comments(open(p).read())
        # Section variables / hypotheses are allowed inside sections only
        for m in FORBIDDEN.finditer(code):
            tok = m.group(1)
            if tok in ("Variable", "Hypothesis", "Parameter", "Parameters"):
                before = code[:m.start()]
                if len(re.findall(r"\bSection\s+\w+\s*\.", before)) > len(re.findall(r"\bEnd\s+\w+\s*\.", before)) and tok in ("Variable", "Hypothesis"):
                    continue
            res["ok"] = False
            res["detail"].append("forbidden token %r in %s" % (tok, os.path.relpath(p, VERIF)))
    mk, cp = os.path.join(COQ, "Makefile"), os.path.join(COQ, "_CoqProject")
    if not os.path.exists(mk) or os.path.getmtime(cp) > os.path.getmtime(mk):
        sh("coq_makefile -f _CoqProject -o Makefile", 60, cwd=COQ)
    srckey = sha_files(vfiles())
    cleanmark = os.path.join(COQ, ".clean_build_key")
    # thorough: everything is rebuilt from clean -- once per state of the sources (the key is a hash of every .v file): the other
    # properties of a sweep over the same sources reuse that build
    clean_needed = tier == "thorough" and not (os.path.exists(cleanmark) and open(cleanmark).read() == srckey)
    if clean_needed:
        sh("make -C %s clean" % COQ, 300)
        for f in glob.glob(os.path.join(COQ, "Props", "*.stamp")) + glob.glob(os.path.join(COQ, "Props", "*.vo")) + glob.glob(os.path.join(COQ, "Gen", "*.vo")):
            os.remove(f)
    code, log = sh("make -C %s -j16" % COQ, 3000)
    if code != 0:
        res["ok"] = False
        res["detail"].append("coq build failed (exit %d): %s" % (code, log.strip()[-600:]))
        return res
    if clean_needed:
        open(cleanmark, "w").write(srckey)
    pv = os.path.join(COQ, "Props", pid + ".v")
    if not os.path.exists(pv):
        res["ok"] = False
        res["detail"].append("no property file Props/%s.v" % pid)
        return res
    outp = pv[:-2] + ".out"
    key = sha_files(vfiles())
    stamp = pv[:-2] + ".stamp"
    if not (os.path.exists(outp) and os.path.exists(stamp) and open(stamp).read() == key and os.path.exists(pv + "o")):
        code, log = sh("coqc -R . CS Props/%s.v" % pid, 900, cwd=COQ)
        open(outp, "w").write(log)
        if code == 0:
            open(stamp, "w").write(key)
        elif os.path.exists(stamp):
            os.remove(stamp)
        if code != 0:
            res["ok"] = False
            res["detail"].append("Props/%s.v does not compile (exit %d): %s" % (pid, code, log.strip()[-600:]))
            return res
    log = open(outp).read()
    src = strip_comments(open(pv).read())
    thms = re.findall(r"\b(?:Theorem|Lemma|Example)\s+(\w+)", src)
    pas = re.findall(r"Print Assumptions\s+(\w+)", src)
    res["theorems"] = thms
    res["obligations"] = len(thms)
    res["partial"] = [t for t in thms if t.endswith("_partial")]
    res["refuted"] = [t for t in thms if t.endswith("_refuted")]
    missing = [t for t in thms if t not in pas]
    if missing:
        res["ok"] = False
        res["detail"].append("no Print Assumptions for %s" % missing)
    closed = log.count("Closed under the global context")
    axioms = re.findall(r"Axioms:\n((?:.+\n)+)", log)
    if axioms:
        res["ok"] = False
        res["detail"].append("axioms reported: %s" % " | ".join(a.strip()[:200] for a in axioms))
    if closed < len(pas):
        res["ok"] = False
        res["detail"].append("only %d of %d Print Assumptions are closed" % (closed, len(pas)))
    translation_layer(pid, res)
    res["discharged"] = (min(closed, len(thms)) + res.get("discharged_extra", 0)) if res["ok"] else 0
    if tier == "thorough":
        # coqchk re-checks the property file and everything it depends on; most of that closure is shared by the nineteen property
        # files, so ONE run over all of them is made per state of the sources and its verdict reused
        ckf = os.path.join(COQ, "Props", "coqchk_all.json")
        ck = None
        if os.path.exists(ckf):
            try:
                ck = json.load(open(ckf))
            except Exception:  # noqa
                ck = None
        if not (ck and ck.get("key") == key and pid in ck.get("modules", [])):
            mods = []
            for q in sorted(props.PROPS):
                qv = os.path.join(COQ, "Props", q + ".v")
                qs = qv[:-2] + ".stamp"
                if not (os.path.exists(qs) and open(qs).read() == key and os.path.exists(qv + "o")):
                    c2, l2 = sh("coqc -R . CS Props/%s.v" % q, 900, cwd=COQ)
                    open(qv[:-2] + ".out", "w").write(l2)
                    if c2 == 0:
                        open(qs, "w").write(key)
                    elif os.path.exists(qs):
                        os.remove(qs)
                    if c2 != 0:
                        continue
                mods.append(q)
            code, log2 = sh("coqchk -silent -o -R . CS " + " ".join("CS.Props.%s" % q for q in mods), 3600, cwd=COQ)
            ck = dict(key=key, modules=mods, code=code, log=log2.strip()[-3000:])
            json.dump(ck, open(ckf, "w"))
        res["coqchk"] = ck["log"][-1500:]
        if ck["code"] != 0 or pid not in ck["modules"]:
            res["ok"] = False
            res["detail"].append("coqchk failed (exit %s)" % ck["code"])
    return res


# ------------------------------------------------------------------------------------------------ correspondence
def ensure_driver():
    drv = runner.DRIVER
    newest_vo = max([os.path.getmtime(p) for p in glob.glob(os.path.join(COQ, "Model", "*.vo"))] + [0])
    src = max(os.path.getmtime(os.path.join(COQ, "Extract", f)) for f in ("driver.ml", "Extract.v"))
    if not os.path.exists(drv) or os.path.getmtime(drv) < max(newest_vo, src):
        code, log = sh("sh %s" % os.path.join(COQ, "Extract", "build.sh"), 900)
        if code != 0:
            return False, log.strip()[-600:]
    return True, ""


def repo_sources():
    return glob.glob(os.path.join(REPO, "checkpoint_schedules", "**", "*.py"), recursive=True)


def correspondence(tier, seed):
    ok, msg = ensure_driver()
    if not ok:
        return dict(error="model driver does not build: " + msg)
    key = sha_files(repo_sources() + glob.glob(os.path.join(HERE, "*.py")) + [runner.DRIVER]) + "-%s-%d" % (tier, seed)
    key = hashlib.sha256(key.encode()).hexdigest()[:24]
    path = os.path.join(CACHE, "corr-%s.pkl" % key)
    if os.path.exists(path):
        try:
            with open(path, "rb") as f:
                d = pickle.load(f)
            d["cached"] = True
            return d
        except Exception:  # noqa
            pass
    t0 = time.time()
    cases = gen.generate(seed, tier)
    model, impl, errors = runner.run_all(cases)
    findings = oracles.all_findings(cases, impl)
    xcases, xmodel, ximpl, xfind = extra.run(seed, tier, cases, impl, model)
    cases += xcases
    model.update(xmodel)
    impl.update(ximpl)
    findings += xfind
    d = dict(cases=cases, model=model, impl=impl, errors=errors, findings=findings, wall=time.time() - t0, cached=False, key=key)
    os.makedirs(CACHE, exist_ok=True)
    for old in glob.glob(os.path.join(CACHE, "corr-*.pkl")):
        if time.time() - os.path.getmtime(old) > 6 * 3600:
            os.remove(old)
    with open(path + ".tmp", "wb") as f:
        pickle.dump(d, f)
    os.replace(path + ".tmp", path)
    return d


def first_diff(a, b):
    if a is None or b is None:
        return dict(index=0, model=None if a is None else a[:1], impl=None if b is None else b[:1], note="trace missing on one side")
    for i in range(max(len(a), len(b))):
        x = a[i] if i < len(a) else "<end>"
        y = b[i] if i < len(b) else "<end>"
        if x != y:
            return dict(index=i, model=x, impl=y)
    return None


def nontrivial(line, tr):
    if not tr:
        return False
    if line.startswith("V "):
        return not tr[0].startswith("EXC")
    txt = "\n".join(tr)
    if " hist." in line[:12] or line.split()[1].startswith("hist."):
        return "F EXC:" in txt
    if line.split()[1].startswith("ctor."):
        return True
    return ("Y:C(" in txt or "Y:M(" in txt) and ("T,F,RAM)" in txt or "T,F,DISK)" in txt or "F,T,DISK)" in txt or "F,T,RAM)" in txt)


# ------------------------------------------------------------------------------------------------ verdict
def load_known():
    p = os.path.join(VERIF, "known_findings.json")
    if not os.path.exists(p):
        return []
    return json.load(open(p)).get("findings", [])


def match_known(f, known):
    info = oracles.case_info(f.get("sline") or f["line"])
    for e in known:
        if e.get("status") != "open" or e.get("property") != f["pid"]:
            continue
        if e.get("kind") == "signature" and e.get("signature") == "d8":
            if f.get("d8") and f["err"] == e.get("err") and info.get("cls") == "rev" and info["ps"][1] in e.get("classes", []):
                return e
        if e.get("kind") == "input":
            if " ".join(info.get("ps", [])) == e.get("params") and f["err"] == e.get("err"):
                return e
    return None


def case_size(line):
    nums = [abs(int(x)) for x in re.findall(r"-?\d+", line.split("|")[0])]
    return (sum(nums), len(line))


def write_replay(pid, payload):
    d = os.path.join(VERIF, "evidence", "replays")
    os.makedirs(d, exist_ok=True)
    h = hashlib.sha256(json.dumps(payload, sort_keys=True).encode()).hexdigest()[:12]
    p = os.path.join(d, "%s-%s.json" % (pid, h))
    json.dump(payload, open(p, "w"), indent=1)
    return p


def replay(pid, path):
    payload = json.load(open(path))
    line = payload.get("case")
    if not line:
        print("replay file names no case (theorem/correspondence failure): %s" % payload.get("theorem_or_component"))
        return 1
    ok, msg = ensure_driver()
    if line.startswith("I "):
        # an interleaved case: the implementation runs the objects together, the model each of them alone; an object whose trace
        # differs is run alone on the implementation as well (C15: history dependence when that differs from the interleaved trace)
        ident = line.split()[1]
        slines = ["S %s/%d %s" % (ident, j, x) for j, x in enumerate(line.split(" | ", 1)[1].split(" || "))]
        model, impl, errors = runner.run_all([line] + slines, jobs=1, chunks_per_job=1)
        fnd, d = [], None
        for sl in slines:
            sid = sl.split()[1]
            a, b = props.project(pid, sid, model.get(sid)), props.project(pid, sid, impl.get(sid))
            if a != b:
                d = d or dict(object=sid, **(first_diff(a, b) or {}))
                code, out, err = runner.run_impl([sl])
                alone = runner.split_traces(out).get(sid)
                if alone != impl.get(sid):
                    fnd.append(dict(pid="C15", cid=sid, line=line, err="history_dependence", d8=False,
                                    what="object %s: its trace among the other objects differs from its trace alone in a fresh interpreter" % sid.split("/")[1]))
        fnd = [f for f in fnd if f["pid"] == pid] + [f for f in oracles.all_findings(slines, impl) if f["pid"] == pid]
        cid = ident
    else:
        seq = payload.get("sequence") or [line]
        model, impl, errors = runner.run_all(seq, jobs=1, chunks_per_job=1)
        cid = line.split()[1]
        fnd = [f for f in oracles.all_findings(seq, impl) if f["pid"] == pid and f["line"] == line]
        a, b = props.project(pid, cid, model.get(cid)), props.project(pid, cid, impl.get(cid))
        d = first_diff(a, b) if a != b else None
    print("case:", line)
    print("oracle findings:", [(f["err"], f.get("what")) for f in fnd])
    print("model/implementation difference:", d)
    known = load_known()
    live = [f for f in fnd if not match_known(f, known)]
    if live or d:
        print("VIOLATION property=%s replay=%s" % (pid, path))
        return 1
    print("no violation on replay")
    return 0


def main():
    args = sys.argv[1:]
    pid = args[0]
    tier = os.environ.get("VERIF_TIER", "quick")
    rp = None
    i = 1
    while i < len(args):
        if args[i] == "--tier":
            tier = args[i + 1]
            i += 2
        elif args[i] == "--replay":
            rp = args[i + 1]
            i += 2
        else:
            i += 1
    if tier not in ("quick", "thorough"):
        tier = "quick"
    seed = int(os.environ.get("VERIF_SEED", "0") or 0)
    if pid not in props.PROPS:
        print("unknown property", pid)
        return 2
    os.makedirs(CACHE, exist_ok=True)
    lock = open(os.path.join(CACHE, "lock"), "w")
    fcntl.flock(lock, fcntl.LOCK_EX)
    if rp:
        return replay(pid, rp)
    t0 = time.time()
    proof = proof_layer(pid, tier)
    corr = correspondence(tier, seed)
    fcntl.flock(lock, fcntl.LOCK_UN)
    known = load_known()
    violations = []      # (text suffix, replay payload)
    known_lines = []
    ev = dict(property_id=pid, tier=tier, seed=seed, level="proof", assumptions=TRUSTED_BASE)
    cov = dict(obligations=proof["obligations"], discharged=proof["discharged"],
               checker_cmd="make -C coq -j16 && coqc -R . CS Props/%s.v  (Print Assumptions under every theorem)%s" % (
                   pid, "; make clean && make; coqchk -o over all property files (one run per state of the sources)" if tier == "thorough" else ""),
               trusted_base=TRUSTED_BASE, theorems=proof["theorems"], partial_theorems=proof["partial"],
               refuted_theorems=proof["refuted"], proof_layer_detail=proof["detail"])
    if "coqchk" in proof:
        cov["coqchk_output_tail"] = proof["coqchk"]
    if "error" in corr:
        violations.append(("no-failing-input-found", dict(property=pid, theorem_or_component="model driver", detail=corr["error"])))
        mine, mism, fnd = [], [], []
        cov.update(evaluations=0, distinct_nontrivial=0, rule="correspondence could not run", samples=[])
    else:
        cases, model, impl = corr["cases"], corr["model"], corr["impl"]
        mine = [l for l in cases if props.depends(pid, l.split()[1])]
        mism = []
        for l in mine:
            cid = l.split()[1]
            a, b = props.project(pid, cid, model.get(cid)), props.project(pid, cid, impl.get(cid))
            if a != b:
                mism.append((l, first_diff(a, b)))
        fnd = [f for f in corr["findings"] if f["pid"] == pid]
        # --- oracle findings: known or new
        new = []
        seen_known = {}
        for f in fnd:
            e = match_known(f, known)
            if e is not None:
                seen_known.setdefault(e["id"], (e, []))[1].append(f)
            else:
                new.append(f)
        for eid, (e, fs) in sorted(seen_known.items()):
            fs.sort(key=lambda f: case_size(f["line"]))
            known_lines.append("KNOWN-FINDING: property=%s %s: %s [%d case(s) this run, smallest: %s]" % (
                pid, eid, e.get("what", ""), len(fs), fs[0]["line"].split("|")[0].strip()))
        if new:
            new.sort(key=lambda f: case_size(f["line"]))
            f = new[0]
            payload = dict(property=pid, case=f["line"], failing_index=f.get("index"), observed=f.get("what") or f["err"],
                           error=f["err"], expected="the property holds on this input",
                           theorem_or_component=f["cid"].split(":")[0], other_failing_cases=len(new) - 1)
            comp = f["line"].split()[1].split(":")[0]
            if comp.endswith(".seq"):
                # a case of a sequence component fails because of what ran before it in the same interpreter: the replay is the sequence
                seq = [l for l in cases if l.split()[1].split(":")[0] == comp]
                payload["sequence"] = seq[:seq.index(f["line"]) + 1] if f["line"] in seq else seq
            violations.append(("", payload))
        elif mism:
            mism.sort(key=lambda m: case_size(m[0]))
            l, d = mism[0]
            violations.append(("no-failing-input-found", dict(property=pid, case=l, theorem_or_component="correspondence " + l.split()[1].split(":")[0],
                                                             first_difference=d, mismatching_cases=len(mism),
                                                             note="model and implementation disagree on this case; the property's oracle found no input on which the property itself fails")))
        if corr["errors"]:
            violations.append(("no-failing-input-found", dict(property=pid, theorem_or_component="correspondence run", detail=corr["errors"][:3])))
        dist = set()
        comps = {}
        for l in mine:
            cid = l.split()[1]
            comps[cid.split(":")[0]] = comps.get(cid.split(":")[0], 0) + 1
            if nontrivial(l, impl.get(cid)):
                dist.add(l.split(" ", 2)[2])
        samples = []
        for c in sorted(comps):
            for l in mine:
                if l.split()[1].startswith(c + ":"):
                    samples.append(l)
                    break
        cov.update(evaluations=len(mine), distinct_nontrivial=len(dist),
                   rule="cases are generated by harness/gen.py from random.Random(seed) (exhaustive small boxes + seeded random larger tuples + "
                        "boundary box + random next/finalize histories); compared after projection to what the property's theorems depend on; "
                        "distinct = distinct case text; non-trivial = the implementation's stream contains a checkpoint load and a checkpoint "
                        "write (streams), a rejected finalize (histories), a non-exception value (functions), or any constructor-box case",
                   samples=samples[:12], traces_validated_against_impl=len(mine) - len(mism), mismatching_cases=len(mism),
                   cases_per_component=comps, oracle_findings=len(fnd), known_findings_observed=[k.split(":")[1].strip() for k in known_lines],
                   correspondence_wall_s=round(corr.get("wall", 0), 1), correspondence_cached=corr.get("cached", False),
                   exhaustive=False)
    # a *_refuted theorem says the faithful model violates the property on the witness in its statement: it must be recorded as
    # an open known finding of this property, otherwise it is a violation in its own right (the witness is the replay)
    recorded = set(t for e in known if e.get("property") == pid and e.get("status") == "open" for t in e.get("refuted_theorems", []))
    for t in proof["refuted"]:
        if t not in recorded:
            violations.append(("", dict(property=pid, theorem_or_component="Props/%s.v: %s" % (pid, t),
                                        observed="the model is proved to violate the property on the witness named in this theorem, and no open known finding records it",
                                        case="see the theorem's statement and proof (exists ... by vm_compute) in coq/Proofs/Refuted.v")))
    if not proof["ok"]:
        violations.append(("no-failing-input-found" if not any(v[0] == "" for v in violations) else "",
                           dict(property=pid, theorem_or_component="proof layer: " + "; ".join(proof["detail"])[:800])))
    ev["coverage"] = cov
    ev["violations"] = len(violations)
    ev["wall_s"] = round(time.time() - t0, 2)
    os.makedirs(os.path.join(VERIF, "evidence"), exist_ok=True)
    json.dump(ev, open(os.path.join(VERIF, "evidence", pid + ".json"), "w"), indent=1)
    for k in known_lines:
        print(k)
    print("%s tier=%s seed=%d theorems=%d/%d cases=%d mismatches=%d oracle_findings=%d wall=%.1fs" % (
        pid, tier, seed, proof["discharged"], proof["obligations"], len(mine), len(mism), len(fnd), time.time() - t0))
    if violations:
        # a real failing input takes precedence in the report
        violations.sort(key=lambda v: v[0] != "")
        suffix, payload = violations[0]
        payload["all_reasons"] = [v[1].get("theorem_or_component") for v in violations]
        p = write_replay(pid, payload)
        print("VIOLATION property=%s replay=%s%s" % (pid, p, (" " + suffix) if suffix else ""))
        return 1
    return 0


if __name__ == "__main__":
    sys.exit(main())
