"""Python re-implementation of coq/Model/Exec.v (`exec`) and of Sched.mon_step.

It is support for finding failing inputs on the implementation and is itself cross-checked against the extracted
Coq monitor on every compared stream (the MON line).  It is never the claim."""

ERR_PROPERTY = {
    "E_fwd_start": "C01", "E_missing_cp": "C01", "E_cp_not_covering": "C01", "E_rev_no_deps": "C01", "E_overwrite": "C01",
    "E_rev_order": "C02", "E_end_fwd_early": "C02", "E_end_rev_early": "C02", "E_before_endfwd": "C02",
    "E_budget_RAM": "C03", "E_budget_DISK": "C03", "E_mixed_content": "C03",
    "E_leftover": "C04",
    "E_load_work_nonempty": "C12", "E_deps_not_last_step": "C12", "E_overshoot": "C12", "E_deps_many": "C12",
    "E_malformed": "C18",
    "M_n": "C08", "M_r": "C08", "M_max_n": "C08",
}


class XErr(Exception):
    pass


def covers(o, a, b):
    return o is not None and o[0] <= a and b <= o[1]


class Monitor:
    def __init__(self, N, keep, bram, bdisk):
        self.N = N
        self.keep = keep
        self.budget = {"RAM": bram, "DISK": bdisk}
        self.fwd = 0
        self.w_ics = None
        self.w_deps = None
        self.store = {"RAM": {}, "DISK": {}}
        self.rr = 0
        self.seen_endfwd = False
        self.passes = 0
        self.keys0 = {"RAM": [], "DISK": []}
        self.fwd_total = 0
        self.peak = {"RAM": 0, "DISK": 0}
        self.disk_writes = 0
        self.disk_reads = 0
        self.err = None
        self.count = 0

    # -- put: store a checkpoint / set WORK
    def _put(self, sg, k, cp, fw, wi, wd, adv):
        if sg in ("RAM", "DISK"):
            if k in self.store[sg]:
                raise XErr("E_overwrite")
            b = self.budget[sg]
            if b is not None and b < len(self.store[sg]) + 1:
                raise XErr("E_budget_" + sg)
            self.store[sg][k] = cp
            self.peak[sg] = max(self.peak[sg], len(self.store[sg]))
            if sg == "DISK":
                self.disk_writes += 1
        self.fwd, self.w_ics, self.w_deps = fw, wi, wd
        self.fwd_total += adv

    def _exec(self, a, known, exhausted):
        N = self.N
        k = a[0]
        if k == "F":
            _, n0, n1, wi, wa, sg = a
            if not (0 <= n0 < n1):
                raise XErr("E_malformed")
            if (sg in ("RAM", "DISK") and not (wi or wa)) or (sg == "NONE" and (wi or wa)):
                raise XErr("E_malformed")
            if self.fwd is None or self.fwd != n0:
                raise XErr("E_fwd_start")
            if known and not (n1 <= N - self.rr):
                raise XErr("E_overshoot")
            n1p = min(n1, N)
            if n1p <= n0:
                raise XErr("E_overshoot")
            if sg in ("RAM", "DISK"):
                if wi and wa:
                    raise XErr("E_mixed_content")
                if wa and n1p != n0 + 1:
                    raise XErr("E_mixed_content")
                self._put(sg, n0, ((n0, n1p) if wi else None, (n0, n1p) if wa else None), n1p, None, None, n1p - n0)
            elif sg == "WORK":
                if wa and not self.keep and not (n1p == n0 + 1 and n1p == N - self.rr):
                    raise XErr("E_deps_not_last_step")
                self._put("WORK", n0, None, n1p, (n0, n1p) if wi else None, (n0, n1p) if wa else None, n1p - n0)
            else:
                self._put("NONE", n0, None, n1p, None, None, n1p - n0)
        elif k == "R":
            _, n1, n0, clear = a
            if not (0 <= n0 < n1):
                raise XErr("E_malformed")
            if not self.seen_endfwd:
                raise XErr("E_before_endfwd")
            if n1 != N - self.rr:
                raise XErr("E_rev_order")
            if not covers(self.w_deps, n0, n1):
                raise XErr("E_rev_no_deps")
            if clear:
                self.w_deps = None
            self.rr += n1 - n0
        elif k in ("C", "M"):
            _, n, src, dst = a
            if src not in ("RAM", "DISK") or not (0 <= n):
                raise XErr("E_malformed")
            if not self.seen_endfwd:
                raise XErr("E_before_endfwd")
            if self.w_ics is not None or self.w_deps is not None:
                raise XErr("E_load_work_nonempty")
            if n not in self.store[src]:
                raise XErr("E_missing_cp")
            cp = self.store[src][n]
            if not (n < N - self.rr):
                raise XErr("E_cp_not_covering")
            # checks on the destination come before the state change
            if dst == "WORK":
                ics, deps = cp
                restart = ics is not None and ics[0] <= n < ics[1]
                if restart and not covers(ics, n, N - self.rr):
                    raise XErr("E_cp_not_covering")
                if not self.keep and deps is not None and deps[1] - deps[0] > 1:
                    raise XErr("E_deps_many")
            elif dst in ("RAM", "DISK"):
                removed = (k == "M" and src == dst)
                if n in self.store[dst] and not removed:
                    raise XErr("E_overwrite")
                b = self.budget[dst]
                cur = len(self.store[dst]) - (1 if removed else 0)
                if b is not None and b < cur + 1:
                    raise XErr("E_budget_" + dst)
            if k == "M":
                del self.store[src][n]
            if src == "DISK":
                self.disk_reads += 1
            if dst == "WORK":
                self._put("WORK", n, None, n if restart else None, ics, deps, 0)
            elif dst in ("RAM", "DISK"):
                self._put(dst, n, cp, self.fwd, None, None, 0)
        elif k == "EF":
            if self.seen_endfwd:
                raise XErr("E_end_fwd_early")
            if self.fwd is None or self.fwd != N:
                raise XErr("E_end_fwd_early")
            self.seen_endfwd = True
            self.keys0 = {s: sorted(self.store[s]) for s in ("RAM", "DISK")}
        elif k == "ER":
            if not self.seen_endfwd:
                raise XErr("E_before_endfwd")
            if self.rr != N:
                raise XErr("E_end_rev_early")
            if exhausted and (self.store["RAM"] or self.store["DISK"]):
                raise XErr("E_leftover")
            if not exhausted and not (sorted(self.store["RAM"]) == self.keys0["RAM"]
                                      and sorted(self.store["DISK"]) == self.keys0["DISK"]):
                raise XErr("E_leftover")
            if not exhausted:
                self.rr = 0
            self.passes += 1
        else:
            raise XErr("E_malformed")

    def step(self, a, n, r, max_n, exhausted):
        """a: parsed action tuple; n, r, max_n, exhausted: the schedule's attributes read after the action was emitted."""
        if self.err is None:
            try:
                self._exec(a, max_n is not None, exhausted)
                bad = None
                if self.fwd is not None:
                    if max_n is None and self.fwd == self.N:
                        ok = isinstance(n, int) and n >= self.N      # the client finalises next
                    else:
                        ok = (n == self.fwd)
                    if not ok:
                        bad = "M_n"
                if bad is None and r != self.rr:
                    bad = "M_r"
                if bad is None and not (max_n is None or max_n == self.N):
                    bad = "M_max_n"
                if bad is not None:
                    self.err = (bad, self.count)
            except XErr as e:
                self.err = (str(e), self.count)
        self.count += 1

    def line(self):
        zl = lambda l: "[" + ",".join(str(x) for x in sorted(l)) + "]"  # noqa
        return "MON %s fwd=%d rp=%d dp=%d dw=%d dr=%d ram=%s disk=%s passes=%d acts=%d" % (
            "ok" if self.err is None else "%s@%d" % self.err, self.fwd_total, self.peak["RAM"], self.peak["DISK"],
            self.disk_writes, self.disk_reads, zl(self.store["RAM"]), zl(self.store["DISK"]), self.passes, self.count)
