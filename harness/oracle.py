"""Python re-implementation of coq/Model/Exec.v (check / apply / exec) and of Sched.mon_step.

It is support for finding failing inputs on the implementation and is itself cross-checked against the extracted
Coq monitor on every compared stream (the MON line).  It is never the claim.

Strict mode = Exec.v: the first failing requirement is the error and the state is left unchanged.
Lenient mode (oracle search only): every failing requirement is recorded and execution continues with `apply`,
so that a violation of one property does not hide a later violation of another."""

ERR_PROPERTY = {
    "E_fwd_start": "C01", "E_missing_cp": "C01", "E_cp_not_covering": "C01", "E_rev_no_deps": "C01", "E_overwrite": "C01",
    "E_rev_order": "C02", "E_end_fwd_early": "C02", "E_end_rev_early": "C02", "E_before_endfwd": "C02",
    "E_budget_RAM": "C03", "E_budget_DISK": "C03", "E_mixed_content": "C03",
    "E_leftover": "C04",
    "E_load_work_nonempty": "C12", "E_deps_not_last_step": "C12", "E_overshoot": "C12", "E_deps_many": "C12",
    "E_malformed": "C18",
    "M_n": "C08", "M_r": "C08", "M_max_n": "C08",
}


def covers(o, a, b):
    return o is not None and o[0] <= a and b <= o[1]


class Monitor:
    def __init__(self, N, keep, bram, bdisk, lenient=False):
        self.N = N
        self.keep = keep
        self.budget = {"RAM": bram, "DISK": bdisk}
        self.fwd = 0
        self.w_ics = None
        self.w_deps = None
        self.store = {"RAM": {}, "DISK": {}}
        self.rr = 0
        self.seen_endfwd = False
        self.passes = 0
        self.keys0 = {"RAM": [], "DISK": []}
        self.fwd_total = 0
        self.peak = {"RAM": 0, "DISK": 0}
        self.disk_writes = 0
        self.disk_reads = 0
        self.err = None
        self.count = 0
        self.lenient = lenient
        self.errors = []          # lenient mode: all (error, action index)

    # ---- requirements, in the order of Exec.check ----
    def _can_put(self, sg, k, store=None):
        if sg not in ("RAM", "DISK"):
            return []
        st = self.store[sg] if store is None else store
        b = self.budget[sg]
        return [(k not in st, "E_overwrite"), (b is None or len(st) + 1 <= b, "E_budget_" + sg)]

    def _check(self, a, known, exhausted):
        N = self.N
        k = a[0]
        if k == "F":
            _, n0, n1, wi, wa, sg = a
            n1p = min(n1, N)
            cp = sg in ("RAM", "DISK")
            return [(0 <= n0 < n1, "E_malformed"),
                    (not ((cp and not (wi or wa)) or (sg == "NONE" and (wi or wa))), "E_malformed"),
                    (self.fwd is not None and self.fwd == n0, "E_fwd_start"),
                    ((not known) or n1 <= N - self.rr, "E_overshoot"),
                    (n0 < n1p, "E_overshoot"),
                    (not (cp and wi and wa), "E_mixed_content"),
                    (not (cp and wa and n1p != n0 + 1), "E_mixed_content"),
                    (not (sg == "WORK" and wa and not self.keep and not (n1p == n0 + 1 and n1p == N - self.rr)), "E_deps_not_last_step"),
                    ] + self._can_put(sg, n0)
        if k == "R":
            _, n1, n0, clear = a
            return [(0 <= n0 < n1, "E_malformed"), (self.seen_endfwd, "E_before_endfwd"), (n1 == N - self.rr, "E_rev_order"),
                    (covers(self.w_deps, n0, n1), "E_rev_no_deps")]
        if k in ("C", "M"):
            _, n, src, dst = a
            st = self.store.get(src, {})
            reqs = [(src in ("RAM", "DISK") and 0 <= n, "E_malformed"), (self.seen_endfwd, "E_before_endfwd"),
                    (self.w_ics is None and self.w_deps is None, "E_load_work_nonempty"),
                    (n in st, "E_missing_cp"), (n < N - self.rr, "E_cp_not_covering")]
            if n in st:
                ics, deps = st[n]
                if dst == "WORK":
                    restart = ics is not None and ics[0] <= n < ics[1]
                    reqs += [((not restart) or covers(ics, n, N - self.rr), "E_cp_not_covering"),
                             (self.keep or (0 if deps is None else deps[1] - deps[0]) <= 1, "E_deps_many")]
                elif dst in ("RAM", "DISK"):
                    tgt = dict(self.store[dst])
                    if k == "M" and src == dst:
                        tgt.pop(n, None)
                    reqs += self._can_put(dst, n, tgt)
            return reqs
        if k == "EF":
            return [(not self.seen_endfwd, "E_end_fwd_early"), (self.fwd is not None and self.fwd == N, "E_end_fwd_early")]
        if k == "ER":
            if exhausted:
                clean = not self.store["RAM"] and not self.store["DISK"]
            else:
                clean = sorted(self.store["RAM"]) == self.keys0["RAM"] and sorted(self.store["DISK"]) == self.keys0["DISK"]
            return [(self.seen_endfwd, "E_before_endfwd"), (self.rr == N, "E_end_rev_early"), (clean, "E_leftover")]
        return [(False, "E_malformed")]

    def _put(self, sg, k, cp):
        if sg in ("RAM", "DISK"):
            self.store[sg][k] = cp
            self.peak[sg] = max(self.peak[sg], len(self.store[sg]))
            if sg == "DISK":
                self.disk_writes += 1

    def _apply(self, a, exhausted):
        N = self.N
        k = a[0]
        if k == "F":
            _, n0, n1, wi, wa, sg = a
            n1p = min(n1, N)
            work = sg == "WORK"
            self.fwd = n1p
            self.w_ics = (n0, n1p) if (work and wi) else None
            self.w_deps = (n0, n1p) if (work and wa) else None
            self._put(sg, n0, ((n0, n1p) if wi else None, (n0, n1p) if wa else None))
            self.fwd_total += n1p - n0
        elif k == "R":
            _, n1, n0, clear = a
            self.rr += n1 - n0
            if clear:
                self.w_deps = None
        elif k in ("C", "M"):
            _, n, src, dst = a
            st = self.store.get(src, {})
            if n not in st:
                return
            cp = st[n]
            if k == "M":
                del st[n]
            if src == "DISK":
                self.disk_reads += 1
            if dst == "WORK":
                ics, deps = cp
                restart = ics is not None and ics[0] <= n < ics[1]
                self.fwd, self.w_ics, self.w_deps = (n if restart else None), ics, deps
            else:
                self._put(dst, n, cp)
        elif k == "EF":
            self.seen_endfwd = True
            self.keys0 = {s: sorted(self.store[s]) for s in ("RAM", "DISK")}
        elif k == "ER":
            if not exhausted:
                self.rr = 0
            self.passes += 1

    def step(self, a, n, r, max_n, exhausted):
        """a: parsed action tuple; n, r, max_n, exhausted: the schedule's attributes read after the action was emitted."""
        if self.err is None or self.lenient:
            failed = [e for ok, e in self._check(a, max_n is not None, exhausted) if not ok]
            if failed and not self.lenient:
                self.err = (failed[0], self.count)
            else:
                for e in failed:
                    self.errors.append((e, self.count))
                self._apply(a, exhausted)
                bad = None
                if self.fwd is not None:
                    if max_n is None and self.fwd == self.N:
                        ok = isinstance(n, int) and n >= self.N      # the client finalises next
                    else:
                        ok = (n == self.fwd)
                    if not ok:
                        bad = "M_n"
                if bad is None and r != self.rr:
                    bad = "M_r"
                if bad is None and not (max_n is None or max_n == self.N):
                    bad = "M_max_n"
                if bad is not None:
                    if self.lenient:
                        self.errors.append((bad, self.count))
                    else:
                        self.err = (bad, self.count)
        self.count += 1

    def line(self):
        zl = lambda l: "[" + ",".join(str(x) for x in sorted(l)) + "]"  # noqa
        return "MON %s fwd=%d rp=%d dp=%d dw=%d dr=%d ram=%s disk=%s passes=%d acts=%d" % (
            "ok" if self.err is None else "%s@%d" % self.err, self.fwd_total, self.peak["RAM"], self.peak["DISK"],
            self.disk_writes, self.disk_reads, zl(self.store["RAM"]), zl(self.store["DISK"]), self.passes, self.count)
