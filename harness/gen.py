"""Case generators.  Every random choice derives from one random.Random(seed).  A case is one text line:
   S <id> <class params> | <N keep bram bdisk> | <ops>      or      V <id> <function> <args>
   The id is <component>:<serial>; components are named in DESIGN.md 7.2."""
import random
import re
import itertools

COSTS = [(1, 1, 2, 2), (1, 1, 0, 0), (2, 1, 1, 5), (1, 3, 5, 1), (3, 2, 1, 1), (1, 1, 0, 1), (1, 2, 0, 3), (2, 1, 3, 0), (3, 1, 6, 6), (1, 4, 2, 2), (4, 1, 2, 9), (2, 3, 7, 4), (1, 1, 9, 9)]


class Gen:
    def __init__(self, seed, tier):
        self.rng = random.Random(seed)
        self.tier = tier
        self.cases = []
        self.count = {}

    def add(self, comp, text):
        k = self.count.get(comp, 0)
        self.count[comp] = k + 1
        kind, rest = text.split(" ", 1)
        self.cases.append("%s %s:%d %s" % (kind, comp, k, rest))

    # ---- helpers: budgets handed to the reference executor (the property's declared budgets) ----
    def sched(self, comp, ps, N, keep, bram, bdisk, ops):
        b = lambda v: "-" if v is None else str(v)  # noqa
        self.add(comp, "S %s | %d %d %s %s | %s" % (ps, N, 1 if keep else 0, b(bram), b(bdisk), " ".join(ops)))

    def basic(self, kind, N, passes, comp="stream.basic", extra=None):
        if kind == "none":
            ops = ["n", "f%d" % N, "n", "n", "n"]
            self.sched(comp, "none", N, False, 0, 0, ops)
        elif kind == "mem":
            ops = ["n", "f%d" % N, "r%d:%d" % (passes, 6 * passes + 10), "n"]
            self.sched(comp, "mem", N, True, 0, 0, ops)
        else:
            mv = kind == "disk1"
            ops = ["n"] * N + ["f%d" % N, "r%d:%d" % (passes, (2 * N + 3) * passes + 10), "n", "n"]
            self.sched(comp, "disk %d" % (1 if mv else 0), N, False, 0, None, ops)

    def twolevel(self, N, P, b, stg, tr, passes, comp="stream.twolevel"):
        nf = -(-N // P)
        ops = ["n"] * nf + ["f%d" % N, "r%d:%d" % (passes, 40 * N * passes + 50), "n"]
        periods = nf
        if stg == "RAM":
            bram, bdisk = b, periods
        else:
            bram, bdisk = 0, periods + b
        self.sched(comp, "two %d %d %s %s" % (P, b, stg, tr), N, False, bram, bdisk, ops)

    def multistage(self, N, ram, disk, tr, comp="stream.multistage"):
        lim = 12 * N * max(1, N.bit_length()) + 50
        self.sched(comp, "multi %d %d %d %s" % (N, ram, disk, tr), N, False, min(ram, max(N - 1, 0)), min(disk, max(N - 1, 0)),
                   ["r1:%d" % lim, "n", "n"])

    def mixed(self, N, s, stg, path, comp="stream.mixed"):
        lim = 6 * N * N + 50
        bram, bdisk = (s, 0) if stg == "RAM" else (0, s)
        self.sched(comp, "mixed %d %d %s %s" % (N, s, stg, path), N, False, bram, bdisk, ["r1:%d" % lim, "n", "n"])

    def rev(self, kind, N, r, d, cost, comp=None, scale=0):
        """scale > 0: the implementation is given the costs divided by `scale` (a power of two: exact binary fractions), the
        model the integers themselves -- every decision of the generators is a comparison of linear forms in the costs, so the
        stream must be the same"""
        comp = comp or ("stream." + kind)
        uf, ub, wd, rd = cost
        lim = 40 * N * max(1, N.bit_length()) + 100
        bdisk = {"revolve": 0, "disk": None, "periodic": None, "hrevolve": d}[kind]
        ps = "rev %s %d %d %d %d %d %d %d" % (kind, N, r, d, uf, ub, wd, rd) + (" %d" % scale if scale else "")
        self.sched(comp, ps, N, False, r, bdisk, ["r1:%d" % lim, "n", "n"])

    # ---- histories: random interleavings of next / finalize(k) with k around the interesting values ----
    def history(self, comp, ps, N, length, online, keep, bram, bdisk, n_est):
        rng = self.rng
        ops = []
        fin = False
        for _ in range(length):
            x = rng.random()
            if x < 0.62:
                ops.append("n")
            elif x < 0.70 and online and not fin:
                ops.append("f%d" % N)
                fin = True
            else:
                k = rng.choice([-1, 0, 1, 2, N - 1, N, N + 1, n_est, n_est + 1, max(1, n_est - 1), rng.randint(-2, 2 * N + 3)])
                ops.append("f%d" % k)
        # in every fifth history the arguments of finalize are numpy integers (op g<k>) instead of Python ints
        if rng.random() < 0.2:
            ops = ["g" + o[1:] if o[0] == "f" else o for o in ops]
        self.sched(comp, ps, N, keep, bram, bdisk, ops)


def generate(seed, tier):
    g = Gen(seed, tier)
    rng = g.rng
    thorough = tier == "thorough"
    # ---------------- basic classes
    for kind in ("none", "mem", "disk0", "disk1"):
        for N in range(1, 21 if thorough else 13):
            g.basic(kind, N, 3)
    for kind in ("mem", "disk0", "disk1"):
        for _ in range(6 if thorough else 3):
            g.basic(kind, rng.randint(30, 400), 2)
    # ---------------- TwoLevel
    NN, PP, BB = (22, 7, 4) if thorough else (13, 5, 3)
    for N in range(1, NN + 1):
        for P in range(1, PP + 1):
            for b in range(0, BB + 1):
                for stg in ("RAM", "DISK"):
                    tr = "max" if (N + P + b) % 2 == 0 else "rev"
                    g.twolevel(N, P, b, stg, tr, 2)
    for _ in range(300 if thorough else 60):
        g.twolevel(rng.randint(10, 300), rng.randint(1, 40), rng.randint(0, 8), rng.choice(["RAM", "DISK"]), rng.choice(["max", "rev"]), 2)
    # ---------------- Multistage
    NN, UU = (30, 5) if thorough else (18, 3)
    for N in range(1, NN + 1):
        for ram in range(0, UU + 1):
            for disk in range(0, UU + 1):
                if N > 1 and ram + disk == 0:
                    continue
                for tr in ("max", "rev"):
                    g.multistage(N, ram, disk, tr)
    for _ in range(400 if thorough else 80):
        N = int(2 ** rng.uniform(3, 10 if thorough else 9))
        s = max(1, int(2 ** rng.uniform(0, 6)))
        ram = rng.randint(0, s)
        g.multistage(N, ram, s - ram, rng.choice(["max", "rev"]))
    # ---------------- Mixed (both planner paths)
    NN = 30 if thorough else 20
    for N in range(1, NN + 1):
        for s in range(min(1, N - 1), N + 2):
            if s > 8 and s < N - 2 and (N + s) % 3:
                continue
            stg = "RAM" if (N + s) % 2 else "DISK"
            g.mixed(N, s, stg, "memo")
            g.mixed(N, s, stg, "tab")
    for _ in range(120 if thorough else 24):
        N = rng.randint(NN, 140 if thorough else 90)
        s = max(1, int(2 ** rng.uniform(0, 6)))
        g.mixed(N, s, rng.choice(["RAM", "DISK"]), "tab")
        if N <= 70:
            g.mixed(N, s, rng.choice(["RAM", "DISK"]), "memo")
    # more units than steps at sizes beyond the small box (a cap on the number of units considered would show here; cheap: the
    # memoised planner answers these without a search)
    for N, s in ([(260, 259), (300, 299), (270, 400)] + ([(520, 519), (700, 1000)] if thorough else [])):
        g.mixed(N, s, "RAM" if N % 20 else "DISK", "memo")
    # cold starts at larger sizes: each of these cases gets an interpreter of its own (runner.run_all), so nothing computed for a
    # smaller problem is cached yet -- recursion depth and other start-up effects of the memoised helpers show here
    g.mixed(600, 3, "RAM", "memo", comp="stream.mixed.cold")
    g.mixed(520, 2, "DISK", "memo", comp="stream.mixed.cold")
    g.multistage(1500, 0, 4, "max", comp="stream.multistage.cold")
    g.multistage(1200, 2, 3, "rev", comp="stream.multistage.cold")
    g.twolevel(900, 64, 3, "RAM", "max", 2, comp="stream.twolevel.cold")
    g.rev("revolve", 240, 3, 0, COSTS[0], comp="stream.revolve.cold")
    g.rev("hrevolve", 120, 2, 2, COSTS[0], comp="stream.hrevolve.cold")
    # driven the documented way: `for action in schedule: ...; break` at EndReverse, one for-loop per adjoint calculation, then
    # next() again (the model's Run is the same thing; what differs is the iteration protocol of the implementation)
    k0 = len(g.cases)
    for kind, N in (("none", 2), ("mem", 1), ("mem", 3), ("disk0", 2), ("disk0", 4), ("disk1", 3)):
        g.basic(kind, N, 3, comp="stream.basic.forloop")
    g.twolevel(7, 3, 2, "RAM", "max", 3, comp="stream.twolevel.forloop")
    g.twolevel(5, 2, 1, "DISK", "rev", 3, comp="stream.twolevel.forloop")
    g.twolevel(3, 1, 0, "DISK", "max", 2, comp="stream.twolevel.forloop")
    g.multistage(6, 1, 1, "max", comp="stream.multistage.forloop")
    g.mixed(6, 2, "RAM", "memo", comp="stream.mixed.forloop")
    g.mixed(5, 2, "DISK", "tab", comp="stream.mixed.forloop")
    g.rev("revolve", 6, 2, 0, COSTS[0], comp="stream.revolve.forloop")
    g.rev("disk", 8, 1, 0, COSTS[0], comp="stream.disk.forloop")
    g.rev("hrevolve", 7, 1, 1, COSTS[0], comp="stream.hrevolve.forloop")
    for i in range(k0, len(g.cases)):
        g.cases[i] = re.sub(r" r(\d+):(\d+)", lambda m: " " + " ".join(["%s1:%s" % ("L" if (i + j) % 2 == 0 else "l", m.group(2)) for j in range(int(m.group(1)))]), g.cases[i])
    # ... and loops that are left anywhere: the first `for` loop takes k actions (k = 1, 2, 3, 5, 8, ... inside the forward calculation,
    # inside the adjoint one) and is left with break, further loops finish the calculation
    k1 = len(g.cases)
    for N, ram, disk, tr in [(5, 0, 2, "max"), (7, 2, 1, "rev"), (12, 1, 2, "max")]:
        g.multistage(N, ram, disk, tr, comp="stream.multistage.forbreak")
    for N, s_, kind in [(6, 2, "memo"), (9, 3, "tab")]:
        g.mixed(N, s_, "DISK" if N % 2 else "RAM", kind, comp="stream.mixed.forbreak")
    g.twolevel(7, 3, 1, "RAM", "max", 2, comp="stream.twolevel.forbreak")
    g.basic("disk0", 4, 2, comp="stream.basic.forbreak")
    for kind, N, r, d in [("revolve", 7, 2, 0), ("disk", 8, 1, 0), ("hrevolve", 8, 1, 1)]:
        g.rev(kind, N, r, d, COSTS[0], comp="stream." + kind + ".forbreak")
    extra = []
    for i in range(k1, len(g.cases)):
        base = re.sub(r" r(\d+):(\d+)", lambda m: " " + " ".join(["l1:%s" % m.group(2)] * int(m.group(1))), g.cases[i])
        head, ops = base.rsplit(" | ", 1)
        ops = ops.split()
        first = next(q for q, o in enumerate(ops) if o[0] in "lL")
        cid = head.split()[1]
        for j, kk in enumerate((1, 2, 3, 5, 8, 13)):
            extra.append(head.replace(cid, cid.split(":")[0] + ":%d" % (1000 * j + int(cid.split(":")[1])), 1) + " | " + " ".join(ops[:first] + ["b%d" % kk] + ops[first:]))
    g.cases[k1:] = extra
    # small problems first, then larger ones of the same class, in ONE interpreter (runner: components ending in .seq): state kept at
    # module level between schedules (memo tables that grow, caches keyed too coarsely) shows when a later, larger problem reuses it
    for N, s_, kind in [(4, 2, "memo"), (6, 3, "memo"), (30, 8, "memo"), (256, 2, "memo"), (257, 3, "memo"), (300, 8, "memo"), (12, 4, "memo")]:
        g.mixed(N, s_, "RAM" if N % 2 else "DISK", kind, comp="stream.mixed.seq")
    for N, s_, kind in [(5, 2, "tab"), (40, 6, "tab"), (280, 5, "tab"), (9, 3, "tab")]:
        g.mixed(N, s_, "DISK", kind, comp="stream.mixedtab.seq")
    for N, ram, disk, tr in [(4, 1, 1, "max"), (20, 2, 2, "rev"), (300, 2, 3, "max"), (640, 3, 4, "rev"), (7, 1, 2, "max")]:
        g.multistage(N, ram, disk, tr, comp="stream.multistage.seq")
    for kind, N, r, d in [("revolve", 5, 2, 0), ("revolve", 260, 3, 0), ("disk", 6, 1, 0), ("disk", 270, 2, 0), ("hrevolve", 6, 1, 1), ("hrevolve", 150, 2, 2), ("periodic", 7, 1, 0), ("periodic", 280, 2, 0),
                          ("disk", 4, 1, 0), ("hrevolve", 5, 1, 1)]:
        g.rev(kind, N, r, d, COSTS[0], comp="stream." + kind + ".seq")
    # heavy checkpoint traffic (well over a thousand accesses, counts of neighbouring stack positions that differ by one) with both kinds
    # of unit and every kind of split: the ranking inside allocate_snapshots
    for N, ram, disk, tr in [(546, 13, 18, "max"), (561, 15, 15, "max"), (597, 27, 5, "max"), (660, 6, 15, "rev"), (620, 10, 20, "max")]:
        g.multistage(N, ram, disk, tr, comp="stream.multistage.heavy")
    for _ in range(60 if thorough else 14):
        N = rng.randint(500, 720)
        units = rng.randint(16, 36)
        ram = rng.randint(1, units - 1)
        g.multistage(N, ram, units - ram, rng.choice(["max", "max", "rev"]), comp="stream.multistage.heavy")
    # a schedule abandoned after a few actions (checkpoints written, none moved out yet), then complete runs of the same class in the same
    # interpreter: what the abandoned object leaves behind outside itself
    def abandoned(k):
        head, _ = g.cases[-1].rsplit(" | ", 1)
        g.cases[-1] = head + " | " + " ".join(["n"] * k)
    g.multistage(9, 1, 2, "max", comp="stream.multistage.aftermath.seq"); abandoned(3)
    g.multistage(2, 1, 0, "max", comp="stream.multistage.aftermath.seq")
    g.multistage(7, 2, 1, "rev", comp="stream.multistage.aftermath.seq")
    g.mixed(9, 3, "DISK", "memo", comp="stream.mixed.aftermath.seq"); abandoned(4)
    g.mixed(5, 2, "RAM", "memo", comp="stream.mixed.aftermath.seq")
    g.mixed(8, 3, "DISK", "tab", comp="stream.mixed.aftermath.seq"); abandoned(5)
    g.mixed(6, 2, "DISK", "tab", comp="stream.mixed.aftermath.seq")
    g.twolevel(9, 3, 2, "RAM", "max", 2, comp="stream.twolevel.aftermath.seq"); abandoned(2)
    g.twolevel(6, 2, 1, "RAM", "rev", 2, comp="stream.twolevel.aftermath.seq")
    for kind, N, r, d in [("revolve", 9, 2, 0), ("hrevolve", 10, 1, 2), ("disk", 9, 1, 0), ("periodic", 9, 1, 0)]:
        g.rev(kind, N, r, d, COSTS[0], comp="stream." + kind + ".aftermath.seq"); abandoned(4)
        g.rev(kind, N - 3, r, d, COSTS[0], comp="stream." + kind + ".aftermath.seq")
    # very many adjoint calculations on one object (the classes that allow any number): each is an exact repeat of the first
    MANY = 2600 if thorough else 1150
    g.basic("mem", 2, MANY, comp="stream.basic.manypasses")
    g.basic("disk0", 1, MANY, comp="stream.basic.manypasses")
    g.basic("disk0", 3, MANY, comp="stream.basic.manypasses")
    g.twolevel(5, 2, 1, "RAM", "max", MANY, comp="stream.twolevel.manypasses")
    # the same classes in an interpreter started with -O (assert statements compiled away): valid parameters only, since some
    # argument checks of the library are assert statements
    for kind in ("none", "mem", "disk0", "disk1"):
        g.basic(kind, 5, 3, comp="stream.basic.pyO")
    g.twolevel(9, 3, 2, "RAM", "max", 2, comp="stream.twolevel.pyO")
    g.twolevel(8, 2, 1, "DISK", "rev", 2, comp="stream.twolevel.pyO")
    for N, ram, disk, tr in [(3, 0, 2, "max"), (7, 2, 0, "rev"), (9, 1, 2, "max"), (12, 2, 2, "rev"), (30, 0, 3, "max")]:
        g.multistage(N, ram, disk, tr, comp="stream.multistage.pyO")
    for N, s_, kind in [(4, 1, "memo"), (9, 2, "tab"), (14, 3, "memo"), (14, 3, "tab")]:
        g.mixed(N, s_, "DISK" if N % 2 else "RAM", kind, comp="stream.mixed.pyO")
    for kind, N, r, d in [("revolve", 9, 2, 0), ("disk", 11, 1, 0), ("periodic", 11, 2, 0), ("hrevolve", 10, 1, 2), ("hrevolve", 12, 2, 1)]:
        g.rev(kind, N, r, d, COSTS[0], comp="stream." + kind + ".pyO")
    # ---------------- Revolve family
    NN, RR, DD = (22, 4, 3) if thorough else (14, 3, 2)
    costs = COSTS if thorough else COSTS[:9]
    for N in range(1, NN + 1):
        for r in range(1, RR + 1):
            for c in costs:
                g.rev("revolve", N, r, 0, c)
                g.rev("disk", N, r, 0, c)
                g.rev("periodic", N, r, 0, c)
                for d in range(0, DD + 1):
                    g.rev("hrevolve", N, r, d, c)
    # H-Revolve with two or more disk levels in play: cost vectors under which the candidate lists of the split search are not
    # unimodal (second local minimum is the global one)
    for c in [(2, 1, 5, 3), (1, 2, 4, 1), (3, 1, 7, 2), (1, 1, 3, 1)]:
        for N in range(6, (22 if thorough else 16) + 1):
            for r in (1, 2):
                for d in (2, 3):
                    g.rev("hrevolve", N, r, d, c)
    # fractional costs: the same integer vectors, handed to the implementation divided by a power of two
    for c in [(1, 1, 2, 2), (1, 2, 1, 1), (2, 1, 3, 1), (1, 1, 0, 1)]:
        for sc in ((2, 8, 32) if thorough else (8,)):
            for N in range(2, (20 if thorough else 12) + 1):
                for r in (1, 2, 3):
                    g.rev("revolve", N, r, 0, c, scale=sc)
                    g.rev("disk", N, r, 0, c, scale=sc)
                    g.rev("periodic", N, r, 0, c, scale=sc)
                    g.rev("hrevolve", N, r, 1, c, scale=sc)
    for _ in range(200 if thorough else 40):
        N = rng.randint(NN, 150 if thorough else 90)
        r = rng.randint(1, 6)
        c = (rng.randint(1, 4), rng.randint(1, 4), rng.randint(0, 9), rng.randint(0, 9))
        g.rev("revolve", N, r, 0, c)
        g.rev("disk", N, r, 0, c)
        g.rev("periodic", N, r, 0, c)
        g.rev("hrevolve", N, r, rng.randint(0, 5), c)
    # step indices beyond 256 (CPython caches the int objects -5..256: an identity comparison of step numbers behaves like == below
    # that and fails above) and beyond the small random sizes, all four classes
    for kind, N, r, d, c in [("revolve", 300, 5, 0, COSTS[0]), ("revolve", 280, 2, 0, (2, 3, 2, 2)), ("disk", 300, 4, 0, COSTS[0]),
                             ("periodic", 300, 3, 0, COSTS[0]), ("hrevolve", 270, 3, 2, COSTS[0])] + \
                            ([("revolve", 420, 7, 0, COSTS[0]), ("hrevolve", 330, 2, 4, (1, 1, 1, 3)), ("disk", 380, 2, 0, (3, 1, 1, 1))] if thorough else []):
        g.rev(kind, N, r, d, c)
    # a forward step dearer than a disk round trip (uf > wd + rd: the period of the periodic schedule is 1) with more memory slots than
    # that, up to six
    for c in [(5, 1, 2, 2), (3, 1, 1, 1), (4, 1, 0, 1), (9, 2, 3, 4)]:
        for r in ((2, 3, 4, 5, 6) if thorough else (2, 4, 6)):
            for N in ((5, 6, 7, 9, 14) if thorough else (5, 9, 14)):
                g.rev("revolve", N, r, 0, c)
                g.rev("disk", N, r, 0, c)
                g.rev("periodic", N, r, 0, c)
                g.rev("hrevolve", N, r, 1 + (N + r) % 2, c)
    # many nested disk checkpoints: cheap disk storage next to an expensive forward step, one or two memory slots (round 9)
    for kind, N, r, d, c in [("disk", 270, 1, 0, (3, 2, 1, 0)), ("periodic", 270, 1, 0, (3, 2, 1, 0)), ("revolve", 270, 1, 0, (3, 2, 1, 0)), ("disk", 300, 2, 0, (4, 1, 1, 1))] + \
                            ([("disk", 400, 1, 0, (3, 2, 1, 0)), ("disk", 330, 1, 0, (5, 1, 1, 1)), ("hrevolve", 300, 1, 3, (4, 1, 1, 1))] if thorough else []):
        g.rev(kind, N, r, d, c)
    # costs of other magnitudes: totals beyond 10**6, 2**31 and 2**53 on short chains (a table initialised with a finite "infinity", a
    # float in the way of an exact integer)
    for c in [(10 ** 4, 1, 1, 1), (3, 10 ** 5, 2, 2), (10 ** 7, 3, 1000, 1)] + ([(10 ** 10, 7, 10 ** 6, 10 ** 5), (2 ** 40, 1, 1, 1)] if thorough else []):
        for N in (25, 40):
            for r in (1, 2):
                g.rev("revolve", N, r, 0, c)
                g.rev("disk", N, r, 0, c)
                g.rev("periodic", N, r, 0, c)
                for d in (0, 1):
                    g.rev("hrevolve", N, r, d, c)
    # TwoLevel periods beyond the random sizes, the chain ending one step after a period boundary (last block of length one) and in
    # the middle of a block
    for P in range(41, (200 if thorough else 128) + 1):
        g.twolevel(P + 1, P, 1 + P % 3, "RAM" if P % 2 else "DISK", "max" if P % 3 else "rev", 2)
        if thorough or P % 8 == 1:
            g.twolevel(2 * P + 1, P, 2, "DISK", "rev", 2)
            g.twolevel(2 * P + P // 2, P, 2, "RAM", "max", 2)
    # unit counts beyond 256 as well
    g.multistage(300, 280, 10, "max")
    g.multistage(300, 0, 290, "rev")
    g.twolevel(600, 300, 270, "RAM", "max", 2)
    if thorough:
        g.rev("revolve", 300, 290, 0, COSTS[0])
        g.rev("hrevolve", 270, 260, 2, COSTS[0])
    # ---------------- constructor box around the domain boundary (C17)
    for N in range(0, 7):
        for u in range(0, N + 3):
            for stg in ("RAM", "DISK", "WORK", "NONE"):
                g.mixed(N, u, stg, "memo", comp="ctor.mixed")
                g.mixed(N, u, stg, "tab", comp="ctor.mixed")
            for u2 in range(0, 3):
                g.multistage(N, u, u2, "max", comp="ctor.multistage")
                g.multistage(N, u2, u, "rev", comp="ctor.multistage")
            for kind in ("revolve", "disk", "periodic"):
                g.rev(kind, N, u, 0, COSTS[0], comp="ctor.revfam")
            for d in range(0, 3):
                g.rev("hrevolve", N, u, d, COSTS[0], comp="ctor.revfam")
    for P in range(0, 4):
        for b in range(0, 3):
            for stg in ("RAM", "DISK", "WORK", "NONE"):
                for N in (1, 2, 5):
                    g.twolevel(N, max(P, 0), b, stg, "max", 1, comp="ctor.twolevel") if P > 0 else \
                        g.sched("ctor.twolevel", "two %d %d %s max" % (P, b, stg), N, False, b, None, ["n", "n"])
    # ---------------- histories (C10, C15 observers)
    H = 1200 if thorough else 300
    L = 120 if thorough else 40
    for i in range(H):
        c = i % 10
        N = rng.randint(1, 12)
        if c == 0:
            g.history("hist.none", "none", N, rng.randint(3, 10), True, False, 0, 0, N)
        elif c == 1:
            g.history("hist.mem", "mem", N, rng.randint(3, 16), True, True, 0, 0, N)
        elif c == 2:
            g.history("hist.disk", "disk %d" % rng.randint(0, 1), N, rng.randint(3, L), True, False, 0, None, N)
        elif c in (3, 4):
            P = rng.randint(1, 5)
            g.history("hist.twolevel", "two %d %d %s %s" % (P, rng.randint(0, 3), rng.choice(["RAM", "DISK"]), rng.choice(["max", "rev"])),
                      N, rng.randint(3, L), True, False, None, None, -(-N // P) * P)
        elif c == 5:
            g.history("hist.multistage", "multi %d %d %d %s" % (N, rng.randint(0, 3), rng.randint(1, 3), rng.choice(["max", "rev"])),
                      N, rng.randint(3, L), False, False, None, None, N)
        elif c == 6:
            g.history("hist.mixed", "mixed %d %d %s %s" % (N, rng.randint(1, 4), rng.choice(["RAM", "DISK"]), rng.choice(["memo", "tab"])),
                      N, rng.randint(3, L), False, False, None, None, N)
        else:
            kind = ["revolve", "disk", "periodic", "hrevolve"][c - 7] if c < 10 else "hrevolve"
            if c == 9:
                kind = rng.choice(["hrevolve", "revolve"])
            g.history("hist.revfam", "rev %s %d %d %d 1 1 2 2" % (kind, N, rng.randint(1, 3), rng.randint(0, 2)),
                      N, rng.randint(3, L), False, False, None, None, N)
    # ---------------- interleaved objects sharing the process (C15): I line for the implementation, S lines for the model
    def sub_case():
        c = rng.randint(0, 7)
        N = rng.randint(1, 14)
        nn = ["n"] * rng.randint(4, 45)
        if c == 0:
            return "multi %d %d %d %s | %d 0 - - | %s" % (N, rng.randint(0, 3), rng.randint(1, 3), rng.choice(["max", "rev"]), N, " ".join(nn))
        if c == 1:
            return "mixed %d %d %s %s | %d 0 - - | %s" % (N, rng.randint(1, 4), rng.choice(["RAM", "DISK"]), rng.choice(["memo", "tab"]), N, " ".join(nn))
        if c == 2:
            P = rng.randint(1, 4)
            return "two %d %d %s %s | %d 0 - - | %s f%d %s" % (P, rng.randint(0, 3), rng.choice(["RAM", "DISK"]), rng.choice(["max", "rev"]), N,
                                                               " ".join(["n"] * (-(-N // P))), N, " ".join(nn))
        if c == 3:
            return "disk %d | %d 0 - - | %s f%d %s" % (rng.randint(0, 1), N, " ".join(["n"] * N), N, " ".join(nn))
        if c == 4:
            return "mem | %d 1 - - | n f%d %s" % (N, N, " ".join(nn[:8]))
        kind = ["revolve", "disk", "periodic", "hrevolve"][c - 4] if c - 4 < 4 else "hrevolve"
        co = rng.choice(COSTS)
        return "rev %s %d %d %d %d %d %d %d | %d 0 - - | %s" % (kind, N, rng.randint(1, 3), rng.randint(0, 2), co[0], co[1], co[2], co[3], N, " ".join(nn))
    for i in range(120 if thorough else 40):
        k = rng.randint(2, 4)
        subs = [sub_case() for _ in range(k)]
        nops = [len(x.split("|")[2].split()) for x in subs]
        order = []
        left = list(nops)
        while sum(left) > 0:
            j = rng.choice([a for a in range(k) if left[a] > 0])
            burst = min(left[j], rng.randint(1, 3))
            order += [j] * burst
            left[j] -= burst
        ident = "inter.objects:%d" % i
        g.cases.append("I %s %s | %s" % (ident, " ".join(map(str, order)), " || ".join(subs)))
        for j, x in enumerate(subs):
            g.cases.append("S %s/%d %s" % (ident, j, x))
    # ... and objects of the SAME class with different parameters (trajectory, storage, unit counts, costs, length) alive together:
    # what one of them leaves behind at module or class level is most likely to be picked up by its own kind
    def same_class(c, j=0, base=None):
        N = rng.randint(2, 16)
        if base is not None and rng.random() < 0.6:
            N = max(2, base["N"] + rng.randint(-2, 2))       # near relatives: the same sub-problems come up in both
        nn = ["n"] * rng.randint(3 * N, 9 * N)
        if c == 0:
            ram, disk = (base["ram"], base["disk"]) if base is not None and rng.random() < 0.6 else (rng.randint(0, 2), rng.randint(1, 4))
            return "multi %d %d %d %s | %d 0 - - | %s" % (N, ram, disk, ["max", "rev"][(base["t"] + j) % 2] if base is not None else rng.choice(["max", "rev"]), N, " ".join(nn))
        if c == 1:
            return "mixed %d %d %s %s | %d 0 - - | %s" % (N, rng.randint(1, 5), rng.choice(["RAM", "DISK"]), rng.choice(["memo", "tab"]), N, " ".join(nn))
        if c == 2:
            P = rng.randint(1, 5)
            return "two %d %d %s %s | %d 0 - - | %s f%d %s" % (P, rng.randint(0, 3), rng.choice(["RAM", "DISK"]), rng.choice(["max", "rev"]), N,
                                                               " ".join(["n"] * (-(-N // P))), N, " ".join(nn))
        if c == 3:
            return "disk %d | %d 0 - - | %s f%d %s" % (rng.randint(0, 1), N, " ".join(["n"] * N), N, " ".join(nn))
        kind = ["revolve", "disk", "periodic", "hrevolve"][c - 4]
        co = rng.choice(COSTS)
        return "rev %s %d %d %d %d %d %d %d | %d 0 - - | %s" % (kind, N, rng.randint(1, 3), rng.randint(0, 2), co[0], co[1], co[2], co[3], N, " ".join(nn))
    id0 = 120 if thorough else 40
    for i in range(320 if thorough else 120):
        c = i % 8
        k = rng.randint(2, 3)
        base = dict(N=rng.randint(3, 16), ram=rng.randint(0, 2), disk=rng.randint(1, 4), t=rng.randint(0, 1))
        subs = [same_class(c, j, base) for j in range(k)]
        nops = [len(x.split("|")[2].split()) for x in subs]
        order, left = [], list(nops)
        while sum(left) > 0:
            j = rng.choice([a for a in range(k) if left[a] > 0])
            burst = min(left[j], rng.choice([1, 1, 2, 3, 8, 40]))
            order += [j] * burst
            left[j] -= burst
        ident = "inter.objects:%d" % (id0 + i)
        g.cases.append("I %s %s | %s" % (ident, " ".join(map(str, order)), " || ".join(subs)))
        for j, x in enumerate(subs):
            g.cases.append("S %s/%d %s" % (ident, j, x))
    for i in range(8 if thorough else 3):
        g.add("val.eq", "V pairs %d %d" % (rng.randint(0, 10 ** 6), 400))
    # actions that are kept: thousands of pairwise different ones constructed first and compared afterwards; two runs collected and compared
    g.add("val.eq", "V collect %d %d" % (rng.randint(0, 10 ** 6), 6000 if thorough else 2500))
    # directly constructed actions, model against implementation: repr, ==, len, iteration, membership, reading a repr back
    MAXS = 9223372036854775807
    def rint():
        return rng.choice([0, 0, 1, 2, 3, 5, 7, 12, 63, 64, 65, 100, 1000, 2 ** 31, 2 ** 63 - 2, MAXS, MAXS + 1, 2 ** 70, -1, -3])
    def ract(near=None):
        if near is not None and rng.random() < 0.5:
            t = list(near)
            if rng.random() < 0.5:
                return t
            j = rng.randrange(1, len(t)) if len(t) > 1 else 0
            if t[j] in ("T", "F"):
                t[j] = "F" if t[j] == "T" else "T"
            elif t[j] in ("RAM", "DISK", "WORK", "NONE"):
                t[j] = rng.choice(["RAM", "DISK", "WORK", "NONE"])
            elif j > 0:
                t[j] = str(int(t[j]) + rng.choice([-1, 1]))
            if t[0] in ("C", "M") and rng.random() < 0.3:
                t[0] = "M" if t[0] == "C" else "C"
            return t
        k = rng.choice(["F", "F", "R", "R", "C", "M", "EF", "ER"])
        if k == "F":
            a = rint(); b = a + rng.choice([0, 1, 2, 5, 64, 65, 1000, -1]) if rng.random() < 0.7 else rint()
            return ["F", str(a), str(b), rng.choice("TF"), rng.choice("TF"), rng.choice(["RAM", "DISK", "WORK", "NONE"])]
        if k == "R":
            a = rint(); b = a + rng.choice([0, 1, 2, 5, 64, 65, 1000, -1]) if rng.random() < 0.7 else rint()
            return ["R", str(b), str(a), rng.choice("TF")]
        if k in ("C", "M"):
            return [k, str(rint()), rng.choice(["RAM", "DISK", "WORK", "NONE"]), rng.choice(["RAM", "DISK", "WORK", "NONE"])]
        return [k]
    def pyrepr(t):
        iz = lambda v: "sys.maxsize" if int(v) == MAXS else v
        bz = lambda v: "True" if v == "T" else "False"
        if t[0] == "F":
            return "Forward(%s,_%s,_%s,_%s,_StorageType.%s)" % (iz(t[1]), iz(t[2]), bz(t[3]), bz(t[4]), t[5])
        if t[0] == "R":
            return "Reverse(%s,_%s,_%s)" % (iz(t[1]), iz(t[2]), bz(t[3]))
        if t[0] in ("C", "M"):
            return "%s(%s,_StorageType.%s,_StorageType.%s)" % ("Copy" if t[0] == "C" else "Move", iz(t[1]), t[2], t[3])
        return "EndForward()" if t[0] == "EF" else "EndReverse()"
    BAD = ["Forward(1,_2)", "Reverse(3,_2,_True,_False)", "Copy(1,_StorageType.RAM)", "Forward(1,_2,_True,_False,_StorageType.TAPE)", "Backward(2,_1,_True)",
           "Move(one,_StorageType.RAM,_StorageType.WORK)", "Reverse(3,_2,_True", "Forward(0,_sys.maxsiz,_True,_False,_StorageType.RAM)"]
    for i in range(1500 if thorough else 400):
        a = ract()
        b = ract(a)
        if a[0] in ("F", "R"):
            n0, n1 = (int(a[1]), int(a[2])) if a[0] == "F" else (int(a[2]), int(a[1]))
            if n1 - n0 > MAXS:          # len() beyond sys.maxsize: OverflowError, outside the model
                continue
            k = rng.choice([n0 - 1, n0, n0 + 1, n1 - 1, n1, n1 + 1, (n0 + n1) // 2])
        else:
            k = rint()
        txt = rng.choice(BAD) if rng.random() < 0.1 else pyrepr(ract(a))
        g.add("val.act", "V act %s / %s / %d / %s" % (" ".join(a), " ".join(b), k, txt))
    # ---------------- pure functions
    NN, SS = (260, 24) if thorough else (120, 14)
    for n in range(0, NN + 1):
        for s in range(0, SS + 1):
            if n > 40 and s > 8 and (n + s) % 4:
                continue
            g.add("fn.n_advance", "V nadv %d %d %s" % (n, s, "max"))
            g.add("fn.n_advance", "V nadv %d %d %s" % (n, s, "rev"))
    for _ in range(2000 if thorough else 400):
        n = int(2 ** rng.uniform(3, 17))
        s = int(2 ** rng.uniform(0, 12))
        g.add("fn.n_advance", "V nadv %d %d %s" % (n, s, rng.choice(["max", "rev"])))
    NN = 44 if thorough else 28
    for n in range(0, NN + 1):
        for s in range(0, n + 2):
            g.add("fn.optimal_extra_steps", "V oes %d %d" % (n, s))
            g.add("fn.optimal_steps_mixed", "V osm %d %d" % (n, s))
            g.add("fn.mixed_step_memoization", "V memo %d %d" % (n, s))
            if s % 3 == 0:
                g.add("fn.optimal_steps_binomial", "V osb %d %d" % (n, s))
    for n in range(1, 19 if thorough else 13):
        for s in range(0, min(n, 7) + 1):
            g.add("fn.mixed_steps_tabulation", "V tab %d %d" % (n, s))
    # one entry of the tabulated planner against the memoised one, at sizes where writing the whole table out is too much (values
    # beyond 32 bits with a single unit)
    # more memoised sub-problems in one process than any one schedule creates (the memo is a module-level dictionary shared by all
    # objects): the closed-form column s = 1, every n in turn
    g.add("fn.mixed_step_memoization", "V memosweep 2 %d 1" % (140000 if thorough else 70000))
    for n, s in [(40, 4), (150, 1), (66000, 1), (70000, 1)] + ([(120, 6), (100000, 1), (2300, 2)] if thorough else []):   # (2300, 2): costs beyond 10**5 with a split search
        g.add("fn.mixed_steps_tabulation", "V tabmemo %d %d" % (n, s))
    for n in range(2, 31 if thorough else 19):
        for ram in range(1, 4):
            for disk in range(1, 4):
                g.add("fn.allocate_snapshots", "V alloc %d %d %d %s" % (n, ram, disk, "max" if (n + ram) % 2 else "rev"))
    for c in COSTS:
        uf, ub, wd, rd = c
        for l in (0, 1, 2, 5, 17 if thorough else 11):
            for m in (0, 1, 2, 4):
                g.add("fn.get_opt_0_table", "V opt0 %d %d %d %d" % (l, m, uf, ub))
                g.add("fn.get_opt_inf_table", "V optinf %d %d %d %d %d %d" % (l, m, uf, ub, rd, wd))
            for c0 in (1, 2, 3):
                for c1 in (0, 1, 3):
                    g.add("fn.get_hopt_table", "V hopt %d %d %d 0 %d 0 %d %d %d" % (l, c0, c1, wd, rd, ub, uf))
        for cm in (1, 2, 3, 5):
            g.add("fn.mxrr_close_formula", "V mxrr %d %d %d %d" % (cm, uf, rd, wd))
    for _ in range(300 if thorough else 80):
        g.add("fn.mxrr_close_formula", "V mxrr %d %d %d %d" % (rng.randint(1, 6), rng.randint(1, 5), rng.randint(0, 60), rng.randint(0, 60)))
        g.add("fn.argmin", "V argmin " + " ".join(str(rng.randint(0, 6)) for _ in range(rng.randint(1, 9))))
        g.add("fn.beta", "V beta %d %d" % (rng.randint(0, 9), rng.randint(0, 9)))
    # the closed form of the period on a grid of cost ratios (wd + rd) / uf, small and large, and the binomials it is made of
    for x in range(0, 9):
        for y in range(0, 41 if thorough else 25):
            g.add("fn.beta", "V beta %d %d" % (x, y))
    for cm in (1, 2, 3, 4):
        for ratio in list(range(0, 24)) + list(range(50, 72, 2)) + list(range(160, 224, 6)) + list(range(330, 500, 17 if thorough else 34)):
            g.add("fn.mxrr_close_formula", "V mxrr %d 1 %d %d" % (cm, ratio // 2, ratio - ratio // 2))
            g.add("fn.mxrr_close_formula", "V mxrr %d 2 %d %d" % (cm, ratio, ratio))
    for kind in ("revolve", "disk", "periodic", "hrevolve"):
        for N in range(1, 15 if thorough else 10):
            for r in (1, 2, 3):
                for c in COSTS[:4]:
                    g.add("seq." + kind, "V seq %s %d %d %d %d %d %d %d" % (kind, N, r, 1 + (N % 2), c[0], c[1], c[2], c[3]))
    return g.cases


if __name__ == "__main__":
    import sys
    cs = generate(int(sys.argv[1]) if len(sys.argv) > 1 else 0, sys.argv[2] if len(sys.argv) > 2 else "quick")
    sys.stdout.write("\n".join(cs) + "\n")
