"""Additional correspondence components that are not plain runs of the two drivers.

fresh.*  (C15): a seeded sample of the cases is re-run on the implementation, each in its own fresh interpreter, and the
trace is compared with the one obtained in the shared process (where hundreds of other schedules were built and
iterated before and after).  A difference is a history dependence, with the case as the failing input."""
import random
import concurrent.futures as cf
import runner


def run(seed, tier, cases, impl, model=None):
    rng = random.Random(seed * 7919 + 13)
    pool = [l for l in cases if l.startswith("S stream.") or l.startswith("S hist.") or l.startswith("V fn.allocate")
            or l.startswith("V fn.mixed_step") or l.startswith("V fn.optimal")]
    k = 160 if tier == "thorough" else 48
    sample = rng.sample(pool, min(k, len(pool)))
    # every case on which the shared-process trace differs from the model's is re-run alone as well: if it then behaves
    # differently, the difference is a dependence on what else happened in the process, with that case as the failing input
    if model is not None:
        picked = set(sample)
        odd = [l for l in pool if l not in picked and impl.get(l.split()[1]) != model.get(l.split()[1])]
        sample += odd[:60]
        # ... and so is every object of an interleaved case (I line) whose trace, taken while the other objects of the case were alive,
        # differs from the model's: alone in a fresh interpreter it is given the same requests
        sample += [l for l in cases if l.startswith("S inter.") and impl.get(l.split()[1]) != model.get(l.split()[1])][:40]
    findings = []
    xcases, ximpl, xmodel = [], {}, {}

    def one(line):
        code, out, err = runner.run_impl([line])
        return line, runner.split_traces(out), code, err
    with cf.ThreadPoolExecutor(max_workers=16) as ex:
        for line, tr, code, err in ex.map(one, sample):
            cid = line.split()[1]
            fid = "fresh." + cid
            xcases.append(line.split(" ", 2)[0] + " " + fid + " " + line.split(" ", 2)[2])
            ximpl[fid] = tr.get(cid)
            xmodel[fid] = impl.get(cid)      # "model" side of this component = the shared-process trace
            if tr.get(cid) != impl.get(cid):
                inter = next((l for l in cases if l.startswith("I " + cid.split("/")[0] + " ")), None) if cid.startswith("inter.") else None
                findings.append(dict(pid="C15", cid=fid, line=inter or line, err="history_dependence", d8=False,
                                     what=("object %s of this interleaved case: its trace differs from the trace of an equal object alone in a fresh interpreter" % cid.split("/")[1])
                                     if inter else "trace in a fresh interpreter differs from the trace in the shared process"))
    return xcases, xmodel, ximpl, findings
