"""Additional correspondence components that are not line-per-case runs of the two drivers (filled in below)."""


def run(seed, tier):
    return [], {}, {}, []
