(* C16 -- Mixed schedules are identical with and without numba
   Property theorems only: each proof is one application of a lemma proved in Proofs/, followed by Print Assumptions. *)
From Coq Require Import ZArith List Bool.
From CS Require TabEq.
From CS Require Import Actions NAdvance Multistage Exec Sched RunFacts Projections BasicInv MultistageRun TLBridge.
Import ListNotations.
Open Scope Z_scope.

(* the tabulated planner never fails an assertion and every entry equals the memoised planner *)
Module M_C16_table.
Import TabEq.
Theorem C16_table :
  forall n s : Z,
         1 <= n ->
         0 <= s ->
         exists t : table,
           tabulate n s = MixDP.Ok t /\
           (forall ni si : Z, 1 <= ni <= n -> 1 <= si <= s -> cells t ni si = Some (MixDP.planC ni si)).
Proof. exact (@TabEq.C16_table). Qed.
Print Assumptions C16_table.
End M_C16_table.

