(* C16 -- Mixed schedules are identical with and without numba
   Property theorems only: each proof is one application of a lemma proved in Proofs/, followed by Print Assumptions. *)
From Coq Require Import ZArith List Bool.
From CS Require TabEq TabSim MemoCoh MixPaths.
From CS Require Import Actions NAdvance Multistage Exec Sched RunFacts Projections BasicInv MultistageRun AllocTotal TLBridge MixBridge.
Import ListNotations.
Open Scope Z_scope.

(* STREAMS: on the extracted model the whole monitored run of MixedCheckpointSchedule -- every outcome, every observation (n, r, max_n, flags, uses_storage_type) and the executor state -- is the same on the tabulated path (tab = true) and on the memoised path (tab = false), for every N, unit count, storage and number of requests *)
Module M_C16_streams_equal.
Import MixPaths.
Theorem C16_streams_equal :
  forall (N s : Z) (sg : Actions.storage) (k : nat),
         1 <= N ->
         0 <= s ->
         (2 <= N -> 1 <= s) ->
         sg = Actions.RAM \/ sg = Actions.DISK ->
         Sched.run_case (Sched.PMixed N s sg true) (MixBridge.pmx N (Z.min s (N - 1)) sg) (repeat Sched.Next k) =
         Sched.run_case (Sched.PMixed N s sg false) (MixBridge.pmx N (Z.min s (N - 1)) sg)
           (repeat Sched.Next k).
Proof. exact (@MixPaths.mixed_paths_same_stream). Qed.
Print Assumptions C16_streams_equal.
End M_C16_streams_equal.

(* the extracted tabulated planner (list of lists, as the numpy array) succeeds and every entry is the canonical plan *)
Module M_C16_tabulate_planC.
Import TabSim.
Theorem C16_tabulate_planC :
  forall n s : Z,
         1 <= n ->
         0 <= s ->
         exists t : Mixed.table,
           Mixed.tabulate n s = Actions.Ok t /\
           (forall ni si : Z,
            1 <= ni <= n ->
            1 <= si <= s \/ ni = 1 /\ 0 <= si <= s -> Mixed.tget t ni si = Actions.Ok (MixDP.planC ni si)).
Proof. exact (@TabSim.tabulate_planC). Qed.
Print Assumptions C16_tabulate_planC.
End M_C16_tabulate_planC.

(* ... and so is every answer of the extracted memoised planner: the two paths prescribe the same kind, length and cost *)
Module M_C16_memo_warm_planC.
Import MemoCoh.
Theorem C16_memo_warm_planC :
  forall n0 s0 m k : Z,
         1 <= m <= n0 -> Z.min 1 (m - 1) <= k -> Mixed.memo_warm n0 s0 m k = Actions.Ok (MixDP.planC m k).
Proof. exact (@MemoCoh.memo_warm_planC). Qed.
Print Assumptions C16_memo_warm_planC.
End M_C16_memo_warm_planC.

(* the tabulated planner never fails an assertion and every entry equals the memoised planner *)
Module M_C16_table.
Import TabEq.
Theorem C16_table :
  forall n s : Z,
         1 <= n ->
         0 <= s ->
         exists t : table,
           tabulate n s = Actions.Ok t /\
           (forall ni si : Z,
            1 <= ni <= n -> 1 <= si <= s \/ ni = 1 /\ 0 <= si <= s -> cells t ni si = Some (MixDP.planC ni si)).
Proof. exact (@TabEq.C16_table). Qed.
Print Assumptions C16_table.
End M_C16_table.

