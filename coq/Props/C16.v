(* C16 -- Mixed schedules are identical with and without numba
   Property theorems only: each proof is one application of a lemma proved in Proofs/, followed by Print Assumptions. *)
From Coq Require Import ZArith List Bool.
From CS Require TabEq TabSim MemoCoh MixPaths GenLang5 GenMixed TabulGenSpec.
From CS Require Import Actions NAdvance Multistage Exec Sched RunFacts Projections BasicInv MultistageRun AllocTotal TLBridge MixBridge.
Import ListNotations.
Open Scope Z_scope.

(* THE MODEL OF MixedCheckpointSchedule IS THE SOURCE: GenMixed.mixed_prog_model is the program (generator language GenLang5: the stack snapshots of (step type, n0, n1) triples, the set snapshot_n, the planner read as a function, step-type / integer / boolean locals, break) that harness/translate.py produces from MixedCheckpointSchedule._iterator; Gen/MixedGen.v re-translates the current source on every run and proves it equal to that term by conversion.  For every planner the constructor can select (the table of mixed_steps_tabulation or mixed_step_memoization behind its cache) and under EVERY history of next() and finalize(k) calls, resuming that program request by request from the freshly constructed object gives exactly the observations (outcome, n, r, max_n, is_exhausted) of the schedule object of Model/Sched.v (hand-written machine Mixed.resume) -- up to the first exception the latter raises (raise_free: none on the documented domain, by the Mixed run theorems of this file); the invariant carried through is that the set snapshot_n holds exactly the distinct first components of the stack (GenMixed.sinv), which is why the model needs no set *)
Module M_C16_mixed_source_is_model.
Import GenMixed.
Theorem C16_mixed_source_is_model :
  forall (n s : Z) (sg : Actions.storage) (tab : bool) (hist : list Online.op) (sch : Sched.sched),
         Sched.construct (Sched.PMixed n s sg tab) = Actions.Ok sch ->
         GenConv.raise_free (GenMulti.srun_ops sch hist) ->
         exists s' : Z,
           Mixed.construct n s sg = Actions.Ok s' /\
           (forall f : Z -> Z -> Actions.res Mixed.plan_t,
            planner n s' tab = Actions.Ok f ->
            grun_ops (mcfg n s' sg f) [GenLang5.FS mixed_prog_model] (g_init n) hist =
            GenMulti.srun_ops sch hist).
Proof. exact (@GenMixed.mixed_from_start). Qed.
Print Assumptions C16_mixed_source_is_model.
End M_C16_mixed_source_is_model.

(* THE TABULATED PLANNER IS THE SOURCE: TabulGenSpec.tabul_shape is the Gallina function harness/translate.py renders from mixed_steps_tabulation (a cell schedule[n_i, s_i, :] is one entry of Mixed.table, an assignment Mixed.tset, a read Mixed.tget, assert raises AssertionError; Gen/TabulGen.v re-translates the current source on every run and proves the result equal to this term by conversion); for n >= 1 it returns a table exactly when the extracted Mixed.tabulate does, the same one (they differ only in the exception and read order of a failing assert, which C16_tabulate_planC excludes) *)
Module M_C16_tabulation_is_source.
Import TabulGenSpec.
Theorem C16_tabulation_is_source :
  forall (n s : Z) (t : Mixed.table),
         1 <= n -> tabul_shape n s = Actions.Ok t <-> Mixed.tabulate n s = Actions.Ok t.
Proof. exact (@TabulGenSpec.tabul_shape_is_model). Qed.
Print Assumptions C16_tabulation_is_source.
End M_C16_tabulation_is_source.

(* STREAMS: on the extracted model the whole monitored run of MixedCheckpointSchedule -- every outcome, every observation (n, r, max_n, flags, uses_storage_type) and the executor state -- is the same on the tabulated path (tab = true) and on the memoised path (tab = false), for every N, unit count, storage and number of requests *)
Module M_C16_streams_equal.
Import MixPaths.
Theorem C16_streams_equal :
  forall (N s : Z) (sg : Actions.storage) (k : nat),
         1 <= N ->
         0 <= s ->
         (2 <= N -> 1 <= s) ->
         sg = Actions.RAM \/ sg = Actions.DISK ->
         Sched.run_case (Sched.PMixed N s sg true) (MixBridge.pmx N (Z.min s (N - 1)) sg) (repeat Sched.Next k) =
         Sched.run_case (Sched.PMixed N s sg false) (MixBridge.pmx N (Z.min s (N - 1)) sg)
           (repeat Sched.Next k).
Proof. exact (@MixPaths.mixed_paths_same_stream). Qed.
Print Assumptions C16_streams_equal.
End M_C16_streams_equal.

(* the extracted tabulated planner (list of lists, as the numpy array) succeeds and every entry is the canonical plan *)
Module M_C16_tabulate_planC.
Import TabSim.
Theorem C16_tabulate_planC :
  forall n s : Z,
         1 <= n ->
         0 <= s ->
         exists t : Mixed.table,
           Mixed.tabulate n s = Actions.Ok t /\
           (forall ni si : Z,
            1 <= ni <= n ->
            1 <= si <= s \/ ni = 1 /\ 0 <= si <= s -> Mixed.tget t ni si = Actions.Ok (MixDP.planC ni si)).
Proof. exact (@TabSim.tabulate_planC). Qed.
Print Assumptions C16_tabulate_planC.
End M_C16_tabulate_planC.

(* ... and so is every answer of the extracted memoised planner: the two paths prescribe the same kind, length and cost *)
Module M_C16_memo_warm_planC.
Import MemoCoh.
Theorem C16_memo_warm_planC :
  forall n0 s0 m k : Z,
         1 <= m <= n0 -> Z.min 1 (m - 1) <= k -> Mixed.memo_warm n0 s0 m k = Actions.Ok (MixDP.planC m k).
Proof. exact (@MemoCoh.memo_warm_planC). Qed.
Print Assumptions C16_memo_warm_planC.
End M_C16_memo_warm_planC.

(* the tabulated planner never fails an assertion and every entry equals the memoised planner *)
Module M_C16_table.
Import TabEq.
Theorem C16_table :
  forall n s : Z,
         1 <= n ->
         0 <= s ->
         exists t : table,
           tabulate n s = Actions.Ok t /\
           (forall ni si : Z,
            1 <= ni <= n -> 1 <= si <= s \/ ni = 1 /\ 0 <= si <= s -> cells t ni si = Some (MixDP.planC ni si)).
Proof. exact (@TabEq.C16_table). Qed.
Print Assumptions C16_table.
End M_C16_table.

