(* C16: property theorems.  Statements only; every proof is `exact` of a lemma in Proofs/. *)
From Coq Require Import ZArith List Bool.
From CS Require TabEq.
Import ListNotations.
Open Scope Z_scope.

Module M_C16_table.
Import TabEq.
Theorem C16_table :
  forall n s : Z,
         1 <= n ->
         0 <= s ->
         exists t : table,
           tabulate n s = MixDP.Ok t /\
           (forall ni si : Z, 1 <= ni <= n -> 1 <= si <= s -> cells t ni si = Some (MixDP.planC ni si)).
Proof. exact (@TabEq.C16_table). Qed.
Print Assumptions C16_table.
End M_C16_table.

