(* C06: property theorems.  Statements only; every proof is `exact` of a lemma in Proofs/. *)
From Coq Require Import ZArith List Bool.
From CS Require MixDP MixInv.
Import ListNotations.
Open Scope Z_scope.

(* Mixed: forward steps executed = planner cost C N S, storage empty at the end *)
Module M_C06_mixed_total.
Import MixInv.
Theorem C06_mixed_total :
  forall (plan : Z -> Z -> kind * Z) (C : Z -> Z -> Z) (N S_ : Z) (s : st) (x : xst),
         Inv plan C N S_ s x -> pcv s = PDone -> done x = C N S_ /\ store x = [].
Proof. exact (@MixInv.done_total). Qed.
Print Assumptions C06_mixed_total.
End M_C06_mixed_total.

(* planner facts *)
Module M_C06_plan_ge2.
Import MixDP.
Theorem C06_plan_ge2 :
  forall m k : Z,
         2 <= m ->
         1 <= k ->
         fst (plan m k) = KIcs /\ 2 <= snd (plan m k) <= m - 1 /\ (2 <= k \/ snd (plan m k) = m - 1) \/
         fst (plan m k) = KAdj /\ snd (plan m k) = 1 /\ (2 <= k \/ m = 2).
Proof. exact (@MixDP.plan_ge2). Qed.
Print Assumptions C06_plan_ge2.
End M_C06_plan_ge2.

(* cost recurrence, ICS *)
Module M_C06_C_ics.
Import MixDP.
Theorem C06_C_ics :
  forall m k : Z,
         2 <= m ->
         1 <= k ->
         fst (plan m k) = KIcs ->
         C m k = snd (plan m k) + C (m - snd (plan m k)) (k - 1) + C (snd (plan m k)) k.
Proof. exact (@MixDP.C_ics). Qed.
Print Assumptions C06_C_ics.
End M_C06_C_ics.

(* cost recurrence, ADJ *)
Module M_C06_C_adj.
Import MixDP.
Theorem C06_C_adj :
  forall m k : Z, 2 <= m -> 1 <= k -> fst (plan m k) = KAdj -> C m k = 1 + C (m - 1) (k - 1).
Proof. exact (@MixDP.C_adj). Qed.
Print Assumptions C06_C_adj.
End M_C06_C_adj.

