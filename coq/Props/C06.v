(* C06 -- Mixed schedules perform the minimal possible number of forward steps
   Property theorems only: each proof is one application of a lemma proved in Proofs/, followed by Print Assumptions. *)
From Coq Require Import ZArith List Bool.
From CS Require MixInv MixDP.
From CS Require Import Actions NAdvance Multistage Exec Sched RunFacts Projections BasicInv MultistageRun TLBridge.
Import ListNotations.
Open Scope Z_scope.

(* PARTIAL: on the Mixed generator over an abstract planner: forward steps executed = planner cost C N S, storage empty at the end; bridge to the extracted model not proved yet; optimality over all schedules not proved *)
Module M_C06_mixed_total_partial.
Import MixInv.
Theorem C06_mixed_total_partial :
  forall (plan : Z -> Z -> kind * Z) (C : Z -> Z -> Z) (N S_ : Z) (s : st) (x : xst),
         Inv plan C N S_ s x -> pcv s = PDone -> done x = C N S_ /\ store x = [].
Proof. exact (@MixInv.done_total). Qed.
Print Assumptions C06_mixed_total_partial.
End M_C06_mixed_total_partial.

(*  *)
Module M_C06_plan_1.
Import MixDP.
Theorem C06_plan_1 :
  forall k : Z, 0 <= k -> plan 1 k = (KFR, 1) /\ C 1 k = 1.
Proof. exact (@MixDP.plan_1). Qed.
Print Assumptions C06_plan_1.
End M_C06_plan_1.

(* facts of the concrete planner model *)
Module M_C06_plan_ge2.
Import MixDP.
Theorem C06_plan_ge2 :
  forall m k : Z,
         2 <= m ->
         1 <= k ->
         fst (plan m k) = KIcs /\ 2 <= snd (plan m k) <= m - 1 /\ (2 <= k \/ snd (plan m k) = m - 1) \/
         fst (plan m k) = KAdj /\ snd (plan m k) = 1 /\ (2 <= k \/ m = 2).
Proof. exact (@MixDP.plan_ge2). Qed.
Print Assumptions C06_plan_ge2.
End M_C06_plan_ge2.

(*  *)
Module M_C06_plan_2.
Import MixDP.
Theorem C06_plan_2 :
  forall k : Z, 1 <= k -> fst (plan 2 k) = KAdj.
Proof. exact (@MixDP.plan_2). Qed.
Print Assumptions C06_plan_2.
End M_C06_plan_2.

(* cost recurrence, restart checkpoint *)
Module M_C06_C_ics.
Import MixDP.
Theorem C06_C_ics :
  forall m k : Z,
         2 <= m ->
         1 <= k ->
         fst (plan m k) = KIcs ->
         C m k = snd (plan m k) + C (m - snd (plan m k)) (k - 1) + C (snd (plan m k)) k.
Proof. exact (@MixDP.C_ics). Qed.
Print Assumptions C06_C_ics.
End M_C06_C_ics.

(* cost recurrence, adjoint-dependency checkpoint *)
Module M_C06_C_adj.
Import MixDP.
Theorem C06_C_adj :
  forall m k : Z, 2 <= m -> 1 <= k -> fst (plan m k) = KAdj -> C m k = 1 + C (m - 1) (k - 1).
Proof. exact (@MixDP.C_adj). Qed.
Print Assumptions C06_C_adj.
End M_C06_C_adj.

