(* C06 -- Mixed schedules perform the minimal possible number of forward steps
   Property theorems only: each proof is one application of a lemma proved in Proofs/, followed by Print Assumptions. *)
From Coq Require Import ZArith List Bool.
From CS Require MixInv MixDP GenLang5 GenMixed MixHelperSpec MixHelperCoh.
From CS Require Import Actions NAdvance Multistage Exec Sched RunFacts Projections BasicInv MultistageRun AllocTotal TLBridge MixBridge.
Import ListNotations.
Open Scope Z_scope.

(* Mixed on the extracted model (either planner path): once the schedule reports exhaustion the reference executor has carried
   out exactly C N S forward steps -- the cost of the planner's recurrence (C3 N S = MixDP.C N S, the model of
   mixed_step_memoization(N, S)[2]); the same for RAM and DISK *)
Theorem C06_mixed_forward_total : forall (N S_ : Z) (sg : storage) (tab : bool), 1 <= N -> (2 <= N -> 1 <= S_) -> 0 <= S_ -> sg = RAM \/ sg = DISK -> forall k : nat,
  let '(s', m, ls) := run_ops (pmx N S_ sg) (sch0 N S_ sg tab) mon0 (repeat Next k) in
  mon_ok m /\ no_raise ls /\ (is_exhausted s' = true -> fwd_total (cnt (mx m)) = C3 N S_).
Proof. exact mixed_cfg_run. Qed.
Print Assumptions C06_mixed_forward_total.

Theorem C06_cost_is_planner_cost : forall m k : Z, 1 <= m -> (1 <= k \/ m = 1 /\ 0 <= k) -> C3 m k = MixDP.C m k.
Proof. exact C3_C. Qed.
Print Assumptions C06_cost_is_planner_cost.

(* the model of optimal_steps_mixed that the extracted driver evaluates and the correspondence compares with the implementation (Binomial.optimal_steps_mixed: cache_step with the dictionary explicit, started empty) returns MixDP.C n s on the whole domain *)
Module M_C06_helper_model_value.
Import MixHelperCoh.
Theorem C06_helper_model_value :
  forall n s : Z,
         1 <= n -> Z.min 1 (n - 1) <= s -> Binomial.optimal_steps_mixed n s = Actions.Ok (MixDP.C n s).
Proof. exact (@MixHelperCoh.optimal_steps_mixed_value). Qed.
Print Assumptions C06_helper_model_value.
End M_C06_helper_model_value.

(* THE PUBLISHED HELPER optimal_steps_mixed IS THE SOURCE: MixHelperSpec.osm_shape is the Gallina function harness/translate.py (HelperTr) renders from optimal_steps_mixed of mixed.py (behind cache_step; `m = 1 + f(n-1, s-1); for i in range(2, n): m = min(m, i + f(i, s) + f(n-i, s-1))` as py_for over a running minimum); Gen/MixHelperGen.v re-translates the current source on every run and proves the result equal to that term by conversion.  Whenever the memoised planner mixed_step_memoization(n, s) (Mixed.memo, itself re-translated: Gen/MemoGen.v) returns a plan, the helper returns that plan's cost, for every fuel and argument *)
Module M_C06_helper_is_source.
Import MixHelperSpec.
Theorem C06_helper_is_source :
  forall (f : nat) (n s : Z) (p : Mixed.plan_t),
         Mixed.memo f n s = Actions.Ok p -> osm_shape f n s = Actions.Ok (snd p).
Proof. exact (@MixHelperSpec.osm_of_memo). Qed.
Print Assumptions C06_helper_is_source.
End M_C06_helper_is_source.

(* optimal_steps_mixed(n, s), as translated from the source, returns on its whole domain MixDP.C n s -- by C06_cost_is_planner_cost and C06_mixed_forward_total the number of forward steps of the Mixed stream *)
Module M_C06_helper_is_planner_cost.
Import MixHelperSpec.
Theorem C06_helper_is_planner_cost :
  forall (f : nat) (n s : Z),
         1 <= n -> (Z.to_nat n <= f)%nat -> Z.min 1 (n - 1) <= s -> osm_shape f n s = Actions.Ok (MixDP.C n s).
Proof. exact (@MixHelperSpec.osm_value). Qed.
Print Assumptions C06_helper_is_planner_cost.
End M_C06_helper_is_planner_cost.

(* ... and outside that domain it raises ValueError before any recursion *)
Module M_C06_helper_rejects.
Import MixHelperSpec.
Theorem C06_helper_rejects :
  forall (f : nat) (n s : Z),
         n <= 0 \/ s < Z.min 1 (n - 1) -> osm_shape (S f) n s = Actions.Err Actions.ValueError.
Proof. exact (@MixHelperSpec.osm_rejects). Qed.
Print Assumptions C06_helper_rejects.
End M_C06_helper_rejects.

(* THE MODEL OF MixedCheckpointSchedule IS THE SOURCE: GenMixed.mixed_prog_model is the program (generator language GenLang5: the stack snapshots of (step type, n0, n1) triples, the set snapshot_n, the planner read as a function, step-type / integer / boolean locals, break) that harness/translate.py produces from MixedCheckpointSchedule._iterator; Gen/MixedGen.v re-translates the current source on every run and proves it equal to that term by conversion.  For every planner the constructor can select (the table of mixed_steps_tabulation or mixed_step_memoization behind its cache) and under EVERY history of next() and finalize(k) calls, resuming that program request by request from the freshly constructed object gives exactly the observations (outcome, n, r, max_n, is_exhausted) of the schedule object of Model/Sched.v (hand-written machine Mixed.resume) -- up to the first exception the latter raises (raise_free: none on the documented domain, by the Mixed run theorems of this file); the invariant carried through is that the set snapshot_n holds exactly the distinct first components of the stack (GenMixed.sinv), which is why the model needs no set *)
Module M_C06_mixed_source_is_model.
Import GenMixed.
Theorem C06_mixed_source_is_model :
  forall (n s : Z) (sg : Actions.storage) (tab : bool) (hist : list Online.op) (sch : Sched.sched),
         Sched.construct (Sched.PMixed n s sg tab) = Actions.Ok sch ->
         GenConv.raise_free (GenMulti.srun_ops sch hist) ->
         exists s' : Z,
           Mixed.construct n s sg = Actions.Ok s' /\
           (forall f : Z -> Z -> Actions.res Mixed.plan_t,
            planner n s' tab = Actions.Ok f ->
            grun_ops (mcfg n s' sg f) [GenLang5.FS mixed_prog_model] (g_init n) hist =
            GenMulti.srun_ops sch hist).
Proof. exact (@GenMixed.mixed_from_start). Qed.
Print Assumptions C06_mixed_source_is_model.
End M_C06_mixed_source_is_model.

(* ... and that point is reached: within N (N + 3) + N + 2 requests the schedule is exhausted with exactly C N S forward steps executed *)
Module M_C06_mixed_terminates.
Import MixBridge.
Theorem C06_mixed_terminates :
  forall (N s : Z) (sg : Actions.storage) (tab : bool) (k : nat),
         1 <= N ->
         0 <= s ->
         (2 <= N -> 1 <= s) ->
         sg = Actions.RAM \/ sg = Actions.DISK ->
         N * (N + 3) + N + 1 < Z.of_nat k ->
         let
         '(s', m, _) :=
          Sched.run_ops (pmx N (Z.min s (N - 1)) sg) (sch0 N (Z.min s (N - 1)) sg tab) Sched.mon0
            (repeat Sched.Next k) in
          Sched.is_exhausted s' = true /\ Exec.fwd_total (Exec.cnt (Sched.mx m)) = C3 N (Z.min s (N - 1)).
Proof. exact (@MixBridge.mixed_terminates). Qed.
Print Assumptions C06_mixed_terminates.
End M_C06_mixed_terminates.

(*  *)
Module M_C06_plan_1.
Import MixDP.
Theorem C06_plan_1 :
  forall k : Z, 0 <= k -> plan 1 k = (Mixed.KFR, 1) /\ C 1 k = 1.
Proof. exact (@MixDP.plan_1). Qed.
Print Assumptions C06_plan_1.
End M_C06_plan_1.

(* facts of the concrete planner model: the step kind and length it prescribes *)
Module M_C06_plan_ge2.
Import MixDP.
Theorem C06_plan_ge2 :
  forall m k : Z,
         2 <= m ->
         1 <= k ->
         fst (plan m k) = Mixed.KIcs /\ 2 <= snd (plan m k) <= m - 1 /\ (2 <= k \/ snd (plan m k) = m - 1) \/
         fst (plan m k) = Mixed.KAdj /\ snd (plan m k) = 1 /\ (2 <= k \/ m = 2).
Proof. exact (@MixDP.plan_ge2). Qed.
Print Assumptions C06_plan_ge2.
End M_C06_plan_ge2.

(*  *)
Module M_C06_plan_2.
Import MixDP.
Theorem C06_plan_2 :
  forall k : Z, 1 <= k -> fst (plan 2 k) = Mixed.KAdj.
Proof. exact (@MixDP.plan_2). Qed.
Print Assumptions C06_plan_2.
End M_C06_plan_2.

(* cost recurrence, restart checkpoint *)
Module M_C06_C_ics.
Import MixDP.
Theorem C06_C_ics :
  forall m k : Z,
         2 <= m ->
         1 <= k ->
         fst (plan m k) = Mixed.KIcs ->
         C m k = snd (plan m k) + C (m - snd (plan m k)) (k - 1) + C (snd (plan m k)) k.
Proof. exact (@MixDP.C_ics). Qed.
Print Assumptions C06_C_ics.
End M_C06_C_ics.

(* cost recurrence, adjoint-dependency checkpoint *)
Module M_C06_C_adj.
Import MixDP.
Theorem C06_C_adj :
  forall m k : Z, 2 <= m -> 1 <= k -> fst (plan m k) = Mixed.KAdj -> C m k = 1 + C (m - 1) (k - 1).
Proof. exact (@MixDP.C_adj). Qed.
Print Assumptions C06_C_adj.
End M_C06_C_adj.

(* THE PLANNER COST IS THE MINIMUM OF ITS RECURRENCE OVER ALL CANDIDATES (the analogue of C05_dp_is_min): not above the adjoint-dependency candidate ... *)
Module M_C06_dp_le_adj.
Import MixHelperCoh.
Theorem C06_dp_le_adj :
  forall m k : Z, 2 <= k -> k + 1 < m -> MixDP.C m k <= 1 + MixDP.C (m - 1) (k - 1).
Proof. exact (@MixHelperCoh.C_le_adj). Qed.
Print Assumptions C06_dp_le_adj.
End M_C06_dp_le_adj.

(* ... nor above ANY restart-checkpoint candidate 2 <= i <= m - 1 ... *)
Module M_C06_dp_le_ics.
Import MixHelperCoh.
Theorem C06_dp_le_ics :
  forall m k i : Z,
         2 <= k -> k + 1 < m -> 2 <= i <= m - 1 -> MixDP.C m k <= i + MixDP.C i k + MixDP.C (m - i) (k - 1).
Proof. exact (@MixHelperCoh.C_le_ics). Qed.
Print Assumptions C06_dp_le_ics.
End M_C06_dp_le_ics.

(* ... and equal to one of them *)
Module M_C06_dp_attained.
Import MixHelperCoh.
Theorem C06_dp_attained :
  forall m k : Z,
         2 <= k ->
         k + 1 < m ->
         MixDP.C m k = 1 + MixDP.C (m - 1) (k - 1) \/
         (exists i : Z, 2 <= i <= m - 1 /\ MixDP.C m k = i + MixDP.C i k + MixDP.C (m - i) (k - 1)).
Proof. exact (@MixHelperCoh.C_attained). Qed.
Print Assumptions C06_dp_attained.
End M_C06_dp_attained.

(* PARTIAL: the planner value is the minimum over the candidates of its own recurrence (one-level unfolding); that no executable schedule whatsoever does better (Maddison 2024, Thm 1) is not proved *)
Module M_C06_planC_unfold_partial.
Import MixDP.
Theorem C06_planC_unfold_partial :
  forall m k : Z,
         2 <= m ->
         1 <= k ->
         let s := Z.min k (m - 1) in
         m <= s + 1 /\ planC m k = (Mixed.KAdj, 1, m) \/
         s + 1 < m /\ s = 1 /\ planC m k = (Mixed.KIcs, m - 1, m * (m + 1) / 2 - 1) \/
         s + 1 < m /\
         2 <= s /\
         (exists j : Z,
            2 <= j <= m - 1 /\
            (let cj := j + C j s + C (m - j) (s - 1) in
             let ca := 1 + C (m - 1) (s - 1) in
             planC m k = (if ca <? cj then (Mixed.KAdj, 1, ca) else (Mixed.KIcs, j, cj)))).
Proof. exact (@MixDP.planC_unfold). Qed.
Print Assumptions C06_planC_unfold_partial.
End M_C06_planC_unfold_partial.

