(* C07 -- H-Revolve family schedules achieve their cost optimum for any cost vector
   Property theorems only: each proof is one application of a lemma proved in Proofs/, followed by Print Assumptions. *)
From Coq Require Import ZArith List Bool.
From CS Require RevCost RevConv RevBridge4 RevolveRun Opt0Table DiskCost DiskCount HRevTable HRevCost HRevCount SeqGenSpec HSeqGenSpec ArgminGenSpec HoptGenSpec OptInfGenSpec Opt0GenSpec.
From CS Require Import Actions NAdvance Multistage Exec Sched RunFacts Projections BasicInv MultistageRun AllocTotal TLBridge MixBridge.
Import ListNotations.
Open Scope Z_scope.

(* THE SEQUENCE GENERATORS ARE THE SOURCE: SeqGenSpec.revolve_shape / disk_revolve_shape / periodic_shape are the Gallina functions harness/translate.py (SeqTr) renders from revolve(), disk_revolve() and periodic_disk_revolve() of hrevolve_sequences/ -- every sequence.insert(operation(..)) appends one operation, insert_sequence(f(..).shift(k)) a recursively built list, the loops become for_down / while_, reads of the tables tget / lget with IndexError; Gen/SeqGen.v re-translates the current source on every run and proves the result equal to these terms by conversion.  They are proved equal, for all arguments, to the extracted RevSeq.revolve / RevSeq.disk_revolve / the body of RevSeq.periodic_top, on which every theorem about the Revolve family is stated; this is the top-level call of the constructor (RevConv.sequence) read on the translated source.  Not translated: the tables (get_opt_0_table, get_opt_inf_table), mxrr_close_formula and the Sequence / Operation classes of basic_functions.py (their flattening, shift and remove_useless_wm are Ops.v) *)
Module M_C07_revolve_sequence_is_source.
Import SeqGenSpec.
Theorem C07_revolve_sequence_is_source :
  forall l cm uf ub : Z,
         RevSeq.revolve_top l cm uf ub =
         Actions.bind (RevSeq.get_opt_0_table l cm uf ub)
           (fun t : list (list Z) => revolve_shape (Z.to_nat (2 * l + 4)) t uf l cm).
Proof. exact (@SeqGenSpec.revolve_top_is_source). Qed.
Print Assumptions C07_revolve_sequence_is_source.
End M_C07_revolve_sequence_is_source.

(* ... DiskRevolve *)
Module M_C07_disk_revolve_sequence_is_source.
Import SeqGenSpec.
Theorem C07_disk_revolve_sequence_is_source :
  forall l cm rd wd uf ub : Z,
         RevSeq.disk_revolve_top l cm rd wd uf ub =
         Actions.bind (RevSeq.get_opt_0_table l cm uf ub)
           (fun t : list (list Z) =>
            Actions.bind (RevSeq.get_opt_inf_table l cm uf ub rd wd t)
              (fun ti : list Z => disk_revolve_shape (Z.to_nat (l + 2)) t ti uf rd wd l cm)).
Proof. exact (@SeqGenSpec.disk_revolve_top_is_source). Qed.
Print Assumptions C07_disk_revolve_sequence_is_source.
End M_C07_disk_revolve_sequence_is_source.

(* ... PeriodicDiskRevolve (the period is at least 1: PeriodGen.mxrr_pos) *)
Module M_C07_periodic_sequence_is_source.
Import SeqGenSpec.
Theorem C07_periodic_sequence_is_source :
  forall l cm rd wd uf ub : Z,
         0 <= l ->
         RevSeq.periodic_top l cm rd wd uf ub =
         (let mx := RevSeq.mxrr cm uf rd wd in
          Actions.bind (RevSeq.get_opt_0_table (Z.max mx mx + 1) cm uf ub)
            (fun t : list (list Z) =>
             Actions.bind (periodic_shape t uf mx l cm) (fun o : list Ops.op => Actions.Ok (o, mx)))).
Proof. exact (@SeqGenSpec.periodic_top_is_source). Qed.
Print Assumptions C07_periodic_sequence_is_source.
End M_C07_periodic_sequence_is_source.

(* ... HRevolve: hrevolve_aux / hrevolve_recurse (mutually recursive; costs integers or +infinity) rendered by the translator (Gen/HSeqGen.v), proved equal to HRevSeq.aux / HRevSeq.recurse for every chain length l >= 0, with the test `the sequence built so far ends in a Discard` read as is_discard (last_op ..) *)
Module M_C07_hrevolve_sequence_is_source.
Import HSeqGenSpec.
Theorem C07_hrevolve_sequence_is_source :
  forall l ram disk wd rd uf ub : Z,
         0 <= l ->
         HRevSeq.hrevolve l ram disk wd rd uf ub =
         (let p :=
            {|
              HRevSeq.c0v := ram;
              HRevSeq.c1v := disk;
              HRevSeq.w0v := 0;
              HRevSeq.w1v := wd;
              HRevSeq.r0v := 0;
              HRevSeq.r1v := rd;
              HRevSeq.ufv := uf;
              HRevSeq.ubv := ub
            |} in
          Actions.bind (HRevSeq.get_hopt_table l ram disk 0 wd 0 rd ub uf)
            (fun T : HRevSeq.tabs => recurse_shape (Z.to_nat (4 * l + 8)) p T l 1 disk)).
Proof. exact (@HSeqGenSpec.hrevolve_is_source). Qed.
Print Assumptions C07_hrevolve_sequence_is_source.
End M_C07_hrevolve_sequence_is_source.

(* ... argmin of basic_functions.py, rendered once over any element type with its <= (Gen/ArgminGen.v): on integers it is RevSeq.argmin with IndexError on the empty list (py_argmin, as the sequence generators above call it) *)
Module M_C07_argmin_is_source.
Import ArgminGenSpec.
Theorem C07_argmin_is_source :
  forall l : list Z, argmin_shape Z Z.leb l = SeqGenSpec.py_argmin l.
Proof. exact (@ArgminGenSpec.argmin_shape_is_model). Qed.
Print Assumptions C07_argmin_is_source.
End M_C07_argmin_is_source.

(* ... and on costs that may be infinite HRevSeq.argmin *)
Module M_C07_argmin_costs_is_source.
Import ArgminGenSpec.
Theorem C07_argmin_costs_is_source :
  forall l : list HRevSeq.cost, argmin_shape HRevSeq.cost HRevSeq.cle l = HSeqGenSpec.py_cargmin l.
Proof. exact (@ArgminGenSpec.cargmin_shape_is_model). Qed.
Print Assumptions C07_argmin_costs_is_source.
End M_C07_argmin_costs_is_source.

(* ... and the cost tables of H-Revolve: get_hopt_table rendered by the translator for two storage levels (Gen/HoptGen.v: assignments into opt[k][l][m] / optp[k][l][m] are hset, reads hget, float(inf) is Inf, l * (l + 1) / 2 exact division), proved equal to HRevSeq.get_hopt_table for all arguments *)
Module M_C07_hopt_table_is_source.
Import HoptGenSpec.
Theorem C07_hopt_table_is_source :
  forall lmax c0 c1 w0 w1 r0 r1 ub uf : Z,
         hopt_shape lmax c0 c1 w0 w1 r0 r1 ub uf = HRevSeq.get_hopt_table lmax c0 c1 w0 w1 r0 r1 ub uf.
Proof. exact (@HoptGenSpec.hopt_shape_is_model). Qed.
Print Assumptions C07_hopt_table_is_source.
End M_C07_hopt_table_is_source.

(* ... and the Disk-Revolve table: get_opt_inf_table (one_read_disk = True) rendered by the translator (Gen/OptInfGen.v: the Table is a list that only grows by append), proved equal to RevSeq.get_opt_inf_table for all arguments *)
Module M_C07_optinf_table_is_source.
Import OptInfGenSpec.
Theorem C07_optinf_table_is_source :
  forall (lmax cm uf ub rd wd : Z) (opt_0 : list (list Z)),
         optinf_shape lmax cm uf ub rd wd opt_0 = RevSeq.get_opt_inf_table lmax cm uf ub rd wd opt_0.
Proof. exact (@OptInfGenSpec.optinf_shape_is_model). Qed.
Print Assumptions C07_optinf_table_is_source.
End M_C07_optinf_table_is_source.

(* ... and the Revolve table: get_opt_0_table rendered by the translator (Gen/Opt0Gen.v: a list of rows that only grow by append), proved equal to RevSeq.get_opt_0_table for every slot count mmax >= 0 *)
Module M_C07_opt0_table_is_source.
Import Opt0GenSpec.
Theorem C07_opt0_table_is_source :
  forall lmax mmax uf ub : Z,
         0 <= mmax -> opt0_shape lmax mmax uf ub = RevSeq.get_opt_0_table lmax mmax uf ub.
Proof. exact (@Opt0GenSpec.opt0_shape_is_model). Qed.
Print Assumptions C07_opt0_table_is_source.
End M_C07_opt0_table_is_source.

(* Revolve on the extracted model, every cost vector with uf > 0: forward steps at exhaustion = N + P s (N-1), P = the step-count DP (Opt0Table.P: minimum over all first splits); reversed steps = N by the run theorem; no DISK traffic (budget 0) *)
Module M_C07_revolve_forward_total.
Import RevolveRun.
Theorem C07_revolve_forward_total :
  forall (N ram disk uf ub wd rd : Z) (k : nat),
         1 <= N ->
         0 <= ram ->
         (2 <= N -> 1 <= ram) ->
         0 < uf ->
         exists L : list Ops.op,
           RevConv.sequence RevConv.KRevolve N ram disk uf ub wd rd = Actions.Ok L /\
           (let
            '(s', m, ls) :=
             Sched.run_ops (RevBridge4.rev_xparams N ram)
               {|
                 Sched.ob := Sched.ORevF RevConv.KRevolve N ram disk (RevConv.init_r L); Sched.started := false
               |} Sched.mon0 (repeat Sched.Next k) in
             RunFacts.mon_ok m /\
             RunFacts.no_raise ls /\
             (Sched.is_exhausted s' = true ->
              Exec.fwd_total (Exec.cnt (Sched.mx m)) = N + Opt0Table.P ram (N - 1))).
Proof. exact (@RevolveRun.revolve_forward_total). Qed.
Print Assumptions C07_revolve_forward_total.
End M_C07_revolve_forward_total.

(* ... and the entry of the extracted get_opt_0_table for the whole problem is N ub + uf P s (N-1): stream cost uf*fwd + ub*N = table optimum + N uf, the memory-only optimum *)
Module M_C07_revolve_table_optimum.
Import RevolveRun.
Theorem C07_revolve_table_optimum :
  forall (N ram uf ub : Z) (t : list (list Z)),
         1 <= N ->
         1 <= ram ->
         0 <= uf ->
         RevSeq.get_opt_0_table (N - 1) ram uf ub = Actions.Ok t ->
         RevSeq.tget t ram (N - 1) = Actions.Ok (N * ub + uf * Opt0Table.P ram (N - 1)).
Proof. exact (@RevolveRun.revolve_table_optimum). Qed.
Print Assumptions C07_revolve_table_optimum.
End M_C07_revolve_table_optimum.

(* every entry of the table the generators read is (l+1) ub + uf P m l *)
Module M_C07_opt0_values.
Import Opt0Table.
Theorem C07_opt0_values :
  forall uf ub : Z,
         0 <= uf ->
         forall (lmax cmax : Z) (t : list (list Z)),
         0 <= lmax ->
         RevSeq.get_opt_0_table lmax cmax uf ub = Actions.Ok t ->
         forall m l : Z,
         0 <= m <= cmax -> 0 <= l <= lmax -> 1 <= m \/ l = 0 -> RevSeq.tget t m l = Actions.Ok (val uf ub m l).
Proof. exact (@Opt0Table.opt0_values). Qed.
Print Assumptions C07_opt0_values.
End M_C07_opt0_values.

(* REVOLVE, operation lists (cost = uf per forward step + ub per Backward + wd per Write_disk + rd per Read_disk): the list revolve produces is in the grammar RevBlk.Blk, costs exactly the opt_0 table entry + (l+1) uf, and no list of that grammar for l steps and cm slots costs less *)
Module M_C07_revolve_optimal_in_grammar.
Import DiskCost.
Theorem C07_revolve_optimal_in_grammar :
  forall uf ub wd rd : Z,
         0 < uf ->
         forall (l cm : Z) (s : list Ops.op),
         0 <= l ->
         0 <= cm ->
         (1 <= l -> 1 <= cm) ->
         RevSeq.revolve_top l cm uf ub = Actions.Ok s ->
         exists s0 : list RevBlk.op,
           s = map RevBridge1.inj s0 /\
           RevBlk.Blk true 0 l cm s0 /\
           cost uf ub wd rd s0 = Opt0Table.val uf ub cm l + (l + 1) * uf /\
           (forall s' : list RevBlk.op, RevBlk.Blk true 0 l cm s' -> cost uf ub wd rd s0 <= cost uf ub wd rd s').
Proof. exact (@DiskCost.revolve_optimal). Qed.
Print Assumptions C07_revolve_optimal_in_grammar.
End M_C07_revolve_optimal_in_grammar.

(* DISKREVOLVE: the list disk_revolve produces is in the grammar DiskBlk.DBlk (each disk checkpoint written once and read once, every segment reversed by a memory-only block), costs exactly Dv l + (l+1) uf, and no list of that grammar costs less *)
Module M_C07_disk_revolve_optimal_in_grammar.
Import DiskCost.
Theorem C07_disk_revolve_optimal_in_grammar :
  forall uf ub wd rd : Z,
         0 < uf ->
         forall (l cm : Z) (s : list Ops.op),
         0 <= l ->
         1 <= cm ->
         RevSeq.disk_revolve_top l cm rd wd uf ub = Actions.Ok s ->
         exists s0 : list RevBlk.op,
           s = map RevBridge1.inj s0 /\
           DiskBlk.DBlk cm 0 l s0 /\
           cost uf ub wd rd s0 = Dv uf ub wd rd cm l + (l + 1) * uf /\
           (forall s' : list RevBlk.op, DiskBlk.DBlk cm 0 l s' -> cost uf ub wd rd s0 <= cost uf ub wd rd s').
Proof. exact (@DiskCost.disk_revolve_optimal). Qed.
Print Assumptions C07_disk_revolve_optimal_in_grammar.
End M_C07_disk_revolve_optimal_in_grammar.

(* ... where Dv is the Disk-Revolve recurrence: Dv l = min(opt_0[cm][l], min_j (wd + j uf + Dv (l-j) + rd + opt_0[cm][j-1])) *)
Module M_C07_Dv_recurrence.
Import DiskCost.
Theorem C07_Dv_recurrence :
  forall uf ub wd rd cm l : Z,
         2 <= l ->
         Dv uf ub wd rd cm l =
         Z.min (Opt0Table.val uf ub cm l)
           (RevSeq.zmin_list (map (cand uf ub wd rd cm (Dv uf ub wd rd cm) l) (Ops.zrange 1 l)) 0).
Proof. exact (@DiskCost.Dv_unfold). Qed.
Print Assumptions C07_Dv_recurrence.
End M_C07_Dv_recurrence.

(* ... which is what the extracted get_opt_inf_table tabulates *)
Module M_C07_optinf_values.
Import DiskCost.
Theorem C07_optinf_values :
  forall (uf ub wd rd : Z) (t : list (list Z)) (M L : Z),
         (forall m l : Z,
          0 <= m <= M ->
          0 <= l <= L -> 1 <= m \/ l = 0 -> RevSeq.tget t m l = Actions.Ok (Opt0Table.val uf ub m l)) ->
         forall cm : Z,
         1 <= cm <= M ->
         forall (lmax : Z) (ti : list Z),
         0 <= lmax <= L ->
         RevSeq.get_opt_inf_table lmax cm uf ub rd wd t = Actions.Ok ti ->
         forall l : Z, 0 <= l <= lmax -> RevSeq.lget ti l = Actions.Ok (Dv uf ub wd rd cm l).
Proof. exact (@DiskCost.optinf_values). Qed.
Print Assumptions C07_optinf_values.
End M_C07_optinf_values.

(* cost(DiskRevolve) <= cost(Revolve), same l, cm and costs *)
Module M_C07_disk_le_revolve.
Import DiskCost.
Theorem C07_disk_le_revolve :
  forall uf ub wd rd : Z,
         0 < uf ->
         forall (l cm : Z) (sd sr : list RevBlk.op),
         0 <= l ->
         1 <= cm ->
         RevSeq.disk_revolve_top l cm rd wd uf ub = Actions.Ok (map RevBridge1.inj sd) ->
         RevSeq.revolve_top l cm uf ub = Actions.Ok (map RevBridge1.inj sr) ->
         cost uf ub wd rd sd <= cost uf ub wd rd sr.
Proof. exact (@DiskCost.disk_le_revolve). Qed.
Print Assumptions C07_disk_le_revolve.
End M_C07_disk_le_revolve.

(* cost(PeriodicDiskRevolve) >= cost(DiskRevolve): the periodic list is in the DBlk grammar (PeriodGen.periodic_grammar) *)
Module M_C07_periodic_ge_disk.
Import DiskCost.
Theorem C07_periodic_ge_disk :
  forall uf ub wd rd : Z,
         0 < uf ->
         forall (l cm : Z) (sd : list RevBlk.op) (sp : list Ops.op) (mx : Z),
         0 <= l ->
         1 <= cm ->
         RevSeq.disk_revolve_top l cm rd wd uf ub = Actions.Ok (map RevBridge1.inj sd) ->
         RevSeq.periodic_top l cm rd wd uf ub = Actions.Ok (sp, mx) ->
         exists sp0 : list RevBlk.op,
           sp = map RevBridge1.inj sp0 /\ cost uf ub wd rd sd <= cost uf ub wd rd sp0.
Proof. exact (@DiskCost.periodic_ge_disk). Qed.
Print Assumptions C07_periodic_ge_disk.
End M_C07_periodic_ge_disk.

(* DISKREVOLVE, THE STREAM: once the schedule is exhausted, uf * (forward steps executed) + ub * N + wd * (checkpoints written to DISK) + rd * (checkpoints loaded from DISK), read off the reference executor, equals Dv (N-1) + N uf, and no list of the grammar costs less *)
Module M_C07_disk_revolve_stream_cost.
Import DiskCount.
Theorem C07_disk_revolve_stream_cost :
  forall (N ram disk uf ub wd rd : Z) (k : nat),
         1 <= N ->
         1 <= ram ->
         0 < uf ->
         exists L0 : list RevBlk.op,
           RevConv.sequence RevConv.KDiskRevolve N ram disk uf ub wd rd = Actions.Ok (map RevBridge1.inj L0) /\
           (let
            '(s', m, _) :=
             Sched.run_ops (DiskRun.disk_xparams N ram)
               {|
                 Sched.ob :=
                   Sched.ORevF RevConv.KDiskRevolve N ram disk (RevConv.init_r (map RevBridge1.inj L0));
                 Sched.started := false
               |} Sched.mon0 (repeat Sched.Next k) in
             Sched.is_exhausted s' = true ->
             let c :=
               uf * Exec.fwd_total (Exec.cnt (Sched.mx m)) + ub * N +
               wd * Exec.disk_writes (Exec.cnt (Sched.mx m)) + rd * Exec.disk_reads (Exec.cnt (Sched.mx m)) in
             c = DiskCost.Dv uf ub rd wd ram (N - 1) + N * uf /\
             (forall s : list RevBlk.op, DiskBlk.DBlk ram 0 (N - 1) s -> c <= DiskCost.cost uf ub wd rd s)).
Proof. exact (@DiskCount.disk_revolve_stream_cost). Qed.
Print Assumptions C07_disk_revolve_stream_cost.
End M_C07_disk_revolve_stream_cost.

(* ... because the executor counters at exhaustion are the counts of the operation list (DiskRevolve and PeriodicDiskRevolve alike) *)
Module M_C07_disk_stream_counts.
Import DiskCount.
Theorem C07_disk_stream_counts :
  forall (kd : RevConv.rkind) (N ram disk : Z) (L0 : list RevBlk.op) (k : nat),
         1 <= N ->
         0 <= ram ->
         (2 <= N -> 1 <= ram) ->
         DiskBlk.DBlk ram 0 (N - 1) L0 ->
         let
         '(s', m, _) :=
          Sched.run_ops (DiskRun.disk_xparams N ram)
            {|
              Sched.ob := Sched.ORevF kd N ram disk (RevConv.init_r (map RevBridge1.inj L0));
              Sched.started := false
            |} Sched.mon0 (repeat Sched.Next k) in
          Sched.is_exhausted s' = true ->
          Exec.fwd_total (Exec.cnt (Sched.mx m)) = RevCost.work L0 /\
          Exec.disk_writes (Exec.cnt (Sched.mx m)) = DiskCost.nWD L0 /\
          Exec.disk_reads (Exec.cnt (Sched.mx m)) = DiskCost.nRD L0.
Proof. exact (@DiskCount.disk_stream_counts). Qed.
Print Assumptions C07_disk_stream_counts.
End M_C07_disk_stream_counts.

(* (the lower bounds) every memory block ... *)
Module M_C07_blk_cost_lower_bound.
Import DiskCost.
Theorem C07_blk_cost_lower_bound :
  forall uf ub wd rd : Z,
         0 <= uf ->
         forall (wm : bool) (o l c : Z) (s : list RevBlk.op),
         RevBlk.Blk wm o l c s -> cost uf ub wd rd s >= Opt0Table.val uf ub c l + (l + 1) * uf.
Proof. exact (@DiskCost.Blk_cost_lb). Qed.
Print Assumptions C07_blk_cost_lower_bound.
End M_C07_blk_cost_lower_bound.

(* ... and every disk block *)
Module M_C07_dblk_cost_lower_bound.
Import DiskCost.
Theorem C07_dblk_cost_lower_bound :
  forall uf ub wd rd : Z,
         0 <= uf ->
         forall (cm o l : Z) (s : list RevBlk.op),
         DiskBlk.DBlk cm o l s -> 0 <= l -> cost uf ub wd rd s >= Dv uf ub wd rd cm l + (l + 1) * uf.
Proof. exact (@DiskCost.DBlk_cost_lb). Qed.
Print Assumptions C07_dblk_cost_lower_bound.
End M_C07_dblk_cost_lower_bound.

(* HREVOLVE, THE STREAM (1 <= ram, 0 <= disk, 0 < uf, 0 <= wd, rd; ub unconstrained): once the schedule is exhausted, uf * (forward steps executed) + ub * N + wd * (checkpoints written to DISK) + rd * (checkpoints loaded from DISK), read off the reference executor, equals C(disk, N-1) + N uf, C the H-Revolve recurrence (HRevTable.Cm / Bv), and no operation list of the grammar HBd with that disk budget costs less *)
Module M_C07_hrevolve_stream_cost.
Import HRevCount.
Theorem C07_hrevolve_stream_cost :
  forall (N ram disk uf ub wd rd : Z) (k : nat),
         1 <= N ->
         1 <= ram ->
         0 <= disk ->
         0 < uf ->
         0 <= wd ->
         0 <= rd ->
         exists L0 : list RevBlk.op,
           RevConv.sequence RevConv.KHRevolve N ram disk uf ub wd rd = Actions.Ok (map HRevBridge1.injH L0) /\
           (let
            '(s', m, _) :=
             Sched.run_ops (DiskRun.disk_xparams N ram)
               {|
                 Sched.ob :=
                   Sched.ORevF RevConv.KHRevolve N ram disk (RevConv.init_r (map HRevBridge1.injH L0));
                 Sched.started := false
               |} Sched.mon0 (repeat Sched.Next k) in
             Sched.is_exhausted s' = true ->
             let c :=
               uf * Exec.fwd_total (Exec.cnt (Sched.mx m)) + ub * N +
               wd * Exec.disk_writes (Exec.cnt (Sched.mx m)) + rd * Exec.disk_reads (Exec.cnt (Sched.mx m)) in
             c = HRevTable.Cm uf ub wd rd ram (Z.to_nat disk) (N - 1) + N * uf /\
             (forall s : list RevBlk.op,
              HRevCost.HBd ram disk HRevBlk.MTop 0 (N - 1) s -> c <= DiskCost.cost uf ub wd rd s)).
Proof. exact (@HRevCount.hrevolve_stream_cost). Qed.
Print Assumptions C07_hrevolve_stream_cost.
End M_C07_hrevolve_stream_cost.

(* HREVOLVE, operation lists: the list the extracted hrevolve produces is in the grammar HRevCost.HBd (HRevBlk.HB, whose every list the executor accepts, indexed by the number of free disk slots; a disk write is always followed by the Forward that stores it), costs exactly C(disk, l) + (l+1) uf and no list of the grammar with that budget costs less.  PARTIAL with respect to the property text in one respect only: "the optimum of the hierarchical adjoint problem" is here the optimum over the grammar HBd (nested splits, the right part with one disk slot fewer, memory-only blocks at the leaves), not over every conceivable action stream *)
Module M_C07_hrevolve_optimal_in_grammar.
Import HRevCost.
Theorem C07_hrevolve_optimal_in_grammar :
  forall uf ub wd rd : Z,
         0 < uf ->
         0 <= wd ->
         0 <= rd ->
         forall (l ram disk : Z) (L : list Ops.op),
         0 <= l ->
         1 <= ram ->
         0 <= disk ->
         HRevSeq.hrevolve l ram disk wd rd uf ub = Actions.Ok L ->
         exists L0 : list RevBlk.op,
           L = map HRevBridge1.injH L0 /\
           HBd ram disk HRevBlk.MTop 0 l L0 /\
           DiskCost.cost uf ub wd rd L0 = HRevTable.Cm uf ub wd rd ram (Z.to_nat disk) l + (l + 1) * uf /\
           (forall s : list RevBlk.op,
            HBd ram disk HRevBlk.MTop 0 l s -> DiskCost.cost uf ub wd rd L0 <= DiskCost.cost uf ub wd rd s).
Proof. exact (@HRevCost.hrevolve_optimal). Qed.
Print Assumptions C07_hrevolve_optimal_in_grammar.
End M_C07_hrevolve_optimal_in_grammar.

(* ... because the tables get_hopt_table builds (two levels, w0 = r0 = 0 as HRevolve passes them) hold exactly these values: level 0 = the memory-only optimum val m l, optp[1][l][m] = B m l, opt[1][l][m] = C m l with B m l = min(val c0 l, min_j (j uf + C (m-1) (l-j) + rd + B m (j-1))), C m l = min(val c0 l, wd + B m l), C 0 = val c0 *)
Module M_C07_hopt_table_values.
Import HRevTable.
Theorem C07_hopt_table_values :
  forall lmax c0 c1 uf ub wd rd : Z,
         0 <= lmax ->
         1 <= c0 ->
         0 <= c1 ->
         0 <= uf ->
         0 <= wd ->
         forall T : HRevSeq.tabs,
         HRevSeq.get_hopt_table lmax c0 c1 0 wd 0 rd ub uf = Actions.Ok T ->
         HRevTotal.Inv lmax c0 c1 T /\
         V0 lmax c0 uf ub (fun l m : Z => l = 0 \/ 1 <= m) T /\
         V1 lmax c0 c1 uf ub wd rd (fun _ _ : Z => True) (fun l m : Z => l <= 1 \/ 1 <= m) T.
Proof. exact (@HRevTable.hopt_values). Qed.
Print Assumptions C07_hopt_table_values.
End M_C07_hopt_table_values.

(* cost(HRevolve with d' disk units) <= cost(HRevolve with d <= d' units), same l, ram and costs *)
Module M_C07_hrevolve_more_disk.
Import HRevCost.
Theorem C07_hrevolve_more_disk :
  forall uf ub wd rd : Z,
         0 < uf ->
         0 <= wd ->
         0 <= rd ->
         forall (l ram d d' : Z) (s s' : list RevBlk.op),
         0 <= l ->
         1 <= ram ->
         0 <= d <= d' ->
         HRevSeq.hrevolve l ram d wd rd uf ub = Actions.Ok (map HRevBridge1.injH s) ->
         HRevSeq.hrevolve l ram d' wd rd uf ub = Actions.Ok (map HRevBridge1.injH s') ->
         DiskCost.cost uf ub wd rd s' <= DiskCost.cost uf ub wd rd s.
Proof. exact (@HRevCost.hrevolve_more_disk). Qed.
Print Assumptions C07_hrevolve_more_disk.
End M_C07_hrevolve_more_disk.

(* cost(HRevolve) <= cost(Revolve), same l, ram and costs *)
Module M_C07_hrevolve_le_revolve.
Import HRevCost.
Theorem C07_hrevolve_le_revolve :
  forall uf ub wd rd : Z,
         0 < uf ->
         0 <= wd ->
         0 <= rd ->
         forall (l ram disk : Z) (sh sr : list RevBlk.op),
         0 <= l ->
         1 <= ram ->
         0 <= disk ->
         HRevSeq.hrevolve l ram disk wd rd uf ub = Actions.Ok (map HRevBridge1.injH sh) ->
         RevSeq.revolve_top l ram uf ub = Actions.Ok (map RevBridge1.inj sr) ->
         DiskCost.cost uf ub wd rd sh <= DiskCost.cost uf ub wd rd sr.
Proof. exact (@HRevCost.hrevolve_le_revolve). Qed.
Print Assumptions C07_hrevolve_le_revolve.
End M_C07_hrevolve_le_revolve.

(* cost(HRevolve with at least l disk units) <= cost(DiskRevolve): the Disk-Revolve grammar is the sub-grammar of HBd whose left parts are memory-only *)
Module M_C07_hrevolve_le_disk_revolve.
Import HRevCost.
Theorem C07_hrevolve_le_disk_revolve :
  forall uf ub wd rd : Z,
         0 < uf ->
         0 <= wd ->
         0 <= rd ->
         forall (l ram disk : Z) (sh sd : list RevBlk.op),
         0 <= l ->
         1 <= ram ->
         l <= disk ->
         HRevSeq.hrevolve l ram disk wd rd uf ub = Actions.Ok (map HRevBridge1.injH sh) ->
         RevSeq.disk_revolve_top l ram rd wd uf ub = Actions.Ok (map RevBridge1.inj sd) ->
         DiskCost.cost uf ub wd rd sh <= DiskCost.cost uf ub wd rd sd.
Proof. exact (@HRevCost.hrevolve_le_disk_revolve). Qed.
Print Assumptions C07_hrevolve_le_disk_revolve.
End M_C07_hrevolve_le_disk_revolve.

(* (the lower bound) every list of HBd with d free disk slots for l steps costs at least C(d, l) + (l+1) uf (B(d, l) + (l+1) uf when its checkpoint is on disk already) *)
Module M_C07_hbd_cost_lower_bound.
Import HRevCost.
Theorem C07_hbd_cost_lower_bound :
  forall c0 uf ub wd rd : Z,
         0 < uf ->
         0 <= wd ->
         0 <= rd ->
         forall (d : Z) (m : HRevBlk.mode) (o l : Z) (s : list RevBlk.op),
         HBd c0 d m o l s ->
         0 <= d -> 0 <= l -> DiskCost.cost uf ub wd rd s >= bound c0 uf ub wd rd m d l + (l + 1) * uf.
Proof. exact (@HRevCost.HBd_cost_lb). Qed.
Print Assumptions C07_hbd_cost_lower_bound.
End M_C07_hbd_cost_lower_bound.

(* the executor counters at exhaustion are the counts of the operation list, for every list of HBd *)
Module M_C07_hrev_stream_counts.
Import HRevCount.
Theorem C07_hrev_stream_counts :
  forall (N ram disk d : Z) (L0 : list RevBlk.op) (k : nat),
         1 <= N ->
         0 <= ram ->
         HRevCost.HBd ram d HRevBlk.MTop 0 (N - 1) L0 ->
         let
         '(s', m, _) :=
          Sched.run_ops (DiskRun.disk_xparams N ram)
            {|
              Sched.ob := Sched.ORevF RevConv.KHRevolve N ram disk (RevConv.init_r (map HRevBridge1.injH L0));
              Sched.started := false
            |} Sched.mon0 (repeat Sched.Next k) in
          Sched.is_exhausted s' = true ->
          Exec.fwd_total (Exec.cnt (Sched.mx m)) = RevCost.work L0 /\
          Exec.disk_writes (Exec.cnt (Sched.mx m)) = DiskCost.nWD L0 /\
          Exec.disk_reads (Exec.cnt (Sched.mx m)) = DiskCost.nRD L0.
Proof. exact (@HRevCount.hrev_stream_counts). Qed.
Print Assumptions C07_hrev_stream_counts.
End M_C07_hrev_stream_counts.

(* the split chosen is a minimiser *)
Module M_C07_argmin_min.
Import RevCost.
Theorem C07_argmin_min :
  forall l : list Z,
         l <> [] ->
         exists x : Z,
           nth_error l (Z.to_nat (RevGen.argmin l - 1)) = Some x /\ (forall y : Z, In y l -> x <= y).
Proof. exact (@RevCost.argmin_min). Qed.
Print Assumptions C07_argmin_min.
End M_C07_argmin_min.

(* the split does not depend on uf, ub *)
Module M_C07_argmin_affine.
Import RevCost.
Theorem C07_argmin_affine :
  forall (u c : Z) (l : list Z),
         0 < u -> RevGen.argmin (map (fun x : Z => u * x + c) l) = RevGen.argmin l.
Proof. exact (@RevCost.argmin_affine). Qed.
Print Assumptions C07_argmin_affine.
End M_C07_argmin_affine.

