(* C07 -- H-Revolve family schedules achieve their cost optimum for any cost vector
   Property theorems only: each proof is one application of a lemma proved in Proofs/, followed by Print Assumptions. *)
From Coq Require Import ZArith List Bool.
From CS Require RevCost RevConv RevBridge4 RevolveRun Opt0Table.
From CS Require Import Actions NAdvance Multistage Exec Sched RunFacts Projections BasicInv MultistageRun AllocTotal TLBridge MixBridge.
Import ListNotations.
Open Scope Z_scope.

(* Revolve on the extracted model, every cost vector with uf > 0: forward steps at exhaustion = N + P s (N-1), P = the step-count DP (Opt0Table.P: minimum over all first splits); reversed steps = N by the run theorem; no DISK traffic (budget 0) *)
Module M_C07_revolve_forward_total.
Import RevolveRun.
Theorem C07_revolve_forward_total :
  forall (N ram disk uf ub wd rd : Z) (k : nat),
         1 <= N ->
         0 <= ram ->
         (2 <= N -> 1 <= ram) ->
         0 < uf ->
         exists L : list Ops.op,
           RevConv.sequence RevConv.KRevolve N ram disk uf ub wd rd = Actions.Ok L /\
           (let
            '(s', m, ls) :=
             Sched.run_ops (RevBridge4.rev_xparams N ram)
               {|
                 Sched.ob := Sched.ORevF RevConv.KRevolve N ram disk (RevConv.init_r L); Sched.started := false
               |} Sched.mon0 (repeat Sched.Next k) in
             RunFacts.mon_ok m /\
             RunFacts.no_raise ls /\
             (Sched.is_exhausted s' = true ->
              Exec.fwd_total (Exec.cnt (Sched.mx m)) = N + Opt0Table.P ram (N - 1))).
Proof. exact (@RevolveRun.revolve_forward_total). Qed.
Print Assumptions C07_revolve_forward_total.
End M_C07_revolve_forward_total.

(* ... and the entry of the extracted get_opt_0_table for the whole problem is N ub + uf P s (N-1): stream cost uf*fwd + ub*N = table optimum + N uf, the memory-only optimum *)
Module M_C07_revolve_table_optimum.
Import RevolveRun.
Theorem C07_revolve_table_optimum :
  forall (N ram uf ub : Z) (t : list (list Z)),
         1 <= N ->
         1 <= ram ->
         0 <= uf ->
         RevSeq.get_opt_0_table (N - 1) ram uf ub = Actions.Ok t ->
         RevSeq.tget t ram (N - 1) = Actions.Ok (N * ub + uf * Opt0Table.P ram (N - 1)).
Proof. exact (@RevolveRun.revolve_table_optimum). Qed.
Print Assumptions C07_revolve_table_optimum.
End M_C07_revolve_table_optimum.

(* every entry of the table the generators read is (l+1) ub + uf P m l *)
Module M_C07_opt0_values.
Import Opt0Table.
Theorem C07_opt0_values :
  forall uf ub : Z,
         0 <= uf ->
         forall (lmax cmax : Z) (t : list (list Z)),
         0 <= lmax ->
         RevSeq.get_opt_0_table lmax cmax uf ub = Actions.Ok t ->
         forall m l : Z,
         0 <= m <= cmax -> 0 <= l <= lmax -> 1 <= m \/ l = 0 -> RevSeq.tget t m l = Actions.Ok (val uf ub m l).
Proof. exact (@Opt0Table.opt0_values). Qed.
Print Assumptions C07_opt0_values.
End M_C07_opt0_values.

(* PARTIAL: the cost theorems for DiskRevolve, PeriodicDiskRevolve and HRevolve (get_opt_inf_table, get_hopt_table) and the three orderings between the classes are not proved: correspondence + clean-DP oracle only; (this lemma is the structural work formula the Revolve theorem rests on) *)
Module M_C07_other_classes_partial.
Import RevCost.
Theorem C07_other_classes_partial :
  forall uf ub : Z,
         0 < uf ->
         forall (opt0 : list (list Z)) (M L : Z) (P : Z -> Z -> Z),
         (forall m l : Z,
          0 <= m <= M ->
          0 <= l <= L -> 1 <= m \/ l = 0 -> RevGen.tget opt0 m l = RevGen.GOk ((l + 1) * ub + uf * P m l)) ->
         (forall m : Z, P m 0 = 0) ->
         (forall m : Z, 1 <= m -> P m 1 = 1) ->
         (forall l : Z, 0 <= l -> 2 * P 1 l = l * (l + 1)) ->
         (forall m l j : Z, 2 <= m -> 2 <= l -> 1 <= j <= l - 1 -> P m l <= j + P (m - 1) (l - j) + P m (j - 1)) ->
         (forall m l : Z,
          2 <= m -> 2 <= l -> exists j : Z, 1 <= j <= l - 1 /\ P m l = j + P (m - 1) (l - j) + P m (j - 1)) ->
         forall (fuel : nat) (l cm : Z) (ops : list RevBlk.op),
         RevGen.revolve fuel opt0 uf l cm = RevGen.GOk ops ->
         0 <= l <= L -> 0 <= cm <= M -> (1 <= l -> 1 <= cm) -> work ops = l + 1 + P cm l.
Proof. exact (@RevCost.revolve_work). Qed.
Print Assumptions C07_other_classes_partial.
End M_C07_other_classes_partial.

(* the split chosen is a minimiser *)
Module M_C07_argmin_min.
Import RevCost.
Theorem C07_argmin_min :
  forall l : list Z,
         l <> [] ->
         exists x : Z,
           nth_error l (Z.to_nat (RevGen.argmin l - 1)) = Some x /\ (forall y : Z, In y l -> x <= y).
Proof. exact (@RevCost.argmin_min). Qed.
Print Assumptions C07_argmin_min.
End M_C07_argmin_min.

(* the split does not depend on uf, ub *)
Module M_C07_argmin_affine.
Import RevCost.
Theorem C07_argmin_affine :
  forall (u c : Z) (l : list Z),
         0 < u -> RevGen.argmin (map (fun x : Z => u * x + c) l) = RevGen.argmin l.
Proof. exact (@RevCost.argmin_affine). Qed.
Print Assumptions C07_argmin_affine.
End M_C07_argmin_affine.

