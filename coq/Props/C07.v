(* C07 -- H-Revolve family schedules achieve their cost optimum for any cost vector
   Property theorems only: each proof is one application of a lemma proved in Proofs/, followed by Print Assumptions. *)
From Coq Require Import ZArith List Bool.
From CS Require RevCost.
From CS Require Import Actions NAdvance Multistage Exec Sched RunFacts Projections BasicInv MultistageRun AllocTotal TLBridge MixBridge.
Import ListNotations.
Open Scope Z_scope.

(* PARTIAL: Revolve only; table correctness as hypothesis; DiskRevolve/Periodic/HRevolve cost theorems not proved (oracle + correspondence only) *)
Module M_C07_revolve_work_partial.
Import RevCost.
Theorem C07_revolve_work_partial :
  forall uf ub : Z,
         0 < uf ->
         forall (opt0 : list (list Z)) (M L : Z) (P : Z -> Z -> Z),
         (forall m l : Z,
          0 <= m <= M ->
          0 <= l <= L -> 1 <= m \/ l = 0 -> RevGen.tget opt0 m l = RevGen.GOk ((l + 1) * ub + uf * P m l)) ->
         (forall m : Z, P m 0 = 0) ->
         (forall m : Z, 1 <= m -> P m 1 = 1) ->
         (forall l : Z, 0 <= l -> 2 * P 1 l = l * (l + 1)) ->
         (forall m l j : Z, 2 <= m -> 2 <= l -> 1 <= j <= l - 1 -> P m l <= j + P (m - 1) (l - j) + P m (j - 1)) ->
         (forall m l : Z,
          2 <= m -> 2 <= l -> exists j : Z, 1 <= j <= l - 1 /\ P m l = j + P (m - 1) (l - j) + P m (j - 1)) ->
         forall (fuel : nat) (l cm : Z) (ops : list RevBlk.op),
         RevGen.revolve fuel opt0 uf l cm = RevGen.GOk ops ->
         0 <= l <= L -> 0 <= cm <= M -> (1 <= l -> 1 <= cm) -> work ops = l + 1 + P cm l.
Proof. exact (@RevCost.revolve_work). Qed.
Print Assumptions C07_revolve_work_partial.
End M_C07_revolve_work_partial.

(* the split chosen is a minimiser *)
Module M_C07_argmin_min.
Import RevCost.
Theorem C07_argmin_min :
  forall l : list Z,
         l <> [] ->
         exists x : Z,
           nth_error l (Z.to_nat (RevGen.argmin l - 1)) = Some x /\ (forall y : Z, In y l -> x <= y).
Proof. exact (@RevCost.argmin_min). Qed.
Print Assumptions C07_argmin_min.
End M_C07_argmin_min.

(* the split does not depend on uf, ub *)
Module M_C07_argmin_affine.
Import RevCost.
Theorem C07_argmin_affine :
  forall (u c : Z) (l : list Z),
         0 < u -> RevGen.argmin (map (fun x : Z => u * x + c) l) = RevGen.argmin l.
Proof. exact (@RevCost.argmin_affine). Qed.
Print Assumptions C07_argmin_affine.
End M_C07_argmin_affine.

