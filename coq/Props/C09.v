(* C09 -- Schedules conclude, repeat and report exhaustion exactly as documented
   Property theorems only: each proof is one application of a lemma proved in Proofs/, followed by Print Assumptions. *)
From Coq Require Import ZArith List Bool.
From CS Require MSTerm.
From CS Require Import Actions NAdvance Multistage Exec Sched RunFacts Projections BasicInv MultistageRun TLBridge MixBridge.
Import ListNotations.
Open Scope Z_scope.

(* unlimited adjoint calculations, each executable: the run theorems hold for every number k of further requests *)
Theorem C09_single_memory_passes : forall (N : Z), 1 <= N -> N <= maxsize -> forall k : nat,
  exists o0 m ls, run_case PMem (BasicInv.pm N) ([Next; Fin N] ++ repeat Next k) = Ok (o0, m, ls) /\ mon_ok m /\ no_raise ls.
Proof. exact single_memory_run. Qed.
Print Assumptions C09_single_memory_passes.
Theorem C09_single_disk_passes : forall (mv : bool) (N : Z), 1 <= N -> forall k : nat,
  exists o0 m ls, run_case (PDisk mv) (BasicInv.pd N) (repeat Next (Z.to_nat N) ++ [Fin N] ++ repeat Next k) = Ok (o0, m, ls) /\ mon_ok m /\ no_raise ls.
Proof. exact single_disk_run. Qed.
Print Assumptions C09_single_disk_passes.
Theorem C09_twolevel_passes : forall (N P bs : Z) (bst : storage) (tj : traj), 1 <= N -> 1 <= P -> 0 <= bs -> bst = RAM \/ bst = DISK -> forall k : nat,
  exists o0 m ls, run_case (PTwo P bs bst tj) (ptl N P bs bst) (repeat Next (Z.to_nat (TLBridge.Q N P)) ++ [Fin N] ++ repeat Next (S k)) = Ok (o0, m, ls) /\ mon_ok m /\ no_raise ls.
Proof. exact twolevel_run. Qed.
Print Assumptions C09_twolevel_passes.

(* PARTIAL: termination measure of the Multistage machine decreases at every yielded action; the flag theorems (is_exhausted / is_running at every point) are not proved yet: correspondence + oracle *)
Module M_C09_multistage_terminates_partial.
Import MSTerm.
Theorem C09_multistage_terminates_partial :
  forall adv : Z -> Z -> Z,
         (forall m k : Z, 2 <= m -> 1 <= k -> 1 <= adv m k <= m - 1) ->
         (forall m : Z, 2 <= m -> adv m 1 = m - 1) ->
         forall T : Z -> Z -> Z,
         (forall k : Z, T 1 k = 1) ->
         (forall m k : Z, 2 <= m -> 1 <= k -> T m k = adv m k + T (m - adv m k) (k - 1) + T (adv m k) k) ->
         (forall m k : Z, 0 <= T m k) ->
         forall N S_ : Z,
         1 <= N ->
         forall label : nat -> Actions.storage,
         (forall d : nat, label d = Actions.RAM \/ label d = Actions.DISK) ->
         forall (s : MSPot.st) (x : MSPot.xst),
         MSPot.Inv T N S_ label s x ->
         let (s', o) := MSPot.resume adv N S_ label s in
         match o with
         | MSPot.Act _ => 0 <= mu T N S_ s' < mu T N S_ s
         | _ => True
         end.
Proof. exact (@MSTerm.mu_decreases). Qed.
Print Assumptions C09_multistage_terminates_partial.
End M_C09_multistage_terminates_partial.

