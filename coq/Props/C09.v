(* C09: property theorems.  Statements only; every proof is `exact` of a lemma in Proofs/. *)
From Coq Require Import ZArith List Bool.
From CS Require MSTerm.
Import ListNotations.
Open Scope Z_scope.

(* termination measure decreases at every yielded action *)
Module M_C09_multistage_terminates.
Import MSTerm.
Theorem C09_multistage_terminates :
  forall adv : Z -> Z -> Z,
         (forall m k : Z, 2 <= m -> 1 <= k -> 1 <= adv m k <= m - 1) ->
         (forall m : Z, 2 <= m -> adv m 1 = m - 1) ->
         forall T : Z -> Z -> Z,
         (forall k : Z, T 1 k = 1) ->
         (forall m k : Z, 2 <= m -> 1 <= k -> T m k = adv m k + T (m - adv m k) (k - 1) + T (adv m k) k) ->
         (forall m k : Z, 0 <= T m k) ->
         forall N S_ : Z,
         1 <= N ->
         forall label : nat -> Actions.storage,
         (forall d : nat, label d = Actions.RAM \/ label d = Actions.DISK) ->
         forall (s : MSPot.st) (x : MSPot.xst),
         MSPot.Inv T N S_ label s x ->
         let (s', o) := MSPot.resume adv N S_ label s in
         match o with
         | MSPot.Act _ => 0 <= mu T N S_ s' < mu T N S_ s
         | _ => True
         end.
Proof. exact (@MSTerm.mu_decreases). Qed.
Print Assumptions C09_multistage_terminates.
End M_C09_multistage_terminates.

