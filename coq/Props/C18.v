(* C18: property theorems.  Statements only; every proof is `exact` of a lemma in Proofs/. *)
From Coq Require Import ZArith List Bool.
From CS Require Repr.
Import ListNotations.
Open Scope Z_scope.

(* decimal printing of integers parses back *)
Module M_C18_z_roundtrip.
Import Repr.
Theorem C18_z_roundtrip :
  forall z : Z, z_of_string (z_to_string z) = Some z.
Proof. exact (@Repr.z_roundtrip). Qed.
Print Assumptions C18_z_roundtrip.
End M_C18_z_roundtrip.

