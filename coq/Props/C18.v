(* C18 -- Actions are well-formed value objects
   Property theorems only: each proof is one application of a lemma proved in Proofs/, followed by Print Assumptions. *)
From Coq Require Import ZArith List Bool.
From CS Require Repr ActVal ActValProofs Ops RevConv RevBridge4 RevolveRun DiskRun OnlineWF HRevRun HRevTop TLWF.
From CS Require Import Actions NAdvance Multistage Exec Sched RunFacts Projections BasicInv MultistageRun AllocTotal TLBridge MixBridge.
Import ListNotations.
Open Scope Z_scope.

(* NoneCheckpointSchedule: Forward, finalize(N), EndForward, then StopIteration for ever *)
Theorem C18_none : forall (N : Z) (k : nat), 1 <= N -> N <= maxsize ->
  exists o0 m ls, run_case PNone (BasicInv.pn N) ([Next; Fin N] ++ repeat Next k) = Ok (o0, m, ls) /\ no_err err_C18 m /\ no_raise ls.
Proof. intros N k H1 H2. destruct (none_run N H1 H2 k) as (o0 & m & ls & E & Hm & Hl). exists o0, m, ls. auto using mon_ok_no_err. Qed.
Print Assumptions C18_none.

(* SingleMemoryStorageSchedule: any number of adjoint calculations *)
Theorem C18_single_memory : forall (N : Z) (k : nat), 1 <= N -> N <= maxsize ->
  exists o0 m ls, run_case PMem (BasicInv.pm N) ([Next; Fin N] ++ repeat Next k) = Ok (o0, m, ls) /\ no_err err_C18 m /\ no_raise ls.
Proof. intros N k H1 H2. destruct (single_memory_run N H1 H2 k) as (o0 & m & ls & E & Hm & Hl). exists o0, m, ls. auto using mon_ok_no_err. Qed.
Print Assumptions C18_single_memory.

(* SingleDiskStorageSchedule, move_data = False (any number of adjoint calculations) and True (one) *)
Theorem C18_single_disk : forall (mv : bool) (N : Z) (k : nat), 1 <= N ->
  exists o0 m ls, run_case (PDisk mv) (BasicInv.pd N) (repeat Next (Z.to_nat N) ++ [Fin N] ++ repeat Next k) = Ok (o0, m, ls)
                  /\ no_err err_C18 m /\ no_raise ls.
Proof. intros mv N k H1. destruct (single_disk_run mv N H1 k) as (o0 & m & ls & E & Hm & Hl). exists o0, m, ls. auto using mon_ok_no_err. Qed.
Print Assumptions C18_single_disk.

(* MultistageCheckpointSchedule: every N, every RAM/DISK split, both trajectories; budgets = the declared unit counts;
   the constructor (allocate_snapshots included) is proved total on this domain, so there is no hypothesis about it *)
Theorem C18_multistage : forall (N ram disk : Z) (tj : traj) (k : nat),
  1 <= N -> 0 <= ram -> 0 <= disk -> (2 <= N -> 1 <= ram + disk) ->
  exists o0 m ls, run_case (PMulti N ram disk tj) (ms_params N ram disk) (repeat Next k) = Ok (o0, m, ls) /\ no_err err_C18 m /\ no_raise ls.
Proof.
  intros N ram disk tj k H1 H2 H3 H4. destruct (multistage_run_total N ram disk tj k H1 H2 H3 H4) as (o0 & m & ls & E & Hm & Hl).
  exists o0, m, ls. auto using mon_ok_no_err.
Qed.
Print Assumptions C18_multistage.

(* TwoLevelCheckpointSchedule: every N (also not a multiple of the period), period, binomial_snapshots, both binomial storages,
   both trajectories, any number of adjoint calculations; Q = ceil(N / period) forward requests, then finalize(N) *)
Theorem C18_twolevel : forall (N P bs : Z) (bst : storage) (tj : traj) (k : nat),
  1 <= N -> 1 <= P -> 0 <= bs -> bst = RAM \/ bst = DISK ->
  exists o0 m ls, run_case (PTwo P bs bst tj) (ptl N P bs bst) (repeat Next (Z.to_nat (TLBridge.Q N P)) ++ [Fin N] ++ repeat Next (S k)) = Ok (o0, m, ls)
                  /\ no_err err_C18 m /\ no_raise ls.
Proof.
  intros N P bs bst tj k H1 H2 H3 H4. destruct (twolevel_run N P bs bst tj H1 H2 H3 H4 k) as (o0 & m & ls & E & Hm & Hl).
  exists o0, m, ls. auto using mon_ok_no_err.
Qed.
Print Assumptions C18_twolevel.

(* RevolveCheckpointSchedule, class Revolve (memory only): every N, every number of RAM units, every cost vector (the disk
   arguments are ignored by this class); budgets RAM = snapshots_in_ram, DISK = 0 *)
Theorem C18_revolve : forall (N ram disk uf ub wd rd : Z) (k : nat), 1 <= N -> 0 <= ram -> (2 <= N -> 1 <= ram) ->
  exists o0 m ls, run_case (PRev RevConv.KRevolve N ram disk uf ub wd rd) (RevBridge4.rev_xparams N ram) (repeat Next k) = Ok (o0, m, ls) /\ no_err err_C18 m /\ no_raise ls.
Proof.
  intros N ram disk uf ub wd rd k H1 H2 H3. destruct (RevolveRun.revolve_run N ram disk uf ub wd rd k H1 H2 H3) as (o0 & m & ls & E & Hm & Hl).
  exists o0, m, ls. auto using mon_ok_no_err.
Qed.
Print Assumptions C18_revolve.

(* MixedCheckpointSchedule: every N, every unit count, both storages, both planner paths (memoised / tabulated) *)
Theorem C18_mixed : forall (N s : Z) (sg : storage) (tab : bool) (k : nat),
  1 <= N -> 0 <= s -> (2 <= N -> 1 <= s) -> sg = RAM \/ sg = DISK ->
  exists o0 m ls, run_case (PMixed N s sg tab) (pmx N (Z.min s (N - 1)) sg) (repeat Next k) = Ok (o0, m, ls) /\ no_err err_C18 m /\ no_raise ls.
Proof.
  intros N s sg tab k H1 H2 H3 H4. destruct (mixed_run N s sg tab k H1 H2 H3 H4) as (o0 & m & ls & E & Hm & Hl).
  exists o0, m, ls. auto using mon_ok_no_err.
Qed.
Print Assumptions C18_mixed.

(* DiskRevolve and PeriodicDiskRevolve: the whole documented domain -- every N >= 1, snapshots_in_ram >= 0 (>= 1 when N >= 2), every cost vector; budgets RAM = snapshots_in_ram, DISK unbounded.
   The monitor's only possible verdict other than "no error" is E_leftover at the final EndReverse (class C04: the open finding
   D8, see C04_disk_revolve_refuted), so no error of THIS property's class is ever reported, and nothing raises *)
Theorem C18_disk_revolve : forall (N ram disk uf ub wd rd : Z) (k : nat), 1 <= N -> 0 <= ram -> (2 <= N -> 1 <= ram) ->
  exists o0 m ls, run_case (PRev RevConv.KDiskRevolve N ram disk uf ub wd rd) (DiskRun.disk_xparams N ram) (repeat Next k) = Ok (o0, m, ls) /\ no_err err_C18 m /\ no_raise ls.
Proof.
  intros N ram disk uf ub wd rd k H1 H2 H2'. destruct (DiskRun.disk_revolve_run N ram disk uf ub wd rd k H1 H2 H2') as (o0 & m & ls & E & Hl & Hm).
  exists o0, m, ls. split; [exact E|]. split; [apply (DiskRun.leftover_no_err _ m Hm); intros []|exact Hl].
Qed.
Print Assumptions C18_disk_revolve.
Theorem C18_periodic_disk_revolve : forall (N ram disk uf ub wd rd : Z) (k : nat), 1 <= N -> 0 <= ram -> (2 <= N -> 1 <= ram) ->
  exists o0 m ls, run_case (PRev RevConv.KPeriodic N ram disk uf ub wd rd) (DiskRun.disk_xparams N ram) (repeat Next k) = Ok (o0, m, ls) /\ no_err err_C18 m /\ no_raise ls.
Proof.
  intros N ram disk uf ub wd rd k H1 H2 H2'. destruct (DiskRun.periodic_run N ram disk uf ub wd rd k H1 H2 H2') as (o0 & m & ls & E & Hl & Hm).
  exists o0, m, ls. split; [exact E|]. split; [apply (DiskRun.leftover_no_err _ m Hm); intros []|exact Hl].
Qed.
Print Assumptions C18_periodic_disk_revolve.

(* HRevolve (two levels): the whole documented domain -- every N >= 1, snapshots_in_ram >= 0 (>= 1 when N >= 2), snapshots_on_disk >= 0, every cost vector (the constructor's dynamic
   program and recursion are proved total: HRevTotal); budgets RAM = snapshots_in_ram, DISK unbounded (the DISK budget itself:
   C03_hrevolve_refuted).  As for DiskRevolve the only verdict other than "no error" is E_leftover at the final EndReverse (D8) *)
Theorem C18_hrevolve : forall (N ram disk uf ub wd rd : Z) (k : nat), 1 <= N -> 0 <= ram -> (2 <= N -> 1 <= ram) -> 0 <= disk ->
  exists o0 m ls, run_case (PRev RevConv.KHRevolve N ram disk uf ub wd rd) (DiskRun.disk_xparams N ram) (repeat Next k) = Ok (o0, m, ls) /\ no_err err_C18 m /\ no_raise ls.
Proof.
  intros N ram disk uf ub wd rd k H1 H2 H2' H3. destruct (HRevTop.hrevolve_run_total N ram disk uf ub wd rd k H1 H2 H2' H3) as (o0 & m & ls & E & Hl & Hm).
  exists o0, m, ls. split; [exact E|]. split; [apply (DiskRun.leftover_no_err _ m Hm); intros []|exact Hl].
Qed.
Print Assumptions C18_hrevolve.

(* NoneCheckpointSchedule, SingleMemoryStorageSchedule, SingleDiskStorageSchedule under EVERY history (requests, valid or rejected finalize calls, Run loops, in any order and number; any executor parameters): every yielded action is well formed (wf_action: the E_malformed requirements of the executor) *)
Module M_C18_basic_wf_every_history.
Import OnlineWF.
Theorem C18_basic_wf_every_history :
  forall (pr : Sched.params) (p : Exec.xparams) (ops : list Sched.op) (o0 : Sched.obs) 
           (m : Sched.mon) (ls : list Sched.line),
         pr = Sched.PNone \/ pr = Sched.PMem \/ (exists mv : bool, pr = Sched.PDisk mv) ->
         Sched.run_case pr p ops = Actions.Ok (o0, m, ls) -> Forall wf_line ls.
Proof. exact (@OnlineWF.basic_wf_every_history). Qed.
Print Assumptions C18_basic_wf_every_history.
End M_C18_basic_wf_every_history.

(* TwoLevelCheckpointSchedule (period >= 1, binomial_snapshots >= 0, binomial storage RAM or DISK, both trajectories) under EVERY history: every yielded action is well formed -- an accepted finalize(k), wherever it comes, puts the object in the state of the canonical run for max_n = k *)
Module M_C18_twolevel_wf_every_history.
Import TLWF.
Theorem C18_twolevel_wf_every_history :
  forall (P bs : Z) (bst : Actions.storage) (tj : NAdvance.traj),
         1 <= P ->
         0 <= bs ->
         bst = Actions.RAM \/ bst = Actions.DISK ->
         forall (p : Exec.xparams) (ops : list Sched.op) (o0 : Sched.obs) (m : Sched.mon)
           (ls : list Sched.line),
         Sched.run_case (Sched.PTwo P bs bst tj) p ops = Actions.Ok (o0, m, ls) -> Forall OnlineWF.wf_line ls.
Proof. exact (@TLWF.twolevel_wf_every_history). Qed.
Print Assumptions C18_twolevel_wf_every_history.
End M_C18_twolevel_wf_every_history.

(* wf_action is exactly what the executor needs not to report E_malformed *)
Module M_C18_wf_not_malformed.
Import OnlineWF.
Theorem C18_wf_not_malformed :
  forall (p : Exec.xparams) (kn ex : bool) (x : Exec.xstate) (a : Actions.action),
         wf_action a = true -> Exec.check p kn ex x a <> Some Exec.E_malformed.
Proof. exact (@OnlineWF.wf_not_malformed). Qed.
Print Assumptions C18_wf_not_malformed.
End M_C18_wf_not_malformed.

(* decimal printing of integers parses back *)
Module M_C18_z_roundtrip.
Import Repr.
Theorem C18_z_roundtrip :
  forall z : Z, z_of_string (z_to_string z) = Some z.
Proof. exact (@Repr.z_roundtrip). Qed.
Print Assumptions C18_z_roundtrip.
End M_C18_z_roundtrip.

(* VALUE LAWS on the model ActVal (repr / the reading back of a repr / len / iteration / membership; tied to schedule.py by the val.act correspondence cases, which compare the texts and results with the implementation on directly constructed actions, and by the translation obligations of Gen/ActValGen.v): the text repr() prints, sys.maxsize special case included, reads back to the same action -- every action, every integer *)
Module M_C18_repr_roundtrip.
Import ActValProofs.
Theorem C18_repr_roundtrip :
  forall a : Actions.action, ActVal.act_parse (ActVal.act_repr a) = Some a.
Proof. exact (@ActValProofs.repr_roundtrip). Qed.
Print Assumptions C18_repr_roundtrip.
End M_C18_repr_roundtrip.

(* ... hence two actions with the same repr are the same action *)
Module M_C18_repr_injective.
Import ActValProofs.
Theorem C18_repr_injective :
  forall a b : Actions.action, ActVal.act_repr a = ActVal.act_repr b -> a = b.
Proof. exact (@ActValProofs.repr_injective). Qed.
Print Assumptions C18_repr_injective.
End M_C18_repr_injective.

(* == holds exactly between actions of the same kind with equal parameters (total: never raises) *)
Module M_C18_eq_is_equality.
Import ActValProofs.
Theorem C18_eq_is_equality :
  forall a b : Actions.action, Actions.act_eqb a b = true <-> a = b.
Proof. exact (@ActValProofs.act_eqb_eq). Qed.
Print Assumptions C18_eq_is_equality.
End M_C18_eq_is_equality.

(* == holds iff the reprs are equal *)
Module M_C18_eq_iff_repr.
Import ActValProofs.
Theorem C18_eq_iff_repr :
  forall a b : Actions.action, Actions.act_eqb a b = true <-> ActVal.act_repr a = ActVal.act_repr b.
Proof. exact (@ActValProofs.eq_iff_repr). Qed.
Print Assumptions C18_eq_iff_repr.
End M_C18_eq_iff_repr.

(* Forward / Reverse covering n0 .. n1-1 (n0 <= n1): iteration yields a duplicate-free list of exactly the steps k with n0 <= k < n1, ascending for Forward and descending for Reverse, len is its length n1 - n0, and `k in a` holds exactly for its members *)
Module M_C18_steps_enumerated.
Import ActValProofs.
Theorem C18_steps_enumerated :
  forall (a : Actions.action) (n0 n1 : Z),
         covers a n0 n1 ->
         n0 <= n1 ->
         exists l : list Z,
           ActVal.act_iter a = Actions.Ok l /\
           ActVal.act_len a = Actions.Ok (Z.of_nat (length l)) /\
           Z.of_nat (length l) = n1 - n0 /\
           (forall k : Z, In k l <-> n0 <= k < n1) /\
           (forall k : Z, ActVal.act_mem a k = Actions.Ok true <-> In k l) /\
           NoDup l /\
           match a with
           | Actions.Forward _ _ _ _ _ => Sorted.StronglySorted Z.lt l
           | _ => Sorted.StronglySorted Z.gt l
           end.
Proof. exact (@ActValProofs.steps_enumerated). Qed.
Print Assumptions C18_steps_enumerated.
End M_C18_steps_enumerated.

(* Copy, Move, EndForward, EndReverse define none of len / iteration / membership (TypeError) *)
Module M_C18_no_steps_elsewhere.
Import ActValProofs.
Theorem C18_no_steps_elsewhere :
  forall a : Actions.action,
         (forall n0 n1 : Z, ~ covers a n0 n1) ->
         ActVal.act_len a = Actions.Err Actions.TypeError /\
         ActVal.act_iter a = Actions.Err Actions.TypeError /\
         (forall k : Z, ActVal.act_mem a k = Actions.Err Actions.TypeError).
Proof. exact (@ActValProofs.no_steps). Qed.
Print Assumptions C18_no_steps_elsewhere.
End M_C18_no_steps_elsewhere.

