(* C11 -- uses_storage_type never under-reports a storage the stream touches
   Property theorems only: each proof is one application of a lemma proved in Proofs/, followed by Print Assumptions. *)
From Coq Require Import ZArith List Bool.
From CS Require SchedProofs UsesProofs.
From CS Require Import Actions NAdvance Multistage Exec Sched RunFacts Projections BasicInv MultistageRun AllocTotal TLBridge MixBridge.
Import ListNotations.
Open Scope Z_scope.

(* uses_storage_type never raises, for every StorageType member, in every state *)
Module M_C11_uses_never_raises.
Import SchedProofs.
Theorem C11_uses_never_raises :
  forall (s : Sched.sched) (x : Actions.storage) (e : Actions.exn), Sched.uses s x <> Sched.URaise e.
Proof. exact (@SchedProofs.uses_never_raises). Qed.
Print Assumptions C11_uses_never_raises.
End M_C11_uses_never_raises.

(* if an emitted action writes a checkpoint to RAM / DISK or copies / moves one from or to it, uses_storage_type of that storage is True: every state of the extracted objects of None, SingleMemory, SingleDisk, TwoLevel, Multistage, Mixed (well_built = counts stored in the object are those of its labels / storage is a checkpoint storage); the Revolve family is excluded from well_built (oracle + correspondence only) *)
Module M_C11_touch_implies_uses.
Import UsesProofs.
Theorem C11_touch_implies_uses :
  forall (s s' : Sched.sched) (a : Actions.action) (sg : Actions.storage),
         well_built s ->
         Sched.next s = (s', Actions.Yield a) ->
         touches a sg -> Sched.uses s sg = Sched.UTrue /\ Sched.uses s' sg = Sched.UTrue.
Proof. exact (@UsesProofs.touch_implies_uses). Qed.
Print Assumptions C11_touch_implies_uses.
End M_C11_touch_implies_uses.

