(* C11: property theorems.  Statements only; every proof is `exact` of a lemma in Proofs/. *)
From Coq Require Import ZArith List Bool.
From CS Require SchedProofs.
Import ListNotations.
Open Scope Z_scope.

(* uses_storage_type never raises, for every StorageType member, in every state *)
Module M_C11_uses_never_raises.
Import SchedProofs.
Theorem C11_uses_never_raises :
  forall (s : Sched.sched) (x : Actions.storage) (e : Actions.exn), Sched.uses s x <> Sched.URaise e.
Proof. exact (@SchedProofs.uses_never_raises). Qed.
Print Assumptions C11_uses_never_raises.
End M_C11_uses_never_raises.

