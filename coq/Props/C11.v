(* C11 -- uses_storage_type never under-reports a storage the stream touches
   Property theorems only: each proof is one application of a lemma proved in Proofs/, followed by Print Assumptions. *)
From Coq Require Import ZArith List Bool.
From CS Require SchedProofs.
From CS Require Import Actions NAdvance Multistage Exec Sched RunFacts Projections BasicInv MultistageRun TLBridge MixBridge.
Import ListNotations.
Open Scope Z_scope.

(* uses_storage_type never raises, for every StorageType member, in every state *)
Module M_C11_uses_never_raises.
Import SchedProofs.
Theorem C11_uses_never_raises :
  forall (s : Sched.sched) (x : Actions.storage) (e : Actions.exn), Sched.uses s x <> Sched.URaise e.
Proof. exact (@SchedProofs.uses_never_raises). Qed.
Print Assumptions C11_uses_never_raises.
End M_C11_uses_never_raises.

