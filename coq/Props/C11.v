(* C11 -- uses_storage_type never under-reports a storage the stream touches
   Property theorems only: each proof is one application of a lemma proved in Proofs/, followed by Print Assumptions. *)
From Coq Require Import ZArith List Bool.
From CS Require SchedProofs UsesProofs ExecBudget RevConv RevBridge4 DiskUses HRevUses RevUses0.
From CS Require Import Actions NAdvance Multistage Exec Sched RunFacts Projections BasicInv MultistageRun AllocTotal TLBridge MixBridge.
Import ListNotations.
Open Scope Z_scope.

(* uses_storage_type never raises, for every StorageType member, in every state *)
Module M_C11_uses_never_raises.
Import SchedProofs.
Theorem C11_uses_never_raises :
  forall (s : Sched.sched) (x : Actions.storage) (e : Actions.exn), Sched.uses s x <> Sched.URaise e.
Proof. exact (@SchedProofs.uses_never_raises). Qed.
Print Assumptions C11_uses_never_raises.
End M_C11_uses_never_raises.

(* if an emitted action writes a checkpoint to RAM / DISK or copies / moves one from or to it, uses_storage_type of that storage is True: every state of the extracted objects of None, SingleMemory, SingleDisk, TwoLevel, Multistage, Mixed (well_built = counts stored in the object are those of its labels / storage is a checkpoint storage); the Revolve family is excluded from well_built (see the next two theorems) *)
Module M_C11_touch_implies_uses.
Import UsesProofs.
Theorem C11_touch_implies_uses :
  forall (s s' : Sched.sched) (a : Actions.action) (sg : Actions.storage),
         well_built s ->
         Sched.next s = (s', Actions.Yield a) ->
         touches a sg -> Sched.uses s sg = Sched.UTrue /\ Sched.uses s' sg = Sched.UTrue.
Proof. exact (@UsesProofs.touch_implies_uses). Qed.
Print Assumptions C11_touch_implies_uses.
End M_C11_touch_implies_uses.

(* class Revolve, on its (error-free) runs: every yielded action that writes to / copies or moves from or to RAM or DISK finds uses_storage_type of that storage True in the observation taken right after it -- RAM needs snapshots_in_ram > 0 (the budget of the run), DISK is never touched *)
Module M_C11_revolve_touch_uses.
Import ExecBudget.
Theorem C11_revolve_touch_uses :
  forall (N ram disk uf ub0 wd rd : Z) (k : nat),
         1 <= N ->
         0 <= ram ->
         (2 <= N -> 1 <= ram) ->
         exists (o0 : Sched.obs) (m : Sched.mon) (ls : list Sched.line),
           Sched.run_case (Sched.PRev RevConv.KRevolve N ram disk uf ub0 wd rd) (RevBridge4.rev_xparams N ram)
             (repeat Sched.Next k) = Actions.Ok (o0, m, ls) /\ Forall touch_uses_line ls.
Proof. exact (@ExecBudget.revolve_touch_uses). Qed.
Print Assumptions C11_revolve_touch_uses.
End M_C11_revolve_touch_uses.

(* DiskRevolve and PeriodicDiskRevolve with at least one RAM snapshot (snapshots_in_ram = 0 is accepted for max_n = 1 only), every history (requests, finalize calls, Run loops in any order): RAM and DISK are reported as used at every observation, so whatever an action touches is reported as used *)
Module M_C11_disk_touch_uses.
Import DiskUses.
Theorem C11_disk_touch_uses :
  forall (kd : RevConv.rkind) (N ram disk uf ub0 wd rd : Z) (p : Exec.xparams) 
           (ops : list Sched.op) (o0 : Sched.obs) (m : Sched.mon) (ls : list Sched.line),
         kd = RevConv.KDiskRevolve \/ kd = RevConv.KPeriodic ->
         1 <= ram ->
         Sched.run_case (Sched.PRev kd N ram disk uf ub0 wd rd) p ops = Actions.Ok (o0, m, ls) ->
         Forall ExecBudget.touch_uses_line ls /\
         Forall
           (fun l : Sched.line =>
            match l with
            | Sched.LNext _ ob | Sched.LFin _ ob => Sched.o_ur ob = Sched.UTrue /\ Sched.o_ud ob = Sched.UTrue
            end) ls.
Proof. exact (@DiskUses.disk_touch_uses). Qed.
Print Assumptions C11_disk_touch_uses.
End M_C11_disk_touch_uses.

(* HRevolve, snapshots_in_ram >= 1 and snapshots_on_disk >= 0, every history: a touched storage is reported as used -- with a disk slot RAM and DISK are both reported; without one the op list is a memory-only block (the infinite column of optp[1]) and the converter never names DISK *)
Module M_C11_hrev_touch_uses.
Import HRevUses.
Theorem C11_hrev_touch_uses :
  forall (N ram disk uf ub0 wd rd : Z) (p : Exec.xparams) (ops : list Sched.op) 
           (o0 : Sched.obs) (m : Sched.mon) (ls : list Sched.line),
         1 <= N ->
         1 <= ram ->
         0 <= disk ->
         Sched.run_case (Sched.PRev RevConv.KHRevolve N ram disk uf ub0 wd rd) p ops = Actions.Ok (o0, m, ls) ->
         Forall ExecBudget.touch_uses_line ls.
Proof. exact (@HRevUses.hrev_touch_uses). Qed.
Print Assumptions C11_hrev_touch_uses.
End M_C11_hrev_touch_uses.

(* the remaining corner of the Revolve family -- DiskRevolve, PeriodicDiskRevolve, HRevolve with snapshots_in_ram = 0, which the constructor accepts for max_n = 1 only: the op list is a single adjoint step and no yielded action touches RAM or DISK, under every history *)
Module M_C11_revfam_no_ram_touch_uses.
Import RevUses0.
Theorem C11_revfam_no_ram_touch_uses :
  forall (kd : RevConv.rkind) (disk uf ub0 wd rd : Z) (p : Exec.xparams) (ops : list Sched.op)
           (o0 : Sched.obs) (m : Sched.mon) (ls : list Sched.line),
         kd = RevConv.KDiskRevolve \/ kd = RevConv.KPeriodic \/ kd = RevConv.KHRevolve ->
         Sched.run_case (Sched.PRev kd 1 0 disk uf ub0 wd rd) p ops = Actions.Ok (o0, m, ls) ->
         Forall ExecBudget.touch_uses_line ls.
Proof. exact (@RevUses0.revfam_no_ram_touch_uses). Qed.
Print Assumptions C11_revfam_no_ram_touch_uses.
End M_C11_revfam_no_ram_touch_uses.

(* (auxiliary, class-independent) on any error-free monitored run the store sizes stay within the declared budgets and an action touching RAM / DISK is accepted only if that budget is positive *)
Module M_C11_touch_needs_budget.
Import ExecBudget.
Theorem C11_touch_needs_budget :
  forall (p : Exec.xparams) (ops : list Sched.op) (s : Sched.sched) (m : Sched.mon) 
           (s' : Sched.sched) (m' : Sched.mon) (ls : list Sched.line),
         Sched.run_ops p s m ops = (s', m', ls) ->
         RunFacts.mon_ok m' ->
         BudInv p (Sched.mx m) -> RunFacts.mon_ok m /\ BudInv p (Sched.mx m') /\ Forall (touch_line p) ls.
Proof. exact (@ExecBudget.run_touch). Qed.
Print Assumptions C11_touch_needs_budget.
End M_C11_touch_needs_budget.

