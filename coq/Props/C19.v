(* C19 -- PeriodicDiskRevolve really is periodic, with a period independent of n
   Property theorems only: each proof is one application of a lemma proved in Proofs/, followed by Print Assumptions. *)
From Coq Require Import ZArith List Bool.
From CS Require PeriodProofs.
From CS Require Import Actions NAdvance Multistage Exec Sched RunFacts Projections BasicInv MultistageRun AllocTotal TLBridge MixBridge.
Import ListNotations.
Open Scope Z_scope.

(* disk writes of the forward sweep are exactly at 0, m, 2m, ... while more than m steps remain *)
Module M_C19_periodic_sweep_writes.
Import PeriodProofs.
Theorem C19_periodic_sweep_writes :
  forall l mx : Z,
         0 < mx ->
         0 <= l ->
         let k := Z.to_nat (Z.max 0 ((l - 1) / mx)) in
         wd_positions (fst (RevSeq.per_fwd (Z.to_nat l) l mx 0)) =
         map (fun j : nat => Z.of_nat j * mx) (seq 0 k) /\
         (forall j : nat, (j < k)%nat <-> l - Z.of_nat j * mx > mx).
Proof. exact (@PeriodProofs.periodic_sweep_writes). Qed.
Print Assumptions C19_periodic_sweep_writes.
End M_C19_periodic_sweep_writes.

(* the period is beta(cm, tm) with tm the least t such that beta(cm+1, t) uf > wd + rd; independent of N *)
Module M_C19_period_closed_form.
Import PeriodProofs.
Theorem C19_period_closed_form :
  forall cm uf rd wd : Z,
         0 < uf ->
         0 <= wd + rd ->
         0 <= cm ->
         exists t : nat,
           RevSeq.mxrr cm uf rd wd = BinomDef.beta (Z.to_nat cm) t /\
           BinomDef.beta (S (Z.to_nat cm)) t * uf > wd + rd /\
           (forall t' : nat, (t' < t)%nat -> BinomDef.beta (S (Z.to_nat cm)) t' * uf <= wd + rd).
Proof. exact (@PeriodProofs.periodic_period_closed_form). Qed.
Print Assumptions C19_period_closed_form.
End M_C19_period_closed_form.

