(* C19 -- PeriodicDiskRevolve really is periodic, with a period independent of n
   Property theorems only: each proof is one application of a lemma proved in Proofs/, followed by Print Assumptions. *)
From Coq Require Import ZArith List Bool.
From CS Require PeriodProofs PeriodShape SeqGenSpec MxrrGenSpec.
From CS Require Import Actions NAdvance Multistage Exec Sched RunFacts Projections BasicInv MultistageRun AllocTotal TLBridge MixBridge.
Import ListNotations.
Open Scope Z_scope.

(* THE PERIOD FORMULA IS THE SOURCE: MxrrGenSpec.mxrr_shape is the Gallina function harness/translate.py renders from mxrr_close_formula (periodic_disk_revolve.py) and beta (basic_functions.py): t = 0; while beta(cm + 1, t) <= (wd + rd) / uf: t += 1; return int(beta(cm, t)) -- with the floating-point test a <= b / uf read as the exact a * uf <= b (uf > 0) and the factorial quotient as the binomial coefficient BinomDef.beta (the trusted reading, DESIGN 10); Gen/MxrrGen.v re-translates the current source on every run and proves the result equal to that term by conversion.  For every cm >= 0 and all costs it is RevSeq.mxrr, the period of C19_period_closed_form and of every PeriodicDiskRevolve theorem *)
Module M_C19_period_is_source.
Import MxrrGenSpec.
Theorem C19_period_is_source :
  forall cm uf rd wd : Z, 0 <= cm -> mxrr_shape cm uf rd wd = RevSeq.mxrr cm uf rd wd.
Proof. exact (@MxrrGenSpec.mxrr_shape_is_model). Qed.
Print Assumptions C19_period_is_source.
End M_C19_period_is_source.

(* THE SEQUENCE GENERATORS ARE THE SOURCE: SeqGenSpec.revolve_shape / disk_revolve_shape / periodic_shape are the Gallina functions harness/translate.py (SeqTr) renders from revolve(), disk_revolve() and periodic_disk_revolve() of hrevolve_sequences/ -- every sequence.insert(operation(..)) appends one operation, insert_sequence(f(..).shift(k)) a recursively built list, the loops become for_down / while_, reads of the tables tget / lget with IndexError; Gen/SeqGen.v re-translates the current source on every run and proves the result equal to these terms by conversion.  They are proved equal, for all arguments, to the extracted RevSeq.revolve / RevSeq.disk_revolve / the body of RevSeq.periodic_top, on which every theorem about the Revolve family is stated; this is the top-level call of the constructor (RevConv.sequence) read on the translated source.  Not translated: the tables (get_opt_0_table, get_opt_inf_table), mxrr_close_formula and the Sequence / Operation classes of basic_functions.py (their flattening, shift and remove_useless_wm are Ops.v) *)
Module M_C19_periodic_sequence_is_source.
Import SeqGenSpec.
Theorem C19_periodic_sequence_is_source :
  forall l cm rd wd uf ub : Z,
         0 <= l ->
         RevSeq.periodic_top l cm rd wd uf ub =
         (let mx := RevSeq.mxrr cm uf rd wd in
          Actions.bind (RevSeq.get_opt_0_table (Z.max mx mx + 1) cm uf ub)
            (fun t : list (list Z) =>
             Actions.bind (periodic_shape t uf mx l cm) (fun o : list Ops.op => Actions.Ok (o, mx)))).
Proof. exact (@SeqGenSpec.periodic_top_is_source). Qed.
Print Assumptions C19_periodic_sequence_is_source.
End M_C19_periodic_sequence_is_source.

(* the whole operation sequence, every l = max_n - 1 >= 0 and cm >= 1: sweep ++ revolve(last segment) ++ (Read_disk + revolve(one period)) per disk checkpoint, last first; k disk checkpoints, written exactly while more than mx steps remain; the pieces come from the memory-only generator `revolve` on the opt_0 table (the generator of class Revolve: C07) and contain no disk operation; hence disk writes only in the sweep at 0, mx, ..., (k-1) mx, none afterwards, and each disk checkpoint is read exactly once *)
Module M_C19_periodic_shape.
Import PeriodShape.
Theorem C19_periodic_shape :
  forall l cm rd wd uf ub : Z,
         0 <= l ->
         1 <= cm ->
         let mx := RevSeq.mxrr cm uf rd wd in
         exists (k : nat) (t : list (list Z)) (s0 rv : list Ops.op),
           RevSeq.periodic_top l cm rd wd uf ub =
           Actions.Ok
             (fst (RevSeq.per_fwd (Z.to_nat l) l mx 0) ++
              Ops.shift (Z.of_nat k * mx) s0 ++
              flat_map (fun j : nat => [Ops.ORD (Z.of_nat j * mx)] ++ Ops.shift (Z.of_nat j * mx) rv)
                (rev (seq 0 k)), mx) /\
           (forall j : nat, (j < k)%nat <-> l - Z.of_nat j * mx > mx) /\
           0 <= l - Z.of_nat k * mx <= Z.max mx 0 /\
           RevSeq.get_opt_0_table (mx + 1) cm uf ub = Actions.Ok t /\
           RevSeq.revolve (Z.to_nat (2 * l + 4)) t uf (l - Z.of_nat k * mx) cm = Actions.Ok s0 /\
           ((0 < k)%nat -> RevSeq.revolve (Z.to_nat (2 * mx + 4)) t uf (mx - 1) cm = Actions.Ok rv) /\
           Forall mem_only s0 /\
           Forall mem_only rv /\
           (forall ops : list Ops.op,
            RevSeq.periodic_top l cm rd wd uf ub = Actions.Ok (ops, mx) ->
            wd_positions ops = map (fun j : nat => Z.of_nat j * mx) (seq 0 k) /\
            rd_positions ops = map (fun j : nat => Z.of_nat j * mx) (rev (seq 0 k)) /\
            wd_positions (skipn (2 * k) ops) = []).
Proof. exact (@PeriodShape.periodic_shape). Qed.
Print Assumptions C19_periodic_shape.
End M_C19_periodic_shape.

(* disk writes of the forward sweep are exactly at 0, m, 2m, ... while more than m steps remain *)
Module M_C19_periodic_sweep_writes.
Import PeriodProofs.
Theorem C19_periodic_sweep_writes :
  forall l mx : Z,
         0 < mx ->
         0 <= l ->
         let k := Z.to_nat (Z.max 0 ((l - 1) / mx)) in
         wd_positions (fst (RevSeq.per_fwd (Z.to_nat l) l mx 0)) =
         map (fun j : nat => Z.of_nat j * mx) (seq 0 k) /\
         (forall j : nat, (j < k)%nat <-> l - Z.of_nat j * mx > mx).
Proof. exact (@PeriodProofs.periodic_sweep_writes). Qed.
Print Assumptions C19_periodic_sweep_writes.
End M_C19_periodic_sweep_writes.

(* the period is beta(cm, tm) with tm the least t such that beta(cm+1, t) uf > wd + rd; independent of N *)
Module M_C19_period_closed_form.
Import PeriodProofs.
Theorem C19_period_closed_form :
  forall cm uf rd wd : Z,
         0 < uf ->
         0 <= wd + rd ->
         0 <= cm ->
         exists t : nat,
           RevSeq.mxrr cm uf rd wd = BinomDef.beta (Z.to_nat cm) t /\
           BinomDef.beta (S (Z.to_nat cm)) t * uf > wd + rd /\
           (forall t' : nat, (t' < t)%nat -> BinomDef.beta (S (Z.to_nat cm)) t' * uf <= wd + rd).
Proof. exact (@PeriodProofs.periodic_period_closed_form). Qed.
Print Assumptions C19_period_closed_form.
End M_C19_period_closed_form.

