(* C15 -- A schedule's stream depends only on its own parameters
   Property theorems only: each proof is one application of a lemma proved in Proofs/, followed by Print Assumptions. *)
From Coq Require Import ZArith List Bool.
From CS Require MemoCoh SchedProofs GenLang GenBasic GenLang2 GenTwo GenLang3 GenMulti GenLang4 GenConv GenLang5 GenMixed SeqGenSpec HSeqGenSpec ArgminGenSpec HoptGenSpec OptInfGenSpec Opt0GenSpec TabulGenSpec HelperCoh MixHelperCoh HelperGenSpec MixHelperSpec.
From CS Require Import Actions NAdvance Multistage Exec Sched RunFacts Projections BasicInv MultistageRun AllocTotal TLBridge MixBridge.
Import ListNotations.
Open Scope Z_scope.

(* THE STREAM IS A FUNCTION OF THE PARAMETERS AND THE REQUESTS: the generators, sequence generators, tables and planners below are re-translated from the source on every run (Gen/*.v) into pure Gallina terms -- no module-level or class-level state exists in them -- and proved to give the observations of the extracted model under every history; a source in which one object can influence another is outside the translated subset.  THE MODEL OF THE THREE BASIC CLASSES IS THE SOURCE: GenBasic.prog_of c is the program (deep-embedded generator language GenLang) that harness/translate.py produces from the _iterator method of NoneCheckpointSchedule / SingleMemoryStorageSchedule / SingleDiskStorageSchedule; Gen/BasicGen.v re-translates the current source on every run and proves it equal to that term by conversion.  Resuming that program request by request (GenLang.run = next() on the suspended generator; finalize = the base-class method on the attributes) from the freshly constructed object gives, under EVERY history of next() and finalize(k) calls, exactly the observations (outcome, n, r, max_n, is_exhausted) of the hand-written model Online.run_ops -- so the theorems of this file about these three classes, stated on the extracted model, are theorems about the translated source *)
Module M_C15_basic_source_is_model.
Import GenBasic.
Theorem C15_basic_source_is_model :
  forall (c : Online.kls) (ops : list Online.op) (s : Online.st),
         basic c ->
         Online.construct c = Actions.Ok s ->
         grun_ops c [GenLang.FS (prog_of c)] (g_init c) ops = Online.run_ops s ops.
Proof. exact (@GenBasic.basic_from_start). Qed.
Print Assumptions C15_basic_source_is_model.
End M_C15_basic_source_is_model.

(* THE MODEL OF TwoLevelCheckpointSchedule IS THE SOURCE: GenTwo.two_prog_model is the program (generator language GenLang2: named locals, the snapshots stack, //, *, min, n_advance, assert, del) that harness/translate.py produces from TwoLevelCheckpointSchedule._iterator; Gen/TwoLevelGen.v re-translates the current source on every run and proves it equal to that term by conversion.  Resuming that program request by request from the freshly constructed object gives, for every period, unit count, storage and trajectory the constructor accepts and under EVERY history of next() and finalize(k) calls, exactly the observations (outcome, n, r, max_n, is_exhausted) of the hand-written machine Online.run_ops (class KTwo) -- so the TwoLevel theorems of this file, stated on the extracted model, are theorems about the translated source (n_advance itself is tied by Gen/NAdvanceGen.v) *)
Module M_C15_twolevel_source_is_model.
Import GenTwo.
Theorem C15_twolevel_source_is_model :
  forall (p bs : Z) (st : Actions.storage) (tr : NAdvance.traj) (ops : list Online.op) (s : Online.st),
         Online.construct (Online.KTwo p bs st tr) = Actions.Ok s ->
         grun_ops (cfg_of p bs st tr) [GenLang2.FS two_prog_model] g_init ops = Online.run_ops s ops.
Proof. exact (@GenTwo.two_from_start). Qed.
Print Assumptions C15_twolevel_source_is_model.
End M_C15_twolevel_source_is_model.

(* THE MODEL OF MultistageCheckpointSchedule IS THE SOURCE: GenMulti.multi_prog_model is the program (generator language GenLang3) that harness/translate.py produces from MultistageCheckpointSchedule._iterator, the nested helper write(n) inlined at its two call sites; Gen/MultistageGen.v re-translates the current source on every run and proves it equal to that term by conversion.  For every parameter tuple the constructor accepts, resuming that program request by request gives under EVERY history of next() and finalize(k) calls exactly the observations (outcome, n, r, max_n, is_exhausted) of the schedule object of Model/Sched.v (srun_ops: Sched.next / Sched.finalize on the Multistage machine) -- so the Multistage theorems of this file, stated on the extracted model, are theorems about the translated source.  (The unit total self._snapshots_in_ram + self._snapshots_on_disk is read as the length of the label tuple self._storage, which is what __init__ recounts them from; the allocation of the labels, allocate_snapshots, is tied by the correspondence.) *)
Module M_C15_multistage_source_is_model.
Import GenMulti.
Theorem C15_multistage_source_is_model :
  forall (n ram disk : Z) (tj : NAdvance.traj) (ops : list Online.op) (s : Sched.sched),
         Sched.construct (Sched.PMulti n ram disk tj) = Actions.Ok s ->
         exists c : Multistage.cfg,
           Multistage.construct n ram disk tj = Actions.Ok c /\
           grun_ops (cfg3 c) [GenLang3.FS multi_prog_model] (g_init n) ops = srun_ops s ops.
Proof. exact (@GenMulti.multi_from_start). Qed.
Print Assumptions C15_multistage_source_is_model.
End M_C15_multistage_source_is_model.

(* THE CONVERTER OF THE FOUR REVOLVE-FAMILY CLASSES IS THE SOURCE: GenConv.conv_prog_model is the program (generator language GenLang4: the operation list with Python indexing, _convert_action, integer / boolean / storage / type-name locals, the set snapshots) that harness/translate.py produces from RevolveCheckpointSchedule._iterator; Gen/ConverterGen.v re-translates the current source on every run and proves it equal to that term by conversion (and Gen/ConvertGen.v does the same for _convert_action).  For Revolve, DiskRevolve, PeriodicDiskRevolve and HRevolve alike, every accepted parameter tuple and every history of next() and finalize(k) calls: as long as the hand-written machine (RevConv.next on the operation list of the class) does not raise, resuming the translated program gives exactly its observations (outcome, n, r, max_n, is_exhausted) -- raise_free is what the run theorems of this file establish for the four classes; after an exception the two may differ in n (the hand-written machine reports the error before it commits the updates of that iteration).  The operation list itself (the sequence generators) is tied by the correspondence *)
Module M_C15_revolve_family_converter_is_source.
Import GenConv.
Theorem C15_revolve_family_converter_is_source :
  forall (k : RevConv.rkind) (n ram disk uf ub wd rd : Z) (hist : list Online.op) (s : Sched.sched),
         Sched.construct (Sched.PRev k n ram disk uf ub wd rd) = Actions.Ok s ->
         raise_free (srun_ops s hist) ->
         exists opl : list Ops.op,
           RevConv.sequence k n ram disk uf ub wd rd = Actions.Ok opl /\
           grun_ops opl [GenLang4.FS conv_prog_model] (g_init n) hist = srun_ops s hist.
Proof. exact (@GenConv.conv_from_start). Qed.
Print Assumptions C15_revolve_family_converter_is_source.
End M_C15_revolve_family_converter_is_source.

(* THE MODEL OF MixedCheckpointSchedule IS THE SOURCE: GenMixed.mixed_prog_model is the program (generator language GenLang5: the stack snapshots of (step type, n0, n1) triples, the set snapshot_n, the planner read as a function, step-type / integer / boolean locals, break) that harness/translate.py produces from MixedCheckpointSchedule._iterator; Gen/MixedGen.v re-translates the current source on every run and proves it equal to that term by conversion.  For every planner the constructor can select (the table of mixed_steps_tabulation or mixed_step_memoization behind its cache) and under EVERY history of next() and finalize(k) calls, resuming that program request by request from the freshly constructed object gives exactly the observations (outcome, n, r, max_n, is_exhausted) of the schedule object of Model/Sched.v (hand-written machine Mixed.resume) -- up to the first exception the latter raises (raise_free: none on the documented domain, by the Mixed run theorems of this file); the invariant carried through is that the set snapshot_n holds exactly the distinct first components of the stack (GenMixed.sinv), which is why the model needs no set *)
Module M_C15_mixed_source_is_model.
Import GenMixed.
Theorem C15_mixed_source_is_model :
  forall (n s : Z) (sg : Actions.storage) (tab : bool) (hist : list Online.op) (sch : Sched.sched),
         Sched.construct (Sched.PMixed n s sg tab) = Actions.Ok sch ->
         GenConv.raise_free (GenMulti.srun_ops sch hist) ->
         exists s' : Z,
           Mixed.construct n s sg = Actions.Ok s' /\
           (forall f : Z -> Z -> Actions.res Mixed.plan_t,
            planner n s' tab = Actions.Ok f ->
            grun_ops (mcfg n s' sg f) [GenLang5.FS mixed_prog_model] (g_init n) hist =
            GenMulti.srun_ops sch hist).
Proof. exact (@GenMixed.mixed_from_start). Qed.
Print Assumptions C15_mixed_source_is_model.
End M_C15_mixed_source_is_model.

(* THE SEQUENCE GENERATORS ARE THE SOURCE: SeqGenSpec.revolve_shape / disk_revolve_shape / periodic_shape are the Gallina functions harness/translate.py (SeqTr) renders from revolve(), disk_revolve() and periodic_disk_revolve() of hrevolve_sequences/ -- every sequence.insert(operation(..)) appends one operation, insert_sequence(f(..).shift(k)) a recursively built list, the loops become for_down / while_, reads of the tables tget / lget with IndexError; Gen/SeqGen.v re-translates the current source on every run and proves the result equal to these terms by conversion.  They are proved equal, for all arguments, to the extracted RevSeq.revolve / RevSeq.disk_revolve / the body of RevSeq.periodic_top, on which every theorem about the Revolve family is stated; this is the top-level call of the constructor (RevConv.sequence) read on the translated source.  Not translated: the tables (get_opt_0_table, get_opt_inf_table), mxrr_close_formula and the Sequence / Operation classes of basic_functions.py (their flattening, shift and remove_useless_wm are Ops.v) *)
Module M_C15_revolve_sequence_is_source.
Import SeqGenSpec.
Theorem C15_revolve_sequence_is_source :
  forall l cm uf ub : Z,
         RevSeq.revolve_top l cm uf ub =
         Actions.bind (RevSeq.get_opt_0_table l cm uf ub)
           (fun t : list (list Z) => revolve_shape (Z.to_nat (2 * l + 4)) t uf l cm).
Proof. exact (@SeqGenSpec.revolve_top_is_source). Qed.
Print Assumptions C15_revolve_sequence_is_source.
End M_C15_revolve_sequence_is_source.

(* ... DiskRevolve *)
Module M_C15_disk_revolve_sequence_is_source.
Import SeqGenSpec.
Theorem C15_disk_revolve_sequence_is_source :
  forall l cm rd wd uf ub : Z,
         RevSeq.disk_revolve_top l cm rd wd uf ub =
         Actions.bind (RevSeq.get_opt_0_table l cm uf ub)
           (fun t : list (list Z) =>
            Actions.bind (RevSeq.get_opt_inf_table l cm uf ub rd wd t)
              (fun ti : list Z => disk_revolve_shape (Z.to_nat (l + 2)) t ti uf rd wd l cm)).
Proof. exact (@SeqGenSpec.disk_revolve_top_is_source). Qed.
Print Assumptions C15_disk_revolve_sequence_is_source.
End M_C15_disk_revolve_sequence_is_source.

(* ... PeriodicDiskRevolve (the period is at least 1: PeriodGen.mxrr_pos) *)
Module M_C15_periodic_sequence_is_source.
Import SeqGenSpec.
Theorem C15_periodic_sequence_is_source :
  forall l cm rd wd uf ub : Z,
         0 <= l ->
         RevSeq.periodic_top l cm rd wd uf ub =
         (let mx := RevSeq.mxrr cm uf rd wd in
          Actions.bind (RevSeq.get_opt_0_table (Z.max mx mx + 1) cm uf ub)
            (fun t : list (list Z) =>
             Actions.bind (periodic_shape t uf mx l cm) (fun o : list Ops.op => Actions.Ok (o, mx)))).
Proof. exact (@SeqGenSpec.periodic_top_is_source). Qed.
Print Assumptions C15_periodic_sequence_is_source.
End M_C15_periodic_sequence_is_source.

(* ... HRevolve: hrevolve_aux / hrevolve_recurse (mutually recursive; costs integers or +infinity) rendered by the translator (Gen/HSeqGen.v), proved equal to HRevSeq.aux / HRevSeq.recurse for every chain length l >= 0, with the test `the sequence built so far ends in a Discard` read as is_discard (last_op ..) *)
Module M_C15_hrevolve_sequence_is_source.
Import HSeqGenSpec.
Theorem C15_hrevolve_sequence_is_source :
  forall l ram disk wd rd uf ub : Z,
         0 <= l ->
         HRevSeq.hrevolve l ram disk wd rd uf ub =
         (let p :=
            {|
              HRevSeq.c0v := ram;
              HRevSeq.c1v := disk;
              HRevSeq.w0v := 0;
              HRevSeq.w1v := wd;
              HRevSeq.r0v := 0;
              HRevSeq.r1v := rd;
              HRevSeq.ufv := uf;
              HRevSeq.ubv := ub
            |} in
          Actions.bind (HRevSeq.get_hopt_table l ram disk 0 wd 0 rd ub uf)
            (fun T : HRevSeq.tabs => recurse_shape (Z.to_nat (4 * l + 8)) p T l 1 disk)).
Proof. exact (@HSeqGenSpec.hrevolve_is_source). Qed.
Print Assumptions C15_hrevolve_sequence_is_source.
End M_C15_hrevolve_sequence_is_source.

(* ... argmin of basic_functions.py, rendered once over any element type with its <= (Gen/ArgminGen.v): on integers it is RevSeq.argmin with IndexError on the empty list (py_argmin, as the sequence generators above call it) *)
Module M_C15_argmin_is_source.
Import ArgminGenSpec.
Theorem C15_argmin_is_source :
  forall l : list Z, argmin_shape Z Z.leb l = SeqGenSpec.py_argmin l.
Proof. exact (@ArgminGenSpec.argmin_shape_is_model). Qed.
Print Assumptions C15_argmin_is_source.
End M_C15_argmin_is_source.

(* ... and on costs that may be infinite HRevSeq.argmin *)
Module M_C15_argmin_costs_is_source.
Import ArgminGenSpec.
Theorem C15_argmin_costs_is_source :
  forall l : list HRevSeq.cost, argmin_shape HRevSeq.cost HRevSeq.cle l = HSeqGenSpec.py_cargmin l.
Proof. exact (@ArgminGenSpec.cargmin_shape_is_model). Qed.
Print Assumptions C15_argmin_costs_is_source.
End M_C15_argmin_costs_is_source.

(* ... and the cost tables of H-Revolve: get_hopt_table rendered by the translator for two storage levels (Gen/HoptGen.v: assignments into opt[k][l][m] / optp[k][l][m] are hset, reads hget, float(inf) is Inf, l * (l + 1) / 2 exact division), proved equal to HRevSeq.get_hopt_table for all arguments *)
Module M_C15_hopt_table_is_source.
Import HoptGenSpec.
Theorem C15_hopt_table_is_source :
  forall lmax c0 c1 w0 w1 r0 r1 ub uf : Z,
         hopt_shape lmax c0 c1 w0 w1 r0 r1 ub uf = HRevSeq.get_hopt_table lmax c0 c1 w0 w1 r0 r1 ub uf.
Proof. exact (@HoptGenSpec.hopt_shape_is_model). Qed.
Print Assumptions C15_hopt_table_is_source.
End M_C15_hopt_table_is_source.

(* ... and the Disk-Revolve table: get_opt_inf_table (one_read_disk = True) rendered by the translator (Gen/OptInfGen.v: the Table is a list that only grows by append), proved equal to RevSeq.get_opt_inf_table for all arguments *)
Module M_C15_optinf_table_is_source.
Import OptInfGenSpec.
Theorem C15_optinf_table_is_source :
  forall (lmax cm uf ub rd wd : Z) (opt_0 : list (list Z)),
         optinf_shape lmax cm uf ub rd wd opt_0 = RevSeq.get_opt_inf_table lmax cm uf ub rd wd opt_0.
Proof. exact (@OptInfGenSpec.optinf_shape_is_model). Qed.
Print Assumptions C15_optinf_table_is_source.
End M_C15_optinf_table_is_source.

(* ... and the Revolve table: get_opt_0_table rendered by the translator (Gen/Opt0Gen.v: a list of rows that only grow by append), proved equal to RevSeq.get_opt_0_table for every slot count mmax >= 0 *)
Module M_C15_opt0_table_is_source.
Import Opt0GenSpec.
Theorem C15_opt0_table_is_source :
  forall lmax mmax uf ub : Z,
         0 <= mmax -> opt0_shape lmax mmax uf ub = RevSeq.get_opt_0_table lmax mmax uf ub.
Proof. exact (@Opt0GenSpec.opt0_shape_is_model). Qed.
Print Assumptions C15_opt0_table_is_source.
End M_C15_opt0_table_is_source.

(* the tabulated planner of Mixed (Gen/TabulGen.v) *)
Module M_C15_tabulation_is_source.
Import TabulGenSpec.
Theorem C15_tabulation_is_source :
  forall (n s : Z) (t : Mixed.table),
         1 <= n -> tabul_shape n s = Actions.Ok t <-> Mixed.tabulate n s = Actions.Ok t.
Proof. exact (@TabulGenSpec.tabul_shape_is_model). Qed.
Print Assumptions C15_tabulation_is_source.
End M_C15_tabulation_is_source.

(* the memoised planner as the extracted iterator uses it (cache warmed by an arbitrary earlier call) returns the canonical plan for every sub-problem *)
Module M_C15_memo_warm_planC.
Import MemoCoh.
Theorem C15_memo_warm_planC :
  forall n0 s0 m k : Z,
         1 <= m <= n0 -> Z.min 1 (m - 1) <= k -> Mixed.memo_warm n0 s0 m k = Actions.Ok (MixDP.planC m k).
Proof. exact (@MemoCoh.memo_warm_planC). Qed.
Print Assumptions C15_memo_warm_planC.
End M_C15_memo_warm_planC.

(* with enough fuel a call succeeds from any coherent cache *)
Module M_C15_memoS_total.
Import MemoCoh.
Theorem C15_memoS_total :
  forall fuel : nat, CallTot (Z.of_nat fuel) (Mixed.memoS fuel).
Proof. exact (@MemoCoh.memoS_total). Qed.
Print Assumptions C15_memoS_total.
End M_C15_memoS_total.

(* every cache reachable by any sequence of calls holds only correct entries *)
Module M_C15_cache_coherent.
Import MemoCoh.
Theorem C15_cache_coherent :
  forall (fuel : nat) (qs : list (Z * Z)), Coh (run_calls fuel [] qs).
Proof. exact (@MemoCoh.C15_cache_coherent). Qed.
Print Assumptions C15_cache_coherent.
End M_C15_cache_coherent.

(* a successful call returns the pure value whatever the call history *)
Module M_C15_history_independent.
Import MemoCoh.
Theorem C15_history_independent :
  forall (fuel : nat) (qs : list (Z * Z)) (n s : Z) (v : Mixed.plan_t),
         snd (Mixed.memoS fuel (run_calls fuel [] qs) n s) = Actions.Ok v -> v = MixDP.planC n s.
Proof. exact (@MemoCoh.C15_history_independent). Qed.
Print Assumptions C15_history_independent.
End M_C15_history_independent.

(* THE SECOND PROCESS-GLOBAL CACHE (cache_step around optimal_extra_steps, Model/Binomial.v EmS with the dictionary explicit -- the form the extracted driver runs and the correspondence compares with the implementation): every dictionary reachable by any sequence of calls holds only valid keys with the value EC n s of the pure dynamic program *)
Module M_C15_helper_cache_coherent.
Import HelperCoh.
Theorem C15_helper_cache_coherent :
  forall (fuel : nat) (qs : list (Z * Z)), Coh (run_callsE fuel [] qs).
Proof. exact (@HelperCoh.helper_cache_coherent). Qed.
Print Assumptions C15_helper_cache_coherent.
End M_C15_helper_cache_coherent.

(* ... so a successful call returns, whatever the call history, the value of the pure recursion Binomial.Em (= BinomDP.Em by HelperCoh.Em_cv, which Gen/HelperGen.v proves to be the translated source of optimal_extra_steps) *)
Module M_C15_helper_history_independent.
Import HelperCoh.
Theorem C15_helper_history_independent :
  forall (fuel : nat) (qs : list (Z * Z)) (n s v : Z),
         snd (Binomial.EmS fuel (run_callsE fuel [] qs) n s) = Actions.Ok v ->
         v = EC n s /\ Binomial.Em (Z.to_nat n) n s = Actions.Ok v.
Proof. exact (@HelperCoh.helper_history_independent). Qed.
Print Assumptions C15_helper_history_independent.
End M_C15_helper_history_independent.

(* with enough fuel a call succeeds from any coherent dictionary *)
Module M_C15_helper_total.
Import HelperCoh.
Theorem C15_helper_total :
  forall fuel : nat, CallTot (Z.of_nat fuel) (Binomial.EmS fuel).
Proof. exact (@HelperCoh.EmS_total). Qed.
Print Assumptions C15_helper_total.
End M_C15_helper_total.

(* likewise for optimal_steps_mixed *)
Module M_C15_mixhelper_total.
Import MixHelperCoh.
Theorem C15_mixhelper_total :
  forall fuel : nat, CallTot (Z.of_nat fuel) (Binomial.OsmS fuel).
Proof. exact (@MixHelperCoh.OsmS_total). Qed.
Print Assumptions C15_mixhelper_total.
End M_C15_mixhelper_total.

(* THE PUBLISHED HELPER IS THE SOURCE: HelperGenSpec.oes_shape / osb_shape are the Gallina functions harness/translate.py (HelperTr) renders from optimal_extra_steps (behind cache_step: the clamp s = min(s, n - 1), the dictionary being a pure memo) and optimal_steps_binomial of multistage.py -- the recursion on explicit fuel, `for i in range(1, n)` as py_forB over the optional running best; Gen/HelperGen.v re-translates the current source on every run and proves the result equal to these terms by conversion.  The shape is equal, for every fuel and argument, to BinomDP.Em, the dynamic program C05_chain / C05_gw_main are proved about *)
Module M_C15_helper_source_is_pure.
Import HelperGenSpec.
Theorem C15_helper_source_is_pure :
  forall (fuel : nat) (n s : Z), oes_shape fuel n s = BinomDP.Em fuel n s.
Proof. exact (@HelperGenSpec.oes_shape_is_Em). Qed.
Print Assumptions C15_helper_source_is_pure.
End M_C15_helper_source_is_pure.

(* THE THIRD PROCESS-GLOBAL CACHE (cache_step around optimal_steps_mixed, Model/Binomial.v OsmS): every reachable dictionary holds only valid keys with the cost MixDP.C n s of the canonical plan *)
Module M_C15_mixhelper_cache_coherent.
Import MixHelperCoh.
Theorem C15_mixhelper_cache_coherent :
  forall (fuel : nat) (qs : list (Z * Z)), Coh (run_callsX fuel [] qs).
Proof. exact (@MixHelperCoh.mixhelper_cache_coherent). Qed.
Print Assumptions C15_mixhelper_cache_coherent.
End M_C15_mixhelper_cache_coherent.

(* ... so a successful call returns, whatever the call history, the value of the pure recursion MixHelperSpec.osm_shape, which Gen/MixHelperGen.v proves to be the translated source of optimal_steps_mixed *)
Module M_C15_mixhelper_history_independent.
Import MixHelperCoh.
Theorem C15_mixhelper_history_independent :
  forall (fuel : nat) (qs : list (Z * Z)) (n s v : Z),
         snd (Binomial.OsmS fuel (run_callsX fuel [] qs) n s) = Actions.Ok v ->
         v = MixDP.C n s /\ MixHelperSpec.osm_shape (Z.to_nat n) n s = Actions.Ok v.
Proof. exact (@MixHelperCoh.mixhelper_history_independent). Qed.
Print Assumptions C15_mixhelper_history_independent.
End M_C15_mixhelper_history_independent.

