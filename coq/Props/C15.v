(* C15 -- A schedule's stream depends only on its own parameters
   Property theorems only: each proof is one application of a lemma proved in Proofs/, followed by Print Assumptions. *)
From Coq Require Import ZArith List Bool.
From CS Require MemoCoh SchedProofs.
From CS Require Import Actions NAdvance Multistage Exec Sched RunFacts Projections BasicInv MultistageRun AllocTotal TLBridge MixBridge.
Import ListNotations.
Open Scope Z_scope.

(* the memoised planner as the extracted iterator uses it (cache warmed by an arbitrary earlier call) returns the canonical plan for every sub-problem *)
Module M_C15_memo_warm_planC.
Import MemoCoh.
Theorem C15_memo_warm_planC :
  forall n0 s0 m k : Z,
         1 <= m <= n0 -> Z.min 1 (m - 1) <= k -> Mixed.memo_warm n0 s0 m k = Actions.Ok (MixDP.planC m k).
Proof. exact (@MemoCoh.memo_warm_planC). Qed.
Print Assumptions C15_memo_warm_planC.
End M_C15_memo_warm_planC.

(* with enough fuel a call succeeds from any coherent cache *)
Module M_C15_memoS_total.
Import MemoCoh.
Theorem C15_memoS_total :
  forall fuel : nat, CallTot (Z.of_nat fuel) (Mixed.memoS fuel).
Proof. exact (@MemoCoh.memoS_total). Qed.
Print Assumptions C15_memoS_total.
End M_C15_memoS_total.

(* every cache reachable by any sequence of calls holds only correct entries *)
Module M_C15_cache_coherent.
Import MemoCoh.
Theorem C15_cache_coherent :
  forall (fuel : nat) (qs : list (Z * Z)), Coh (run_calls fuel [] qs).
Proof. exact (@MemoCoh.C15_cache_coherent). Qed.
Print Assumptions C15_cache_coherent.
End M_C15_cache_coherent.

(* a successful call returns the pure value whatever the call history *)
Module M_C15_history_independent.
Import MemoCoh.
Theorem C15_history_independent :
  forall (fuel : nat) (qs : list (Z * Z)) (n s : Z) (v : Mixed.plan_t),
         snd (Mixed.memoS fuel (run_calls fuel [] qs) n s) = Actions.Ok v -> v = MixDP.planC n s.
Proof. exact (@MemoCoh.C15_history_independent). Qed.
Print Assumptions C15_history_independent.
End M_C15_history_independent.

