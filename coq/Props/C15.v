(* C15 -- A schedule's stream depends only on its own parameters
   Property theorems only: each proof is one application of a lemma proved in Proofs/, followed by Print Assumptions. *)
From Coq Require Import ZArith List Bool.
From CS Require MemoCoh SchedProofs.
From CS Require Import Actions NAdvance Multistage Exec Sched RunFacts Projections BasicInv MultistageRun TLBridge.
Import ListNotations.
Open Scope Z_scope.

(* every cache reachable by any sequence of calls holds only correct entries *)
Module M_C15_cache_coherent.
Import MemoCoh.
Theorem C15_cache_coherent :
  forall (fuel : nat) (qs : list (Z * Z)), Coh (run_calls fuel [] qs).
Proof. exact (@MemoCoh.C15_cache_coherent). Qed.
Print Assumptions C15_cache_coherent.
End M_C15_cache_coherent.

(* a successful call returns the pure value whatever the call history *)
Module M_C15_history_independent.
Import MemoCoh.
Theorem C15_history_independent :
  forall (fuel : nat) (qs : list (Z * Z)) (n s : Z) (v : MixDP.plan_t),
         snd (memoS fuel (run_calls fuel [] qs) n s) = MixDP.Ok v -> v = MixDP.planC n s.
Proof. exact (@MemoCoh.C15_history_independent). Qed.
Print Assumptions C15_history_independent.
End M_C15_history_independent.

