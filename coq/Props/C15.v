(* C15: property theorems.  Statements only; every proof is `exact` of a lemma in Proofs/. *)
From Coq Require Import ZArith List Bool.
From CS Require MemoCoh.
Import ListNotations.
Open Scope Z_scope.

Module M_C15_cache_coherent.
Import MemoCoh.
Theorem C15_cache_coherent :
  forall (fuel : nat) (qs : list (Z * Z)), Coh (run_calls fuel [] qs).
Proof. exact (@MemoCoh.C15_cache_coherent). Qed.
Print Assumptions C15_cache_coherent.
End M_C15_cache_coherent.

Module M_C15_history_independent.
Import MemoCoh.
Theorem C15_history_independent :
  forall (fuel : nat) (qs : list (Z * Z)) (n s : Z) (v : MixDP.plan_t),
         snd (memoS fuel (run_calls fuel [] qs) n s) = MixDP.Ok v -> v = MixDP.planC n s.
Proof. exact (@MemoCoh.C15_history_independent). Qed.
Print Assumptions C15_history_independent.
End M_C15_history_independent.

