(* C17: property theorems.  Statements only; every proof is `exact` of a lemma in Proofs/. *)
From Coq Require Import ZArith List Bool.
From CS Require NAdv.
Import ListNotations.
Open Scope Z_scope.

(* n_advance never raises on its domain; range; optimal region *)
Module M_C17_n_advance_total.
Import NAdv.
Theorem C17_n_advance_total :
  forall (n snaps : Z) (tr : NAdvance.traj),
         1 <= n ->
         1 <= snaps ->
         let s := Z.max (Z.min snaps (n - 1)) 1 in
         exists a : Z,
           NAdvance.n_advance n snaps tr = NAdvance.NOk a /\
           (n = 1 -> a = 0) /\
           (2 <= n -> 1 <= a <= n - 1) /\
           (2 <= n -> s = 1 -> a = n - 1) /\
           (2 <= n -> s = n - 1 -> 2 <= s -> a = 1) /\
           (2 <= s <= n - 2 ->
            exists sn tn : nat,
              s = Z.of_nat sn /\
              (2 <= tn)%nat /\ BinomDef.beta sn (tn - 1) < n <= BinomDef.beta sn tn /\ region sn tn n a).
Proof. exact (@NAdv.n_advance_spec). Qed.
Print Assumptions C17_n_advance_total.
End M_C17_n_advance_total.

