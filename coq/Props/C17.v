(* C17 -- Valid parameters always yield a schedule; invalid ones fail before any action
   Property theorems only: each proof is one application of a lemma proved in Proofs/, followed by Print Assumptions. *)
From Coq Require Import ZArith List Bool.
From CS Require NAdv AllocProofs.
From CS Require Import Actions NAdvance Multistage Exec Sched RunFacts Projections BasicInv MultistageRun TLBridge MixBridge.
Import ListNotations.
Open Scope Z_scope.

(* n_advance never raises on its domain; range; limiting cases; optimal region *)
Module M_C17_n_advance_total.
Import NAdv.
Theorem C17_n_advance_total :
  forall (n snaps : Z) (tr : NAdvance.traj),
         1 <= n ->
         1 <= snaps ->
         let s := Z.max (Z.min snaps (n - 1)) 1 in
         exists a : Z,
           NAdvance.n_advance n snaps tr = NAdvance.NOk a /\
           (n = 1 -> a = 0) /\
           (2 <= n -> 1 <= a <= n - 1) /\
           (2 <= n -> s = 1 -> a = n - 1) /\
           (2 <= n -> s = n - 1 -> 2 <= s -> a = 1) /\
           (2 <= s <= n - 2 ->
            exists sn tn : nat,
              s = Z.of_nat sn /\
              (2 <= tn)%nat /\ BinomDef.beta sn (tn - 1) < n <= BinomDef.beta sn tn /\ region sn tn n a).
Proof. exact (@NAdv.n_advance_spec). Qed.
Print Assumptions C17_n_advance_total.
End M_C17_n_advance_total.

(* shape of a constructed Multistage schedule *)
Module M_C17_construct_labels.
Import AllocProofs.
Theorem C17_construct_labels :
  forall (N ram disk : Z) (tj : NAdvance.traj) (c : Multistage.cfg),
         1 <= N ->
         0 <= ram ->
         0 <= disk ->
         Multistage.construct N ram disk tj = Actions.Ok c ->
         Multistage.max_n c = N /\
         Multistage.tr c = tj /\
         Forall (fun l : Actions.storage => l = Actions.RAM \/ l = Actions.DISK) (Multistage.labels c) /\
         Multistage.total c = Z.min (Z.min ram (N - 1) + Z.min disk (N - 1)) (N - 1) /\
         Multistage.count_st Actions.RAM (Multistage.labels c) <= Z.min ram (N - 1) /\
         Multistage.count_st Actions.DISK (Multistage.labels c) <= Z.min disk (N - 1).
Proof. exact (@AllocProofs.construct_labels). Qed.
Print Assumptions C17_construct_labels.
End M_C17_construct_labels.

