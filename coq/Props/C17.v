(* C17 -- Valid parameters always yield a schedule; invalid ones fail before any action
   Property theorems only: each proof is one application of a lemma proved in Proofs/, followed by Print Assumptions. *)
From Coq Require Import ZArith List Bool.
From CS Require NAdv AllocProofs InvalidProofs RevConv RevBridge4 RevolveRun RevBridge6 DiskRun DiskBridge3 DiskGen PeriodGen HRevTotal HRevTop SeqGenSpec HSeqGenSpec ArgminGenSpec HoptGenSpec OptInfGenSpec Opt0GenSpec.
From CS Require Import Actions NAdvance Multistage Exec Sched RunFacts Projections BasicInv MultistageRun AllocTotal TLBridge MixBridge.
Import ListNotations.
Open Scope Z_scope.

(* valid parameters yield a complete stream: the run theorems, which have no hypothesis beyond the documented domain
   (degenerate cases max_n = 1 and more units than steps included); the streams end with EndReverse by C09_flags + termination *)
Theorem C17_multistage_complete : forall (N ram disk : Z) (tj : traj) (k : nat), 1 <= N -> 0 <= ram -> 0 <= disk -> (2 <= N -> 1 <= ram + disk) ->
  exists o0 m ls, run_case (PMulti N ram disk tj) (ms_params N ram disk) (repeat Next k) = Ok (o0, m, ls) /\ mon_ok m /\ no_raise ls.
Proof. exact multistage_run_total. Qed.
Print Assumptions C17_multistage_complete.
Theorem C17_mixed_complete : forall (N s : Z) (sg : storage) (tab : bool) (k : nat), 1 <= N -> 0 <= s -> (2 <= N -> 1 <= s) -> sg = RAM \/ sg = DISK ->
  exists o0 m ls, run_case (PMixed N s sg tab) (pmx N (Z.min s (N - 1)) sg) (repeat Next k) = Ok (o0, m, ls) /\ mon_ok m /\ no_raise ls.
Proof. exact mixed_run. Qed.
Print Assumptions C17_mixed_complete.
Theorem C17_revolve_complete : forall (N ram disk uf ub wd rd : Z) (k : nat), 1 <= N -> 0 <= ram -> (2 <= N -> 1 <= ram) ->
  exists o0 m ls, run_case (PRev RevConv.KRevolve N ram disk uf ub wd rd) (RevBridge4.rev_xparams N ram) (repeat Next k) = Ok (o0, m, ls) /\ mon_ok m /\ no_raise ls.
Proof. exact RevolveRun.revolve_run. Qed.
Print Assumptions C17_revolve_complete.
Theorem C17_disk_revolve_complete : forall (N ram disk uf ub wd rd : Z) (k : nat), 1 <= N -> 0 <= ram -> (2 <= N -> 1 <= ram) ->
  exists o0 m ls, run_case (PRev RevConv.KDiskRevolve N ram disk uf ub wd rd) (DiskRun.disk_xparams N ram) (repeat Next k) = Ok (o0, m, ls) /\ no_raise ls /\ DiskBridge3.leftover_or_ok m.
Proof. exact DiskRun.disk_revolve_run. Qed.
Print Assumptions C17_disk_revolve_complete.
Theorem C17_periodic_complete : forall (N ram disk uf ub wd rd : Z) (k : nat), 1 <= N -> 0 <= ram -> (2 <= N -> 1 <= ram) ->
  exists o0 m ls, run_case (PRev RevConv.KPeriodic N ram disk uf ub wd rd) (DiskRun.disk_xparams N ram) (repeat Next k) = Ok (o0, m, ls) /\ no_raise ls /\ DiskBridge3.leftover_or_ok m.
Proof. exact DiskRun.periodic_run. Qed.
Print Assumptions C17_periodic_complete.
Theorem C17_hrevolve_complete : forall (N ram disk uf ub wd rd : Z) (k : nat), 1 <= N -> 0 <= ram -> (2 <= N -> 1 <= ram) -> 0 <= disk ->
  exists o0 m ls, run_case (PRev RevConv.KHRevolve N ram disk uf ub wd rd) (DiskRun.disk_xparams N ram) (repeat Next k) = Ok (o0, m, ls) /\ no_raise ls /\ DiskBridge3.leftover_or_ok m.
Proof. exact HRevTop.hrevolve_run_total. Qed.
Print Assumptions C17_hrevolve_complete.
Theorem C17_twolevel_complete : forall (N P bs : Z) (bst : storage) (tj : traj), 1 <= N -> 1 <= P -> 0 <= bs -> bst = RAM \/ bst = DISK -> forall k : nat,
  exists o0 m ls, run_case (PTwo P bs bst tj) (ptl N P bs bst) (repeat Next (Z.to_nat (TLBridge.Q N P)) ++ [Fin N] ++ repeat Next (S k)) = Ok (o0, m, ls) /\ mon_ok m /\ no_raise ls.
Proof. exact twolevel_run. Qed.
Print Assumptions C17_twolevel_complete.

(* THE SEQUENCE GENERATORS ARE THE SOURCE: SeqGenSpec.revolve_shape / disk_revolve_shape / periodic_shape are the Gallina functions harness/translate.py (SeqTr) renders from revolve(), disk_revolve() and periodic_disk_revolve() of hrevolve_sequences/ -- every sequence.insert(operation(..)) appends one operation, insert_sequence(f(..).shift(k)) a recursively built list, the loops become for_down / while_, reads of the tables tget / lget with IndexError; Gen/SeqGen.v re-translates the current source on every run and proves the result equal to these terms by conversion.  They are proved equal, for all arguments, to the extracted RevSeq.revolve / RevSeq.disk_revolve / the body of RevSeq.periodic_top, on which every theorem about the Revolve family is stated; this is the top-level call of the constructor (RevConv.sequence) read on the translated source.  Not translated: the tables (get_opt_0_table, get_opt_inf_table), mxrr_close_formula and the Sequence / Operation classes of basic_functions.py (their flattening, shift and remove_useless_wm are Ops.v) *)
Module M_C17_revolve_sequence_is_source.
Import SeqGenSpec.
Theorem C17_revolve_sequence_is_source :
  forall l cm uf ub : Z,
         RevSeq.revolve_top l cm uf ub =
         Actions.bind (RevSeq.get_opt_0_table l cm uf ub)
           (fun t : list (list Z) => revolve_shape (Z.to_nat (2 * l + 4)) t uf l cm).
Proof. exact (@SeqGenSpec.revolve_top_is_source). Qed.
Print Assumptions C17_revolve_sequence_is_source.
End M_C17_revolve_sequence_is_source.

(* ... DiskRevolve *)
Module M_C17_disk_revolve_sequence_is_source.
Import SeqGenSpec.
Theorem C17_disk_revolve_sequence_is_source :
  forall l cm rd wd uf ub : Z,
         RevSeq.disk_revolve_top l cm rd wd uf ub =
         Actions.bind (RevSeq.get_opt_0_table l cm uf ub)
           (fun t : list (list Z) =>
            Actions.bind (RevSeq.get_opt_inf_table l cm uf ub rd wd t)
              (fun ti : list Z => disk_revolve_shape (Z.to_nat (l + 2)) t ti uf rd wd l cm)).
Proof. exact (@SeqGenSpec.disk_revolve_top_is_source). Qed.
Print Assumptions C17_disk_revolve_sequence_is_source.
End M_C17_disk_revolve_sequence_is_source.

(* ... PeriodicDiskRevolve (the period is at least 1: PeriodGen.mxrr_pos) *)
Module M_C17_periodic_sequence_is_source.
Import SeqGenSpec.
Theorem C17_periodic_sequence_is_source :
  forall l cm rd wd uf ub : Z,
         0 <= l ->
         RevSeq.periodic_top l cm rd wd uf ub =
         (let mx := RevSeq.mxrr cm uf rd wd in
          Actions.bind (RevSeq.get_opt_0_table (Z.max mx mx + 1) cm uf ub)
            (fun t : list (list Z) =>
             Actions.bind (periodic_shape t uf mx l cm) (fun o : list Ops.op => Actions.Ok (o, mx)))).
Proof. exact (@SeqGenSpec.periodic_top_is_source). Qed.
Print Assumptions C17_periodic_sequence_is_source.
End M_C17_periodic_sequence_is_source.

(* ... HRevolve: hrevolve_aux / hrevolve_recurse (mutually recursive; costs integers or +infinity) rendered by the translator (Gen/HSeqGen.v), proved equal to HRevSeq.aux / HRevSeq.recurse for every chain length l >= 0, with the test `the sequence built so far ends in a Discard` read as is_discard (last_op ..) *)
Module M_C17_hrevolve_sequence_is_source.
Import HSeqGenSpec.
Theorem C17_hrevolve_sequence_is_source :
  forall l ram disk wd rd uf ub : Z,
         0 <= l ->
         HRevSeq.hrevolve l ram disk wd rd uf ub =
         (let p :=
            {|
              HRevSeq.c0v := ram;
              HRevSeq.c1v := disk;
              HRevSeq.w0v := 0;
              HRevSeq.w1v := wd;
              HRevSeq.r0v := 0;
              HRevSeq.r1v := rd;
              HRevSeq.ufv := uf;
              HRevSeq.ubv := ub
            |} in
          Actions.bind (HRevSeq.get_hopt_table l ram disk 0 wd 0 rd ub uf)
            (fun T : HRevSeq.tabs => recurse_shape (Z.to_nat (4 * l + 8)) p T l 1 disk)).
Proof. exact (@HSeqGenSpec.hrevolve_is_source). Qed.
Print Assumptions C17_hrevolve_sequence_is_source.
End M_C17_hrevolve_sequence_is_source.

(* ... argmin of basic_functions.py, rendered once over any element type with its <= (Gen/ArgminGen.v): on integers it is RevSeq.argmin with IndexError on the empty list (py_argmin, as the sequence generators above call it) *)
Module M_C17_argmin_is_source.
Import ArgminGenSpec.
Theorem C17_argmin_is_source :
  forall l : list Z, argmin_shape Z Z.leb l = SeqGenSpec.py_argmin l.
Proof. exact (@ArgminGenSpec.argmin_shape_is_model). Qed.
Print Assumptions C17_argmin_is_source.
End M_C17_argmin_is_source.

(* ... and on costs that may be infinite HRevSeq.argmin *)
Module M_C17_argmin_costs_is_source.
Import ArgminGenSpec.
Theorem C17_argmin_costs_is_source :
  forall l : list HRevSeq.cost, argmin_shape HRevSeq.cost HRevSeq.cle l = HSeqGenSpec.py_cargmin l.
Proof. exact (@ArgminGenSpec.cargmin_shape_is_model). Qed.
Print Assumptions C17_argmin_costs_is_source.
End M_C17_argmin_costs_is_source.

(* ... and the cost tables of H-Revolve: get_hopt_table rendered by the translator for two storage levels (Gen/HoptGen.v: assignments into opt[k][l][m] / optp[k][l][m] are hset, reads hget, float(inf) is Inf, l * (l + 1) / 2 exact division), proved equal to HRevSeq.get_hopt_table for all arguments *)
Module M_C17_hopt_table_is_source.
Import HoptGenSpec.
Theorem C17_hopt_table_is_source :
  forall lmax c0 c1 w0 w1 r0 r1 ub uf : Z,
         hopt_shape lmax c0 c1 w0 w1 r0 r1 ub uf = HRevSeq.get_hopt_table lmax c0 c1 w0 w1 r0 r1 ub uf.
Proof. exact (@HoptGenSpec.hopt_shape_is_model). Qed.
Print Assumptions C17_hopt_table_is_source.
End M_C17_hopt_table_is_source.

(* ... and the Disk-Revolve table: get_opt_inf_table (one_read_disk = True) rendered by the translator (Gen/OptInfGen.v: the Table is a list that only grows by append), proved equal to RevSeq.get_opt_inf_table for all arguments *)
Module M_C17_optinf_table_is_source.
Import OptInfGenSpec.
Theorem C17_optinf_table_is_source :
  forall (lmax cm uf ub rd wd : Z) (opt_0 : list (list Z)),
         optinf_shape lmax cm uf ub rd wd opt_0 = RevSeq.get_opt_inf_table lmax cm uf ub rd wd opt_0.
Proof. exact (@OptInfGenSpec.optinf_shape_is_model). Qed.
Print Assumptions C17_optinf_table_is_source.
End M_C17_optinf_table_is_source.

(* ... and the Revolve table: get_opt_0_table rendered by the translator (Gen/Opt0Gen.v: a list of rows that only grow by append), proved equal to RevSeq.get_opt_0_table for every slot count mmax >= 0 *)
Module M_C17_opt0_table_is_source.
Import Opt0GenSpec.
Theorem C17_opt0_table_is_source :
  forall lmax mmax uf ub : Z,
         0 <= mmax -> opt0_shape lmax mmax uf ub = RevSeq.get_opt_0_table lmax mmax uf ub.
Proof. exact (@Opt0GenSpec.opt0_shape_is_model). Qed.
Print Assumptions C17_opt0_table_is_source.
End M_C17_opt0_table_is_source.

(* the Multistage constructor returns for every tuple of the domain *)
Module M_C17_multistage_construct_total.
Import AllocTotal.
Theorem C17_multistage_construct_total :
  forall (N ram disk : Z) (tj : NAdvance.traj),
         1 <= N ->
         0 <= ram ->
         0 <= disk ->
         (2 <= N -> 1 <= ram + disk) ->
         exists c : Multistage.cfg, Multistage.construct N ram disk tj = Actions.Ok c.
Proof. exact (@AllocTotal.construct_total). Qed.
Print Assumptions C17_multistage_construct_total.
End M_C17_multistage_construct_total.

(* allocate_snapshots (dry run of the schedule with placeholder labels, weighing, top-k) never raises on the domain *)
Module M_C17_allocate_total.
Import AllocTotal.
Theorem C17_allocate_total :
  forall (N ram disk : Z) (t : NAdvance.traj),
         1 <= N ->
         0 <= ram ->
         0 <= disk ->
         (2 <= N -> 1 <= ram + disk) ->
         exists al : list Z * list Actions.storage, Multistage.allocate N ram disk t = Actions.Ok al.
Proof. exact (@AllocTotal.allocate_total). Qed.
Print Assumptions C17_allocate_total.
End M_C17_allocate_total.

(* n_advance never raises on its domain; range; limiting cases; optimal region *)
Module M_C17_n_advance_total.
Import NAdv.
Theorem C17_n_advance_total :
  forall (n snaps : Z) (tr : NAdvance.traj),
         1 <= n ->
         1 <= snaps ->
         let s := Z.max (Z.min snaps (n - 1)) 1 in
         exists a : Z,
           NAdvance.n_advance n snaps tr = NAdvance.NOk a /\
           (n = 1 -> a = 0) /\
           (2 <= n -> 1 <= a <= n - 1) /\
           (2 <= n -> s = 1 -> a = n - 1) /\
           (2 <= n -> s = n - 1 -> 2 <= s -> a = 1) /\
           (2 <= s <= n - 2 ->
            exists sn tn : nat,
              s = Z.of_nat sn /\
              (2 <= tn)%nat /\ BinomDef.beta sn (tn - 1) < n <= BinomDef.beta sn tn /\ region sn tn n a).
Proof. exact (@NAdv.n_advance_spec). Qed.
Print Assumptions C17_n_advance_total.
End M_C17_n_advance_total.

(* shape of a constructed Multistage schedule *)
Module M_C17_construct_labels.
Import AllocProofs.
Theorem C17_construct_labels :
  forall (N ram disk : Z) (tj : NAdvance.traj) (c : Multistage.cfg),
         1 <= N ->
         0 <= ram ->
         0 <= disk ->
         Multistage.construct N ram disk tj = Actions.Ok c ->
         Multistage.max_n c = N /\
         Multistage.tr c = tj /\
         Forall (fun l : Actions.storage => l = Actions.RAM \/ l = Actions.DISK) (Multistage.labels c) /\
         Multistage.total c = Z.min (Z.min ram (N - 1) + Z.min disk (N - 1)) (N - 1) /\
         Multistage.count_st Actions.RAM (Multistage.labels c) <= Z.min ram (N - 1) /\
         Multistage.count_st Actions.DISK (Multistage.labels c) <= Z.min disk (N - 1).
Proof. exact (@AllocProofs.construct_labels). Qed.
Print Assumptions C17_construct_labels.
End M_C17_construct_labels.

(* max_n < 1: ValueError at construction *)
Module M_C17_multistage_rejects_max_n.
Import InvalidProofs.
Theorem C17_multistage_rejects_max_n :
  forall (N ram disk : Z) (tj : NAdvance.traj),
         N < 1 -> Sched.construct (Sched.PMulti N ram disk tj) = Actions.Err Actions.ValueError.
Proof. exact (@InvalidProofs.multistage_rejects_max_n). Qed.
Print Assumptions C17_multistage_rejects_max_n.
End M_C17_multistage_rejects_max_n.

(* no unit and max_n > 1: the constructor returns, the first next() raises ValueError and the generator is finished -- no action is ever emitted *)
Module M_C17_multistage_no_units.
Import InvalidProofs.
Theorem C17_multistage_no_units :
  forall (N : Z) (tj : NAdvance.traj),
         2 <= N ->
         exists s : Sched.sched,
           Sched.construct (Sched.PMulti N 0 0 tj) = Actions.Ok s /\
           (exists s' : Sched.sched,
              Sched.next s = (s', Actions.Raise Actions.ValueError) /\
              snd (Sched.next s') = Actions.StopIteration).
Proof. exact (@InvalidProofs.multistage_no_units). Qed.
Print Assumptions C17_multistage_no_units.
End M_C17_multistage_no_units.

(* Mixed: max_n < 1, no unit for max_n > 1, or a storage other than RAM / DISK: ValueError at construction (both planner paths) *)
Module M_C17_mixed_rejects.
Import InvalidProofs.
Theorem C17_mixed_rejects :
  forall (N s : Z) (sg : Actions.storage),
         N < 1 \/ s < Z.min 1 (N - 1) \/ sg = Actions.WORK \/ sg = Actions.NONE ->
         Sched.construct (Sched.PMixed N s sg false) = Actions.Err Actions.ValueError /\
         Sched.construct (Sched.PMixed N s sg true) = Actions.Err Actions.ValueError.
Proof. exact (@InvalidProofs.mixed_rejects). Qed.
Print Assumptions C17_mixed_rejects.
End M_C17_mixed_rejects.

(* TwoLevel: period < 1 or a binomial storage other than RAM / DISK: ValueError at construction *)
Module M_C17_twolevel_rejects.
Import InvalidProofs.
Theorem C17_twolevel_rejects :
  forall (P bs : Z) (bst : Actions.storage) (tj : NAdvance.traj),
         P < 1 \/ bst = Actions.WORK \/ bst = Actions.NONE ->
         Sched.construct (Sched.PTwo P bs bst tj) = Actions.Err Actions.ValueError.
Proof. exact (@InvalidProofs.twolevel_rejects). Qed.
Print Assumptions C17_twolevel_rejects.
End M_C17_twolevel_rejects.

(* the Revolve op-list generator (table + recursion) never fails on the domain *)
Module M_C17_revolve_top_total.
Import RevBridge6.
Theorem C17_revolve_top_total :
  forall l cm uf ub : Z,
         0 <= l ->
         0 <= cm ->
         (1 <= l -> 1 <= cm) -> exists ops : list Ops.op, RevSeq.revolve_top l cm uf ub = Actions.Ok ops.
Proof. exact (@RevBridge6.revolve_top_total). Qed.
Print Assumptions C17_revolve_top_total.
End M_C17_revolve_top_total.

(* the DiskRevolve op-list generator (both tables + recursion) never fails on the domain *)
Module M_C17_disk_revolve_top_total.
Import DiskGen.
Theorem C17_disk_revolve_top_total :
  forall l cm rd wd uf ub : Z,
         0 <= l ->
         1 <= cm -> exists ops : list Ops.op, RevSeq.disk_revolve_top l cm rd wd uf ub = Actions.Ok ops.
Proof. exact (@DiskGen.disk_revolve_top_total). Qed.
Print Assumptions C17_disk_revolve_top_total.
End M_C17_disk_revolve_top_total.

(* the PeriodicDiskRevolve op-list generator never fails on the domain, and its period is mxrr *)
Module M_C17_periodic_top_total.
Import PeriodGen.
Theorem C17_periodic_top_total :
  forall l cm rd wd uf ub : Z,
         0 <= l ->
         1 <= cm ->
         exists ops : list Ops.op,
           RevSeq.periodic_top l cm rd wd uf ub = Actions.Ok (ops, RevSeq.mxrr cm uf rd wd).
Proof. exact (@PeriodGen.periodic_top_total). Qed.
Print Assumptions C17_periodic_top_total.
End M_C17_periodic_top_total.

(* the HRevolve op-list generator never fails on the domain: get_hopt_table never indexes out of range, hrevolve_aux is never called without a slot, the recursion fuel suffices *)
Module M_C17_hrevolve_total.
Import HRevTotal.
Theorem C17_hrevolve_total :
  forall l ram disk wd rd uf ub : Z,
         0 <= l ->
         0 <= ram ->
         (1 <= l -> 1 <= ram) ->
         0 <= disk -> exists L : list Ops.op, HRevSeq.hrevolve l ram disk wd rd uf ub = Actions.Ok L.
Proof. exact (@HRevTotal.hrevolve_total). Qed.
Print Assumptions C17_hrevolve_total.
End M_C17_hrevolve_total.

(* get_hopt_table (K = 2) returns, with tables of the right dimensions whose column m = 0 of optp[1] is infinite from l = 2 on *)
Module M_C17_hopt_table_total.
Import HRevTotal.
Theorem C17_hopt_table_total :
  forall lmax c0 c1 : Z,
         0 <= lmax ->
         0 <= c0 ->
         (2 <= lmax -> 1 <= c0) ->
         0 <= c1 ->
         forall w0 w1 r0 r1 ub uf : Z,
         exists T : HRevSeq.tabs,
           HRevSeq.get_hopt_table lmax c0 c1 w0 w1 r0 r1 ub uf = Actions.Ok T /\ Inv lmax c0 c1 T.
Proof. exact (@HRevTotal.hopt_table_total). Qed.
Print Assumptions C17_hopt_table_total.
End M_C17_hopt_table_total.

(* Revolve family: max_n < 1 or no RAM unit for max_n > 1 is an exception at construction; that valid tuples always yield a complete stream is proved for Revolve, DiskRevolve, PeriodicDiskRevolve, HRevolve (C17_*_complete) *)
Module M_C17_revolve_family_rejects.
Import InvalidProofs.
Theorem C17_revolve_family_rejects :
  forall (k : RevConv.rkind) (N ram disk uf ub wd rd : Z),
         N < 1 \/ ram < Z.min 1 (N - 1) ->
         exists e : Actions.exn, Sched.construct (Sched.PRev k N ram disk uf ub wd rd) = Actions.Err e.
Proof. exact (@InvalidProofs.revolve_rejects). Qed.
Print Assumptions C17_revolve_family_rejects.
End M_C17_revolve_family_rejects.

