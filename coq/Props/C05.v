(* C05 -- Binomial schedules perform the minimal possible number of forward steps
   Property theorems only: each proof is one application of a lemma proved in Proofs/, followed by Print Assumptions. *)
From Coq Require Import ZArith List Bool.
From CS Require Inst GW2 RevCost BinomDP RevConv RevBridge4 RevolveRun RevolveGW Opt0Table GenLang3 GenMulti SeqGenSpec HelperGenSpec HelperTC.
From CS Require Import Actions NAdvance Multistage Exec Sched RunFacts Projections BasicInv MultistageRun AllocTotal TLBridge MixBridge.
Import ListNotations.
Open Scope Z_scope.

(* Multistage on the extracted model: once the schedule reports exhaustion, the reference executor has carried out exactly
   TC N S forward steps (S = the clamped total unit count), whatever the RAM/DISK split *)
Theorem C05_multistage_forward_total : forall (N ram disk : Z) (tj : traj) (c : Multistage.cfg) (k : nat),
  1 <= N -> 0 <= ram -> 0 <= disk -> (2 <= N -> 1 <= ram + disk) -> Multistage.construct N ram disk tj = Ok c ->
  exists o0 m ls, run_case (PMulti N ram disk tj) (ms_params N ram disk) (repeat Next k) = Ok (o0, m, ls) /\ mon_ok m /\ no_raise ls /\
     (forall s1, fst (fst (run_ops (ms_params N ram disk) {| ob := OMulti c Multistage.init (count_st RAM (labels c)) (count_st DISK (labels c)); started := false |} mon0 (repeat Next k))) = s1 ->
        is_exhausted s1 = true -> fwd_total (cnt (mx m)) = Inst.TC tj N (total c)).
Proof. exact multistage_run. Qed.
Print Assumptions C05_multistage_forward_total.

(* THE PUBLISHED HELPER IS THE SOURCE: HelperGenSpec.oes_shape / osb_shape are the Gallina functions harness/translate.py (HelperTr) renders from optimal_extra_steps (behind cache_step: the clamp s = min(s, n - 1), the dictionary being a pure memo) and optimal_steps_binomial of multistage.py -- the recursion on explicit fuel, `for i in range(1, n)` as py_forB over the optional running best; Gen/HelperGen.v re-translates the current source on every run and proves the result equal to these terms by conversion.  The shape is equal, for every fuel and argument, to BinomDP.Em, the dynamic program C05_chain / C05_gw_main are proved about *)
Module M_C05_helper_is_source.
Import HelperGenSpec.
Theorem C05_helper_is_source :
  forall (fuel : nat) (n s : Z), oes_shape fuel n s = BinomDP.Em fuel n s.
Proof. exact (@HelperGenSpec.oes_shape_is_Em). Qed.
Print Assumptions C05_helper_is_source.
End M_C05_helper_is_source.

(* optimal_steps_binomial(n, s), as translated from the source, returns on its whole domain (n >= 1; s >= 1, or s >= 0 when n = 1; fuel = the recursion depth n) exactly TC n s: the number of forward steps C05_multistage_forward_total and C05_revolve_forward_total establish for the streams (for either trajectory tr), = n + the Griewank-Walther closed form by C05_chain *)
Module M_C05_helper_value.
Import HelperTC.
Theorem C05_helper_value :
  forall (tr : NAdvance.traj) (f : nat) (n s : Z),
         1 <= n ->
         1 <= s \/ n = 1 /\ 0 <= s ->
         (Z.to_nat n <= f)%nat -> HelperGenSpec.osb_shape f n s = BinomDP.Ok (Inst.TC tr n s).
Proof. exact (@HelperTC.osb_is_TC). Qed.
Print Assumptions C05_helper_value.
End M_C05_helper_value.

(* ... and so does the model of the helper that the extracted driver evaluates and the correspondence compares with multistage.optimal_steps_binomial on generated (n, s) (Binomial.optimal_steps_binomial: cache_step with the dictionary explicit, started empty, fuel n + 2): = TC n s on the whole domain *)
Module M_C05_helper_model_value.
Import HelperTC.
Theorem C05_helper_model_value :
  forall (tr : NAdvance.traj) (n s : Z),
         1 <= n ->
         1 <= s \/ n = 1 /\ 0 <= s -> Binomial.optimal_steps_binomial n s = Actions.Ok (Inst.TC tr n s).
Proof. exact (@HelperTC.model_osb_is_TC). Qed.
Print Assumptions C05_helper_model_value.
End M_C05_helper_model_value.

(* ... and outside that domain (n <= 0, or s < min(1, n - 1)) both helpers raise ValueError before any recursion *)
Module M_C05_helper_rejects.
Import HelperGenSpec.
Theorem C05_helper_rejects :
  forall (f : nat) (n s : Z),
         n <= 0 \/ s < Z.min 1 (n - 1) ->
         oes_shape (S f) n s = BinomDP.Err BinomDP.ValueError /\
         osb_shape (S f) n s = BinomDP.Err BinomDP.ValueError.
Proof. exact (@HelperGenSpec.oes_rejects). Qed.
Print Assumptions C05_helper_rejects.
End M_C05_helper_rejects.

(* THE SEQUENCE GENERATORS ARE THE SOURCE: SeqGenSpec.revolve_shape / disk_revolve_shape / periodic_shape are the Gallina functions harness/translate.py (SeqTr) renders from revolve(), disk_revolve() and periodic_disk_revolve() of hrevolve_sequences/ -- every sequence.insert(operation(..)) appends one operation, insert_sequence(f(..).shift(k)) a recursively built list, the loops become for_down / while_, reads of the tables tget / lget with IndexError; Gen/SeqGen.v re-translates the current source on every run and proves the result equal to these terms by conversion.  They are proved equal, for all arguments, to the extracted RevSeq.revolve / RevSeq.disk_revolve / the body of RevSeq.periodic_top, on which every theorem about the Revolve family is stated; this is the top-level call of the constructor (RevConv.sequence) read on the translated source.  Not translated: the tables (get_opt_0_table, get_opt_inf_table), mxrr_close_formula and the Sequence / Operation classes of basic_functions.py (their flattening, shift and remove_useless_wm are Ops.v) *)
Module M_C05_revolve_sequence_is_source.
Import SeqGenSpec.
Theorem C05_revolve_sequence_is_source :
  forall l cm uf ub : Z,
         RevSeq.revolve_top l cm uf ub =
         Actions.bind (RevSeq.get_opt_0_table l cm uf ub)
           (fun t : list (list Z) => revolve_shape (Z.to_nat (2 * l + 4)) t uf l cm).
Proof. exact (@SeqGenSpec.revolve_top_is_source). Qed.
Print Assumptions C05_revolve_sequence_is_source.
End M_C05_revolve_sequence_is_source.

(* THE MODEL OF MultistageCheckpointSchedule IS THE SOURCE: GenMulti.multi_prog_model is the program (generator language GenLang3) that harness/translate.py produces from MultistageCheckpointSchedule._iterator, the nested helper write(n) inlined at its two call sites; Gen/MultistageGen.v re-translates the current source on every run and proves it equal to that term by conversion.  For every parameter tuple the constructor accepts, resuming that program request by request gives under EVERY history of next() and finalize(k) calls exactly the observations (outcome, n, r, max_n, is_exhausted) of the schedule object of Model/Sched.v (srun_ops: Sched.next / Sched.finalize on the Multistage machine) -- so the Multistage theorems of this file, stated on the extracted model, are theorems about the translated source.  (The unit total self._snapshots_in_ram + self._snapshots_on_disk is read as the length of the label tuple self._storage, which is what __init__ recounts them from; the allocation of the labels, allocate_snapshots, is tied by the correspondence.) *)
Module M_C05_multistage_source_is_model.
Import GenMulti.
Theorem C05_multistage_source_is_model :
  forall (n ram disk : Z) (tj : NAdvance.traj) (ops : list Online.op) (s : Sched.sched),
         Sched.construct (Sched.PMulti n ram disk tj) = Actions.Ok s ->
         exists c : Multistage.cfg,
           Multistage.construct n ram disk tj = Actions.Ok c /\
           grun_ops (cfg3 c) [GenLang3.FS multi_prog_model] (g_init n) ops = srun_ops s ops.
Proof. exact (@GenMulti.multi_from_start). Qed.
Print Assumptions C05_multistage_source_is_model.
End M_C05_multistage_source_is_model.

(* TC (the forward work of the recursion n_advance defines) = n + E n k, and E n k = the Griewank-Walther closed form; E = the model of optimal_extra_steps *)
Module M_C05_chain.
Import Inst.
Theorem C05_chain :
  forall (tr : NAdvance.traj) (n k t : nat),
         (2 <= n)%nat ->
         (1 <= k)%nat ->
         GW2.betam (Nat.min k (n - 1)) t <= Z.of_nat n <= BinomDef.beta (Nat.min k (n - 1)) t ->
         TC tr (Z.of_nat n) (Z.of_nat k) = Z.of_nat n + BinomDP.E n k /\
         BinomDP.E n k = GW2.line (Nat.min k (n - 1)) t (Z.of_nat n).
Proof. exact (@Inst.C05_chain). Qed.
Print Assumptions C05_chain.
End M_C05_chain.

(* Griewank-Walther: DP value = schedule recursion = closed form, for any E, Eh satisfying the DP / recursion equations *)
Module M_C05_gw_main.
Import GW2.
Theorem C05_gw_main :
  forall (tr : NAdvance.traj) (E : nat -> nat -> Z),
         (forall s : nat, E 1%nat s = 0) ->
         (forall n : nat, (1 <= n)%nat -> 2 * E n 1%nat = Z.of_nat n * (Z.of_nat n - 1)) ->
         (forall n s : nat, (2 <= n)%nat -> (n - 1 < s)%nat -> E n s = E n (n - 1)%nat) ->
         (forall n s : nat,
          (2 <= s)%nat ->
          (s <= n - 1)%nat ->
          exists i : nat, (1 <= i < n)%nat /\ E n s = Z.of_nat i + E i s + E (n - i)%nat (s - 1)%nat) ->
         (forall n s i : nat,
          (2 <= s)%nat ->
          (s <= n - 1)%nat -> (1 <= i < n)%nat -> E n s <= Z.of_nat i + E i s + E (n - i)%nat (s - 1)%nat) ->
         forall Eh : Z -> Z -> Z,
         (forall k : Z, Eh 1 k = 0) ->
         (forall n k : Z,
          2 <= n ->
          1 <= k ->
          exists a : Z, NAdvance.n_advance n k tr = NAdvance.NOk a /\ Eh n k = a + Eh a k + Eh (n - a) (k - 1)) ->
         forall n k t : nat,
         (1 <= n)%nat ->
         (1 <= k)%nat ->
         betam (Nat.min k (n - 1)) t <= Z.of_nat n <= BinomDef.beta (Nat.min k (n - 1)) t ->
         (2 <= n)%nat ->
         E n k = Eh (Z.of_nat n) (Z.of_nat k) /\ E n k = line (Nat.min k (n - 1)) t (Z.of_nat n).
Proof. exact (@GW2.GW_main). Qed.
Print Assumptions C05_gw_main.
End M_C05_gw_main.

(* the DP value is minimal among all bisection splits *)
Module M_C05_dp_is_min.
Import BinomDP.
Theorem C05_dp_is_min :
  forall n s i : nat,
         (2 <= s)%nat ->
         (s <= n - 1)%nat -> (1 <= i < n)%nat -> E n s <= Z.of_nat i + E i s + E (n - i) (s - 1).
Proof. exact (@BinomDP.E_le). Qed.
Print Assumptions C05_dp_is_min.
End M_C05_dp_is_min.

(* Revolve on the extracted model, every cost vector with uf > 0: once the schedule is exhausted the reference executor has carried out exactly TC N s forward steps -- the same number as Multistage (for either trajectory tj), i.e. N + E N s *)
Module M_C05_revolve_forward_total.
Import RevolveRun.
Theorem C05_revolve_forward_total :
  forall (tj : NAdvance.traj) (N ram disk uf ub wd rd : Z) (k : nat),
         1 <= N ->
         0 <= ram ->
         (2 <= N -> 1 <= ram) ->
         0 < uf ->
         exists L : list Ops.op,
           RevConv.sequence RevConv.KRevolve N ram disk uf ub wd rd = Actions.Ok L /\
           (let
            '(s', m, ls) :=
             Sched.run_ops (RevBridge4.rev_xparams N ram)
               {|
                 Sched.ob := Sched.ORevF RevConv.KRevolve N ram disk (RevConv.init_r L); Sched.started := false
               |} Sched.mon0 (repeat Sched.Next k) in
             RunFacts.mon_ok m /\
             RunFacts.no_raise ls /\
             (Sched.is_exhausted s' = true -> Exec.fwd_total (Exec.cnt (Sched.mx m)) = Inst.TC tj N ram)).
Proof. exact (@RevolveRun.revolve_forward_total_gw). Qed.
Print Assumptions C05_revolve_forward_total.
End M_C05_revolve_forward_total.

(* the step-count DP behind get_opt_0_table (min over first splits) is the Griewank-Walther DP value E (l+1) m *)
Module M_C05_revolve_dp_is_gw.
Import RevolveGW.
Theorem C05_revolve_dp_is_gw :
  forall l m : nat, (1 <= m)%nat -> Opt0Table.P (Z.of_nat m) (Z.of_nat l) = BinomDP.E (S l) m.
Proof. exact (@RevolveGW.P_eq_E). Qed.
Print Assumptions C05_revolve_dp_is_gw.
End M_C05_revolve_dp_is_gw.

(* PARTIAL: optimality is proved within the family of bisection schedules (E is the minimum of the DP over all first splits, and both classes attain it); that NO executable schedule whatsoever with s restart checkpoints does better (Griewank-Walther 2000, Prop. 1) is not proved *)
Module M_C05_global_optimality_partial.
Import BinomDP.
Theorem C05_global_optimality_partial :
  forall n s i : nat,
         (2 <= s)%nat ->
         (s <= n - 1)%nat -> (1 <= i < n)%nat -> E n s <= Z.of_nat i + E i s + E (n - i) (s - 1).
Proof. exact (@BinomDP.E_le). Qed.
Print Assumptions C05_global_optimality_partial.
End M_C05_global_optimality_partial.

