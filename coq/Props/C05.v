(* C05 -- Binomial schedules perform the minimal possible number of forward steps
   Property theorems only: each proof is one application of a lemma proved in Proofs/, followed by Print Assumptions. *)
From Coq Require Import ZArith List Bool.
From CS Require Inst GW2 RevCost BinomDP.
From CS Require Import Actions NAdvance Multistage Exec Sched RunFacts Projections BasicInv MultistageRun AllocTotal TLBridge MixBridge.
Import ListNotations.
Open Scope Z_scope.

(* Multistage on the extracted model: once the schedule reports exhaustion, the reference executor has carried out exactly
   TC N S forward steps (S = the clamped total unit count), whatever the RAM/DISK split *)
Theorem C05_multistage_forward_total : forall (N ram disk : Z) (tj : traj) (c : Multistage.cfg) (k : nat),
  1 <= N -> 0 <= ram -> 0 <= disk -> (2 <= N -> 1 <= ram + disk) -> Multistage.construct N ram disk tj = Ok c ->
  exists o0 m ls, run_case (PMulti N ram disk tj) (ms_params N ram disk) (repeat Next k) = Ok (o0, m, ls) /\ mon_ok m /\ no_raise ls /\
     (forall s1, fst (fst (run_ops (ms_params N ram disk) {| ob := OMulti c Multistage.init (count_st RAM (labels c)) (count_st DISK (labels c)); started := false |} mon0 (repeat Next k))) = s1 ->
        is_exhausted s1 = true -> fwd_total (cnt (mx m)) = Inst.TC tj N (total c)).
Proof. exact multistage_run. Qed.
Print Assumptions C05_multistage_forward_total.

(* TC (the forward work of the recursion n_advance defines) = n + E n k, and E n k = the Griewank-Walther closed form; E = the model of optimal_extra_steps *)
Module M_C05_chain.
Import Inst.
Theorem C05_chain :
  forall (tr : NAdvance.traj) (n k t : nat),
         (2 <= n)%nat ->
         (1 <= k)%nat ->
         GW2.betam (Nat.min k (n - 1)) t <= Z.of_nat n <= BinomDef.beta (Nat.min k (n - 1)) t ->
         TC tr (Z.of_nat n) (Z.of_nat k) = Z.of_nat n + BinomDP.E n k /\
         BinomDP.E n k = GW2.line (Nat.min k (n - 1)) t (Z.of_nat n).
Proof. exact (@Inst.C05_chain). Qed.
Print Assumptions C05_chain.
End M_C05_chain.

(* Griewank-Walther: DP value = schedule recursion = closed form, for any E, Eh satisfying the DP / recursion equations *)
Module M_C05_gw_main.
Import GW2.
Theorem C05_gw_main :
  forall (tr : NAdvance.traj) (E : nat -> nat -> Z),
         (forall s : nat, E 1%nat s = 0) ->
         (forall n : nat, (1 <= n)%nat -> 2 * E n 1%nat = Z.of_nat n * (Z.of_nat n - 1)) ->
         (forall n s : nat, (2 <= n)%nat -> (n - 1 < s)%nat -> E n s = E n (n - 1)%nat) ->
         (forall n s : nat,
          (2 <= s)%nat ->
          (s <= n - 1)%nat ->
          exists i : nat, (1 <= i < n)%nat /\ E n s = Z.of_nat i + E i s + E (n - i)%nat (s - 1)%nat) ->
         (forall n s i : nat,
          (2 <= s)%nat ->
          (s <= n - 1)%nat -> (1 <= i < n)%nat -> E n s <= Z.of_nat i + E i s + E (n - i)%nat (s - 1)%nat) ->
         forall Eh : Z -> Z -> Z,
         (forall k : Z, Eh 1 k = 0) ->
         (forall n k : Z,
          2 <= n ->
          1 <= k ->
          exists a : Z, NAdvance.n_advance n k tr = NAdvance.NOk a /\ Eh n k = a + Eh a k + Eh (n - a) (k - 1)) ->
         forall n k t : nat,
         (1 <= n)%nat ->
         (1 <= k)%nat ->
         betam (Nat.min k (n - 1)) t <= Z.of_nat n <= BinomDef.beta (Nat.min k (n - 1)) t ->
         (2 <= n)%nat ->
         E n k = Eh (Z.of_nat n) (Z.of_nat k) /\ E n k = line (Nat.min k (n - 1)) t (Z.of_nat n).
Proof. exact (@GW2.GW_main). Qed.
Print Assumptions C05_gw_main.
End M_C05_gw_main.

(* the DP value is minimal among all bisection splits *)
Module M_C05_dp_is_min.
Import BinomDP.
Theorem C05_dp_is_min :
  forall n s i : nat,
         (2 <= s)%nat ->
         (s <= n - 1)%nat -> (1 <= i < n)%nat -> E n s <= Z.of_nat i + E i s + E (n - i) (s - 1).
Proof. exact (@BinomDP.E_le). Qed.
Print Assumptions C05_dp_is_min.
End M_C05_dp_is_min.

(* PARTIAL (Revolve): forward work of the generated op list = (l+1) + step-count DP, independent of uf, ub; table correctness is a hypothesis; clause "no executable schedule whatsoever does better" is not proved (DESIGN.md 6 C05) *)
Module M_C05_revolve_work_partial.
Import RevCost.
Theorem C05_revolve_work_partial :
  forall uf ub : Z,
         0 < uf ->
         forall (opt0 : list (list Z)) (M L : Z) (P : Z -> Z -> Z),
         (forall m l : Z,
          0 <= m <= M ->
          0 <= l <= L -> 1 <= m \/ l = 0 -> RevGen.tget opt0 m l = RevGen.GOk ((l + 1) * ub + uf * P m l)) ->
         (forall m : Z, P m 0 = 0) ->
         (forall m : Z, 1 <= m -> P m 1 = 1) ->
         (forall l : Z, 0 <= l -> 2 * P 1 l = l * (l + 1)) ->
         (forall m l j : Z, 2 <= m -> 2 <= l -> 1 <= j <= l - 1 -> P m l <= j + P (m - 1) (l - j) + P m (j - 1)) ->
         (forall m l : Z,
          2 <= m -> 2 <= l -> exists j : Z, 1 <= j <= l - 1 /\ P m l = j + P (m - 1) (l - j) + P m (j - 1)) ->
         forall (fuel : nat) (l cm : Z) (ops : list RevBlk.op),
         RevGen.revolve fuel opt0 uf l cm = RevGen.GOk ops ->
         0 <= l <= L -> 0 <= cm <= M -> (1 <= l -> 1 <= cm) -> work ops = l + 1 + P cm l.
Proof. exact (@RevCost.revolve_work). Qed.
Print Assumptions C05_revolve_work_partial.
End M_C05_revolve_work_partial.

