(* C02 -- Each adjoint calculation reverses every step exactly once, in order
   Property theorems only: each proof is one application of a lemma proved in Proofs/, followed by Print Assumptions.
   run_case is the extracted client of Model/Sched.v: it constructs the schedule, performs the listed operations, feeds every
   emitted action to the reference executor of Model/Exec.v with the declared budgets, and compares n / r / max_n with the
   execution after every action; `no_err err_Cxx m` = the monitor reported no error of this property's class;
   `no_raise ls` = no request ended in an exception. *)
From Coq Require Import ZArith List Bool.
From CS Require Ops RevConv RevBridge4 RevolveRun Refuted DiskRun DiskBridge3 HRevRun HRevTop GenLang GenBasic GenLang2 GenTwo GenLang3 GenMulti GenLang4 GenConv GenLang5 GenMixed SeqGenSpec HSeqGenSpec ArgminGenSpec HoptGenSpec OptInfGenSpec Opt0GenSpec.
From CS Require Import Actions NAdvance Multistage Exec Sched RunFacts Projections BasicInv MultistageRun AllocTotal TLBridge MixBridge.
Import ListNotations.
Open Scope Z_scope.

(* NoneCheckpointSchedule: Forward, finalize(N), EndForward, then StopIteration for ever *)
Theorem C02_none : forall (N : Z) (k : nat), 1 <= N -> N <= maxsize ->
  exists o0 m ls, run_case PNone (BasicInv.pn N) ([Next; Fin N] ++ repeat Next k) = Ok (o0, m, ls) /\ no_err err_C02 m /\ no_raise ls.
Proof. intros N k H1 H2. destruct (none_run N H1 H2 k) as (o0 & m & ls & E & Hm & Hl). exists o0, m, ls. auto using mon_ok_no_err. Qed.
Print Assumptions C02_none.

(* SingleMemoryStorageSchedule: any number of adjoint calculations *)
Theorem C02_single_memory : forall (N : Z) (k : nat), 1 <= N -> N <= maxsize ->
  exists o0 m ls, run_case PMem (BasicInv.pm N) ([Next; Fin N] ++ repeat Next k) = Ok (o0, m, ls) /\ no_err err_C02 m /\ no_raise ls.
Proof. intros N k H1 H2. destruct (single_memory_run N H1 H2 k) as (o0 & m & ls & E & Hm & Hl). exists o0, m, ls. auto using mon_ok_no_err. Qed.
Print Assumptions C02_single_memory.

(* SingleDiskStorageSchedule, move_data = False (any number of adjoint calculations) and True (one) *)
Theorem C02_single_disk : forall (mv : bool) (N : Z) (k : nat), 1 <= N ->
  exists o0 m ls, run_case (PDisk mv) (BasicInv.pd N) (repeat Next (Z.to_nat N) ++ [Fin N] ++ repeat Next k) = Ok (o0, m, ls)
                  /\ no_err err_C02 m /\ no_raise ls.
Proof. intros mv N k H1. destruct (single_disk_run mv N H1 k) as (o0 & m & ls & E & Hm & Hl). exists o0, m, ls. auto using mon_ok_no_err. Qed.
Print Assumptions C02_single_disk.

(* MultistageCheckpointSchedule: every N, every RAM/DISK split, both trajectories; budgets = the declared unit counts;
   the constructor (allocate_snapshots included) is proved total on this domain, so there is no hypothesis about it *)
Theorem C02_multistage : forall (N ram disk : Z) (tj : traj) (k : nat),
  1 <= N -> 0 <= ram -> 0 <= disk -> (2 <= N -> 1 <= ram + disk) ->
  exists o0 m ls, run_case (PMulti N ram disk tj) (ms_params N ram disk) (repeat Next k) = Ok (o0, m, ls) /\ no_err err_C02 m /\ no_raise ls.
Proof.
  intros N ram disk tj k H1 H2 H3 H4. destruct (multistage_run_total N ram disk tj k H1 H2 H3 H4) as (o0 & m & ls & E & Hm & Hl).
  exists o0, m, ls. auto using mon_ok_no_err.
Qed.
Print Assumptions C02_multistage.

(* TwoLevelCheckpointSchedule: every N (also not a multiple of the period), period, binomial_snapshots, both binomial storages,
   both trajectories, any number of adjoint calculations; Q = ceil(N / period) forward requests, then finalize(N) *)
Theorem C02_twolevel : forall (N P bs : Z) (bst : storage) (tj : traj) (k : nat),
  1 <= N -> 1 <= P -> 0 <= bs -> bst = RAM \/ bst = DISK ->
  exists o0 m ls, run_case (PTwo P bs bst tj) (ptl N P bs bst) (repeat Next (Z.to_nat (TLBridge.Q N P)) ++ [Fin N] ++ repeat Next (S k)) = Ok (o0, m, ls)
                  /\ no_err err_C02 m /\ no_raise ls.
Proof.
  intros N P bs bst tj k H1 H2 H3 H4. destruct (twolevel_run N P bs bst tj H1 H2 H3 H4 k) as (o0 & m & ls & E & Hm & Hl).
  exists o0, m, ls. auto using mon_ok_no_err.
Qed.
Print Assumptions C02_twolevel.

(* RevolveCheckpointSchedule, class Revolve (memory only): every N, every number of RAM units, every cost vector (the disk
   arguments are ignored by this class); budgets RAM = snapshots_in_ram, DISK = 0 *)
Theorem C02_revolve : forall (N ram disk uf ub wd rd : Z) (k : nat), 1 <= N -> 0 <= ram -> (2 <= N -> 1 <= ram) ->
  exists o0 m ls, run_case (PRev RevConv.KRevolve N ram disk uf ub wd rd) (RevBridge4.rev_xparams N ram) (repeat Next k) = Ok (o0, m, ls) /\ no_err err_C02 m /\ no_raise ls.
Proof.
  intros N ram disk uf ub wd rd k H1 H2 H3. destruct (RevolveRun.revolve_run N ram disk uf ub wd rd k H1 H2 H3) as (o0 & m & ls & E & Hm & Hl).
  exists o0, m, ls. auto using mon_ok_no_err.
Qed.
Print Assumptions C02_revolve.

(* MixedCheckpointSchedule: every N, every unit count, both storages, both planner paths (memoised / tabulated) *)
Theorem C02_mixed : forall (N s : Z) (sg : storage) (tab : bool) (k : nat),
  1 <= N -> 0 <= s -> (2 <= N -> 1 <= s) -> sg = RAM \/ sg = DISK ->
  exists o0 m ls, run_case (PMixed N s sg tab) (pmx N (Z.min s (N - 1)) sg) (repeat Next k) = Ok (o0, m, ls) /\ no_err err_C02 m /\ no_raise ls.
Proof.
  intros N s sg tab k H1 H2 H3 H4. destruct (mixed_run N s sg tab k H1 H2 H3 H4) as (o0 & m & ls & E & Hm & Hl).
  exists o0, m, ls. auto using mon_ok_no_err.
Qed.
Print Assumptions C02_mixed.

(* DiskRevolve and PeriodicDiskRevolve: the whole documented domain -- every N >= 1, snapshots_in_ram >= 0 (>= 1 when N >= 2), every cost vector; budgets RAM = snapshots_in_ram, DISK unbounded.
   The monitor's only possible verdict other than "no error" is E_leftover at the final EndReverse (class C04: the open finding
   D8, see C04_disk_revolve_refuted), so no error of THIS property's class is ever reported, and nothing raises *)
Theorem C02_disk_revolve : forall (N ram disk uf ub wd rd : Z) (k : nat), 1 <= N -> 0 <= ram -> (2 <= N -> 1 <= ram) ->
  exists o0 m ls, run_case (PRev RevConv.KDiskRevolve N ram disk uf ub wd rd) (DiskRun.disk_xparams N ram) (repeat Next k) = Ok (o0, m, ls) /\ no_err err_C02 m /\ no_raise ls.
Proof.
  intros N ram disk uf ub wd rd k H1 H2 H2'. destruct (DiskRun.disk_revolve_run N ram disk uf ub wd rd k H1 H2 H2') as (o0 & m & ls & E & Hl & Hm).
  exists o0, m, ls. split; [exact E|]. split; [apply (DiskRun.leftover_no_err _ m Hm); intros []|exact Hl].
Qed.
Print Assumptions C02_disk_revolve.
Theorem C02_periodic_disk_revolve : forall (N ram disk uf ub wd rd : Z) (k : nat), 1 <= N -> 0 <= ram -> (2 <= N -> 1 <= ram) ->
  exists o0 m ls, run_case (PRev RevConv.KPeriodic N ram disk uf ub wd rd) (DiskRun.disk_xparams N ram) (repeat Next k) = Ok (o0, m, ls) /\ no_err err_C02 m /\ no_raise ls.
Proof.
  intros N ram disk uf ub wd rd k H1 H2 H2'. destruct (DiskRun.periodic_run N ram disk uf ub wd rd k H1 H2 H2') as (o0 & m & ls & E & Hl & Hm).
  exists o0, m, ls. split; [exact E|]. split; [apply (DiskRun.leftover_no_err _ m Hm); intros []|exact Hl].
Qed.
Print Assumptions C02_periodic_disk_revolve.

(* HRevolve (two levels): the whole documented domain -- every N >= 1, snapshots_in_ram >= 0 (>= 1 when N >= 2), snapshots_on_disk >= 0, every cost vector (the constructor's dynamic
   program and recursion are proved total: HRevTotal); budgets RAM = snapshots_in_ram, DISK unbounded (the DISK budget itself:
   C03_hrevolve_refuted).  As for DiskRevolve the only verdict other than "no error" is E_leftover at the final EndReverse (D8) *)
Theorem C02_hrevolve : forall (N ram disk uf ub wd rd : Z) (k : nat), 1 <= N -> 0 <= ram -> (2 <= N -> 1 <= ram) -> 0 <= disk ->
  exists o0 m ls, run_case (PRev RevConv.KHRevolve N ram disk uf ub wd rd) (DiskRun.disk_xparams N ram) (repeat Next k) = Ok (o0, m, ls) /\ no_err err_C02 m /\ no_raise ls.
Proof.
  intros N ram disk uf ub wd rd k H1 H2 H2' H3. destruct (HRevTop.hrevolve_run_total N ram disk uf ub wd rd k H1 H2 H2' H3) as (o0 & m & ls & E & Hl & Hm).
  exists o0, m, ls. split; [exact E|]. split; [apply (DiskRun.leftover_no_err _ m Hm); intros []|exact Hl].
Qed.
Print Assumptions C02_hrevolve.

(* completeness (Multistage): EndReverse is emitted within 6 * TC N S + 1 requests, with no error and no exception on the way, and by then the reference executor has carried out exactly TC N S forward steps *)
Module M_C02_multistage_terminates.
Import AllocTotal.
Theorem C02_multistage_terminates :
  forall (N ram disk : Z) (tj : NAdvance.traj) (k : nat),
         1 <= N ->
         0 <= ram ->
         0 <= disk ->
         (2 <= N -> 1 <= ram + disk) ->
         let S_ := Z.min (Z.min ram (N - 1) + Z.min disk (N - 1)) (N - 1) in
         6 * Inst.TC tj N S_ < Z.of_nat k ->
         exists (o0 : Sched.obs) (m : Sched.mon) (ls : list Sched.line),
           Sched.run_case (Sched.PMulti N ram disk tj) (MultistageRun.ms_params N ram disk)
             (repeat Sched.Next k) = Actions.Ok (o0, m, ls) /\
           RunFacts.mon_ok m /\
           RunFacts.no_raise ls /\
           (exists ob : Sched.obs, In (Sched.LNext (Actions.Yield Actions.EndReverse) ob) ls) /\
           Exec.fwd_total (Exec.cnt (Sched.mx m)) = Inst.TC tj N S_.
Proof. exact (@AllocTotal.multistage_terminates). Qed.
Print Assumptions C02_multistage_terminates.
End M_C02_multistage_terminates.

(* completeness (Revolve): the op list is finite; from some request count on the schedule is exhausted, with no error on the way and exactly TC N s forward steps executed *)
Module M_C02_revolve_terminates.
Import RevolveRun.
Theorem C02_revolve_terminates :
  forall (tj : NAdvance.traj) (N ram disk uf ub wd rd : Z),
         1 <= N ->
         0 <= ram ->
         (2 <= N -> 1 <= ram) ->
         0 < uf ->
         exists (L : list Ops.op) (K : nat),
           RevConv.sequence RevConv.KRevolve N ram disk uf ub wd rd = Actions.Ok L /\
           (forall k : nat,
            (K <= k)%nat ->
            let
            '(s', m, ls) :=
             Sched.run_ops (RevBridge4.rev_xparams N ram)
               {|
                 Sched.ob := Sched.ORevF RevConv.KRevolve N ram disk (RevConv.init_r L); Sched.started := false
               |} Sched.mon0 (repeat Sched.Next k) in
             RunFacts.mon_ok m /\
             RunFacts.no_raise ls /\
             Sched.is_exhausted s' = true /\ Exec.fwd_total (Exec.cnt (Sched.mx m)) = Inst.TC tj N ram).
Proof. exact (@RevolveRun.revolve_terminates). Qed.
Print Assumptions C02_revolve_terminates.
End M_C02_revolve_terminates.

(* completeness (DiskRevolve, snapshots_in_ram >= 1): the op list is finite; from 2 |ops| + 2 requests on the schedule is exhausted, nothing raised on the way, and the only executor verdict possible besides "no error" is E_leftover at the final EndReverse (D8-C04) *)
Module M_C02_disk_revolve_terminates.
Import DiskRun.
Theorem C02_disk_revolve_terminates :
  forall N ram disk uf ub wd rd : Z,
         1 <= N ->
         0 <= ram ->
         (2 <= N -> 1 <= ram) ->
         exists (L : list Ops.op) (K : nat),
           RevConv.sequence RevConv.KDiskRevolve N ram disk uf ub wd rd = Actions.Ok L /\
           (forall k : nat,
            (K <= k)%nat ->
            let
            '(s', m, ls) :=
             Sched.run_ops (disk_xparams N ram)
               {|
                 Sched.ob := Sched.ORevF RevConv.KDiskRevolve N ram disk (RevConv.init_r L);
                 Sched.started := false
               |} Sched.mon0 (repeat Sched.Next k) in
             RunFacts.no_raise ls /\ DiskBridge3.leftover_or_ok m /\ Sched.is_exhausted s' = true).
Proof. exact (@DiskRun.disk_revolve_terminates). Qed.
Print Assumptions C02_disk_revolve_terminates.
End M_C02_disk_revolve_terminates.

(* completeness (PeriodicDiskRevolve): the same *)
Module M_C02_periodic_terminates.
Import DiskRun.
Theorem C02_periodic_terminates :
  forall N ram disk uf ub wd rd : Z,
         1 <= N ->
         0 <= ram ->
         (2 <= N -> 1 <= ram) ->
         exists (L : list Ops.op) (K : nat),
           RevConv.sequence RevConv.KPeriodic N ram disk uf ub wd rd = Actions.Ok L /\
           (forall k : nat,
            (K <= k)%nat ->
            let
            '(s', m, ls) :=
             Sched.run_ops (disk_xparams N ram)
               {|
                 Sched.ob := Sched.ORevF RevConv.KPeriodic N ram disk (RevConv.init_r L);
                 Sched.started := false
               |} Sched.mon0 (repeat Sched.Next k) in
             RunFacts.no_raise ls /\ DiskBridge3.leftover_or_ok m /\ Sched.is_exhausted s' = true).
Proof. exact (@DiskRun.periodic_terminates). Qed.
Print Assumptions C02_periodic_terminates.
End M_C02_periodic_terminates.

(* completeness (HRevolve): the constructor returns and the same holds *)
Module M_C02_hrevolve_terminates.
Import HRevTop.
Theorem C02_hrevolve_terminates :
  forall N ram disk uf ub wd rd : Z,
         1 <= N ->
         0 <= ram ->
         (2 <= N -> 1 <= ram) ->
         0 <= disk ->
         exists (L : list Ops.op) (K : nat),
           RevConv.sequence RevConv.KHRevolve N ram disk uf ub wd rd = Actions.Ok L /\
           (forall k : nat,
            (K <= k)%nat ->
            let
            '(s', m, ls) :=
             Sched.run_ops (DiskRun.disk_xparams N ram)
               {|
                 Sched.ob := Sched.ORevF RevConv.KHRevolve N ram disk (RevConv.init_r L);
                 Sched.started := false
               |} Sched.mon0 (repeat Sched.Next k) in
             RunFacts.no_raise ls /\ DiskBridge3.leftover_or_ok m /\ Sched.is_exhausted s' = true).
Proof. exact (@HRevTop.hrevolve_terminates_total). Qed.
Print Assumptions C02_hrevolve_terminates.
End M_C02_hrevolve_terminates.

(* completeness (Mixed, both planner paths): within N (N + 3) + N + 2 requests the schedule is exhausted (EndReverse has been emitted, by C09_flags), and by then exactly C N S forward steps have been executed *)
Module M_C02_mixed_terminates.
Import MixBridge.
Theorem C02_mixed_terminates :
  forall (N s : Z) (sg : Actions.storage) (tab : bool) (k : nat),
         1 <= N ->
         0 <= s ->
         (2 <= N -> 1 <= s) ->
         sg = Actions.RAM \/ sg = Actions.DISK ->
         N * (N + 3) + N + 1 < Z.of_nat k ->
         let
         '(s', m, _) :=
          Sched.run_ops (pmx N (Z.min s (N - 1)) sg) (sch0 N (Z.min s (N - 1)) sg tab) Sched.mon0
            (repeat Sched.Next k) in
          Sched.is_exhausted s' = true /\ Exec.fwd_total (Exec.cnt (Sched.mx m)) = C3 N (Z.min s (N - 1)).
Proof. exact (@MixBridge.mixed_terminates). Qed.
Print Assumptions C02_mixed_terminates.
End M_C02_mixed_terminates.

(* THE MODEL OF THE THREE BASIC CLASSES IS THE SOURCE: GenBasic.prog_of c is the program (deep-embedded generator language GenLang) that harness/translate.py produces from the _iterator method of NoneCheckpointSchedule / SingleMemoryStorageSchedule / SingleDiskStorageSchedule; Gen/BasicGen.v re-translates the current source on every run and proves it equal to that term by conversion.  Resuming that program request by request (GenLang.run = next() on the suspended generator; finalize = the base-class method on the attributes) from the freshly constructed object gives, under EVERY history of next() and finalize(k) calls, exactly the observations (outcome, n, r, max_n, is_exhausted) of the hand-written model Online.run_ops -- so the theorems of this file about these three classes, stated on the extracted model, are theorems about the translated source *)
Module M_C02_basic_source_is_model.
Import GenBasic.
Theorem C02_basic_source_is_model :
  forall (c : Online.kls) (ops : list Online.op) (s : Online.st),
         basic c ->
         Online.construct c = Actions.Ok s ->
         grun_ops c [GenLang.FS (prog_of c)] (g_init c) ops = Online.run_ops s ops.
Proof. exact (@GenBasic.basic_from_start). Qed.
Print Assumptions C02_basic_source_is_model.
End M_C02_basic_source_is_model.

(* THE MODEL OF TwoLevelCheckpointSchedule IS THE SOURCE: GenTwo.two_prog_model is the program (generator language GenLang2: named locals, the snapshots stack, //, *, min, n_advance, assert, del) that harness/translate.py produces from TwoLevelCheckpointSchedule._iterator; Gen/TwoLevelGen.v re-translates the current source on every run and proves it equal to that term by conversion.  Resuming that program request by request from the freshly constructed object gives, for every period, unit count, storage and trajectory the constructor accepts and under EVERY history of next() and finalize(k) calls, exactly the observations (outcome, n, r, max_n, is_exhausted) of the hand-written machine Online.run_ops (class KTwo) -- so the TwoLevel theorems of this file, stated on the extracted model, are theorems about the translated source (n_advance itself is tied by Gen/NAdvanceGen.v) *)
Module M_C02_twolevel_source_is_model.
Import GenTwo.
Theorem C02_twolevel_source_is_model :
  forall (p bs : Z) (st : Actions.storage) (tr : NAdvance.traj) (ops : list Online.op) (s : Online.st),
         Online.construct (Online.KTwo p bs st tr) = Actions.Ok s ->
         grun_ops (cfg_of p bs st tr) [GenLang2.FS two_prog_model] g_init ops = Online.run_ops s ops.
Proof. exact (@GenTwo.two_from_start). Qed.
Print Assumptions C02_twolevel_source_is_model.
End M_C02_twolevel_source_is_model.

(* THE MODEL OF MultistageCheckpointSchedule IS THE SOURCE: GenMulti.multi_prog_model is the program (generator language GenLang3) that harness/translate.py produces from MultistageCheckpointSchedule._iterator, the nested helper write(n) inlined at its two call sites; Gen/MultistageGen.v re-translates the current source on every run and proves it equal to that term by conversion.  For every parameter tuple the constructor accepts, resuming that program request by request gives under EVERY history of next() and finalize(k) calls exactly the observations (outcome, n, r, max_n, is_exhausted) of the schedule object of Model/Sched.v (srun_ops: Sched.next / Sched.finalize on the Multistage machine) -- so the Multistage theorems of this file, stated on the extracted model, are theorems about the translated source.  (The unit total self._snapshots_in_ram + self._snapshots_on_disk is read as the length of the label tuple self._storage, which is what __init__ recounts them from; the allocation of the labels, allocate_snapshots, is tied by the correspondence.) *)
Module M_C02_multistage_source_is_model.
Import GenMulti.
Theorem C02_multistage_source_is_model :
  forall (n ram disk : Z) (tj : NAdvance.traj) (ops : list Online.op) (s : Sched.sched),
         Sched.construct (Sched.PMulti n ram disk tj) = Actions.Ok s ->
         exists c : Multistage.cfg,
           Multistage.construct n ram disk tj = Actions.Ok c /\
           grun_ops (cfg3 c) [GenLang3.FS multi_prog_model] (g_init n) ops = srun_ops s ops.
Proof. exact (@GenMulti.multi_from_start). Qed.
Print Assumptions C02_multistage_source_is_model.
End M_C02_multistage_source_is_model.

(* THE CONVERTER OF THE FOUR REVOLVE-FAMILY CLASSES IS THE SOURCE: GenConv.conv_prog_model is the program (generator language GenLang4: the operation list with Python indexing, _convert_action, integer / boolean / storage / type-name locals, the set snapshots) that harness/translate.py produces from RevolveCheckpointSchedule._iterator; Gen/ConverterGen.v re-translates the current source on every run and proves it equal to that term by conversion (and Gen/ConvertGen.v does the same for _convert_action).  For Revolve, DiskRevolve, PeriodicDiskRevolve and HRevolve alike, every accepted parameter tuple and every history of next() and finalize(k) calls: as long as the hand-written machine (RevConv.next on the operation list of the class) does not raise, resuming the translated program gives exactly its observations (outcome, n, r, max_n, is_exhausted) -- raise_free is what the run theorems of this file establish for the four classes; after an exception the two may differ in n (the hand-written machine reports the error before it commits the updates of that iteration).  The operation list itself (the sequence generators) is tied by the correspondence *)
Module M_C02_revolve_family_converter_is_source.
Import GenConv.
Theorem C02_revolve_family_converter_is_source :
  forall (k : RevConv.rkind) (n ram disk uf ub wd rd : Z) (hist : list Online.op) (s : Sched.sched),
         Sched.construct (Sched.PRev k n ram disk uf ub wd rd) = Actions.Ok s ->
         raise_free (srun_ops s hist) ->
         exists opl : list Ops.op,
           RevConv.sequence k n ram disk uf ub wd rd = Actions.Ok opl /\
           grun_ops opl [GenLang4.FS conv_prog_model] (g_init n) hist = srun_ops s hist.
Proof. exact (@GenConv.conv_from_start). Qed.
Print Assumptions C02_revolve_family_converter_is_source.
End M_C02_revolve_family_converter_is_source.

(* THE MODEL OF MixedCheckpointSchedule IS THE SOURCE: GenMixed.mixed_prog_model is the program (generator language GenLang5: the stack snapshots of (step type, n0, n1) triples, the set snapshot_n, the planner read as a function, step-type / integer / boolean locals, break) that harness/translate.py produces from MixedCheckpointSchedule._iterator; Gen/MixedGen.v re-translates the current source on every run and proves it equal to that term by conversion.  For every planner the constructor can select (the table of mixed_steps_tabulation or mixed_step_memoization behind its cache) and under EVERY history of next() and finalize(k) calls, resuming that program request by request from the freshly constructed object gives exactly the observations (outcome, n, r, max_n, is_exhausted) of the schedule object of Model/Sched.v (hand-written machine Mixed.resume) -- up to the first exception the latter raises (raise_free: none on the documented domain, by the Mixed run theorems of this file); the invariant carried through is that the set snapshot_n holds exactly the distinct first components of the stack (GenMixed.sinv), which is why the model needs no set *)
Module M_C02_mixed_source_is_model.
Import GenMixed.
Theorem C02_mixed_source_is_model :
  forall (n s : Z) (sg : Actions.storage) (tab : bool) (hist : list Online.op) (sch : Sched.sched),
         Sched.construct (Sched.PMixed n s sg tab) = Actions.Ok sch ->
         GenConv.raise_free (GenMulti.srun_ops sch hist) ->
         exists s' : Z,
           Mixed.construct n s sg = Actions.Ok s' /\
           (forall f : Z -> Z -> Actions.res Mixed.plan_t,
            planner n s' tab = Actions.Ok f ->
            grun_ops (mcfg n s' sg f) [GenLang5.FS mixed_prog_model] (g_init n) hist =
            GenMulti.srun_ops sch hist).
Proof. exact (@GenMixed.mixed_from_start). Qed.
Print Assumptions C02_mixed_source_is_model.
End M_C02_mixed_source_is_model.

(* THE SEQUENCE GENERATORS ARE THE SOURCE: SeqGenSpec.revolve_shape / disk_revolve_shape / periodic_shape are the Gallina functions harness/translate.py (SeqTr) renders from revolve(), disk_revolve() and periodic_disk_revolve() of hrevolve_sequences/ -- every sequence.insert(operation(..)) appends one operation, insert_sequence(f(..).shift(k)) a recursively built list, the loops become for_down / while_, reads of the tables tget / lget with IndexError; Gen/SeqGen.v re-translates the current source on every run and proves the result equal to these terms by conversion.  They are proved equal, for all arguments, to the extracted RevSeq.revolve / RevSeq.disk_revolve / the body of RevSeq.periodic_top, on which every theorem about the Revolve family is stated; this is the top-level call of the constructor (RevConv.sequence) read on the translated source.  Not translated: the tables (get_opt_0_table, get_opt_inf_table), mxrr_close_formula and the Sequence / Operation classes of basic_functions.py (their flattening, shift and remove_useless_wm are Ops.v) *)
Module M_C02_revolve_sequence_is_source.
Import SeqGenSpec.
Theorem C02_revolve_sequence_is_source :
  forall l cm uf ub : Z,
         RevSeq.revolve_top l cm uf ub =
         Actions.bind (RevSeq.get_opt_0_table l cm uf ub)
           (fun t : list (list Z) => revolve_shape (Z.to_nat (2 * l + 4)) t uf l cm).
Proof. exact (@SeqGenSpec.revolve_top_is_source). Qed.
Print Assumptions C02_revolve_sequence_is_source.
End M_C02_revolve_sequence_is_source.

(* ... DiskRevolve *)
Module M_C02_disk_revolve_sequence_is_source.
Import SeqGenSpec.
Theorem C02_disk_revolve_sequence_is_source :
  forall l cm rd wd uf ub : Z,
         RevSeq.disk_revolve_top l cm rd wd uf ub =
         Actions.bind (RevSeq.get_opt_0_table l cm uf ub)
           (fun t : list (list Z) =>
            Actions.bind (RevSeq.get_opt_inf_table l cm uf ub rd wd t)
              (fun ti : list Z => disk_revolve_shape (Z.to_nat (l + 2)) t ti uf rd wd l cm)).
Proof. exact (@SeqGenSpec.disk_revolve_top_is_source). Qed.
Print Assumptions C02_disk_revolve_sequence_is_source.
End M_C02_disk_revolve_sequence_is_source.

(* ... PeriodicDiskRevolve (the period is at least 1: PeriodGen.mxrr_pos) *)
Module M_C02_periodic_sequence_is_source.
Import SeqGenSpec.
Theorem C02_periodic_sequence_is_source :
  forall l cm rd wd uf ub : Z,
         0 <= l ->
         RevSeq.periodic_top l cm rd wd uf ub =
         (let mx := RevSeq.mxrr cm uf rd wd in
          Actions.bind (RevSeq.get_opt_0_table (Z.max mx mx + 1) cm uf ub)
            (fun t : list (list Z) =>
             Actions.bind (periodic_shape t uf mx l cm) (fun o : list Ops.op => Actions.Ok (o, mx)))).
Proof. exact (@SeqGenSpec.periodic_top_is_source). Qed.
Print Assumptions C02_periodic_sequence_is_source.
End M_C02_periodic_sequence_is_source.

(* ... HRevolve: hrevolve_aux / hrevolve_recurse (mutually recursive; costs integers or +infinity) rendered by the translator (Gen/HSeqGen.v), proved equal to HRevSeq.aux / HRevSeq.recurse for every chain length l >= 0, with the test `the sequence built so far ends in a Discard` read as is_discard (last_op ..) *)
Module M_C02_hrevolve_sequence_is_source.
Import HSeqGenSpec.
Theorem C02_hrevolve_sequence_is_source :
  forall l ram disk wd rd uf ub : Z,
         0 <= l ->
         HRevSeq.hrevolve l ram disk wd rd uf ub =
         (let p :=
            {|
              HRevSeq.c0v := ram;
              HRevSeq.c1v := disk;
              HRevSeq.w0v := 0;
              HRevSeq.w1v := wd;
              HRevSeq.r0v := 0;
              HRevSeq.r1v := rd;
              HRevSeq.ufv := uf;
              HRevSeq.ubv := ub
            |} in
          Actions.bind (HRevSeq.get_hopt_table l ram disk 0 wd 0 rd ub uf)
            (fun T : HRevSeq.tabs => recurse_shape (Z.to_nat (4 * l + 8)) p T l 1 disk)).
Proof. exact (@HSeqGenSpec.hrevolve_is_source). Qed.
Print Assumptions C02_hrevolve_sequence_is_source.
End M_C02_hrevolve_sequence_is_source.

(* ... argmin of basic_functions.py, rendered once over any element type with its <= (Gen/ArgminGen.v): on integers it is RevSeq.argmin with IndexError on the empty list (py_argmin, as the sequence generators above call it) *)
Module M_C02_argmin_is_source.
Import ArgminGenSpec.
Theorem C02_argmin_is_source :
  forall l : list Z, argmin_shape Z Z.leb l = SeqGenSpec.py_argmin l.
Proof. exact (@ArgminGenSpec.argmin_shape_is_model). Qed.
Print Assumptions C02_argmin_is_source.
End M_C02_argmin_is_source.

(* ... and on costs that may be infinite HRevSeq.argmin *)
Module M_C02_argmin_costs_is_source.
Import ArgminGenSpec.
Theorem C02_argmin_costs_is_source :
  forall l : list HRevSeq.cost, argmin_shape HRevSeq.cost HRevSeq.cle l = HSeqGenSpec.py_cargmin l.
Proof. exact (@ArgminGenSpec.cargmin_shape_is_model). Qed.
Print Assumptions C02_argmin_costs_is_source.
End M_C02_argmin_costs_is_source.

(* ... and the cost tables of H-Revolve: get_hopt_table rendered by the translator for two storage levels (Gen/HoptGen.v: assignments into opt[k][l][m] / optp[k][l][m] are hset, reads hget, float(inf) is Inf, l * (l + 1) / 2 exact division), proved equal to HRevSeq.get_hopt_table for all arguments *)
Module M_C02_hopt_table_is_source.
Import HoptGenSpec.
Theorem C02_hopt_table_is_source :
  forall lmax c0 c1 w0 w1 r0 r1 ub uf : Z,
         hopt_shape lmax c0 c1 w0 w1 r0 r1 ub uf = HRevSeq.get_hopt_table lmax c0 c1 w0 w1 r0 r1 ub uf.
Proof. exact (@HoptGenSpec.hopt_shape_is_model). Qed.
Print Assumptions C02_hopt_table_is_source.
End M_C02_hopt_table_is_source.

(* ... and the Disk-Revolve table: get_opt_inf_table (one_read_disk = True) rendered by the translator (Gen/OptInfGen.v: the Table is a list that only grows by append), proved equal to RevSeq.get_opt_inf_table for all arguments *)
Module M_C02_optinf_table_is_source.
Import OptInfGenSpec.
Theorem C02_optinf_table_is_source :
  forall (lmax cm uf ub rd wd : Z) (opt_0 : list (list Z)),
         optinf_shape lmax cm uf ub rd wd opt_0 = RevSeq.get_opt_inf_table lmax cm uf ub rd wd opt_0.
Proof. exact (@OptInfGenSpec.optinf_shape_is_model). Qed.
Print Assumptions C02_optinf_table_is_source.
End M_C02_optinf_table_is_source.

(* ... and the Revolve table: get_opt_0_table rendered by the translator (Gen/Opt0Gen.v: a list of rows that only grow by append), proved equal to RevSeq.get_opt_0_table for every slot count mmax >= 0 *)
Module M_C02_opt0_table_is_source.
Import Opt0GenSpec.
Theorem C02_opt0_table_is_source :
  forall lmax mmax uf ub : Z,
         0 <= mmax -> opt0_shape lmax mmax uf ub = RevSeq.get_opt_0_table lmax mmax uf ub.
Proof. exact (@Opt0GenSpec.opt0_shape_is_model). Qed.
Print Assumptions C02_opt0_table_is_source.
End M_C02_opt0_table_is_source.

