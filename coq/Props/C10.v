(* C10 -- finalize() accepts exactly the true end of the forward and nothing else
   Property theorems only: each proof is one application of a lemma proved in Proofs/, followed by Print Assumptions. *)
From Coq Require Import ZArith List Bool.
From CS Require BasicProofs.
From CS Require Import Actions NAdvance Multistage Exec Sched RunFacts Projections BasicInv MultistageRun AllocTotal TLBridge MixBridge.
Import ListNotations.
Open Scope Z_scope.

(* online, not finalised: finalize(k) succeeds iff 1 <= k <= n, and then fixes max_n = n = k *)
Module M_C10_online.
Import BasicProofs.
Theorem C10_online :
  forall (b : Online.base) (k : Z),
         Online.max_n_ b = None ->
         (snd (Online.finalize k b) = None <-> 1 <= k <= Online.n_ b) /\
         (snd (Online.finalize k b) = None ->
          fst (Online.finalize k b) = {| Online.n_ := k; Online.r_ := Online.r_ b; Online.max_n_ := Some k |}).
Proof. exact (@BasicProofs.C10_online). Qed.
Print Assumptions C10_online.
End M_C10_online.

(* max_n known: finalize(k) is a no-op iff k = max_n = n; state unchanged in every case *)
Module M_C10_known.
Import BasicProofs.
Theorem C10_known :
  forall (b : Online.base) (k m : Z),
         Online.max_n_ b = Some m ->
         (snd (Online.finalize k b) = None <-> k = m /\ Online.n_ b = m /\ 1 <= k) /\
         fst (Online.finalize k b) = b.
Proof. exact (@BasicProofs.C10_known). Qed.
Print Assumptions C10_known.
End M_C10_known.

(* every other call: ValueError if k < 1 else RuntimeError, state unchanged *)
Module M_C10_reject.
Import BasicProofs.
Theorem C10_reject :
  forall (b : Online.base) (k : Z),
         snd (Online.finalize k b) <> None ->
         fst (Online.finalize k b) = b /\
         snd (Online.finalize k b) = Some (if k <? 1 then Actions.ValueError else Actions.RuntimeError).
Proof. exact (@BasicProofs.C10_reject). Qed.
Print Assumptions C10_reject.
End M_C10_reject.

(* after a successful finalisation in the forward loop the next action is EndForward *)
Module M_C10_next_endforward.
Import BasicProofs.
Theorem C10_next_endforward :
  forall (s : Online.st) (k : Z),
         Online.pcv s = Online.PFwd ->
         Online.max_n_ (Online.b s) = None ->
         snd (Online.finalize k (Online.b s)) = None ->
         let s' :=
           {|
             Online.k := Online.k s;
             Online.pcv := Online.pcv s;
             Online.b := fst (Online.finalize k (Online.b s));
             Online.snaps := Online.snaps s;
             Online.exh := Online.exh s
           |} in
         snd (Online.next s') = Actions.Yield Actions.EndForward.
Proof. exact (@BasicProofs.C10_next_endforward). Qed.
Print Assumptions C10_next_endforward.
End M_C10_next_endforward.

