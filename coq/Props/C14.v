(* C14 -- Multistage RAM/disk split changes only labels and minimises disk traffic
   Property theorems only: each proof is one application of a lemma proved in Proofs/, followed by Print Assumptions. *)
From Coq Require Import ZArith List Bool.
From CS Require TopK AllocProofs SplitProofs.
From CS Require Import Actions NAdvance Multistage Exec Sched RunFacts Projections BasicInv MultistageRun AllocTotal TLBridge MixBridge.
Import ListNotations.
Open Scope Z_scope.

(* first clause: two Multistage configurations with the same max_n, trajectory and number of labels produce the same stream up to the storage named in checkpoint actions (erase_out forgets RAM/DISK), from every state and for every number of requests *)
Module M_C14_labels_only.
Import SplitProofs.
Theorem C14_labels_only :
  forall c1 c2 : Multistage.cfg,
         Multistage.max_n c1 = Multistage.max_n c2 ->
         Multistage.tr c1 = Multistage.tr c2 ->
         length (Multistage.labels c1) = length (Multistage.labels c2) ->
         Forall (fun l : Actions.storage => l = Actions.RAM \/ l = Actions.DISK) (Multistage.labels c1) ->
         Forall (fun l : Actions.storage => l = Actions.RAM \/ l = Actions.DISK) (Multistage.labels c2) ->
         forall (fuel : nat) (s : Multistage.st),
         map erase_out (Multistage.run fuel c1 s) = map erase_out (Multistage.run fuel c2 s).
Proof. exact (@SplitProofs.C14_labels_only). Qed.
Print Assumptions C14_labels_only.
End M_C14_labels_only.

(* the labels of a constructed Multistage schedule: all RAM or DISK, min(ram+disk, N-1) of them, at most min(ram, N-1) RAM and at most min(disk, N-1) DISK *)
Module M_C14_construct_labels.
Import AllocProofs.
Theorem C14_construct_labels :
  forall (N ram disk : Z) (tj : NAdvance.traj) (c : Multistage.cfg),
         1 <= N ->
         0 <= ram ->
         0 <= disk ->
         Multistage.construct N ram disk tj = Actions.Ok c ->
         Multistage.max_n c = N /\
         Multistage.tr c = tj /\
         Forall (fun l : Actions.storage => l = Actions.RAM \/ l = Actions.DISK) (Multistage.labels c) /\
         Multistage.total c = Z.min (Z.min ram (N - 1) + Z.min disk (N - 1)) (N - 1) /\
         Multistage.count_st Actions.RAM (Multistage.labels c) <= Z.min ram (N - 1) /\
         Multistage.count_st Actions.DISK (Multistage.labels c) <= Z.min disk (N - 1).
Proof. exact (@AllocProofs.construct_labels). Qed.
Print Assumptions C14_construct_labels.
End M_C14_construct_labels.

(* exactly min(ram, #positions) positions are labelled RAM *)
Module M_C14_alloc_labels_facts.
Import AllocProofs.
Theorem C14_alloc_labels_facts :
  forall (w : list Z) (r : nat),
         Forall (fun l : Actions.storage => l = Actions.RAM \/ l = Actions.DISK) (alloc_labels w r) /\
         length (alloc_labels w r) = length w /\
         length (filter (Actions.st_eqb Actions.RAM) (alloc_labels w r)) = Nat.min r (length w) /\
         length (filter (Actions.st_eqb Actions.DISK) (alloc_labels w r)) =
         (length w - Nat.min r (length w))%nat.
Proof. exact (@AllocProofs.alloc_labels_facts). Qed.
Print Assumptions C14_alloc_labels_facts.
End M_C14_alloc_labels_facts.

(* PARTIAL: the first k of a descending list maximise the sum over all k-sub-multisets; the glue (weights = access counts of the stream; labels-only simulation) is not proved *)
Module M_C14_topk_max_partial.
Import TopK.
Theorem C14_topk_max_partial :
  forall L : list Z,
         Desc L ->
         forall M rest : list Z, Permutation.Permutation L (M ++ rest) -> sum M <= sum (firstn (length M) L).
Proof. exact (@TopK.topk_max). Qed.
Print Assumptions C14_topk_max_partial.
End M_C14_topk_max_partial.

