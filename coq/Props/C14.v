(* C14 -- Multistage RAM/disk split changes only labels and minimises disk traffic
   Property theorems only: each proof is one application of a lemma proved in Proofs/, followed by Print Assumptions. *)
From Coq Require Import ZArith List Bool.
From CS Require AllocGenSpec TopK AllocProofs SplitProofs AllocMin AllocGlue GenLang3 GenMulti.
From CS Require Import Actions NAdvance Multistage Exec Sched RunFacts Projections BasicInv MultistageRun AllocTotal TLBridge MixBridge.
Import ListNotations.
Open Scope Z_scope.

(* THE MODEL OF MultistageCheckpointSchedule IS THE SOURCE: GenMulti.multi_prog_model is the program (generator language GenLang3) that harness/translate.py produces from MultistageCheckpointSchedule._iterator, the nested helper write(n) inlined at its two call sites; Gen/MultistageGen.v re-translates the current source on every run and proves it equal to that term by conversion.  For every parameter tuple the constructor accepts, resuming that program request by request gives under EVERY history of next() and finalize(k) calls exactly the observations (outcome, n, r, max_n, is_exhausted) of the schedule object of Model/Sched.v (srun_ops: Sched.next / Sched.finalize on the Multistage machine) -- so the Multistage theorems of this file, stated on the extracted model, are theorems about the translated source.  (The unit total self._snapshots_in_ram + self._snapshots_on_disk is read as the length of the label tuple self._storage, which is what __init__ recounts them from; the allocation of the labels, allocate_snapshots, is tied by the correspondence.) *)
Module M_C14_multistage_source_is_model.
Import GenMulti.
Theorem C14_multistage_source_is_model :
  forall (n ram disk : Z) (tj : NAdvance.traj) (ops : list Online.op) (s : Sched.sched),
         Sched.construct (Sched.PMulti n ram disk tj) = Actions.Ok s ->
         exists c : Multistage.cfg,
           Multistage.construct n ram disk tj = Actions.Ok c /\
           grun_ops (cfg3 c) [GenLang3.FS multi_prog_model] (g_init n) ops = srun_ops s ops.
Proof. exact (@GenMulti.multi_from_start). Qed.
Print Assumptions C14_multistage_source_is_model.
End M_C14_multistage_source_is_model.

(* first clause: two Multistage configurations with the same max_n, trajectory and number of labels produce the same stream up to the storage named in checkpoint actions (erase_out forgets RAM/DISK), from every state and for every number of requests *)
Module M_C14_labels_only.
Import SplitProofs.
Theorem C14_labels_only :
  forall c1 c2 : Multistage.cfg,
         Multistage.max_n c1 = Multistage.max_n c2 ->
         Multistage.tr c1 = Multistage.tr c2 ->
         length (Multistage.labels c1) = length (Multistage.labels c2) ->
         Forall (fun l : Actions.storage => l = Actions.RAM \/ l = Actions.DISK) (Multistage.labels c1) ->
         Forall (fun l : Actions.storage => l = Actions.RAM \/ l = Actions.DISK) (Multistage.labels c2) ->
         forall (fuel : nat) (s : Multistage.st),
         map erase_out (Multistage.run fuel c1 s) = map erase_out (Multistage.run fuel c2 s).
Proof. exact (@SplitProofs.C14_labels_only). Qed.
Print Assumptions C14_labels_only.
End M_C14_labels_only.

(* the labels of a constructed Multistage schedule: all RAM or DISK, min(ram+disk, N-1) of them, at most min(ram, N-1) RAM and at most min(disk, N-1) DISK *)
Module M_C14_construct_labels.
Import AllocProofs.
Theorem C14_construct_labels :
  forall (N ram disk : Z) (tj : NAdvance.traj) (c : Multistage.cfg),
         1 <= N ->
         0 <= ram ->
         0 <= disk ->
         Multistage.construct N ram disk tj = Actions.Ok c ->
         Multistage.max_n c = N /\
         Multistage.tr c = tj /\
         Forall (fun l : Actions.storage => l = Actions.RAM \/ l = Actions.DISK) (Multistage.labels c) /\
         Multistage.total c = Z.min (Z.min ram (N - 1) + Z.min disk (N - 1)) (N - 1) /\
         Multistage.count_st Actions.RAM (Multistage.labels c) <= Z.min ram (N - 1) /\
         Multistage.count_st Actions.DISK (Multistage.labels c) <= Z.min disk (N - 1).
Proof. exact (@AllocProofs.construct_labels). Qed.
Print Assumptions C14_construct_labels.
End M_C14_construct_labels.

(* exactly min(ram, #positions) positions are labelled RAM *)
Module M_C14_alloc_labels_facts.
Import AllocProofs.
Theorem C14_alloc_labels_facts :
  forall (w : list Z) (r : nat),
         Forall (fun l : Actions.storage => l = Actions.RAM \/ l = Actions.DISK) (alloc_labels w r) /\
         length (alloc_labels w r) = length w /\
         length (filter (Actions.st_eqb Actions.RAM) (alloc_labels w r)) = Nat.min r (length w) /\
         length (filter (Actions.st_eqb Actions.DISK) (alloc_labels w r)) =
         (length w - Nat.min r (length w))%nat.
Proof. exact (@AllocProofs.alloc_labels_facts). Qed.
Print Assumptions C14_alloc_labels_facts.
End M_C14_alloc_labels_facts.

(* second clause: a checkpoint pushed when the stack holds d entries is written to label d, and is read (Copy / Move) only while on top with d entries below it, from label d -- every state of the extracted machine *)
Module M_C14_position_storage.
Import AllocMin.
Theorem C14_position_storage :
  forall (f : nat) (c : Multistage.cfg) (s s' : Multistage.st) (a : Actions.action),
         Multistage.resume f c s = (s', Actions.Yield a) ->
         match a with
         | Actions.Forward n0 _ true _ sg =>
             Multistage.label c (length (Multistage.snaps s)) = Actions.Ok sg /\
             Multistage.snaps s' = n0 :: Multistage.snaps s
         | Actions.Forward n0 _ false _ _ => True
         | Actions.Copy cp sg _ | Actions.Move cp sg _ =>
             exists rest : list Z,
               Multistage.snaps s = cp :: rest /\ Multistage.label c (length rest) = Actions.Ok sg
         | _ => True
         end.
Proof. exact (@AllocMin.ms_position_storage). Qed.
Print Assumptions C14_position_storage.
End M_C14_position_storage.

(* ALLOCATE_SNAPSHOTS IS THE SOURCE: AllocGenSpec.alloc_pre_shape / handle_shape / alloc_tail_shape are the Gallina functions harness/translate.py renders from allocate_snapshots: the preamble (the three clamps to max_n - 1); the functools.singledispatch handlers action_copy / action_move / action_write / action_pass over the nonlocal snapshot_i and the list weights, as one step on (snapshot_i, weights) per action type (TypeError for an unregistered type; weights[i] += w is addat; write_weight = read_weight = 1 and delete_weight = 0 are the defaults of the signature, the only values the constructor calls it with); and the last statements (allocation = [DISK for _ in range(snapshots)]; for i, _ in sorted(enumerate(weights), key=itemgetter(1), reverse=True)[:snapshots_in_ram]: allocation[i] = RAM -- a stable descending sort, a prefix slice, list assignment).  Gen/AllocGen.v re-translates the current source on every run and proves the result equal to these terms by conversion; the driver loop (next(cp_schedule); action(cp_action); break at EndReverse), the dry-run constructor call and the assert are compared textually by the same generator.  Multistage.allocate, on which C14_alloc_min_disk / C14_min_disk_accesses are stated, is exactly that preamble, the handlers folded over the dry run of the model (weigh_shape), and that allocation, for all arguments *)
Module M_C14_allocate_is_source.
Import AllocGenSpec.
Theorem C14_allocate_is_source :
  forall (n ram disk : Z) (t : NAdvance.traj),
         Multistage.allocate n ram disk t =
         (let
          '(ram', _, sn) := alloc_pre_shape n ram disk in
           match
             weigh_shape (Z.of_nat (Z.to_nat sn))
               (Multistage.run (Multistage.fuel_for n)
                  {|
                    Multistage.max_n := n;
                    Multistage.labels := repeat Actions.DISK (Z.to_nat sn);
                    Multistage.tr := t
                  |} Multistage.init) (-1) (repeat 0 (Z.to_nat sn))
           with
           | Actions.Ok (w, _) => Actions.Ok (w, alloc_tail_shape w sn ram')
           | Actions.Err e => Actions.Err e
           end).
Proof. exact (@AllocGenSpec.allocate_is_source). Qed.
Print Assumptions C14_allocate_is_source.
End M_C14_allocate_is_source.

(* the weighing of the model (Multistage.weigh) is the fold of the translated handlers over the outcomes of the dry run, from every depth >= -1 and every weight list *)
Module M_C14_weigh_is_source.
Import AllocGenSpec.
Theorem C14_weigh_is_source :
  forall (acts : list Actions.outcome) (d : Z) (w : list Z),
         -1 <= d -> Multistage.weigh acts d w = weigh_shape (Z.of_nat (length w)) acts d w.
Proof. exact (@AllocGenSpec.weigh_is_shape). Qed.
Print Assumptions C14_weigh_is_source.
End M_C14_weigh_is_source.

(* last clause, the allocation step: for any non-negative per-position weights w, the labelling allocate_snapshots computes (alloc_labels w r) puts the least total weight on DISK among all RAM/DISK labellings with at most r RAM positions *)
Module M_C14_alloc_min_disk.
Import AllocMin.
Theorem C14_alloc_min_disk :
  forall (w : list Z) (r : nat) (L' : list Actions.storage),
         Forall (fun x : Z => 0 <= x) w ->
         length L' = length w ->
         Forall (fun l : Actions.storage => l = Actions.RAM \/ l = Actions.DISK) L' ->
         (length (filter (Actions.st_eqb Actions.RAM) L') <= r)%nat ->
         lsum Actions.DISK (AllocProofs.alloc_labels w r) w <= lsum Actions.DISK L' w.
Proof. exact (@AllocMin.alloc_min_disk). Qed.
Print Assumptions C14_alloc_min_disk.
End M_C14_alloc_min_disk.

(* the glue: for every configuration c with the same max_n, trajectory and number of labels as the dry-run configuration c0, the number of accesses (checkpoint writes + loads) of its stream that name storage st is lsum st (labels c) w, w = the weights allocate_snapshots computes from the dry run; (streams are taken over fuel_for N requests, as in the model of allocate_snapshots) *)
Module M_C14_disk_accesses_are_weights.
Import AllocGlue.
Theorem C14_disk_accesses_are_weights :
  forall (c c0 : Multistage.cfg) (fuel : nat) (w : list Z) (d' : Z) (st : Actions.storage),
         Multistage.max_n c = Multistage.max_n c0 ->
         Multistage.tr c = Multistage.tr c0 ->
         length (Multistage.labels c) = length (Multistage.labels c0) ->
         Forall (fun l : Actions.storage => l = Actions.RAM \/ l = Actions.DISK) (Multistage.labels c) ->
         Forall (fun l : Actions.storage => l = Actions.RAM \/ l = Actions.DISK) (Multistage.labels c0) ->
         Multistage.weigh (Multistage.run fuel c0 Multistage.init) (-1)
           (repeat 0 (length (Multistage.labels c0))) = Actions.Ok (w, d') ->
         nacc st (Multistage.run fuel c Multistage.init) = AllocMin.lsum st (Multistage.labels c) w.
Proof. exact (@AllocGlue.disk_accesses_are_weights). Qed.
Print Assumptions C14_disk_accesses_are_weights.
End M_C14_disk_accesses_are_weights.

(* LAST CLAUSE: the constructed MultistageCheckpointSchedule(N, ram, disk) has the fewest DISK accesses among all label vectors of the same length with at most min(ram, N-1) RAM positions (all three constructor branches) *)
Module M_C14_min_disk_accesses.
Import AllocGlue.
Theorem C14_min_disk_accesses :
  forall (N ram disk : Z) (tj : NAdvance.traj) (c c' : Multistage.cfg),
         1 <= N ->
         0 <= ram ->
         0 <= disk ->
         Multistage.construct N ram disk tj = Actions.Ok c ->
         Multistage.max_n c' = N ->
         Multistage.tr c' = tj ->
         length (Multistage.labels c') = length (Multistage.labels c) ->
         Forall (fun l : Actions.storage => l = Actions.RAM \/ l = Actions.DISK) (Multistage.labels c') ->
         Multistage.count_st Actions.RAM (Multistage.labels c') <= Z.min ram (N - 1) ->
         nacc Actions.DISK (Multistage.run (Multistage.fuel_for N) c Multistage.init) <=
         nacc Actions.DISK (Multistage.run (Multistage.fuel_for N) c' Multistage.init).
Proof. exact (@AllocGlue.multistage_min_disk). Qed.
Print Assumptions C14_min_disk_accesses.
End M_C14_min_disk_accesses.

