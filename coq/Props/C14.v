(* C14: property theorems.  Statements only; every proof is `exact` of a lemma in Proofs/. *)
From Coq Require Import ZArith List Bool.
From CS Require TopK.
Import ListNotations.
Open Scope Z_scope.

(* the first k of a descending list maximise the sum over all k-sub-multisets *)
Module M_C14_topk_max.
Import TopK.
Theorem C14_topk_max :
  forall L : list Z,
         Desc L ->
         forall M rest : list Z, Permutation.Permutation L (M ++ rest) -> sum M <= sum (firstn (length M) L).
Proof. exact (@TopK.topk_max). Qed.
Print Assumptions C14_topk_max.
End M_C14_topk_max.

