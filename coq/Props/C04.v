(* C04: property theorems.  Statements only; every proof is `exact` of a lemma in Proofs/. *)
From Coq Require Import ZArith List Bool.
From CS Require Inst MixInv RevGen TLInv.
Import ListNotations.
Open Scope Z_scope.

(* Multistage: each resumption yields an action the class executor accepts (start position, no overwrite, covering checkpoint, WORK empty at loads, adjoint data present, store mirrors the stack) and re-establishes the invariant (n, r agree with the execution; stack within the unit count) *)
Module M_C04_multistage_step.
Import Inst.
Theorem C04_multistage_step :
  forall (tr : NAdvance.traj) (N S : Z) (label : nat -> Actions.storage) (s : MSPot.st) (x : MSPot.xst),
         1 <= N ->
         (forall d : nat, label d = Actions.RAM \/ label d = Actions.DISK) ->
         MSPot.Inv (TC tr) N S label s x ->
         let (s', o) := MSPot.resume (advC tr) N S label s in
         match o with
         | MSPot.Act a =>
             exists x' : MSPot.xst, MSPot.exec N x a = Some x' /\ MSPot.Inv (TC tr) N S label s' x'
         | MSPot.Stop => MSPot.pcv s = MSPot.PDone
         | MSPot.Raise => False
         end.
Proof. exact (@Inst.C05_multistage_step). Qed.
Print Assumptions C04_multistage_step.
End M_C04_multistage_step.

(* Mixed: same *)
Module M_C04_mixed_step.
Import MixInv.
Theorem C04_mixed_step :
  forall (plan : Z -> Z -> kind * Z) (C : Z -> Z -> Z),
         (forall k : Z, plan 1 k = (KFR, 1)) ->
         (forall m k : Z,
          2 <= m ->
          1 <= k ->
          fst (plan m k) = KIcs /\ 2 <= snd (plan m k) <= m - 1 /\ (2 <= k \/ snd (plan m k) = m - 1) \/
          fst (plan m k) = KAdj /\ snd (plan m k) = 1 /\ (2 <= k \/ m = 2)) ->
         (forall k : Z, C 1 k = 1) ->
         (forall m k : Z,
          2 <= m ->
          1 <= k ->
          fst (plan m k) = KIcs ->
          C m k = snd (plan m k) + C (m - snd (plan m k)) (k - 1) + C (snd (plan m k)) k) ->
         (forall m k : Z, 2 <= m -> 1 <= k -> fst (plan m k) = KAdj -> C m k = 1 + C (m - 1) (k - 1)) ->
         forall (N S_ : Z) (stg : Actions.storage),
         stg = Actions.RAM \/ stg = Actions.DISK ->
         forall (s : st) (x : xst) (f : nat),
         Inv plan C N S_ s x -> Good plan C N S_ stg x (resume plan N S_ stg (S (S (S f))) s) (pcv s = PDone).
Proof. exact (@MixInv.step_ok). Qed.
Print Assumptions C04_mixed_step.
End M_C04_mixed_step.

(* TwoLevel after finalisation: same, across blocks and passes *)
Module M_C04_twolevel_step.
Import TLInv.
Theorem C04_twolevel_step :
  forall adv : Z -> Z -> Z,
         (forall m k : Z, 2 <= m -> 1 <= k -> 1 <= adv m k <= m - 1) ->
         (forall m : Z, 2 <= m -> adv m 1 = m - 1) ->
         forall T : Z -> Z -> Z,
         (forall k : Z, T 1 k = 1) ->
         (forall m k : Z, 2 <= m -> 1 <= k -> T m k = adv m k + T (m - adv m k) (k - 1) + T (adv m k) k) ->
         forall (N P bs : Z) (bst : Actions.storage),
         1 <= N ->
         1 <= P ->
         0 <= bs ->
         bst = Actions.RAM \/ bst = Actions.DISK ->
         forall (d0 : Z) (s : st) (x : xst) (f : nat),
         Inv T N P bs d0 s x -> Good T N P bs bst x (resume adv N P bs bst (S (S (S (S f)))) s).
Proof. exact (@TLInv.step_ok). Qed.
Print Assumptions C04_twolevel_step.
End M_C04_twolevel_step.

(* Revolve: the whole converted stream is accepted with RAM budget cm; ends with r = N, empty snapshot set, empty store *)
Module M_C04_revolve_stream.
Import RevGen.
Theorem C04_revolve_stream :
  forall (N cm : Z) (fuel : nat) (opt0 : list (list Z)) (uf : Z) (ops : list RevBlk.op)
           (prev : option RevBlk.op),
         1 <= N ->
         0 <= cm ->
         (2 <= N -> 1 <= cm) ->
         revolve fuel opt0 uf (N - 1) cm = GOk ops ->
         exists (acts : list Actions.action) (c' : RevBlk.cst) (x' : RevBlk.xst) (lastop : RevBlk.op),
           RevBlk.conv N 0 prev init_c ops = (acts, inl (c', Some lastop, length ops)) /\
           RevBlk.execs N cm init_x acts = Some x' /\
           RevBlk.r_ c' = N /\
           RevBlk.snaps c' = [] /\
           RevBlk.store x' = [] /\
           RevBlk.rr x' = N /\ RevBlk.endfwd x' = true /\ RevBlk.wdeps x' = None /\ RevBlk.wics x' = None.
Proof. exact (@RevGen.revolve_stream_ok). Qed.
Print Assumptions C04_revolve_stream.
End M_C04_revolve_stream.

