(* C13 -- TwoLevel: periodic disk checkpoints, binomially optimal recomputation
   Property theorems only: each proof is one application of a lemma proved in Proofs/, followed by Print Assumptions. *)
From Coq Require Import ZArith List Bool.
From CS Require TLInv.
From CS Require Import Actions NAdvance Multistage Exec Sched RunFacts Projections BasicInv MultistageRun AllocTotal TLBridge MixBridge.
Import ListNotations.
Open Scope Z_scope.

(* unlimited adjoint calculations, each executable: the run theorems hold for every number k of further requests *)
(* the whole TwoLevel run on the extracted model *)
Theorem C13_twolevel_run : forall (N P bs : Z) (bst : storage) (tj : traj), 1 <= N -> 1 <= P -> 0 <= bs -> bst = RAM \/ bst = DISK -> forall k : nat,
  exists o0 m ls, run_case (PTwo P bs bst tj) (ptl N P bs bst) (repeat Next (Z.to_nat (TLBridge.Q N P)) ++ [Fin N] ++ repeat Next (S k)) = Ok (o0, m, ls) /\ mon_ok m /\ no_raise ls.
Proof. exact twolevel_run. Qed.
Print Assumptions C13_twolevel_run.

(* PARTIAL: per-block forward total on the TwoLevel machine of TLInv.v (= T (L, b+1) with T the work of the binomial recursion); not yet restated on the extracted model *)
Module M_C13_block_total_partial.
Import TLInv.
Theorem C13_block_total_partial :
  forall adv : Z -> Z -> Z,
         (forall m k : Z, 2 <= m -> 1 <= k -> 1 <= adv m k <= m - 1) ->
         (forall m : Z, 2 <= m -> adv m 1 = m - 1) ->
         forall T : Z -> Z -> Z,
         (forall k : Z, T 1 k = 1) ->
         (forall m k : Z, 2 <= m -> 1 <= k -> T m k = adv m k + T (m - adv m k) (k - 1) + T (adv m k) k) ->
         forall (N P bs : Z) (bst : Actions.storage),
         1 <= N ->
         1 <= P ->
         0 <= bs ->
         bst = Actions.RAM \/ bst = Actions.DISK ->
         forall (d0 : Z) (s : st) (x : xst) (n0s : Z),
         Inv T N P bs d0 s x ->
         pcv s = PTBlock n0s -> r_ s = N - n0s -> done x = d0 + T (pend N P n0s - n0s) (S_ bs).
Proof. exact (@TLInv.block_total). Qed.
Print Assumptions C13_block_total_partial.
End M_C13_block_total_partial.

