(* C13: property theorems.  Statements only; every proof is `exact` of a lemma in Proofs/. *)
From Coq Require Import ZArith List Bool.
From CS Require TLInv.
Import ListNotations.
Open Scope Z_scope.

Module M_C13_twolevel_step.
Import TLInv.
Theorem C13_twolevel_step :
  forall adv : Z -> Z -> Z,
         (forall m k : Z, 2 <= m -> 1 <= k -> 1 <= adv m k <= m - 1) ->
         (forall m : Z, 2 <= m -> adv m 1 = m - 1) ->
         forall T : Z -> Z -> Z,
         (forall k : Z, T 1 k = 1) ->
         (forall m k : Z, 2 <= m -> 1 <= k -> T m k = adv m k + T (m - adv m k) (k - 1) + T (adv m k) k) ->
         forall (N P bs : Z) (bst : Actions.storage),
         1 <= N ->
         1 <= P ->
         0 <= bs ->
         bst = Actions.RAM \/ bst = Actions.DISK ->
         forall (d0 : Z) (s : st) (x : xst) (f : nat),
         Inv T N P bs d0 s x -> Good T N P bs bst x (resume adv N P bs bst (S (S (S (S f)))) s).
Proof. exact (@TLInv.step_ok). Qed.
Print Assumptions C13_twolevel_step.
End M_C13_twolevel_step.

(* per-block forward total *)
Module M_C13_block_total.
Import TLInv.
Theorem C13_block_total :
  forall adv : Z -> Z -> Z,
         (forall m k : Z, 2 <= m -> 1 <= k -> 1 <= adv m k <= m - 1) ->
         (forall m : Z, 2 <= m -> adv m 1 = m - 1) ->
         forall T : Z -> Z -> Z,
         (forall k : Z, T 1 k = 1) ->
         (forall m k : Z, 2 <= m -> 1 <= k -> T m k = adv m k + T (m - adv m k) (k - 1) + T (adv m k) k) ->
         forall (N P bs : Z) (bst : Actions.storage),
         1 <= N ->
         1 <= P ->
         0 <= bs ->
         bst = Actions.RAM \/ bst = Actions.DISK ->
         forall (d0 : Z) (s : st) (x : xst) (n0s : Z),
         Inv T N P bs d0 s x ->
         pcv s = PTBlock n0s -> r_ s = N - n0s -> done x = d0 + T (pend N P n0s - n0s) (S_ bs).
Proof. exact (@TLInv.block_total). Qed.
Print Assumptions C13_block_total.
End M_C13_block_total.

