(* C13 -- TwoLevel: periodic disk checkpoints, binomially optimal recomputation
   Property theorems only: each proof is one application of a lemma proved in Proofs/, followed by Print Assumptions. *)
From Coq Require Import ZArith List Bool.
From CS Require TLInv TLSweep Online TLStorage HRevUses GenLang2 GenTwo.
From CS Require Import Actions NAdvance Multistage Exec Sched RunFacts Projections BasicInv MultistageRun AllocTotal TLBridge MixBridge.
Import ListNotations.
Open Scope Z_scope.

(* THE MODEL OF TwoLevelCheckpointSchedule IS THE SOURCE: GenTwo.two_prog_model is the program (generator language GenLang2: named locals, the snapshots stack, //, *, min, n_advance, assert, del) that harness/translate.py produces from TwoLevelCheckpointSchedule._iterator; Gen/TwoLevelGen.v re-translates the current source on every run and proves it equal to that term by conversion.  Resuming that program request by request from the freshly constructed object gives, for every period, unit count, storage and trajectory the constructor accepts and under EVERY history of next() and finalize(k) calls, exactly the observations (outcome, n, r, max_n, is_exhausted) of the hand-written machine Online.run_ops (class KTwo) -- so the TwoLevel theorems of this file, stated on the extracted model, are theorems about the translated source (n_advance itself is tied by Gen/NAdvanceGen.v) *)
Module M_C13_twolevel_source_is_model.
Import GenTwo.
Theorem C13_twolevel_source_is_model :
  forall (p bs : Z) (st : Actions.storage) (tr : NAdvance.traj) (ops : list Online.op) (s : Online.st),
         Online.construct (Online.KTwo p bs st tr) = Actions.Ok s ->
         grun_ops (cfg_of p bs st tr) [GenLang2.FS two_prog_model] g_init ops = Online.run_ops s ops.
Proof. exact (@GenTwo.two_from_start). Qed.
Print Assumptions C13_twolevel_source_is_model.
End M_C13_twolevel_source_is_model.

(* FIRST CLAUSE, extracted model, every period >= 1, every binomial_snapshots, both storages, both trajectories, every number j of requests before finalisation: the observations are exactly Forward(i P, (i+1) P, write_ics, DISK) with n = (i+1) P, r = 0, max_n unknown, not exhausted, for i = 0 .. j-1 *)
Module M_C13_sweep_pattern.
Import TLSweep.
Theorem C13_sweep_pattern :
  forall (P bs : Z) (bst : Actions.storage) (tr : NAdvance.traj) (st : Online.st) (j : nat),
         Online.construct (Online.KTwo P bs bst tr) = Actions.Ok st ->
         Online.run_ops st (repeat Online.Next j) = map (sweep_obs P) (seq 0 j).
Proof. exact (@TLSweep.twolevel_sweep). Qed.
Print Assumptions C13_sweep_pattern.
End M_C13_sweep_pattern.

(* the whole TwoLevel run on the extracted model *)
Theorem C13_twolevel_run : forall (N P bs : Z) (bst : storage) (tj : traj), 1 <= N -> 1 <= P -> 0 <= bs -> bst = RAM \/ bst = DISK -> forall k : nat,
  exists o0 m ls, run_case (PTwo P bs bst tj) (ptl N P bs bst) (repeat Next (Z.to_nat (TLBridge.Q N P)) ++ [Fin N] ++ repeat Next (S k)) = Ok (o0, m, ls) /\ mon_ok m /\ no_raise ls.
Proof. exact twolevel_run. Qed.
Print Assumptions C13_twolevel_run.

(* SECOND CLAUSE, totals on the extracted model: whenever the generator stands between adjoint passes (head of its `while True`: after EndForward / each EndReverse) the reference executor has carried out N + passes * W forward steps, W = TLBridge.W = the sum over the period blocks of T(block length, binomial_snapshots + 1) with T = Inst.TC, the work of the binomial recursion (= the Griewank-Walther optimum by C05_chain); every N (last block partial or full), both storages, both trajectories, all passes *)
Module M_C13_pass_totals.
Import TLBridge.
Theorem C13_pass_totals :
  forall (N P bs : Z) (bst : Actions.storage) (tj : NAdvance.traj),
         1 <= N ->
         1 <= P ->
         0 <= bs ->
         bst = Actions.RAM \/ bst = Actions.DISK ->
         forall k : nat,
         let
         '(s2, m, ls) :=
          Sched.run_ops (ptl N P bs bst) (fsched P bs bst tj Online.PStart 0 None false) Sched.mon0
            (repeat Sched.Next (Z.to_nat (Q N P)) ++ [Sched.Fin N] ++ repeat Sched.Next (S k)) in
          RunFacts.mon_ok m /\
          RunFacts.no_raise ls /\
          (forall o : Online.st,
           Sched.ob s2 = Sched.OOnline o ->
           Online.pcv o = Online.PTOuter ->
           Exec.fwd_total (Exec.cnt (Sched.mx m)) =
           N + Exec.passes (Sched.mx m) * W N P bs tj +
           (W N P bs tj - WS N P bs tj (N - Online.r_ (Online.b o)))).
Proof. exact (@TLBridge.twolevel_totals). Qed.
Print Assumptions C13_pass_totals.
End M_C13_pass_totals.

(* per block, on the TwoLevel machine of TLInv.v that the extracted machine is proved to follow (TLBridge.resume_agrees): when a block has been reversed completely, exactly T(L, b+1) forward steps were spent on it *)
Module M_C13_block_total.
Import TLInv.
Theorem C13_block_total :
  forall adv : Z -> Z -> Z,
         (forall m k : Z, 2 <= m -> 1 <= k -> 1 <= adv m k <= m - 1) ->
         (forall m : Z, 2 <= m -> adv m 1 = m - 1) ->
         forall T : Z -> Z -> Z,
         (forall k : Z, T 1 k = 1) ->
         (forall m k : Z, 2 <= m -> 1 <= k -> T m k = adv m k + T (m - adv m k) (k - 1) + T (adv m k) k) ->
         forall (N P bs : Z) (bst : Actions.storage),
         1 <= N ->
         1 <= P ->
         0 <= bs ->
         bst = Actions.RAM \/ bst = Actions.DISK ->
         forall (d0 : Z) (s : st) (x : xst) (n0s : Z),
         Inv T N P bs d0 s x ->
         pcv s = PTBlock n0s -> r_ s = N - n0s -> done x = d0 + T (pend N P n0s - n0s) (S_ bs).
Proof. exact (@TLInv.block_total). Qed.
Print Assumptions C13_block_total.
End M_C13_block_total.

(* STORAGES, every history: a yielded Forward that stores a restart checkpoint names DISK or the binomial storage and stores nothing else; adjoint dependencies go to WORK only; a checkpoint is loaded into WORK from DISK or from the binomial storage *)
Module M_C13_storages.
Import TLStorage.
Theorem C13_storages :
  forall (p bs : Z) (bst : Actions.storage) (tr : NAdvance.traj) (pr : Exec.xparams)
           (ops : list Sched.op) (o0 : Sched.obs) (m : Sched.mon) (ls : list Sched.line),
         Sched.run_case (Sched.PTwo p bs bst tr) pr ops = Actions.Ok (o0, m, ls) ->
         Forall (HRevUses.act_line (st_ok bst)) ls.
Proof. exact (@TLStorage.twolevel_storages). Qed.
Print Assumptions C13_storages.
End M_C13_storages.

(* ... sharper, per request and from every state: while max_n is unknown a checkpointing Forward is Forward(n, n + period, True, False, DISK); once it is known, it goes to the binomial storage *)
Module M_C13_storages_step.
Import TLStorage.
Theorem C13_storages_step :
  forall (fuel : nat) (o : Online.st) (p bs : Z) (bst : Actions.storage) (tr : NAdvance.traj)
           (o' : Online.st) (a : Actions.action),
         two o p bs bst tr ->
         Online.resume fuel o = (o', Actions.Yield a) ->
         two o' p bs bst tr /\
         match a with
         | Actions.Forward n0 n1 wi wa sg =>
             (wi = true ->
              wa = false /\
              (Online.max_n_ (Online.b o) = None /\ sg = Actions.DISK /\ n1 = n0 + p \/
               Online.max_n_ (Online.b o) <> None /\ sg = bst)) /\
             (wa = true -> wi = false /\ sg = Actions.WORK) /\ (wi = false -> wa = false -> sg = Actions.WORK)
         | Actions.Copy _ src dst | Actions.Move _ src dst =>
             dst = Actions.WORK /\ (src = Actions.DISK \/ src = bst)
         | _ => True
         end.
Proof. exact (@TLStorage.resume_two_storage). Qed.
Print Assumptions C13_storages_step.
End M_C13_storages_step.

(* (auxiliary) the executor bridge of the TwoLevel invariant machine *)
Module M_C13_exec_bridge.
Import TLBridge.
Theorem C13_exec_bridge :
  forall (N P bs : Z) (bst : Actions.storage),
         1 <= N ->
         1 <= P ->
         bst = Actions.RAM \/ bst = Actions.DISK ->
         forall (x : TLInv.xst) (X : Exec.xstate) (a : Actions.action) (x' : TLInv.xst),
         Rx N P bst x X ->
         NNx x ->
         rev_clears a ->
         TLInv.exec N P bs bst x a = Some x' ->
         Exec.check (ptl N P bs bst) true false X a = None /\
         Rx N P bst x' (Exec.apply (ptl N P bs bst) false X a) /\ NNx x'.
Proof. exact (@TLBridge.tl_exec_agrees). Qed.
Print Assumptions C13_exec_bridge.
End M_C13_exec_bridge.

