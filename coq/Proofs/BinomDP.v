From Coq Require Import ZArith List Lia Bool.
Import ListNotations.
Open Scope Z_scope.

Inductive exn := ValueError | RuntimeError | OutOfFuel.
Inductive res (A : Type) := Ok (a : A) | Err (e : exn).
Arguments Ok {A}. Arguments Err {A}.
Definition bind {A B} (r : res A) (f : A -> res B) : res B := match r with Ok a => f a | Err e => Err e end.
Notation "'do' x <- a ; b" := (bind a (fun x => b)) (at level 200, x name, a at level 100, b at level 200).

(* optimal_extra_steps (multistage.py:312-353) behind cache_step (mixed.py:212-223); pure fuelled form *)
Fixpoint loop (cnt : nat) (i : Z) (f : Z -> res Z) (m : option Z) : res (option Z) :=
  match cnt with O => Ok m | S c =>
    do m1 <- f i;
    loop c (i+1) f (match m with None => Some m1 | Some m0 => if m1 <? m0 then Some m1 else m end) end.
Fixpoint Em (fuel : nat) (n s : Z) : res Z :=
  match fuel with O => Err OutOfFuel | S f =>
  let s := Z.min s (n - 1) in
  if n <=? 0 then Err ValueError else
  if (s <? Z.min 1 (n-1)) || (s >? n - 1) then Err ValueError else
  if n =? 1 then Ok 0 else
  if s =? 1 then Ok (n*(n-1)/2) else
  do m <- loop (Z.to_nat (n - 1)) 1 (fun i => do a <- Em f i s; do b <- Em f (n - i) (s - 1); Ok (i + a + b)) None;
  match m with None => Err RuntimeError | Some v => Ok v end
  end.

Lemma loop_spec : forall cnt i0 f m r, loop cnt i0 f m = Ok r ->
  (forall j, i0 <= j < i0 + Z.of_nat cnt -> exists c, f j = Ok c) /\
  match r with
  | None => m = None /\ cnt = O
  | Some v => (m = Some v \/ exists j, i0 <= j < i0 + Z.of_nat cnt /\ f j = Ok v) /\
              (forall m0, m = Some m0 -> v <= m0) /\
              (forall j c, i0 <= j < i0 + Z.of_nat cnt -> f j = Ok c -> v <= c)
  end.
Proof.
  induction cnt as [|cnt IH]; intros i0 f m r H; cbn [loop] in H.
  - injection H as <-. split; [intros; lia|]. destruct m; [|auto]. split; [auto|]. split; [intros ? E; injection E as <-; lia|intros; lia].
  - destruct (f i0) as [m1|] eqn:E; cbn [bind] in H; [|discriminate].
    destruct (IH _ _ _ _ H) as [Hall Hr]. split.
    { intros j Hj. destruct (Z.eq_dec j i0) as [->|]; [eauto|]. apply Hall. lia. }
    destruct r as [v|].
    + destruct Hr as (Hex & Hle0 & Hmin). split; [|split].
      * destruct Hex as [Hex|(j & Hj & Hf)]; [|right; exists j; split; [lia|exact Hf]].
        destruct m as [m0|].
        -- destruct (Z.ltb_spec m1 m0); [injection Hex as <-; right; exists i0; split; [lia|exact E]|left; exact Hex].
        -- injection Hex as <-. right. exists i0. split; [lia|exact E].
      * intros m0 ->. destruct (Z.ltb_spec m1 m0); [specialize (Hle0 _ eq_refl); lia|apply Hle0; reflexivity].
      * intros j c Hj Hf. destruct (Z.eq_dec j i0) as [->|]; [|apply (Hmin j); [lia|exact Hf]].
        rewrite E in Hf. injection Hf as <-. destruct m as [m0|]; [destruct (Z.ltb_spec m1 m0)|]; specialize (Hle0 _ eq_refl); lia.
    + destruct Hr as [Hr _]. destruct m as [m0|]; [destruct (m1 <? m0)|]; discriminate.
Qed.
Lemma loop_ext : forall cnt i0 f g m r, (forall j c, f j = Ok c -> g j = Ok c) -> loop cnt i0 f m = Ok r -> loop cnt i0 g m = Ok r.
Proof.
  induction cnt as [|cnt IH]; intros i0 f g m r Hfg H; cbn [loop] in *; [exact H|].
  destruct (f i0) as [m1|] eqn:E; cbn [bind] in H; [|discriminate]. rewrite (Hfg _ _ E). cbn [bind]. eapply IH; eauto.
Qed.
Lemma loop_total : forall cnt i0 f m, (forall j, i0 <= j < i0 + Z.of_nat cnt -> exists c, f j = Ok c) ->
  exists r, loop cnt i0 f m = Ok r /\ (cnt <> O \/ m <> None -> r <> None).
Proof.
  induction cnt as [|cnt IH]; intros i0 f m Hf; cbn [loop].
  - exists m. split; [reflexivity|]. intros [H|H]; congruence.
  - destruct (Hf i0 ltac:(lia)) as (c & Hc). rewrite Hc. cbn [bind].
    destruct (IH (i0 + 1) f (match m with None => Some c | Some m0 => if c <? m0 then Some c else m end)) as (r & Hr & Hne).
    { intros j Hj. apply Hf. lia. }
    exists r. split; [exact Hr|]. intros _. apply Hne. right. destruct m as [m0|]; [destruct (c <? m0)|]; congruence.
Qed.

Lemma Em_mono : forall f n s v, Em f n s = Ok v -> Em (S f) n s = Ok v.
Proof.
  induction f as [|f IH]; intros n s v H; [discriminate|].
  remember (S f) as g. cbn [Em] in *. subst g. cbn [Em] in H. cbn zeta in *.
  set (s' := Z.min s (n - 1)) in *.
  destruct (n <=? 0); [exact H|]. destruct ((s' <? Z.min 1 (n - 1)) || (s' >? n - 1)); [exact H|].
  destruct (n =? 1); [exact H|]. destruct (s' =? 1); [exact H|].
  destruct (loop _ 1 (fun i => do a <- Em f i s'; do b <- Em f (n - i) (s' - 1); Ok (i + a + b)) None) as [m|] eqn:Ef;
    cbn [bind] in H; [|discriminate].
  assert (Hext : forall j c, (fun i => do a <- Em f i s'; do b <- Em f (n - i) (s' - 1); Ok (i + a + b)) j = Ok c ->
                 (fun i => do a <- Em (S f) i s'; do b <- Em (S f) (n - i) (s' - 1); Ok (i + a + b)) j = Ok c).
  { intros j c Hj. cbv beta in *. destruct (Em f j s') as [a|] eqn:Ea; cbn [bind] in Hj; [|discriminate].
    destruct (Em f (n - j) (s' - 1)) as [b|] eqn:Eb; cbn [bind] in Hj; [|discriminate].
    rewrite (IH _ _ _ Ea), (IH _ _ _ Eb). exact Hj. }
  rewrite (loop_ext _ _ _ _ _ _ Hext Ef). cbn [bind]. exact H.
Qed.
Lemma Em_mono_le f f' n s v : (f <= f')%nat -> Em f n s = Ok v -> Em f' n s = Ok v.
Proof. induction 1 as [|f' Hle IH]; [auto|]. intros H0. apply Em_mono. auto. Qed.
Lemma Em_total : forall f n s, 1 <= n -> (Z.to_nat n <= f)%nat -> Z.min 1 (n - 1) <= s -> exists v, Em f n s = Ok v.
Proof.
  induction f as [|f IH]; intros n s Hn Hf Hs; [lia|].
  cbn [Em]. cbn zeta. set (s' := Z.min s (n - 1)).
  destruct (Z.leb_spec n 0); [lia|].
  replace ((s' <? Z.min 1 (n - 1)) || (s' >? n - 1)) with false.
  2:{ symmetry. apply orb_false_iff. split; [apply Z.ltb_ge; unfold s'; lia|rewrite Z.gtb_ltb; apply Z.ltb_ge; unfold s'; lia]. }
  destruct (Z.eqb_spec n 1); [eexists; reflexivity|].
  destruct (Z.eqb_spec s' 1); [eexists; reflexivity|].
  assert (Hs2 : 2 <= s') by (unfold s' in *; lia).
  destruct (loop_total (Z.to_nat (n - 1)) 1 (fun i => do a <- Em f i s'; do b <- Em f (n - i) (s' - 1); Ok (i + a + b)) None) as (r & Hr & Hne).
  { intros j Hj. destruct (IH j s' ltac:(lia) ltac:(lia) ltac:(lia)) as (a & ->).
    destruct (IH (n - j) (s' - 1) ltac:(lia) ltac:(lia) ltac:(lia)) as (b & ->). cbn [bind]. eexists; reflexivity. }
  rewrite Hr. cbn [bind]. specialize (Hne ltac:(left; lia)). destruct r; [eexists; reflexivity|congruence].
Qed.

Definition EC (n s : Z) : Z := match Em (Z.to_nat n) n s with Ok v => v | Err _ => 0 end.
Lemma Em_EC f n s : 1 <= n -> (Z.to_nat n <= f)%nat -> Z.min 1 (n - 1) <= s -> Em f n s = Ok (EC n s).
Proof.
  intros Hn Hf Hs. unfold EC. destruct (Em_total (Z.to_nat n) n s Hn ltac:(lia) Hs) as (v & Hv). rewrite Hv.
  apply (Em_mono_le (Z.to_nat n)); assumption.
Qed.
Lemma EC_clampZ n s : EC n s = EC n (Z.min s (n - 1)).
Proof.
  unfold EC. destruct (Z.to_nat n) as [|f] eqn:E; [reflexivity|]. cbn [Em]. cbn zeta.
  replace (Z.min (Z.min s (n - 1)) (n - 1)) with (Z.min s (n - 1)) by lia. reflexivity.
Qed.

(* the hypotheses of GW2.v, for E n s := EC (Z.of_nat n) (Z.of_nat s) *)
Definition E (n s : nat) : Z := EC (Z.of_nat n) (Z.of_nat s).
Theorem E_1 s : E 1 s = 0.
Proof. unfold E, EC. change (Z.to_nat (Z.of_nat 1)) with 1%nat. cbn [Em]. change (Z.of_nat 1) with 1. replace (Z.min (Z.of_nat s) (1 - 1)) with 0 by lia. reflexivity. Qed.
Theorem E_s1 n : (1 <= n)%nat -> 2 * E n 1 = Z.of_nat n * (Z.of_nat n - 1).
Proof.
  intros Hn. unfold E. set (N := Z.of_nat n). change (Z.of_nat 1) with 1.
  pose proof (Em_EC (S (Z.to_nat N)) N 1 ltac:(lia) ltac:(lia) ltac:(lia)) as H. cbn [Em] in H. cbn zeta in H.
  destruct (Z.leb_spec N 0); [lia|].
  destruct (Z.eq_dec N 1) as [E1|E1].
  - rewrite E1. reflexivity.
  - replace (Z.min 1 (N - 1)) with 1 in H by lia. cbn [Z.ltb Z.compare orb] in H.
    replace (1 >? N - 1) with false in H by (symmetry; rewrite Z.gtb_ltb; apply Z.ltb_ge; lia).
    replace (N =? 1) with false in H by (symmetry; apply Z.eqb_neq; lia). cbn in H. injection H as <-.
    assert (Hev : (N * (N - 1)) mod 2 = 0).
    { rewrite Z.mul_mod by lia. destruct (Z.mod_pos_bound N 2 ltac:(lia)).
      assert (Hc : N mod 2 = 0 \/ N mod 2 = 1) by lia. destruct Hc as [E|E]; rewrite E; [reflexivity|].
      rewrite Zminus_mod, E. reflexivity. }
    pose proof (Z.div_mod (N * (N - 1)) 2 ltac:(lia)). lia.
Qed.
Theorem E_clamp n s : (2 <= n)%nat -> (n - 1 < s)%nat -> E n s = E n (n - 1).
Proof. intros Hn Hs. unfold E. rewrite (EC_clampZ _ (Z.of_nat s)), (EC_clampZ _ (Z.of_nat (n - 1))). f_equal. lia. Qed.

Lemma E_unfold n s : (2 <= s)%nat -> (s <= n - 1)%nat ->
  (exists i, (1 <= i < n)%nat /\ E n s = Z.of_nat i + E i s + E (n - i) (s - 1)) /\
  (forall i, (1 <= i < n)%nat -> E n s <= Z.of_nat i + E i s + E (n - i) (s - 1)).
Proof.
  intros Hs Hsn. unfold E. set (N := Z.of_nat n). set (S_ := Z.of_nat s).
  pose proof (Em_EC (S (Z.to_nat N)) N S_ ltac:(lia) ltac:(lia) ltac:(lia)) as H. cbn [Em] in H. cbn zeta in H.
  replace (Z.min S_ (N - 1)) with S_ in H by lia.
  destruct (Z.leb_spec N 0); [lia|].
  replace ((S_ <? Z.min 1 (N - 1)) || (S_ >? N - 1)) with false in H.
  2:{ symmetry. apply orb_false_iff. split; [apply Z.ltb_ge; lia|rewrite Z.gtb_ltb; apply Z.ltb_ge; lia]. }
  replace (N =? 1) with false in H by (symmetry; apply Z.eqb_neq; lia).
  replace (S_ =? 1) with false in H by (symmetry; apply Z.eqb_neq; lia).
  destruct (loop _ 1 _ None) as [r|] eqn:Ef; cbn [bind] in H; [|discriminate].
  destruct r as [v|]; [|discriminate]. injection H as <-.
  destruct (loop_spec _ _ _ _ _ Ef) as [_ (Hex & _ & Hmin)].
  assert (Hval : forall j, 1 <= j < N -> (fun i => do a <- Em (Z.to_nat N) i S_; do b <- Em (Z.to_nat N) (N - i) (S_ - 1); Ok (i + a + b)) j
                                         = Ok (j + EC j S_ + EC (N - j) (S_ - 1))).
  { intros j Hj. cbv beta. rewrite (Em_EC (Z.to_nat N) j S_ ltac:(lia) ltac:(lia) ltac:(lia)).
    rewrite (Em_EC (Z.to_nat N) (N - j) (S_ - 1) ltac:(lia) ltac:(lia) ltac:(lia)). reflexivity. }
  split.
  - destruct Hex as [Hex|(j & Hj & Hf)]; [discriminate|].
    rewrite Hval in Hf by lia. injection Hf as <-.
    exists (Z.to_nat j). split; [lia|]. rewrite !Z2Nat.id by lia.
    replace (Z.of_nat (n - Z.to_nat j)) with (N - j) by lia. replace (Z.of_nat (s - 1)) with (S_ - 1) by lia. reflexivity.
  - intros i Hi. specialize (Hmin (Z.of_nat i) _ ltac:(lia) (Hval (Z.of_nat i) ltac:(lia))).
    replace (Z.of_nat (n - i)) with (N - Z.of_nat i) by lia. replace (Z.of_nat (s - 1)) with (S_ - 1) by lia. exact Hmin.
Qed.
Theorem E_dp n s : (2 <= s)%nat -> (s <= n - 1)%nat -> exists i, (1 <= i < n)%nat /\ E n s = Z.of_nat i + E i s + E (n - i) (s - 1).
Proof. intros H1 H2. exact (proj1 (E_unfold n s H1 H2)). Qed.
Theorem E_le n s i : (2 <= s)%nat -> (s <= n - 1)%nat -> (1 <= i < n)%nat -> E n s <= Z.of_nat i + E i s + E (n - i) (s - 1).
Proof. intros H1 H2 H3. exact (proj2 (E_unfold n s H1 H2) i H3). Qed.
Print Assumptions E_le.
Print Assumptions E_s1.
