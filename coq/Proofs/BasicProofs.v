From Coq Require Import ZArith List Lia Bool.
Require Import Actions Online.
Import ListNotations.
Open Scope Z_scope.

(* ================= C10 : finalize ================= *)
Theorem C10_online b k : max_n_ b = None ->
  (snd (finalize k b) = None <-> 1 <= k <= n_ b) /\
  (snd (finalize k b) = None -> fst (finalize k b) = {| n_ := k; r_ := r_ b; max_n_ := Some k |}).
Proof.
  intros Hm. unfold finalize. rewrite Hm.
  destruct (Z.ltb_spec k 1); cbn [fst snd].
  - split; [split; [discriminate|lia]|discriminate].
  - destruct (Z.geb_spec (n_ b) k); cbn [fst snd]; split; try (split; [intros _; lia | reflexivity || discriminate]); try reflexivity; try discriminate.
    + split; [discriminate|lia].
Qed.
Theorem C10_known b k m : max_n_ b = Some m ->
  (snd (finalize k b) = None <-> k = m /\ n_ b = m /\ 1 <= k) /\ fst (finalize k b) = b.
Proof.
  intros Hm. unfold finalize. rewrite Hm.
  destruct (Z.ltb_spec k 1); cbn [fst snd]; [split; [split; [discriminate|lia]|reflexivity]|].
  destruct (Z.eqb_spec (n_ b) k), (Z.eqb_spec m k); cbn [negb orb fst snd]; split; try reflexivity;
    (split; [try discriminate; intros _; lia | try (intros; lia); try reflexivity]).
Qed.
Theorem C10_reject b k : snd (finalize k b) <> None ->
  fst (finalize k b) = b /\ snd (finalize k b) = Some (if k <? 1 then ValueError else RuntimeError).
Proof.
  unfold finalize. destruct (Z.ltb_spec k 1); cbn [fst snd]; [intros _; split; reflexivity|].
  destruct (max_n_ b) as [m|].
  - destruct (negb (n_ b =? k) || negb (m =? k)); cbn [fst snd]; [intros _; split; reflexivity|congruence].
  - destruct (n_ b >=? k); cbn [fst snd]; [congruence|intros _; split; reflexivity].
Qed.
(* after a successful finalisation of an online schedule in its forward loop the next action is EndForward *)
Theorem C10_next_endforward s k : pcv s = PFwd -> max_n_ (b s) = None -> snd (finalize k (b s)) = None ->
  let s' := {| k := Online.k s; pcv := pcv s; b := fst (finalize k (b s)); snaps := snaps s; exh := exh s |} in
  snd (next s') = Yield EndForward.
Proof.
  intros Hpc Hm Hok. destruct (C10_online (b s) k Hm) as [_ Hst]. rewrite (Hst Hok). clear Hst Hok.
  destruct s as [kk p bb sn ex]. cbn [pcv Online.k b snaps exh] in *. subst p.
  destruct kk as [| |mv|per bs bst tr]; cbv [next resume set_pc Online.k pcv b max_n_ n_ r_ snaps exh snd fst]; reflexivity.
Qed.

