(* C14, first clause: for fixed n, trajectory and total unit count, the Multistage stream is the same for every split into
   RAM and DISK units except for the storage named in each checkpoint action -- for the extracted machine, by simulation:
   the control flow never looks at a label. *)
From Coq Require Import ZArith List Lia Bool.
Require Import Actions NAdvance Multistage.
Import ListNotations.
Open Scope Z_scope.

(* forget which of RAM / DISK a checkpoint action names *)
Definition erase_st (s : storage) : storage := match s with RAM | DISK => RAM | x => x end.
Definition erase (a : action) : action :=
  match a with
  | Forward n0 n1 wi wa s => Forward n0 n1 wi wa (erase_st s)
  | Copy n s d => Copy n (erase_st s) (erase_st d) | Move n s d => Move n (erase_st s) (erase_st d)
  | x => x end.
Definition erase_out (o : outcome) : outcome := match o with Yield a => Yield (erase a) | x => x end.

Section SPLIT.
Variable c1 c2 : cfg.
Hypothesis Hn : max_n c1 = max_n c2.
Hypothesis Ht : tr c1 = tr c2.
Hypothesis Hlen : length (labels c1) = length (labels c2).
Hypothesis Hl1 : Forall (fun l => l = RAM \/ l = DISK) (labels c1).
Hypothesis Hl2 : Forall (fun l => l = RAM \/ l = DISK) (labels c2).

Lemma total_eq : total c1 = total c2. Proof. unfold total. rewrite Hlen. reflexivity. Qed.
Lemma label_sim d : match label c1 d, label c2 d with
                    | Ok a, Ok b => erase_st a = erase_st b
                    | Err e1, Err e2 => e1 = e2
                    | _, _ => False end.
Proof.
  unfold label. destruct (nth_error (labels c1) d) as [a|] eqn:E1, (nth_error (labels c2) d) as [b|] eqn:E2.
  - rewrite Forall_forall in Hl1, Hl2. destruct (Hl1 a (nth_error_In _ _ E1)) as [-> | ->], (Hl2 b (nth_error_In _ _ E2)) as [-> | ->]; reflexivity.
  - apply nth_error_None in E2. assert (d < length (labels c1))%nat by (apply nth_error_Some; congruence). lia.
  - apply nth_error_None in E1. assert (d < length (labels c2))%nat by (apply nth_error_Some; congruence). lia.
  - reflexivity.
Qed.

(* one resumption: same next state, same outcome up to the storage labels *)
Lemma resume_sim : forall f s, fst (resume f c1 s) = fst (resume f c2 s) /\ erase_out (snd (resume f c1 s)) = erase_out (snd (resume f c2 s)).
Proof.
  induction f as [|f IH]; intros s; [split; reflexivity|].
  cbn [resume]. rewrite <- Hn, <- Ht, <- total_eq.
  assert (Hpush : forall h nx,
    let r1 := match nadv (h - n_ s) (total c1 - len (snaps s)) (tr c1) with
              | Err e => (s, Raise e)
              | Ok a => if len (snaps s) >=? total c1 then (s, Raise RuntimeError) else
                        match label c1 (length (snaps s)) with Err e => (s, Raise e) | Ok lb =>
                        (mk nx (n_ s + a) (r_ s) (n_ s :: snaps s) false, Yield (Forward (n_ s) (n_ s + a) true false lb)) end end in
    let r2 := match nadv (h - n_ s) (total c1 - len (snaps s)) (tr c1) with
              | Err e => (s, Raise e)
              | Ok a => if len (snaps s) >=? total c1 then (s, Raise RuntimeError) else
                        match label c2 (length (snaps s)) with Err e => (s, Raise e) | Ok lb =>
                        (mk nx (n_ s + a) (r_ s) (n_ s :: snaps s) false, Yield (Forward (n_ s) (n_ s + a) true false lb)) end end in
    fst r1 = fst r2 /\ erase_out (snd r1) = erase_out (snd r2)).
  { intros h nx. cbn zeta. destruct (nadv _ _ _); [|split; reflexivity]. destruct (_ >=? _); [split; reflexivity|].
    pose proof (label_sim (length (snaps s))) as Hs.
    destruct (label c1 (length (snaps s))), (label c2 (length (snaps s))); try contradiction; [|subst; split; reflexivity].
    split; [reflexivity|]. cbn [snd erase_out erase]. rewrite Hs. reflexivity. }
  destruct (pcv s).
  - destruct (n_ s <? max_n c1 - 1); [apply Hpush|]. destruct (negb _); split; reflexivity.
  - split; reflexivity.
  - split; reflexivity.
  - destruct (r_ s <? max_n c1).
    + clear Hpush. destruct (snaps s) as [|cp rest]; [split; reflexivity|].
      pose proof (label_sim (length rest)) as Hs.
      destruct (label c1 (length rest)), (label c2 (length rest)); try contradiction; [|subst; split; reflexivity].
      destruct (cp =? _); (split; [reflexivity|]); cbn [snd erase_out erase erase_st]; rewrite Hs; reflexivity.
    + destruct (negb _); [split; reflexivity|]. destruct (snaps s); split; reflexivity.
  - destruct (nadv _ _ _); split; reflexivity.
  - destruct (n_ s <? max_n c1 - r_ s - 1); [apply Hpush|]. destruct (negb _); [split; reflexivity|]. apply IH.
  - split; reflexivity.
  - split; reflexivity.
  - split; reflexivity.
  - split; reflexivity.
Qed.
Lemma next_sim s : fst (next c1 s) = fst (next c2 s) /\ erase_out (snd (next c1 s)) = erase_out (snd (next c2 s)).
Proof.
  unfold next. destruct (resume_sim 3 s) as [H1 H2].
  destruct (resume 3 c1 s) as [s1 o1], (resume 3 c2 s) as [s2 o2]. cbn [fst snd] in *. subst s2.
  destruct o1, o2; cbn [erase_out] in H2; try discriminate; cbn [fst snd erase_out]; auto.
Qed.
(* the whole stream *)
Theorem C14_labels_only : forall fuel s, map erase_out (run fuel c1 s) = map erase_out (run fuel c2 s).
Proof.
  induction fuel as [|f IH]; intros s; [reflexivity|]. cbn [run].
  destruct (next_sim s) as [H1 H2]. destruct (next c1 s) as [s1 o1], (next c2 s) as [s2 o2]. cbn [fst snd] in *. subst s2.
  destruct o1, o2; cbn [erase_out] in H2; try discriminate; cbn [map erase_out].
  - injection H2 as H2. rewrite H2. f_equal. apply IH.
  - reflexivity.
  - injection H2 as ->. reflexivity.
Qed.
End SPLIT.
Print Assumptions C14_labels_only.
