(* HRevolve, bridge 1: hrevolve's op lists use the generic operations Read / Write / Discard [k, i] and Write_Forward /
   Discard_Forward [k, i] instead of the *_memory / *_disk ones; the index-based converter of Model/RevConv.v treats them alike
   provided every Write_Forward is followed, three ops later, by its Discard_Forward (okq) -- which the grammar guarantees. *)
From Coq Require Import ZArith List Lia Bool.
Require Import Actions Ops RevConv RevBridge1.
Require RevBlk.
Import ListNotations.
Open Scope Z_scope.

Definition injH (o : RevBlk.op) : op :=
  match o with RevBlk.OF a b => OF a b | RevBlk.OB a b => OB a b | RevBlk.ORM i => OR 0 i | RevBlk.OWM i => OW 0 i
  | RevBlk.ODM i => OD 0 i | RevBlk.OWFM i => OWF 0 i | RevBlk.ODFM i => ODF 0 i | RevBlk.ORD i => OR 1 i | RevBlk.OWD i => OW 1 i end.
Definition okq (L0 : list RevBlk.op) : Prop :=
  forall i a, nth_error L0 i = Some (RevBlk.OWFM a) -> nth_error L0 (i + 3) = Some (RevBlk.ODFM a).

Lemma nth_error_injH L0 i : nth_error (map injH L0) i = option_map injH (nth_error L0 i).
Proof. revert i; induction L0 as [|x l IH]; intros [|i]; cbn; auto. Qed.
Lemma last_op_injH L0 : last_op (map injH L0) = option_map injH (prevop L0 0).
Proof. unfold last_op, prevop. rewrite <- map_rev. destruct (rev L0); reflexivity. Qed.

Lemma conv_n0_injH o : wf o -> conv_n0_st (injH o) =
  Ok (match o with RevBlk.OF a _ | RevBlk.OB a _ | RevBlk.ORM a | RevBlk.OWM a | RevBlk.ODM a | RevBlk.OWFM a | RevBlk.ODFM a | RevBlk.ORD a | RevBlk.OWD a => a end,
      match o with RevBlk.OF _ _ | RevBlk.OB _ _ => None | RevBlk.ORM _ | RevBlk.OWM _ | RevBlk.ODM _ => Some RAM | RevBlk.ORD _ | RevBlk.OWD _ => Some DISK | _ => Some WORK end).
Proof.
  destruct o; cbn [injH conv_n0_st wf lvl Z.eqb bind]; intros H; try reflexivity.
  - destruct (Z.leb_spec b a); [lia|reflexivity].
  - destruct (Z.leb_spec a b); [lia|reflexivity].
Qed.

Lemma conv1_bridgeH N L0 i o prev c c' acts : Forall wf L0 -> okq L0 -> nth_error L0 i = Some o -> prevop L0 i = Some prev ->
  RevBlk.conv1 N i (Some prev) o (skipn (S i) L0) c = inl (c', acts) ->
  conv1 N (map injH L0) i (cmap c) = Ok (cmap c', acts).
Proof.
  intros Hwf Hq Hnth Hprev H.
  assert (Hwo : wf o) by (rewrite Forall_forall in Hwf; apply Hwf; eapply nth_error_In; eauto).
  assert (Hwp : wf prev).
  { rewrite Forall_forall in Hwf; apply Hwf. destruct i as [|j]; cbn [prevop] in Hprev.
    - destruct (rev L0) as [|x r] eqn:E; [discriminate|]. injection Hprev as <-. apply in_rev. rewrite E. left; reflexivity.
    - eapply nth_error_In; eauto. }
  unfold conv1. rewrite nth_error_injH, Hnth. cbn [option_map]. rewrite (conv_n0_injH o Hwo). cbn [bind].
  assert (Hpv : match i with O => last_op (map injH L0) | S j => nth_error (map injH L0) j end = Some (injH prev)).
  { destruct i as [|j]; [rewrite last_op_injH, Hprev; reflexivity|rewrite nth_error_injH]. cbn [prevop] in Hprev. rewrite Hprev. reflexivity. }
  destruct o as [a b|a b|a|a|a|a|a|a|a]; cbn [injH RevBlk.conv1] in *.
  - (* OF *)
    cbn [n_ cmap]. destruct (negb (a =? RevBlk.n_ c)); [discriminate|].
    rewrite Hpv. rewrite (conv_n0_injH prev Hwp). cbn [bind].
    destruct prev as [pa pb|pa pb|pa|pa|pa|pa|pa|pa|pa]; cbn [injH] in *.
    all: repeat match type of H with context [if ?b then _ else _] => destruct b eqn:? end; try discriminate;
         injection H as <- <-; cbn [bind upd cmap r_ n_ snaps w_storage write_ics adj_deps w_n0 RevBlk.n_ RevBlk.r_ RevBlk.snaps RevBlk.w_st RevBlk.w_ics RevBlk.w_adj RevBlk.w_n0];
         unfold set_add, RevBlk.mem in *; cbn [RevBlk.n_ RevBlk.r_ RevBlk.snaps] in *;
         repeat match goal with E : _ = _ |- _ => rewrite E end; try reflexivity.
  - (* OB *)
    cbn [n_ r_ cmap]. repeat match type of H with context [if ?b then _ else _] => destruct b eqn:? end; try discriminate.
    injection H as <- <-. reflexivity.
  - (* ORM *)
    cbn [n_ r_ snaps cmap]. unfold RevBlk.mem, RevBlk.del in H.
    repeat match type of H with context [if ?b then _ else _] => destruct b eqn:? end; try discriminate; injection H as <- <-; reflexivity.
  - (* OWM *)
    cbn [n_ cmap]. destruct (negb _); [discriminate|]. injection H as <- <-. reflexivity.
  - (* ODM *)
    destruct (Nat.ltb i 2); [discriminate|]. injection H as <- <-. reflexivity.
  - (* OWFM: by okq the op three places on is the matching Discard_Forward *)
    cbn [n_ cmap]. destruct (negb (a =? RevBlk.n_ c + 1)); [discriminate|].
    rewrite nth_error_skipn in H. replace (S i + 2)%nat with (i + 3)%nat in H by lia.
    rewrite nth_error_injH. rewrite (Hq i a Hnth) in *. cbn [option_map injH conv_n0_st bind andb st_opt_eqb st_eqb].
    rewrite Z.eqb_refl in *. cbn [andb]. injection H as <- <-. reflexivity.
  - (* ODFM *)
    cbn [n_ cmap]. destruct (negb _); [discriminate|]. injection H as <- <-. reflexivity.
  - (* ORD *)
    cbn [n_ r_ snaps cmap]. unfold RevBlk.mem, RevBlk.del in H.
    repeat match type of H with context [if ?b then _ else _] => destruct b eqn:? end; try discriminate; injection H as <- <-; reflexivity.
  - (* OWD *)
    cbn [n_ cmap]. destruct (negb _); [discriminate|]. injection H as <- <-. reflexivity.
Qed.

Lemma conv_linkH N : forall post pre prev c acts c' lo j, Forall wf (pre ++ post) -> okq (pre ++ post) ->
  (post <> [] -> prevop (pre ++ post) (length pre) = Some prev) ->
  RevBlk.conv N (length pre) (Some prev) c post = (acts, inl (c', lo, j)) ->
  convI N (length post) (map injH (pre ++ post)) (length pre) (cmap c) = (acts, inl (cmap c')).
Proof.
  induction post as [|o post IH]; intros pre prev c acts c' lo j Hwf Hq Hprev H; cbn [RevBlk.conv length convI] in *.
  - injection H as <- <- _ _. reflexivity.
  - destruct (RevBlk.conv1 N (length pre) (Some prev) o post c) as [[c1 a1]|e] eqn:E1; [|discriminate].
    destruct (RevBlk.conv N (S (length pre)) (Some o) c1 post) as [a2 r2] eqn:E2. injection H as <- ->.
    assert (E1' : RevBlk.conv1 N (length pre) (Some prev) o (skipn (S (length pre)) (pre ++ o :: post)) c = inl (c1, a1)) by (rewrite skipn_mid; exact E1).
    rewrite (conv1_bridgeH N (pre ++ o :: post) (length pre) o prev c c1 a1 Hwf Hq (nth_error_mid pre o post) (Hprev ltac:(discriminate)) E1').
    specialize (IH (pre ++ [o]) o c1 a2 c' lo j).
    rewrite <- app_assoc in IH. cbn [app] in IH. rewrite app_length in IH. cbn [length] in IH. replace (length pre + 1)%nat with (S (length pre)) in IH by lia.
    rewrite (IH Hwf Hq (fun _ => prevop_app_S pre o post) E2). reflexivity.
Qed.

(* okq is closed under concatenation *)
Lemma okq_app l1 l2 : okq l1 -> okq l2 -> okq (l1 ++ l2).
Proof.
  intros H1 H2 i a Hn. destruct (Nat.lt_ge_cases i (length l1)) as [Hlt|Hge].
  - rewrite nth_error_app1 in Hn by exact Hlt. pose proof (H1 i a Hn) as H3.
    assert (i + 3 < length l1)%nat by (apply nth_error_Some; rewrite H3; discriminate). rewrite nth_error_app1 by assumption. exact H3.
  - rewrite nth_error_app2 in Hn by exact Hge. rewrite nth_error_app2 by lia. replace (i + 3 - length l1)%nat with (i - length l1 + 3)%nat by lia. apply H2. exact Hn.
Qed.
Lemma okq_nowfm l : Forall (fun o => match o with RevBlk.OWFM _ => False | _ => True end) l -> okq l.
Proof. intros H i a Hn. apply nth_error_In in Hn. rewrite Forall_forall in H. specialize (H _ Hn). contradiction. Qed.
Lemma okq_adj q : okq (RevBlk.adj q).
Proof. intros [|[|[|[|i]]]] a Hn; cbn in Hn; try discriminate; [injection Hn as <-; reflexivity|destruct i; discriminate]. Qed.
