(* A class-independent fact about the reference executor: along a monitored run that meets no error, the number of
   checkpoints held in RAM / DISK never exceeds the declared budget, and an action that writes to, or copies / moves from or to,
   RAM or DISK can only be accepted if that budget is positive.  With it, C11 for the Revolve class: touched => uses. *)
From Coq Require Import ZArith List Lia Bool.
Require Import Actions Exec Sched ExecFacts RunFacts UsesProofs.
Import ListNotations.
Open Scope Z_scope.

Definition BudInv (p : xparams) (X : xstate) : Prop := within (budget_ram p) (len (ram X)) = true /\ within (budget_disk p) (len (disk X)) = true.
Definition bpos (p : xparams) (sg : storage) : Prop := match budget p sg with Some b => 0 < b | None => True end.

Lemma first_err_none_app l1 l2 : first_err (l1 ++ l2) = None -> first_err l1 = None /\ first_err l2 = None.
Proof. induction l1 as [|[e|] l1 IH]; cbn; [auto|discriminate|exact IH]. Qed.
Lemma chk_none b e : chk b e = None -> b = true. Proof. destruct b; [reflexivity|discriminate]. Qed.
Lemma can_put_ok p X s k : first_err (can_put p X s k) = None -> is_cp s = true -> within (budget p s) (len (sel X s) + 1) = true.
Proof. unfold can_put. intros H Hs. rewrite Hs in H. cbn [first_err] in H. destruct (chk _ E_overwrite); [discriminate|]. destruct (within _ _); [reflexivity|discriminate]. Qed.
Lemma len_remove k l : len (remove k l) <= len l.
Proof. unfold len. induction l as [|[k' v] l IH]; cbn [remove length]; [lia|]. destruct (k =? k'); cbn [length]; lia. Qed.
Lemma lookup_some_len k l v : lookup k l = Some v -> 1 <= len l.
Proof. destruct l; [discriminate|]. unfold len. cbn [length]. lia. Qed.
Lemma within_le b n m : within b m = true -> n <= m -> within b n = true.
Proof. destruct b as [x|]; cbn; [|auto]. intros H Hn. apply Z.leb_le in H. apply Z.leb_le. lia. Qed.
Lemma within_pos b n : within b n = true -> 1 <= n -> match b with Some x => 0 < x | None => True end.
Proof. destruct b as [x|]; cbn; [|auto]. intros H Hn. apply Z.leb_le in H. lia. Qed.

Lemma BudInv_sel p X s : BudInv p X -> within (budget p s) (len (sel X s)) = true.
Proof. intros [H1 H2]. destruct s; cbn [budget sel]; auto. Qed.

Lemma check_touch p k e X a sg : check p k e X a = None -> BudInv p X -> touches a sg -> bpos p sg.
Proof.
  intros Hc HB [Hcp Ht]. unfold bpos.
  destruct a as [n0 n1 wi wa s|n1 n0 cl|n src dst|n src dst| |]; try contradiction.
  - destruct Ht as [-> Hw]. cbn [check] in Hc. apply first_err_none_app in Hc. destruct Hc as [_ Hc].
    apply (within_pos _ _ (can_put_ok _ _ _ _ Hc Hcp)). unfold len. lia.
  - cbn [check] in Hc. apply first_err_none_app in Hc. destruct Hc as [Hc1 Hc2].
    cbn [first_err] in Hc1.
    repeat match type of Hc1 with context [chk ?b ?e] => let E := fresh "E" in destruct (chk b e) eqn:E; [discriminate|apply chk_none in E] end.
    destruct (lookup n (sel X src)) as [c|] eqn:El; [|cbn in *; discriminate].
    destruct Ht as [-> | ->].
    + apply (within_pos _ _ (BudInv_sel p X sg HB)). eapply lookup_some_len; eauto.
    + destruct sg; cbn in Hcp; try discriminate.
      * apply (within_pos _ _ (can_put_ok _ _ _ _ Hc2 eq_refl)). unfold len. lia.
      * apply (within_pos _ _ (can_put_ok _ _ _ _ Hc2 eq_refl)). unfold len. lia.
  - cbn [check] in Hc. apply first_err_none_app in Hc. destruct Hc as [Hc1 Hc2].
    cbn [first_err] in Hc1.
    repeat match type of Hc1 with context [chk ?b ?e] => let E := fresh "E" in destruct (chk b e) eqn:E; [discriminate|apply chk_none in E] end.
    destruct (lookup n (sel X src)) as [c|] eqn:El; [|cbn in *; discriminate].
    destruct Ht as [-> | ->].
    + apply (within_pos _ _ (BudInv_sel p X sg HB)). eapply lookup_some_len; eauto.
    + destruct sg; cbn in Hcp; try discriminate.
      * apply (within_pos _ _ (can_put_ok _ _ _ _ Hc2 eq_refl)). unfold len. lia.
      * apply (within_pos _ _ (can_put_ok _ _ _ _ Hc2 eq_refl)). unfold len. lia.
Qed.

Lemma ram_set_cnt X c : ram (set_cnt X c) = ram X. Proof. reflexivity. Qed.
Lemma disk_set_cnt X c : disk (set_cnt X c) = disk X. Proof. reflexivity. Qed.
Lemma BudInv_cnt p X c : BudInv p (set_cnt X c) <-> BudInv p X. Proof. unfold BudInv. cbn. tauto. Qed.
Lemma BudInv_work p X f a b : BudInv p (set_work X f a b) <-> BudInv p X. Proof. unfold BudInv. cbn. tauto. Qed.
Lemma BudInv_store p X s l : BudInv p X -> (is_cp s = true -> within (budget p s) (len l) = true) -> BudInv p (set_store X s l).
Proof. intros [H1 H2] H. unfold BudInv. destruct s; cbn [set_store ram disk]; auto. Qed.
Lemma BudInv_put p X s k c : BudInv p X -> first_err (can_put p X s k) = None -> BudInv p (put X s k c).
Proof.
  intros HB Hc. unfold put. destruct (is_cp s) eqn:Es; [|exact HB]. apply BudInv_cnt. apply BudInv_store; [exact HB|].
  intros _. pose proof (can_put_ok p X s k Hc Es) as H. unfold len in *. cbn [length]. replace (Z.of_nat (S (length (sel X s)))) with (Z.of_nat (length (sel X s)) + 1) by lia. exact H.
Qed.
Lemma can_put_ext p X Y s k : sel X s = sel Y s -> can_put p X s k = can_put p Y s k.
Proof. intros H. unfold can_put. rewrite H. reflexivity. Qed.

Lemma apply_budinv p k e X a : check p k e X a = None -> BudInv p X -> BudInv p (apply p e X a).
Proof.
  intros Hc HB. destruct a as [n0 n1 wi wa sg|n1 n0 cl|n src dst|n src dst| |]; cbn [check apply] in *.
  - apply first_err_none_app in Hc. destruct Hc as [_ Hc]. apply BudInv_cnt. apply BudInv_put; [apply BudInv_work; exact HB|].
    exact Hc.
  - exact HB.
  - apply first_err_none_app in Hc. destruct Hc as [Hc1 Hc2].
    destruct (lookup n (sel X src)) as [c|] eqn:El; [|exact HB].
    destruct dst.
    + apply BudInv_put; [apply BudInv_cnt; exact HB|]. exact Hc2.
    + apply BudInv_put; [apply BudInv_cnt; exact HB|]. exact Hc2.
    + apply BudInv_work. apply BudInv_cnt. exact HB.
    + unfold put. cbn [is_cp]. apply BudInv_cnt. exact HB.
  - apply first_err_none_app in Hc. destruct Hc as [Hc1 Hc2].
    destruct (lookup n (sel X src)) as [c|] eqn:El; [|exact HB].
    assert (HB1 : BudInv p (set_store X src (remove n (sel X src)))).
    { apply BudInv_store; [exact HB|]. intros _. apply (within_le _ _ _ (BudInv_sel p X src HB)). apply len_remove. }
    destruct dst.
    + apply BudInv_put; [apply BudInv_cnt; exact HB1|]. exact Hc2.
    + apply BudInv_put; [apply BudInv_cnt; exact HB1|]. exact Hc2.
    + apply BudInv_work. apply BudInv_cnt. exact HB1.
    + unfold put. cbn [is_cp]. apply BudInv_cnt. exact HB1.
  - unfold BudInv in *. cbn. exact HB.
  - unfold BudInv in *. cbn. exact HB.
Qed.

(* ---- along a monitored run ---- *)
Definition touch_line (p : xparams) (l : line) : Prop :=
  match l with LNext (Yield a) _ => forall sg, touches a sg -> bpos p sg | _ => True end.

Lemma mon_step_err p s' a m : merr_ m <> None -> merr_ (mon_step p s' a m) <> None.
Proof. unfold mon_step. destruct (merr_ m); [intros _; discriminate|congruence]. Qed.
Lemma mon_step_inv p s' a m : mon_ok (mon_step p s' a m) ->
  mon_ok m /\ check p (negb (isnone (get_max_n s'))) (is_exhausted s') (mx m) a = None /\ mx (mon_step p s' a m) = apply p (is_exhausted s') (mx m) a.
Proof.
  unfold mon_ok, mon_step. destruct (merr_ m) eqn:Em; [cbn; discriminate|].
  unfold exec. destruct (check p _ _ (mx m) a) eqn:Ec; [cbn; discriminate|]. cbn [mx]. intros _. auto.
Qed.

Lemma loop_err p : forall lim k s m, merr_ m <> None -> merr_ (snd (fst (run_loop p lim k s m))) <> None.
Proof.
  induction lim as [|lim IH]; intros k s m Hm; cbn [run_loop]; [exact Hm|].
  destruct (next s) as [s1 o]. destruct o as [a| |e]; [|exact Hm|exact Hm].
  destruct (_ <=? 0); [cbn [fst snd]; apply mon_step_err; exact Hm|].
  pose proof (IH (match a with EndReverse => k - 1 | _ => k end) s1 (mon_step p s1 a m) (mon_step_err p s1 a m Hm)) as H.
  destruct (run_loop p lim _ s1 (mon_step p s1 a m)) as [[s2 m2] l2]. exact H.
Qed.
Lemma ops_err p : forall ops s m, merr_ m <> None -> merr_ (snd (fst (run_ops p s m ops))) <> None.
Proof.
  induction ops as [|op ops IH]; intros s m Hm; cbn [run_ops]; [exact Hm|]. destruct op as [|kk|kk lim].
  - destruct (next s) as [s1 o].
    pose proof (IH s1 (match o with Yield a => mon_step p s1 a m | _ => m end) ltac:(destruct o; [apply mon_step_err|..]; exact Hm)) as H.
    destruct (run_ops p s1 _ ops) as [[s2 m2] l2]. exact H.
  - destruct (finalize kk s) as [s1 e]. pose proof (IH s1 m Hm) as H. destruct (run_ops p s1 m ops) as [[s2 m2] l2]. exact H.
  - pose proof (loop_err p lim kk s m Hm) as H1. destruct (run_loop p lim kk s m) as [[s1 m1] l1]. cbn [fst snd] in H1.
    pose proof (IH s1 m1 H1) as H. destruct (run_ops p s1 m1 ops) as [[s2 m2] l2]. exact H.
Qed.
Lemma ok_dec m : mon_ok m \/ merr_ m <> None.
Proof. unfold mon_ok. destruct (merr_ m); [right; discriminate|left; reflexivity]. Qed.

Lemma loop_touch p : forall lim k s m s' m' ls, run_loop p lim k s m = (s', m', ls) -> mon_ok m' -> BudInv p (mx m) ->
  mon_ok m /\ BudInv p (mx m') /\ Forall (touch_line p) ls.
Proof.
  induction lim as [|lim IH]; intros k s m s' m' ls H Hok HB; cbn [run_loop] in H.
  - injection H as <- <- <-. auto.
  - destruct (next s) as [s1 o] eqn:En. destruct o as [a| |e].
    + destruct (_ <=? 0).
      * injection H as <- <- <-. destruct (mon_step_inv p s1 a m Hok) as (Hm & Hc & Hx). rewrite Hx.
        split; [exact Hm|]. split; [eapply apply_budinv; eauto|]. constructor; [|constructor]. intros sg Ht. eapply check_touch; eauto.
      * destruct (run_loop p lim _ s1 (mon_step p s1 a m)) as [[s2 m2] l2] eqn:Er. injection H as <- <- <-.
        destruct (ok_dec (mon_step p s1 a m)) as [Hok1|Hne].
        2:{ exfalso. pose proof (loop_err p lim (match a with EndReverse => k - 1 | _ => k end) s1 _ Hne) as Hc. rewrite Er in Hc. cbn [fst snd] in Hc. unfold mon_ok in Hok. congruence. }
        destruct (mon_step_inv p s1 a m Hok1) as (Hm & Hc & Hx).
        destruct (IH _ _ _ _ _ _ Er Hok ltac:(rewrite Hx; eapply apply_budinv; eauto)) as (_ & HB2 & Hl2).
        split; [exact Hm|]. split; [exact HB2|]. constructor; [|exact Hl2]. intros sg Ht. eapply check_touch; eauto.
    + injection H as <- <- <-. split; [exact Hok|split; [exact HB|constructor; [exact I|constructor]]].
    + injection H as <- <- <-. split; [exact Hok|split; [exact HB|constructor; [exact I|constructor]]].
Qed.

Theorem run_touch p : forall ops s m s' m' ls, run_ops p s m ops = (s', m', ls) -> mon_ok m' -> BudInv p (mx m) ->
  mon_ok m /\ BudInv p (mx m') /\ Forall (touch_line p) ls.
Proof.
  induction ops as [|op ops IH]; intros s m s' m' ls H Hok HB; cbn [run_ops] in H.
  - injection H as <- <- <-. auto.
  - destruct op as [|kk|kk lim].
    + destruct (next s) as [s1 o] eqn:En.
      destruct (run_ops p s1 _ ops) as [[s2 m2] l2] eqn:Er. injection H as <- <- <-.
      destruct o as [a| |e].
      * destruct (ok_dec (mon_step p s1 a m)) as [Hok1|Hne].
        2:{ exfalso. pose proof (ops_err p ops s1 _ Hne) as Hc. rewrite Er in Hc. cbn [fst snd] in Hc. unfold mon_ok in Hok. congruence. }
        destruct (mon_step_inv p s1 a m Hok1) as (Hm & Hc & Hx).
        destruct (IH _ _ _ _ _ Er Hok ltac:(rewrite Hx; eapply apply_budinv; eauto)) as (_ & HB2 & Hl2).
        split; [exact Hm|]. split; [exact HB2|]. constructor; [|exact Hl2]. intros sg Ht. eapply check_touch; eauto.
      * destruct (IH _ _ _ _ _ Er Hok HB) as (Hm & HB2 & Hl2). split; [exact Hm|split; [exact HB2|constructor; [exact I|exact Hl2]]].
      * destruct (IH _ _ _ _ _ Er Hok HB) as (Hm & HB2 & Hl2). split; [exact Hm|split; [exact HB2|constructor; [exact I|exact Hl2]]].
    + destruct (finalize kk s) as [s1 e]. destruct (run_ops p s1 m ops) as [[s2 m2] l2] eqn:Er. injection H as <- <- <-.
      destruct (IH _ _ _ _ _ Er Hok HB) as (Hm & HB2 & Hl2). split; [exact Hm|split; [exact HB2|constructor; [exact I|exact Hl2]]].
    + destruct (run_loop p lim kk s m) as [[s1 m1] l1] eqn:El. destruct (run_ops p s1 m1 ops) as [[s2 m2] l2] eqn:Er. injection H as <- <- <-.
      destruct (ok_dec m1) as [Hok1|Hne].
      2:{ exfalso. pose proof (ops_err p ops s1 _ Hne) as Hc. rewrite Er in Hc. cbn [fst snd] in Hc. unfold mon_ok in Hok. congruence. }
      destruct (loop_touch p _ _ _ _ _ _ _ El Hok1 HB) as (Hm & HB1 & Hl1).
      destruct (IH _ _ _ _ _ Er Hok HB1) as (_ & HB2 & Hl2). split; [exact Hm|split; [exact HB2|apply Forall_app; auto]].
Qed.
Print Assumptions run_touch.

(* ---- observations along a run: anything the object keeps fixed ---- *)
Section OBS.
Variable I : sched -> Prop.
Variable Pobs : obs -> Prop.
Hypothesis Hn : forall s, I s -> I (fst (next s)).
Hypothesis Hf : forall k s, I s -> I (fst (finalize k s)).
Hypothesis Hobs : forall s, I s -> Pobs (observe s).
Definition obs_line (l : line) : Prop := match l with LNext _ ob | LFin _ ob => Pobs ob end.
Lemma loop_obs p : forall lim k s m, I s -> let '(s', _, ls) := run_loop p lim k s m in I s' /\ Forall obs_line ls.
Proof.
  induction lim as [|lim IH]; intros k s m HI; cbn [run_loop]; [split; [exact HI|constructor]|].
  pose proof (Hn s HI) as HI1. destruct (next s) as [s1 o]. cbn [fst] in HI1. destruct o as [a| |e].
  - destruct (_ <=? 0); [split; [exact HI1|constructor; [apply Hobs; exact HI1|constructor]]|].
    specialize (IH (match a with EndReverse => k - 1 | _ => k end) s1 (mon_step p s1 a m) HI1).
    destruct (run_loop p lim _ s1 (mon_step p s1 a m)) as [[s2 m2] l2]. destruct IH as [A B]. split; [exact A|constructor; [apply Hobs; exact HI1|exact B]].
  - split; [exact HI1|constructor; [apply Hobs; exact HI1|constructor]].
  - split; [exact HI1|constructor; [apply Hobs; exact HI1|constructor]].
Qed.
Lemma ops_obs p : forall ops s m, I s -> let '(s', _, ls) := run_ops p s m ops in I s' /\ Forall obs_line ls.
Proof.
  induction ops as [|op ops IH]; intros s m HI; cbn [run_ops]; [split; [exact HI|constructor]|]. destruct op as [|kk|kk lim].
  - pose proof (Hn s HI) as HI1. destruct (next s) as [s1 o]. cbn [fst] in HI1.
    specialize (IH s1 (match o with Yield a => mon_step p s1 a m | _ => m end) HI1).
    destruct (run_ops p s1 _ ops) as [[s2 m2] l2]. destruct IH as [A B]. split; [exact A|constructor; [apply Hobs; exact HI1|exact B]].
  - pose proof (Hf kk s HI) as HI1. destruct (finalize kk s) as [s1 e]. cbn [fst] in HI1.
    specialize (IH s1 m HI1). destruct (run_ops p s1 m ops) as [[s2 m2] l2]. destruct IH as [A B]. split; [exact A|constructor; [apply Hobs; exact HI1|exact B]].
  - pose proof (loop_obs p lim kk s m HI) as HL. destruct (run_loop p lim kk s m) as [[s1 m1] l1]. destruct HL as [HI1 HL].
    specialize (IH s1 m1 HI1). destruct (run_ops p s1 m1 ops) as [[s2 m2] l2]. destruct IH as [A B]. split; [exact A|apply Forall_app; auto].
Qed.
End OBS.

(* ---- C11 for the Revolve class: along the (error-free, by revolve_run) run, a touched storage is reported as used ---- *)
Require Import RevConv RevBridge4 RevolveRun.
Definition touch_uses_line (l : line) : Prop :=
  match l with
  | LNext (Yield a) ob => forall sg, touches a sg -> (match sg with RAM => o_ur ob | DISK => o_ud ob | _ => UTrue end) = UTrue
  | _ => True end.
Theorem revolve_touch_uses N ram disk uf ub0 wd rd k : 1 <= N -> 0 <= ram -> (2 <= N -> 1 <= ram) ->
  exists o0 m ls, run_case (PRev KRevolve N ram disk uf ub0 wd rd) (rev_xparams N ram) (repeat Next k) = Ok (o0, m, ls) /\ Forall touch_uses_line ls.
Proof.
  intros HN Hram Hram1. destruct (revolve_run N ram disk uf ub0 wd rd k HN Hram Hram1) as (o0 & m & ls & Hrun & Hm & _).
  exists o0, m, ls. split; [exact Hrun|].
  unfold run_case in Hrun. destruct (Sched.construct (PRev KRevolve N ram disk uf ub0 wd rd)) as [s|e] eqn:Ec; [|discriminate]. cbn [bind] in Hrun.
  destruct (run_ops (rev_xparams N ram) s mon0 (repeat Next k)) as [[s' m'] ls'] eqn:Er. injection Hrun as _ <- <-.
  assert (HB0 : BudInv (rev_xparams N ram) (mx mon0)) by (unfold BudInv, rev_xparams, mon0, x0; cbn; split; [apply Z.leb_le; lia|reflexivity]).
  destruct (run_touch _ _ _ _ _ _ _ Er Hm HB0) as (_ & _ & Ht).
  set (I := fun sc : sched => exists r, ob sc = ORevF KRevolve N ram disk r).
  assert (HI0 : I s).
  { cbn [Sched.construct] in Ec. destruct (RevConv.construct KRevolve N ram disk uf ub0 wd rd) as [r|]; [|discriminate]. injection Ec as <-. exists r. reflexivity. }
  pose proof (ops_obs I (fun ob => o_ur ob = ub (0 <? ram) /\ o_ud ob = UFalse)
    ltac:(intros sc [r Hr]; unfold Sched.next; rewrite Hr; destruct (RevConv.next N r) as [r' o]; exists r'; reflexivity)
    ltac:(intros kk sc [r Hr]; unfold Sched.finalize; rewrite Hr; exists r; destruct (kk <? 1); [exact Hr|]; cbn [fst]; destruct (get_max_n sc); [destruct (_ || _)|]; exact Hr)
    ltac:(intros sc [r Hr]; unfold observe, uses; cbn [o_ur o_ud]; rewrite Hr; split; reflexivity)
    (rev_xparams N ram) (repeat Next k) s mon0 HI0) as Hobs.
  rewrite Er in Hobs. destruct Hobs as [_ Hobs].
  rewrite Forall_forall in *. intros l Hl. specialize (Ht l Hl). specialize (Hobs l Hl).
  destruct l as [o ob0|e ob0]; [|exact Logic.I]. destruct o as [a| |e]; try exact Logic.I. cbn [touch_uses_line touch_line obs_line] in *.
  intros sg Hsg. specialize (Ht sg Hsg). unfold bpos, rev_xparams in Ht. destruct Hobs as [H1 H2].
  destruct Hsg as [Hcp _]. destruct sg; cbn in Hcp; try discriminate; cbn [budget budget_ram budget_disk] in Ht.
  all: try lia. rewrite H1. destruct (Z.ltb_spec 0 ram); [reflexivity|lia].
Qed.
Print Assumptions revolve_touch_uses.
