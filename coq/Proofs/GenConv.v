(* The converter of the four Revolve-family classes, model regenerated from source: conv_prog_model is the program (generator
   language GenLang4) that harness/translate.py produces from RevolveCheckpointSchedule._iterator; Gen/ConverterGen.v re-translates
   the current source on every run and proves the result equal to this term by conversion.  This file proves that resuming that
   program request by request does, for EVERY operation list and under every history of next() and finalize(k) calls, what the
   hand-written index-based converter of Model/RevConv.v does -- up to the first exception of the latter (the hand-written
   machine reports an error before it commits the updates of the iteration in which it occurs; the run theorems of the four
   classes show that no exception occurs on their operation lists). *)
From Coq Require Import ZArith List Bool Lia ZifyBool.
Require Import Actions Ops RevConv ConvKinds GenLang4.
Require Online.
Import ListNotations.
Open Scope Z_scope.

Definition conv_prog_model : stmt :=
  (SSeq (SIf BMaxIsNone (SRaise RuntimeError) SSkip) (SSeq SSetNew (SSeq (SSetS Lw_storage None) (SSeq (SSetB Lwrite_ics false) (SSeq (SSetB Ladj_deps false) (SSeq (SSetZ Li (ZC 0)) (SSeq (SWhile (BLt (ZL Li) ZLenOps) (SSeq (SConv Lcp_action Ln_0 (Some Ln_1) Lstorage (ZL Li)) (SSeq (SIf (BKindIs Lcp_action KForward) (SSeq (SIf (BNe (ZL Ln_0) ZN) (SRaise InvalidForwardStep) SSkip) (SSeq (SSetN (ZL Ln_1)) (SSeq (SConv Lw_cp_action Lw_n0 None Lw_storage (ZSub (ZL Li) (ZC 1))) (SSeq (SIf (BOr (BKindIs Lw_cp_action KWrite) (BOr (BKindIs Lw_cp_action KWrite_disk) (BKindIs Lw_cp_action KWrite_memory))) (SSeq (SIf (BNe (ZL Lw_n0) (ZL Ln_0)) (SRaise InvalidActionIndex) SSkip) (SSeq (SSetB Lwrite_ics true) (SSeq (SSetB Ladj_deps false) (SSetAdd (ZL Lw_n0))))) (SIf (BOr (BKindIs Lw_cp_action KWrite_Forward) (BKindIs Lw_cp_action KWrite_Forward_memory)) (SSeq (SIf (BNe (ZL Lw_n0) (ZL Ln_1)) (SRaise InvalidActionIndex) SSkip) (SSeq (SSetB Lwrite_ics false) (SSetB Ladj_deps true))) (SSeq (SSetB Lwrite_ics false) (SSeq (SSetB Ladj_deps false) (SSetS Lw_storage (Some WORK)))))) (SSeq (SYield (AForward (ZL Ln_0) (ZL Ln_1) (BL Lwrite_ics) (BL Ladj_deps) (SL Lw_storage))) (SIf (BEq ZN ZMax) (SSeq (SIf (BNe ZR (ZC 0)) (SRaise InvalidReverseStep) SSkip) (SYield AEndForward)) SSkip)))))) (SIf (BKindIs Lcp_action KBackward) (SSeq (SIf (BNe (ZL Ln_0) ZN) (SRaise InvalidActionIndex) SSkip) (SSeq (SIf (BNe (ZL Ln_0) (ZSub ZMax ZR)) (SRaise InvalidForwardStep) SSkip) (SSeq (SSetR (ZAdd ZR (ZC 1))) (SYield (AReverse (ZL Ln_0) (ZL Ln_1) true))))) (SIf (BOr (BKindIs Lcp_action KRead) (BOr (BKindIs Lcp_action KRead_memory) (BKindIs Lcp_action KRead_disk))) (SSeq (SSetN (ZL Ln_0)) (SIf (BEq (ZL Ln_0) (ZSub (ZSub ZMax ZR) (ZC 1))) (SSeq (SSetRemove (ZL Ln_0)) (SYield (AMove (ZL Ln_0) (SL Lstorage) (SC WORK)))) (SYield (ACopy (ZL Ln_0) (SL Lstorage) (SC WORK))))) (SIf (BOr (BKindIs Lcp_action KWrite) (BOr (BKindIs Lcp_action KWrite_disk) (BKindIs Lcp_action KWrite_memory))) (SIf (BNe (ZL Ln_0) ZN) (SRaise InvalidActionIndex) SSkip) (SIf (BKindIs Lcp_action KWrite_Forward) (SSeq (SIf (BNe (ZL Ln_0) (ZAdd ZN (ZC 1))) (SRaise InvalidActionIndex) SSkip) (SSeq (SConv Ld_cp_action Ld_n0 None Lw_storage (ZAdd (ZL Li) (ZC 3))) (SIf (BOr (BKindIsNot Ld_cp_action KDiscard_Forward) (BOr (BNe (ZL Ld_n0) (ZL Ln_0)) (BStNe Lw_storage Lstorage))) (SSeq (SIf (BNe (ZL Lw_n0) (ZL Ln_0)) (SRaise InvalidActionIndex) SSkip) (SSeq (SSetB Lwrite_ics true) (SSetB Ladj_deps false))) SSkip))) (SIf (BKindIs Lcp_action KWrite_Forward_memory) (SSeq (SIf (BNe (ZL Ln_0) (ZAdd ZN (ZC 1))) (SRaise InvalidActionIndex) SSkip) (SSeq (SConv Ld_cp_action Ld_n0 None Lw_storage (ZAdd (ZL Li) (ZC 3))) (SIf (BOr (BKindIsNot Ld_cp_action KDiscard_Forward_memory) (BOr (BNe (ZL Ld_n0) (ZL Ln_0)) (BStNe Lw_storage Lstorage))) (SIf (BNe (ZL Lw_n0) (ZL Ln_0)) (SRaise InvalidActionIndex) SSkip) SSkip))) (SIf (BOr (BKindIs Lcp_action KDiscard) (BKindIs Lcp_action KDiscard_memory)) (SIf (BLt (ZL Li) (ZC 2)) (SRaise InvalidRevolverAction) SSkip) (SIf (BOr (BKindIs Lcp_action KDiscard_Forward) (BKindIs Lcp_action KDiscard_Forward_memory)) (SIf (BNe (ZL Ln_0) ZN) (SRaise InvalidActionIndex) SSkip) (SRaise InvalidRevolverAction))))))))) (SSetZ Li (ZAdd (ZL Li) (ZC 1)))))) (SSeq (SIf (BGt ZLenSet (ZC 0)) (SRaise RuntimeError) SSkip) (SSeq (SSetX true) (SYield AEndReverse)))))))))).

Definition loop_c : bexp := BLt (ZL Li) ZLenOps.
Definition body : stmt := Eval cbv in
  match conv_prog_model with SSeq _ (SSeq _ (SSeq _ (SSeq _ (SSeq _ (SSeq _ (SSeq (SWhile _ b) _)))))) => b | _ => SSkip end.
Definition tail : stmt := SSeq (SIf (BGt ZLenSet (ZC 0)) (SRaise RuntimeError) SSkip) (SSeq (SSetX true) (SYield AEndReverse)).
Definition incr : stmt := SSetZ Li (ZAdd (ZL Li) (ZC 1)).
Definition after_fwd : stmt := SIf (BEq ZN ZMax) (SSeq (SIf (BNe ZR (ZC 0)) (SRaise InvalidReverseStep) SSkip) (SYield AEndForward)) SSkip.
Definition LOOP : list frame := [FLoop loop_c body; FS tail].
Lemma prog_shape : conv_prog_model =
  SSeq (SIf BMaxIsNone (SRaise RuntimeError) SSkip) (SSeq SSetNew (SSeq (SSetS Lw_storage None) (SSeq (SSetB Lwrite_ics false) (SSeq (SSetB Ladj_deps false)
    (SSeq (SSetZ Li (ZC 0)) (SSeq (SWhile loop_c body) tail)))))).
Proof. reflexivity. Qed.

(* ---- the interpreter, one statement at a time ---- *)
Lemma run_S f ops K g : run (S f) ops K g =
  match K with
  | [] => (([], g), StopIteration)
  | FLoop t body :: K' =>
      match beval ops t g with Err e => (([], g), Raise e) | Ok true => run f ops (FS body :: FLoop t body :: K') g | Ok false => run f ops K' g end
  | FS s :: K' =>
      match s with
      | SSkip => run f ops K' g
      | SSeq a b => run f ops (FS a :: FS b :: K') g
      | SIf t a b => match beval ops t g with Err e => (([], g), Raise e) | Ok true => run f ops (FS a :: K') g | Ok false => run f ops (FS b :: K') g end
      | SWhile t body => run f ops (FLoop t body :: K') g
      | SSetN e => match zeval ops e g with Err e => (([], g), Raise e) | Ok v => run f ops K' (set_n g v) end
      | SSetR e => match zeval ops e g with Err e => (([], g), Raise e) | Ok v => run f ops K' (set_r g v) end
      | SSetZ x e => match zeval ops e g with Err e => (([], g), Raise e) | Ok v => run f ops K' (set_z g x (Some v)) end
      | SSetB x v => run f ops K' (set_b g x v)
      | SSetS x v => run f ops K' (set_s g x v)
      | SSetX v => run f ops K' (set_x g v)
      | SSetNew => run f ops K' (set_set g [])
      | SSetAdd e => match zeval ops e g with Err e => (([], g), Raise e) | Ok v => run f ops K' (set_set g (set_add v (gset g))) end
      | SSetRemove e => match zeval ops e g with Err e => (([], g), Raise e) | Ok v =>
            if existsb (Z.eqb v) (gset g) then run f ops K' (set_set g (filter (fun x => negb (x =? v)) (gset g))) else (([], g), Raise KeyError) end
      | SConv k n0 n1 st idx =>
          match zeval ops idx g with Err e => (([], g), Raise e) | Ok j =>
          match py_index ops j with Err e => (([], g), Raise e) | Ok o =>
          match convert_spec o with Err e => (([], g), Raise e) | Ok (kd, (a, b, sg)) =>
            let g1 := set_s (set_z (set_k g k kd) n0 (Some a)) st sg in
            run f ops K' (match n1 with Some x => set_z g1 x b | None => g1 end) end end end
      | SYield a => match aeval ops a g with Err e => (([], g), Raise e) | Ok act => ((K', g), Yield act) end
      | SRaise e => (([], g), Raise e)
      end
  end.
Proof. reflexivity. Qed.

(* self._schedule[i], [i - 1], [i + 3] *)
Lemma len_nat (ops : list Ops.op) : len ops = Z.of_nat (length ops). Proof. reflexivity. Qed.
Lemma py_index_at ops i : py_index ops (Z.of_nat i) = match nth_error ops i with Some o => Ok o | None => Err IndexError end.
Proof.
  unfold py_index. rewrite len_nat. destruct (Z.ltb_spec (Z.of_nat i) 0); [lia|]. cbn [orb].
  destruct (Z.ltb_spec (Z.of_nat i) 0); [lia|]. cbn [orb]. rewrite Nat2Z.id.
  destruct (Z.geb_spec (Z.of_nat i) (Z.of_nat (length ops))) as [Hge|Hlt].
  - assert (nth_error ops i = None) as -> by (apply nth_error_None; lia). reflexivity.
  - reflexivity.
Qed.
Lemma py_index_plus ops i k : 0 <= k -> py_index ops (Z.of_nat i + k) = match nth_error ops (i + Z.to_nat k) with Some o => Ok o | None => Err IndexError end.
Proof. intros Hk. replace (Z.of_nat i + k) with (Z.of_nat (i + Z.to_nat k)) by lia. apply py_index_at. Qed.
Lemma py_index_prev ops i : (i < length ops)%nat ->
  py_index ops (Z.of_nat i - 1) = match (match i with O => last_op ops | S j => nth_error ops j end) with Some o => Ok o | None => Err IndexError end.
Proof.
  intros Hi. destruct i as [|j].
  - unfold py_index. rewrite len_nat. change (Z.of_nat 0 - 1 <? 0) with true. cbv iota.
    destruct (Z.ltb_spec (Z.of_nat 0 - 1 + Z.of_nat (length ops)) 0); [lia|]. destruct (Z.geb_spec (Z.of_nat 0 - 1 + Z.of_nat (length ops)) (Z.of_nat (length ops))); [lia|]. cbn [orb].
    replace (Z.to_nat (Z.of_nat 0 - 1 + Z.of_nat (length ops))) with (length ops - 1)%nat by lia.
    unfold last_op. destruct (rev ops) as [|x r] eqn:Er.
    + apply (f_equal (@length _)) in Er. rewrite rev_length in Er. cbn in Er. lia.
    + assert (ops = rev r ++ [x]) as -> by (rewrite <- (rev_involutive ops), Er; reflexivity).
      rewrite app_length. cbn [length]. rewrite nth_error_app2 by lia. replace (length (rev r) + 1 - 1 - length (rev r))%nat with 0%nat by lia. reflexivity.
  - replace (Z.of_nat (S j) - 1) with (Z.of_nat j) by lia. apply py_index_at.
Qed.

(* ---- states ---- *)
Definition matches (max_n : Z) (c : cst) (ex : bool) (g : gst) : Prop :=
  gb g = Online.Build_base (n_ c) (r_ c) (Some max_n) /\ gx g = ex /\ gset g = snaps c /\
  gs g Lw_storage = Some (w_storage c) /\ gbl g Lwrite_ics = Some (write_ics c) /\ gbl g Ladj_deps = Some (adj_deps c) /\ gz g Lw_n0 = w_n0 c.
Definition at_head (max_n : Z) (i : nat) (c : cst) (g : gst) : Prop := matches max_n c false g /\ gz g Li = Some (Z.of_nat i).

Ltac arith_opaque := cbv - [Z.add Z.sub Z.mul Z.eqb Z.ltb Z.gtb Z.geb Z.leb Z.of_nat len nth_error last_op existsb filter set_add length Nat.ltb Nat.eqb].
Ltac small00 E := cbn [beval zeval bind aeval bveval sveval sget kget set_n set_r set_x set_set set_z set_b set_s set_k gb gx gset gz gbl gs gk
                        Online.n_ Online.r_ Online.max_n_ zloc_eqb bloc_eqb sloc_eqb kloc_eqb negb okind_eqb st_opt_eqb st_eqb loop_c convert_spec conv_n0_st lvl kind_of n1_of fst snd orb andb] in E.
Ltac small0 E := small00 E; repeat (first [progress unfold cmp2 in E | progress unfold convert_spec, conv_n0_st in E | progress unfold lvl in E]; small00 E).
Ltac small E := small0 E; repeat (progress (repeat match goal with H : ?L ?x = Some _ |- _ => rewrite H in E | H : ?L ?x = None |- _ => rewrite H in E end); small0 E).
Ltac expose E :=
  match type of E with
  | run _ _ LOOP _ = _ => unfold LOOP in E
  | run _ _ (FS ?h :: _) _ = _ => unfold h in E
  end.
Ltac step E := match type of E with run _ _ _ _ = _ => idtac end; repeat expose E; rewrite run_S in E; small E.
(* stop at the head of the loop *)
Ltac step_in E := match type of E with run _ _ (FLoop _ _ :: _) _ = _ => fail 1 | _ => step E end.
Ltac split1 E :=
  match type of E with
  | (if negb ?x then _ else _) = _ => destruct x eqn:?
  | (if ?x then _ else _) = _ => destruct x eqn:?
  | context [match (if ?x then _ else _) with _ => _ end] => destruct x eqn:?
  | context [bind (if ?x then _ else _) _] => destruct x eqn:?
  end.
(* the two other operations the converter looks at: self._schedule[i - 1] and self._schedule[i + 3] *)
Ltac lookup1 E :=
  match type of E with
  | context [py_index ?ops (Z.of_nat ?i - 1)] =>
      match goal with H : (i < length ops)%nat |- _ => rewrite (py_index_prev ops i H) in E end;
      let pv := fresh "pv" in let Epv := fresh "Epv" in
      destruct (match i with O => last_op ops | S j => nth_error ops j end) as [pv|] eqn:Epv; [destruct pv|]
  | context [py_index ?ops (Z.of_nat ?i + 3)] =>
      rewrite (py_index_plus ops i 3) in E by lia; change (Z.to_nat 3) with 3%nat in E;
      let dv := fresh "dv" in let Edv := fresh "Edv" in
      destruct (nth_error ops (i + 3)) as [dv|] eqn:Edv; [destruct dv|]
  end.
Ltac drive_in E := repeat (first [lookup1 E; small E | split1 E; small E | step_in E]).
#[local] Strategy opaque [run].
Ltac use_hyps := repeat match goal with H : ?t = _ |- context [?t] => rewrite H end.

Ltac model_side :=
  arith_opaque; use_hyps; arith_opaque; rewrite ?Z.eqb_refl; try exact I;
  try (match goal with |- context [(?i <? 2)%nat] => destruct (Nat.ltb_spec i 2); try (exfalso; lia) end; try exact I);
  repeat match goal with
         | |- context [if (if ?x then _ else _) then _ else _] => destruct x eqn:?
         | |- context [if ?x then _ else _] => destruct x eqn:? end; try exact I.
Ltac absurd_hyp := match goal with H : negb true = true |- _ => discriminate H | H : negb false = false |- _ => discriminate H end.

Section SIM.
Variable max_n : Z.
Variable ops : list Ops.op.

(* one iteration of `while i < len(self._schedule)`, against conv1 *)
Definition iter_ok (i : nat) (c : cst) (f : nat) (K'' : list frame) (g'' : gst) (o : outcome) : Prop :=
  match conv1 max_n ops i c with
  | Err _ => True
  | Ok (c', []) => exists f' g', (f <= f')%nat /\ run f' ops LOOP g' = ((K'', g''), o) /\ at_head max_n (S i) c' g'
  | Ok (c', a :: rest) => o = Yield a /\ matches max_n c' false g'' /\ gz g'' Li = Some (Z.of_nat i) /\
        (K'' = FS incr :: LOOP /\ rest = [] \/
         K'' = FS after_fwd :: FS incr :: LOOP /\ (rest = [EndForward] /\ n_ c' = max_n /\ r_ c' = 0 \/ rest = [] /\ n_ c' <> max_n))
  end.

Lemma iteration i c g f K'' g'' o : at_head max_n i c g -> (i < length ops)%nat ->
  run (80 + f) ops LOOP g = ((K'', g''), o) -> iter_ok i c f K'' g'' o.
Proof.
  intros [HM Hi] Hlt E. destruct g as [gb0 gx0 gset0 Z0 B0 S0 K0]. destruct c as [n r sn ws wi wa w0].
  unfold matches in HM. cbn [gb gx gset gs gbl gz n_ r_ snaps w_storage write_ics adj_deps w_n0] in HM, Hi.
  destruct HM as (-> & -> & -> & Hws & Hwi & Had & Hw0).
  assert (Hlt' : (Z.of_nat i <? len ops) = true) by (rewrite len_nat; apply Z.ltb_lt; lia).
  destruct (nth_error ops i) as [o0|] eqn:Ei; [|apply nth_error_None in Ei; lia].
  unfold iter_ok, conv1. rewrite Ei.
  cbn [Nat.add] in E. step E. rewrite Hlt' in E. small E. step E. step E. rewrite py_index_at, Ei in E. small E.
  destruct w0 as [w0|]; destruct o0.
  all: small E.
  all: drive_in E.
  all: try (match type of E with (_, _, _) = _ => injection E as <- <- <- end).
  all: model_side.
  all: try (repeat split; try reflexivity; try assumption;
            first [ left; split; reflexivity
                  | right; split; [reflexivity|]; cbn [n_ r_]; first [ left; repeat split; try reflexivity; lia | right; split; [reflexivity|lia] ] ]).
  all: try (match type of E with run ?F _ _ ?G = _ => exists F, G end; split; [lia|]; split; [unfold LOOP, body, tail; exact E|];
            repeat split; try reflexivity; try assumption; try (cbn; f_equal; lia)).
  all: try absurd_hyp.
Qed.

(* the loop has run off the end of the list *)
Lemma loop_exit i c g f K'' g'' o : at_head max_n i c g -> (length ops <= i)%nat ->
  run (80 + f) ops LOOP g = ((K'', g''), o) ->
  if negb (Nat.eqb (length (snaps c)) 0) then True
  else o = Yield EndReverse /\ K'' = [] /\ gb g'' = Online.Build_base (n_ c) (r_ c) (Some max_n) /\ gx g'' = true.
Proof.
  intros [HM Hi] Hge E. destruct g as [gb0 gx0 gset0 Z0 B0 S0 K0]. destruct c as [n r sn ws wi wa w0].
  unfold matches in HM. cbn [gb gx gset gs gbl gz n_ r_ snaps w_storage write_ics adj_deps w_n0] in HM, Hi |- *.
  destruct HM as (-> & -> & -> & _).
  assert (Hlt' : (Z.of_nat i <? len ops) = false) by (rewrite len_nat; apply Z.ltb_ge; lia).
  cbn [Nat.add] in E. step E. rewrite Hlt' in E. small E.
  destruct sn as [|x sn]; cbn [length Nat.eqb negb]; [|exact I].
  drive_in E; try discriminate. injection E as <- <- <-. repeat split.
Qed.

(* the three places a request can find the generator suspended at, up to the head of the loop *)
Lemma resume_incr i c g f : at_head max_n i c g -> exists g', run (S (S f)) ops (FS incr :: LOOP) g = run (S f) ops LOOP g' /\ at_head max_n (S i) c g'.
Proof.
  intros [HM Hi]. destruct g as [gb0 gx0 gset0 Z0 B0 S0 K0]. cbn [gz] in Hi. unfold matches in HM. cbn [gb gx gset gs gbl gz] in HM.
  eexists. split.
  - rewrite run_S. unfold incr. cbn [zeval bind gz]. rewrite Hi. cbn [bind]. reflexivity.
  - unfold at_head, matches. cbn [set_z gb gx gset gs gbl gz zloc_eqb]. repeat split; try tauto. f_equal. lia.
Qed.
Lemma resume_after_fwd_ne i c g f : at_head max_n i c g -> n_ c <> max_n ->
  run (S (S (S f))) ops (FS after_fwd :: FS incr :: LOOP) g = run (S f) ops (FS incr :: LOOP) g.
Proof.
  intros [HM Hi] Hne. destruct g as [gb0 gx0 gset0 Z0 B0 S0 K0]. unfold matches in HM. cbn [gb] in HM. destruct HM as (-> & _).
  rewrite run_S. unfold after_fwd. cbn [beval zeval gb Online.n_ Online.max_n_]. unfold cmp2. cbn [zeval bind gb Online.n_ Online.max_n_].
  destruct (Z.eqb_spec (n_ c) max_n); [contradiction|]. rewrite (run_S (S f) ops (FS SSkip :: _)). reflexivity.
Qed.
Lemma resume_after_fwd_eq i c g f : at_head max_n i c g -> n_ c = max_n -> r_ c = 0 ->
  run (S (S (S (S (S (S f)))))) ops (FS after_fwd :: FS incr :: LOOP) g = ((FS incr :: LOOP, g), Yield EndForward).
Proof.
  intros [HM Hi] Hn Hr. destruct g as [gb0 gx0 gset0 Z0 B0 S0 K0]. unfold matches in HM. cbn [gb] in HM. destruct HM as (-> & _).
  rewrite run_S. unfold after_fwd. cbn [beval zeval gb Online.n_ Online.max_n_]. unfold cmp2. cbn [zeval bind gb Online.n_ Online.r_ Online.max_n_].
  rewrite Hn, Z.eqb_refl. rewrite run_S, run_S. cbn [beval]. unfold cmp2. cbn [zeval bind gb Online.n_ Online.r_ Online.max_n_]. rewrite Hr. cbn [Z.eqb negb].
  rewrite run_S, run_S. cbn [aeval]. reflexivity.
Qed.


(* ---- the relation between the hand-written machine and the suspended generator ---- *)
Definition g_init : gst :=
  {| gb := Online.Build_base 0 0 (Some max_n); gx := false; gset := []; gz := fun _ => None; gbl := fun _ => None; gs := fun _ => None; gk := fun _ => None |}.
Definition good (s : rst) (g : gst) (K : list frame) : Prop :=
  RevConv.ops s = ops /\
  if finished s then K = [] /\ gb g = Online.Build_base (n_ (cs s)) (r_ (cs s)) (Some max_n) /\ gx g = exhausted s
  else exhausted s = false /\
    match pend s with
    | [] => (idx s = 0%nat /\ cs s = init_c /\ g = g_init /\ K = [FS conv_prog_model]) \/
            (matches max_n (cs s) false g /\ exists i, idx s = S i /\ gz g Li = Some (Z.of_nat i) /\
               (K = FS incr :: LOOP \/ (K = FS after_fwd :: FS incr :: LOOP /\ n_ (cs s) <> max_n)))
    | [a] => a = EndForward /\ matches max_n (cs s) false g /\ exists i, idx s = S i /\ gz g Li = Some (Z.of_nat i) /\
             K = FS after_fwd :: FS incr :: LOOP /\ n_ (cs s) = max_n /\ r_ (cs s) = 0
    | _ => False
    end.

Lemma advance_sim : forall n i c g f0 K'' g'' o, at_head max_n i c g ->
  run (80 * n + 80 + f0) ops LOOP g = ((K'', g''), o) ->
  (exists e, snd (advance n max_n (Build_rst ops i c [] false false)) = Raise e) \/
  (o = snd (advance n max_n (Build_rst ops i c [] false false)) /\ good (fst (advance n max_n (Build_rst ops i c [] false false))) g'' K'').
Proof.
  induction n as [|n IH]; intros i c g f0 K'' g'' o HA E; [left; eexists; reflexivity|].
  cbn [advance RevConv.ops idx cs].
  destruct (Nat.ltb_spec i (length ops)) as [Hlt|Hge].
  - replace (80 * S n + 80 + f0)%nat with (80 + (80 * n + 80 + f0))%nat in E by lia.
    pose proof (iteration i c g _ K'' g'' o HA Hlt E) as HI. unfold iter_ok in HI.
    destruct (conv1 max_n ops i c) as [[c' acts]|e]; [|left; eexists; reflexivity].
    destruct acts as [|a rest].
    + destruct HI as (f' & g' & Hf & E' & HA').
      replace f' with (80 * n + 80 + (f' - (80 * n + 80)))%nat in E' by lia.
      exact (IH (S i) c' g' _ K'' g'' o HA' E').
    + right. cbn [fst snd]. destruct HI as (-> & HM & Hi & HK). split; [reflexivity|].
      unfold good. cbn [RevConv.ops finished exhausted pend idx cs]. split; [reflexivity|]. split; [reflexivity|].
      destruct HK as [[-> ->] | [-> [(-> & Hn & Hr) | (-> & Hn)]]].
      * right. split; [exact HM|]. exists i. repeat split; auto.
      * split; [reflexivity|]. split; [exact HM|]. exists i. repeat split; auto.
      * right. split; [exact HM|]. exists i. repeat split; auto.
  - replace (80 * S n + 80 + f0)%nat with (80 + (80 * n + 80 + f0))%nat in E by lia.
    pose proof (loop_exit i c g _ K'' g'' o HA Hge E) as HX.
    destruct (negb (Nat.eqb (length (snaps c)) 0)); [left; eexists; reflexivity|].
    right. cbn [fst snd]. destruct HX as (-> & -> & Hb & Hx). split; [reflexivity|].
    unfold good. cbn [RevConv.ops finished exhausted cs]. repeat split; assumption.
Qed.


(* from the first request to the head of the loop *)
Lemma init_run f K'' g'' o : run (20 + f) ops [FS conv_prog_model] g_init = ((K'', g''), o) ->
  exists f' g0, (f <= f')%nat /\ run f' ops LOOP g0 = ((K'', g''), o) /\ at_head max_n 0 init_c g0.
Proof.
  intros E. unfold g_init in E. cbn [Nat.add] in E. rewrite prog_shape in E.
  do 15 (rewrite run_S in E; small E).
  match type of E with run ?F _ _ ?G = _ => exists F, G end. split; [lia|]. split; [exact E|].
  unfold at_head, matches, init_c. cbn. repeat split.
Qed.

Definition gfuel : nat := (80 * S (length ops) + 200)%nat.

Theorem conv_step s g K : good s g K ->
  (exists e, snd (next max_n s) = Raise e) \/
  (snd (run gfuel ops K g) = snd (next max_n s) /\ good (fst (next max_n s)) (snd (fst (run gfuel ops K g))) (fst (fst (run gfuel ops K g)))).
Proof.
  intros [Hops HG]. destruct s as [ops0 i c pd ex fin]. cbn [RevConv.ops finished exhausted pend idx cs] in *. subst ops0.
  unfold next. cbn [finished pend RevConv.ops idx cs exhausted].
  destruct fin.
  - (* finished *) destruct HG as (-> & Hb & Hx). right. unfold gfuel. cbn [Nat.mul Nat.add]. rewrite run_S. cbn [fst snd].
    split; [reflexivity|]. unfold good. cbn [RevConv.ops finished exhausted cs]. auto.
  - destruct HG as [-> HG]. destruct pd as [|a [|a' pd]]; [|destruct HG as (-> & HM & i0 & -> & Hi & -> & Hn & Hr)|contradiction].
    + (* nothing pending: run to the next yield *)
      destruct (run gfuel ops K g) as [[K'' g''] o] eqn:E. cbn [fst snd].
      assert (Hadv : forall i1 g1 f0, at_head max_n i1 c g1 -> i1 = i ->
                 run (80 * S (length ops - i) + 80 + f0) ops LOOP g1 = ((K'', g''), o) ->
                 (exists e, snd (advance (S (length ops - i)) max_n (Build_rst ops i c [] false false)) = Raise e) \/
                 (o = snd (advance (S (length ops - i)) max_n (Build_rst ops i c [] false false)) /\
                  good (fst (advance (S (length ops - i)) max_n (Build_rst ops i c [] false false))) g'' K'')).
      { intros i1 g1 f0 HA -> E1. exact (advance_sim _ _ _ _ _ _ _ _ HA E1). }
      destruct HG as [(-> & -> & -> & ->) | (HM & i0 & -> & Hi & HK)].
      * (* first request *)
        unfold gfuel in E. replace (80 * S (length ops) + 200)%nat with (20 + (80 * S (length ops) + 180))%nat in E by lia.
        destruct (init_run _ _ _ _ E) as (f' & g0 & Hf & E' & HA).
        replace f' with (80 * S (length ops - 0) + 80 + (f' - (80 * S (length ops - 0) + 80)))%nat in E' by lia.
        exact (Hadv 0%nat g0 _ HA eq_refl E').
      * assert (HA : at_head max_n i0 c g) by (split; assumption).
        assert (H1 : exists F1 g1, (80 * S (length ops) + 100 <= F1)%nat /\ run F1 ops LOOP g1 = ((K'', g''), o) /\ at_head max_n (S i0) c g1).
        { destruct HK as [-> | [-> Hne]].
          - destruct (resume_incr i0 c g (80 * S (length ops) + 198) HA) as (g1 & Einc & HA1).
            exists (S (80 * S (length ops) + 198)), g1. split; [lia|]. split; [|exact HA1]. rewrite <- Einc, <- E. unfold gfuel. f_equal. lia.
          - destruct (resume_incr i0 c g (80 * S (length ops) + 196) HA) as (g1 & Einc & HA1).
            exists (S (80 * S (length ops) + 196)), g1. split; [lia|]. split; [|exact HA1]. rewrite <- Einc.
            rewrite <- (resume_after_fwd_ne i0 c g _ HA Hne). rewrite <- E. unfold gfuel. f_equal. lia. }
        destruct H1 as (F1 & g1 & HF & E1 & HA1).
        replace F1 with (80 * S (length ops - S i0) + 80 + (F1 - (80 * S (length ops - S i0) + 80)))%nat in E1 by lia.
        exact (Hadv (S i0) g1 _ HA1 eq_refl E1).
    + (* EndForward pending *)
      right. assert (HA : at_head max_n i0 c g) by (split; assumption).
      unfold gfuel. replace (80 * S (length ops) + 200)%nat with (S (S (S (S (S (S (80 * S (length ops) + 194)))))))%nat by lia.
      rewrite (resume_after_fwd_eq i0 c g _ HA Hn Hr). cbn [fst snd]. split; [reflexivity|].
      unfold good. cbn [RevConv.ops finished exhausted pend idx cs]. split; [reflexivity|]. split; [reflexivity|].
      right. split; [exact HM|]. exists i0. repeat split; auto.
Qed.

End SIM.

(* ---- every history, against the schedule object of Model/Sched.v, for the four classes ---- *)
Require Import Sched.
Require GenMulti.
Notation srun_ops := GenMulti.srun_ops.
Definition gfinalize (k : Z) (g : gst) : gst * option exn :=
  let '(b', e) := Online.finalize k (gb g) in ({| gb := b'; gx := gx g; gset := gset g; gz := gz g; gbl := gbl g; gs := gs g; gk := gk g |}, e).
Fixpoint grun_ops (ops : list Ops.op) (K : list frame) (g : gst) (hist : list Online.op) : list Online.obs :=
  match hist with
  | [] => []
  | Online.Next :: rest => let '((K', g'), o) := run (gfuel ops) ops K g in
      Online.ONext o (Online.n_ (gb g')) (Online.r_ (gb g')) (Online.max_n_ (gb g')) (gx g') :: grun_ops ops K' g' rest
  | Online.Fin kk :: rest => let '(g', e) := gfinalize kk g in
      Online.OFin e (Online.n_ (gb g')) (Online.r_ (gb g')) (Online.max_n_ (gb g')) (gx g') :: grun_ops ops K g' rest
  end.
Definition raise_free (l : list Online.obs) : Prop :=
  forall o n r m x, In (Online.ONext o n r m x) l -> match o with Raise _ => False | _ => True end.

Lemma good_obs max_n ops s g K : good max_n ops s g K ->
  gb g = Online.Build_base (n_ (cs s)) (r_ (cs s)) (Some max_n) /\ gx g = exhausted s.
Proof.
  intros [_ HG]. destruct (finished s); [tauto|]. destruct HG as [Hx HG]. rewrite Hx.
  destruct (pend s) as [|a [|? ?]]; [|destruct HG as (_ & (Hb & Hgx & _) & _); auto|contradiction].
  destruct HG as [(_ & -> & -> & _) | ((Hb & Hgx & _) & _)]; [split; reflexivity|auto].
Qed.

Lemma fin_rev k max_n ram disk s b kk :
  Sched.finalize kk {| ob := ORevF k max_n ram disk s; started := b |} =
    ({| ob := ORevF k max_n ram disk s; started := b |}, snd (Online.finalize kk (Online.Build_base (n_ (cs s)) (r_ (cs s)) (Some max_n)))) /\
  fst (Online.finalize kk (Online.Build_base (n_ (cs s)) (r_ (cs s)) (Some max_n))) = Online.Build_base (n_ (cs s)) (r_ (cs s)) (Some max_n).
Proof.
  unfold Sched.finalize, Online.finalize. cbn [ob Sched.get_n Sched.get_max_n Online.n_ Online.r_ Online.max_n_].
  destruct (kk <? 1); [split; reflexivity|]. destruct (negb (n_ (cs s) =? kk) || negb (max_n =? kk)); split; reflexivity.
Qed.

Theorem conv_history max_n k ram disk : forall hist s g K b, good max_n (RevConv.ops s) s g K ->
  raise_free (srun_ops {| ob := ORevF k max_n ram disk s; started := b |} hist) ->
  grun_ops (RevConv.ops s) K g hist = srun_ops {| ob := ORevF k max_n ram disk s; started := b |} hist.
Proof.
  induction hist as [|h hist IH]; intros s g K b HG Hrf; [reflexivity|]. destruct h as [|kk]; cbn [grun_ops GenMulti.srun_ops] in *.
  - cbn [Sched.next ob] in *. destruct (conv_step max_n (RevConv.ops s) s g K HG) as [[e He] | [Ho HG']].
    + exfalso. destruct (RevConv.next max_n s) as [s' o']. cbn [snd] in He. subst o'. exact (Hrf (Raise e) _ _ _ _ (or_introl eq_refl)).
    + destruct (run (gfuel (RevConv.ops s)) (RevConv.ops s) K g) as [[K' g'] o] eqn:Er. destruct (RevConv.next max_n s) as [s' o'] eqn:En.
      cbn [fst snd] in *. subst o'. destruct (good_obs _ _ _ _ _ HG') as [Hb Hx]. rewrite Hb, Hx.
      cbn [Sched.get_n Sched.get_r Sched.get_max_n Sched.is_exhausted ob Online.n_ Online.r_ Online.max_n_]. f_equal.
      assert (Hops : RevConv.ops s' = RevConv.ops s) by (destruct HG' as [H _]; exact H).
      rewrite <- Hops. apply IH; [rewrite Hops; exact HG'|]. intros o1 n1 r1 m1 x1 Hin. apply (Hrf o1 n1 r1 m1 x1). right. exact Hin.
  - destruct (good_obs _ _ _ _ _ HG) as [Hb Hx]. destruct (fin_rev k max_n ram disk s b kk) as [Ef Eb]. rewrite Ef in *.
    unfold gfinalize. rewrite Hb. destruct (Online.finalize kk _) as [b' e] eqn:Eo. cbn [fst snd] in *. subst b'.
    cbn [gb gx Sched.get_n Sched.get_r Sched.get_max_n Sched.is_exhausted ob Online.n_ Online.r_ Online.max_n_]. rewrite Hx. f_equal.
    apply IH; [|intros o1 n1 r1 m1 x1 Hin; apply (Hrf o1 n1 r1 m1 x1); right; exact Hin].
    destruct g as [a1 a2 a3 a4 a5 a6 a7]. cbn [gb gx gset gz gbl gs gk] in *. subst a1 a2. exact HG.
Qed.

Theorem conv_from_start k n ram disk uf ub wd rd hist s : Sched.construct (PRev k n ram disk uf ub wd rd) = Ok s -> raise_free (srun_ops s hist) ->
  exists opl, RevConv.sequence k n ram disk uf ub wd rd = Ok opl /\ grun_ops opl [FS conv_prog_model] (g_init n) hist = srun_ops s hist.
Proof.
  cbn [Sched.construct]. unfold RevConv.construct. destruct (RevConv.sequence k n ram disk uf ub wd rd) as [opl|e] eqn:Es; cbn [bind]; [|discriminate].
  destruct (n <? 1); [discriminate|]. destruct (ram <? Z.min 1 (n - 1)); [discriminate|]. cbn [bind]. intros H Hrf. injection H as <-.
  exists opl. split; [reflexivity|]. apply (conv_history n k ram disk hist (init_r opl) (g_init n) [FS conv_prog_model] false); [|exact Hrf].
  unfold good, init_r. cbn [RevConv.ops finished exhausted pend idx cs]. split; [reflexivity|]. split; [reflexivity|]. left. auto.
Qed.
Print Assumptions iteration.
Print Assumptions conv_step.
Print Assumptions conv_from_start.
