(* cache_step around optimal_steps_mixed with the dictionary explicit (Model/Binomial.v: loopX, OsmS -- the form the extracted
   driver runs and the correspondence compares with mixed.optimal_steps_mixed): whatever calls were made before on the same
   dictionary, a successful call returns MixDP.C n s -- the cost of the canonical plan, which MixHelperSpec.osm_value shows to be
   the value of the pure recursion Gen/MixHelperGen.v proves to be the source -- and leaves a coherent dictionary.  C15 for the
   third process-global cache. *)
From Coq Require Import ZArith List Lia Bool.
Require Import Actions Mixed MixDP MemoGenSpec MixHelperSpec Binomial.
Import ListNotations.
Open Scope Z_scope.

Fixpoint minloop (cnt : nat) (i : Z) (F : Z -> Z) (acc : Z) : Z :=
  match cnt with O => acc | S c => minloop c (i + 1) F (Z.min acc (F i)) end.
Lemma py_for_min : forall cnt i (b : Z -> Z -> res Z) F acc,
  (forall j m, i <= j < i + Z.of_nat cnt -> b j m = Ok (Z.min m (F j))) -> py_for cnt i b acc = Ok (minloop cnt i F acc).
Proof.
  induction cnt as [|c IH]; intros i b F acc H; [reflexivity|]. cbn [py_for minloop]. rewrite H by lia. cbn [bind].
  apply IH. intros j m Hj. apply H. lia.
Qed.

Definition pureX (n s : Z) (i : Z) : Z := i + C i s + C (n - i) (s - 1).
Lemma C_unfold n s : 1 <= n -> Z.min 1 (n - 1) <= s -> let s' := Z.min s (n - 1) in
  C n s = if n <=? s' + 1 then n else if s' =? 1 then n * (n + 1) / 2 - 1 else
          minloop (Z.to_nat (n - 2)) 2 (pureX n s') (1 + C (n - 1) (s' - 1)).
Proof.
  intros Hn Hs s'. pose proof (osm_value (S (Z.to_nat n)) n s Hn ltac:(lia) Hs) as H. cbn [osm_shape] in H. cbn zeta in H. fold s' in H.
  destruct (Z.leb_spec n 0); [lia|].
  replace ((s' <? Z.min 1 (n - 1)) || (s' >? n - 1)) with false in H.
  2:{ symmetry. apply orb_false_iff. split; [apply Z.ltb_ge; unfold s'; lia|rewrite Z.gtb_ltb; apply Z.ltb_ge; unfold s'; lia]. }
  destruct (Z.leb_spec n (s' + 1)); [injection H as <-; reflexivity|].
  destruct (Z.eqb_spec s' 1); [injection H as <-; reflexivity|].
  assert (Hs2 : 2 <= s') by (unfold s' in *; lia).
  rewrite (osm_value (Z.to_nat n) (n - 1) (s' - 1) ltac:(lia) ltac:(lia) ltac:(lia)) in H. cbn [bind] in H.
  rewrite (py_for_min _ _ _ (pureX n s')) in H; [cbn [bind] in H; injection H as <-; reflexivity|].
  intros j m Hj. rewrite (osm_value (Z.to_nat n) j s' ltac:(lia) ltac:(lia) ltac:(lia)).
  rewrite (osm_value (Z.to_nat n) (n - j) (s' - 1) ltac:(lia) ltac:(lia) ltac:(lia)). reflexivity.
Qed.
Lemma C_clampZ n s : C n s = C n (Z.min s (n - 1)).
Proof. unfold C. rewrite planC_clamp. reflexivity. Qed.

Definition validk (n s : Z) := 1 <= n /\ Z.min 1 (n - 1) <= s <= n - 1.
Definition Coh (c : zcache) := forall n s v, zfind n s c = Some v -> validk n s /\ v = C n s.
Definition Ext (c c' : zcache) := forall n s v, zfind n s c = Some v -> zfind n s c' = Some v.
Lemma Ext_refl c : Ext c c. Proof. intros n s v H; exact H. Qed.
Lemma Ext_trans a b c : Ext a b -> Ext b c -> Ext a c. Proof. intros H1 H2 n s v H. auto. Qed.
Definition CallOK (call : zcache -> Z -> Z -> zcache * res Z) :=
  forall c n s c' r, Coh c -> call c n s = (c', r) ->
    Coh c' /\ Ext c c' /\ (forall v, r = Ok v -> 1 <= n /\ Z.min 1 (n - 1) <= s /\ v = C n s).

Lemma loopX_ok call : CallOK call -> forall cnt i n s c m c' r, Coh c -> loopX call cnt i n s c m = (c', r) ->
  Coh c' /\ Ext c c' /\ (forall m', r = Ok m' -> m' = minloop cnt i (pureX n s) m).
Proof.
  intros Hcall. induction cnt as [|cnt IH]; intros i n s c m c' r Hc H; cbn [loopX] in H.
  - injection H as <- <-. split; [exact Hc|]. split; [apply Ext_refl|]. intros m' E. injection E as <-. reflexivity.
  - destruct (call c i s) as [c1 ra] eqn:E1. destruct (Hcall _ _ _ _ _ Hc E1) as (Hc1 & Hx1 & Hv1).
    destruct ra as [a|e]; [|injection H as <- <-; split; [exact Hc1|]; split; [exact Hx1|discriminate]].
    destruct (call c1 (n - i) (s - 1)) as [c2 rb] eqn:E2. destruct (Hcall _ _ _ _ _ Hc1 E2) as (Hc2 & Hx2 & Hv2).
    destruct rb as [b|e]; [|injection H as <- <-; split; [exact Hc2|]; split; [eapply Ext_trans; eauto|discriminate]].
    destruct (Hv1 a eq_refl) as (_ & _ & ->). destruct (Hv2 b eq_refl) as (_ & _ & ->).
    destruct (IH (i + 1) n s c2 _ c' r Hc2 H) as (Hc' & Hx' & Hv').
    split; [exact Hc'|]. split; [eapply Ext_trans; [exact Hx1|eapply Ext_trans; eauto]|].
    intros m' E. cbn [minloop]. exact (Hv' m' E).
Qed.

Theorem OsmS_ok : forall fuel, CallOK (OsmS fuel).
Proof.
  induction fuel as [|f IH]; intros c n s c' r Hc H; cbn [OsmS] in H.
  - injection H as <- <-. split; [exact Hc|]. split; [apply Ext_refl|discriminate].
  - cbn zeta in H. set (s' := Z.min s (n - 1)) in *.
    destruct (zfind n s' c) as [v|] eqn:Ef.
    + injection H as <- <-. split; [exact Hc|]. split; [apply Ext_refl|].
      intros v' E. injection E as <-. destruct (Hc _ _ _ Ef) as ((Hn1 & Hs1) & ->).
      split; [lia|]. split; [unfold s' in *; lia|]. rewrite (C_clampZ n s). reflexivity.
    + assert (Hfin : forall cb v, Coh cb -> Ext c cb -> 1 <= n -> Z.min 1 (n - 1) <= s' <= n - 1 -> v = C n s ->
                (((n, s'), v) :: cb, Ok v) = (c', r) ->
                Coh c' /\ Ext c c' /\ (forall v0, r = Ok v0 -> 1 <= n /\ Z.min 1 (n - 1) <= s /\ v0 = C n s)).
      { intros cb v Hcb Hxb Hn1 Hs1 Hv E. injection E as <- <-. split; [|split].
        - intros n0 s0 v0 H0. cbn [zfind] in H0. destruct (Z.eqb_spec n0 n), (Z.eqb_spec s0 s'); cbn [andb] in H0; try (apply Hcb; exact H0).
          subst. injection H0 as <-. split; [split; assumption|]. apply C_clampZ.
        - intros n0 s0 v0 H0. cbn [zfind]. destruct (Z.eqb_spec n0 n), (Z.eqb_spec s0 s'); cbn [andb]; try (apply Hxb; exact H0).
          subst. rewrite Ef in H0. discriminate.
        - intros v0 E. injection E as <-. split; [lia|]. split; [unfold s' in *; lia|exact Hv]. }
      destruct (Z.leb_spec n 0).
      { injection H as <- <-. split; [exact Hc|]. split; [apply Ext_refl|discriminate]. }
      destruct ((s' <? Z.min 1 (n - 1)) || (s' >? n - 1)) eqn:Eg.
      { injection H as <- <-. split; [exact Hc|]. split; [apply Ext_refl|discriminate]. }
      apply orb_false_iff in Eg. destruct Eg as [Eg1 Eg2]. apply Z.ltb_ge in Eg1. rewrite Z.gtb_ltb in Eg2. apply Z.ltb_ge in Eg2.
      assert (Hs0 : Z.min 1 (n - 1) <= s) by (unfold s' in *; lia).
      pose proof (C_unfold n s ltac:(lia) Hs0) as HU. cbn zeta in HU. fold s' in HU.
      destruct (n <=? s' + 1).
      { apply (Hfin c n Hc (Ext_refl c)); [lia|lia|symmetry; exact HU|exact H]. }
      destruct (s' =? 1).
      { apply (Hfin c (n * (n + 1) / 2 - 1) Hc (Ext_refl c)); [lia|lia|symmetry; exact HU|exact H]. }
      destruct (OsmS f c (n - 1) (s' - 1)) as [c0 r0] eqn:E0. destruct (IH _ _ _ _ _ Hc E0) as (Hc0 & Hx0 & Hv0).
      destruct r0 as [a0|e]; [|injection H as <- <-; split; [exact Hc0|]; split; [exact Hx0|discriminate]].
      destruct (Hv0 a0 eq_refl) as (_ & _ & ->).
      destruct (loopX (OsmS f) (Z.to_nat (n - 2)) 2 n s' c0 (1 + C (n - 1) (s' - 1))) as [c1 rm] eqn:El.
      destruct (loopX_ok (OsmS f) IH _ _ _ _ _ _ _ _ Hc0 El) as (Hc1 & Hx1 & Hv1).
      destruct rm as [v|e].
      * rewrite <- (Hv1 _ eq_refl) in HU. apply (Hfin c1 v Hc1 (Ext_trans _ _ _ Hx0 Hx1)); [lia|lia|symmetry; exact HU|exact H].
      * injection H as <- <-. split; [exact Hc1|]. split; [eapply Ext_trans; eauto|discriminate].
Qed.

Definition run_callsX (fuel : nat) (c : zcache) (qs : list (Z * Z)) : zcache :=
  fold_left (fun c q => fst (OsmS fuel c (fst q) (snd q))) qs c.
Theorem mixhelper_cache_coherent fuel qs : Coh (run_callsX fuel [] qs).
Proof.
  unfold run_callsX. assert (H0 : Coh []) by (intros n s v H; discriminate).
  revert H0. generalize (@nil ((Z*Z)*Z)). induction qs as [|[n s] qs IH]; intros c Hc; cbn [fold_left]; [exact Hc|].
  apply IH. cbn [fst snd]. destruct (OsmS fuel c n s) as [c' r] eqn:E. cbn [fst snd]. exact (proj1 (OsmS_ok fuel c n s c' r Hc E)).
Qed.
Theorem mixhelper_history_independent fuel qs n s v :
  snd (OsmS fuel (run_callsX fuel [] qs) n s) = Ok v -> v = C n s /\ osm_shape (Z.to_nat n) n s = Ok v.
Proof.
  intros H. destruct (OsmS fuel (run_callsX fuel [] qs) n s) as [c' r] eqn:E. cbn [snd] in H. subst r.
  destruct (OsmS_ok fuel _ n s c' _ (mixhelper_cache_coherent fuel qs) E) as (_ & _ & Hv). destruct (Hv v eq_refl) as (Hn & Hs & ->).
  split; [reflexivity|]. apply osm_value; [exact Hn|lia|exact Hs].
Qed.
Print Assumptions mixhelper_history_independent.

(* ---- totality ---- *)
Definition CallTot (bound : Z) (call : zcache -> Z -> Z -> zcache * res Z) :=
  forall c n s c' r, Coh c -> call c n s = (c', r) -> 1 <= n <= bound -> Z.min 1 (n - 1) <= s -> exists v, r = Ok v.
Lemma loopX_total call bound : CallOK call -> CallTot bound call -> forall cnt i n s c m c' r, Coh c -> 2 <= s -> n - 1 <= bound ->
  1 <= i -> i + Z.of_nat cnt <= n ->
  loopX call cnt i n s c m = (c', r) -> exists m', r = Ok m'.
Proof.
  intros Hok Htot. induction cnt as [|cnt IH]; intros i n s c m c' r Hc Hs Hb Hi Hbd H; cbn [loopX] in H.
  - injection H as <- <-. eauto.
  - destruct (call c i s) as [c1 ra] eqn:E1. destruct (Hok _ _ _ _ _ Hc E1) as (Hc1 & _ & _).
    destruct (Htot _ _ _ _ _ Hc E1 ltac:(lia) ltac:(lia)) as (a & ->).
    destruct (call c1 (n - i) (s - 1)) as [c2 rb] eqn:E2. destruct (Hok _ _ _ _ _ Hc1 E2) as (Hc2 & _ & _).
    destruct (Htot _ _ _ _ _ Hc1 E2 ltac:(lia) ltac:(lia)) as (b & ->).
    exact (IH (i + 1) n s c2 _ c' r Hc2 Hs Hb ltac:(lia) ltac:(lia) H).
Qed.
Theorem OsmS_total : forall fuel, CallTot (Z.of_nat fuel) (OsmS fuel).
Proof.
  induction fuel as [|f IH]; intros c n s c' r Hc H Hn Hs; [lia|].
  cbn [OsmS] in H. cbn zeta in H. set (s' := Z.min s (n - 1)) in *.
  destruct (zfind n s' c) as [v|] eqn:Ef; [injection H as <- <-; eauto|].
  destruct (Z.leb_spec n 0); [lia|].
  destruct ((s' <? Z.min 1 (n - 1)) || (s' >? n - 1)) eqn:Eg.
  { exfalso. apply orb_true_iff in Eg. destruct Eg as [Eg|Eg]; [apply Z.ltb_lt in Eg|rewrite Z.gtb_ltb in Eg; apply Z.ltb_lt in Eg]; unfold s' in *; lia. }
  destruct (Z.leb_spec n (s' + 1)); [injection H as <- <-; eauto|].
  destruct (Z.eqb_spec s' 1); [injection H as <- <-; eauto|].
  assert (Hs2 : 2 <= s') by (unfold s' in *; lia).
  destruct (OsmS f c (n - 1) (s' - 1)) as [c0 r0] eqn:E0. destruct (OsmS_ok f _ _ _ _ _ Hc E0) as (Hc0 & _ & _).
  destruct (IH _ _ _ _ _ Hc E0 ltac:(lia) ltac:(lia)) as (a0 & ->).
  destruct (loopX (OsmS f) (Z.to_nat (n - 2)) 2 n s' c0 (1 + a0)) as [c1 rm] eqn:El.
  destruct (loopX_total (OsmS f) (Z.of_nat f) (OsmS_ok f) IH (Z.to_nat (n - 2)) 2 n s' c0 (1 + a0) c1 rm Hc0 Hs2 ltac:(lia) ltac:(lia) ltac:(lia) El) as (m' & ->).
  injection H as <- <-. eauto.
Qed.
(* the published helper exactly as the extracted driver evaluates it (a fresh dictionary, fuel n + 2) *)
Theorem optimal_steps_mixed_value n s : 1 <= n -> Z.min 1 (n - 1) <= s -> optimal_steps_mixed n s = Ok (C n s).
Proof.
  intros Hn Hs. unfold optimal_steps_mixed. destruct (OsmS (Z.to_nat (n + 2)) [] n s) as [c' r] eqn:E. cbn [snd].
  assert (H0 : Coh []) by (intros a b v H; discriminate).
  assert (Hb : 1 <= n <= Z.of_nat (Z.to_nat (n + 2))) by lia.
  destruct (OsmS_total _ _ _ _ _ _ H0 E Hb Hs) as (v & ->).
  destruct (OsmS_ok _ _ _ _ _ _ H0 E) as (_ & _ & Hv). destruct (Hv v eq_refl) as (_ & _ & ->). reflexivity.
Qed.
Print Assumptions optimal_steps_mixed_value.

(* ---- the planner's cost is the minimum of its recurrence over ALL candidates (the analogue of BinomDP.E_le for Mixed) ---- *)
Lemma minloop_le : forall cnt i F acc, minloop cnt i F acc <= acc /\ forall j, i <= j < i + Z.of_nat cnt -> minloop cnt i F acc <= F j.
Proof.
  induction cnt as [|c IH]; intros i F acc; cbn [minloop]; [split; [lia|intros; lia]|].
  destruct (IH (i + 1) F (Z.min acc (F i))) as [H1 H2]. split; [lia|]. intros j Hj.
  destruct (Z.eq_dec j i) as [->|]; [lia|apply H2; lia].
Qed.
Lemma minloop_attained : forall cnt i F acc, minloop cnt i F acc = acc \/ exists j, i <= j < i + Z.of_nat cnt /\ minloop cnt i F acc = F j.
Proof.
  induction cnt as [|c IH]; intros i F acc; cbn [minloop]; [left; reflexivity|].
  destruct (IH (i + 1) F (Z.min acc (F i))) as [H|(j & Hj & H)].
  - destruct (Z.min_spec acc (F i)) as [[_ E]|[_ E]]; rewrite H, E; [left; reflexivity|right; exists i; split; [lia|reflexivity]].
  - right. exists j. split; [lia|exact H].
Qed.
Theorem C_le_adj m k : 2 <= k -> k + 1 < m -> C m k <= 1 + C (m - 1) (k - 1).
Proof.
  intros Hk Hm. pose proof (C_unfold m k ltac:(lia) ltac:(lia)) as H. cbn zeta in H. replace (Z.min k (m - 1)) with k in H by lia.
  destruct (Z.leb_spec m (k + 1)); [lia|]. destruct (Z.eqb_spec k 1); [lia|]. rewrite H. apply minloop_le.
Qed.
Theorem C_le_ics m k i : 2 <= k -> k + 1 < m -> 2 <= i <= m - 1 -> C m k <= i + C i k + C (m - i) (k - 1).
Proof.
  intros Hk Hm Hi. pose proof (C_unfold m k ltac:(lia) ltac:(lia)) as H. cbn zeta in H. replace (Z.min k (m - 1)) with k in H by lia.
  destruct (Z.leb_spec m (k + 1)); [lia|]. destruct (Z.eqb_spec k 1); [lia|]. rewrite H.
  exact (proj2 (minloop_le (Z.to_nat (m - 2)) 2 (pureX m k) _) i ltac:(lia)).
Qed.
Theorem C_attained m k : 2 <= k -> k + 1 < m ->
  C m k = 1 + C (m - 1) (k - 1) \/ exists i, 2 <= i <= m - 1 /\ C m k = i + C i k + C (m - i) (k - 1).
Proof.
  intros Hk Hm. pose proof (C_unfold m k ltac:(lia) ltac:(lia)) as H. cbn zeta in H. replace (Z.min k (m - 1)) with k in H by lia.
  destruct (Z.leb_spec m (k + 1)); [lia|]. destruct (Z.eqb_spec k 1); [lia|]. rewrite H.
  destruct (minloop_attained (Z.to_nat (m - 2)) 2 (pureX m k) (1 + C (m - 1) (k - 1))) as [E|(j & Hj & E)]; [left; exact E|].
  right. exists j. split; [lia|exact E].
Qed.
Print Assumptions C_le_ics.
Print Assumptions C_attained.
