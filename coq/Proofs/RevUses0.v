(* C11, the last corner of the Revolve family: snapshots_in_ram = 0, accepted for max_n = 1 only.  The op list is the single
   adjoint step (no Read / Write / Discard of a checkpoint at all), and the converter then yields no action that touches RAM or
   DISK -- under every history. *)
From Coq Require Import ZArith List Lia Bool.
Require Import Actions Ops RevSeq HRevSeq RevConv Exec Sched RunFacts UsesProofs ExecBudget RevBridge1 HRevBridge1 HRevUses HRevRun DiskRun.
Require RevBlk.
Import ListNotations.
Open Scope Z_scope.

Definition nostore (o : Ops.op) : Prop := match o with OF _ _ | OB _ _ | OWF _ _ | ODF _ _ | OWFM _ | ODFM _ | OD _ _ | ODM _ => True | _ => False end.
Definition nt (a : action) : Prop := forall sg, ~ touches a sg.
Lemma conv1_nostore N L i c c' acts : Forall nostore L -> conv1 N L i c = Ok (c', acts) -> Forall nt acts.
Proof.
  intros HL H. unfold conv1 in H. destruct (nth_error L i) as [o|] eqn:Eo; [|discriminate].
  assert (Hno : nostore o) by (rewrite Forall_forall in HL; apply HL; eapply nth_error_In; eauto).
  destruct (conv_n0_st o) as [[n0 sg]|] eqn:En; cbn [bind] in H; [|discriminate].
  destruct o as [a b|a b|k j|k j|k j|k j|k j|j|j|j|j|j|j|j|j]; cbn [nostore] in Hno; try contradiction.
  - (* OF: the previous op is not a checkpoint write, so the Forward goes to WORK *)
    destruct (negb _); [discriminate|].
    destruct (match i with O => last_op L | S j => nth_error L j end) as [prev|] eqn:Ep; [|discriminate].
    assert (Hnp : nostore prev).
    { rewrite Forall_forall in HL. apply HL. destruct i; [unfold last_op in Ep; destruct (rev L) as [|x r] eqn:Er; [discriminate|]; injection Ep as <-; apply in_rev; rewrite Er; left; reflexivity|eapply nth_error_In; eauto]. }
    destruct (conv_n0_st prev) as [[w ws]|] eqn:Epn; cbn [bind] in H; [|discriminate].
    match type of H with (do c2 <- ?M; _) = _ => destruct M as [c2|] eqn:Ec2; cbn [bind] in H; [|discriminate] end.
    assert (Hs2 : w_storage c2 = Some WORK).
    { destruct prev; cbn [nostore] in Hnp; try contradiction; try (destruct (negb _); [discriminate|]); injection Ec2 as <-; cbn [w_storage upd]; try reflexivity;
        cbn [conv_n0_st] in Epn; injection Epn as _ <-; reflexivity. }
    rewrite Hs2 in H. destruct (b =? N); [destruct (negb (r_ c2 =? 0)); [discriminate|]|]; injection H as <- <-; repeat constructor; intros s [Hcp Ht]; cbn in Ht;
      try (destruct Ht as [<- _]; discriminate); contradiction.
  - destruct (negb _); [discriminate|]. destruct (negb _); [discriminate|]. injection H as <- <-. repeat constructor. intros s [_ []].
  - destruct (Nat.ltb i 2); [discriminate|]. injection H as <- <-. constructor.
  - destruct (negb _); [discriminate|]. destruct (nth_error L (i + 3)) as [d|]; [|discriminate].
    destruct (conv_n0_st d) as [[d0 dst]|]; cbn [bind] in H; [|discriminate].
    destruct (_ && _ && _); [injection H as <- <-; constructor|]. destruct (w_n0 c); [|discriminate]. destruct (negb _); [discriminate|]. injection H as <- <-. constructor.
  - destruct (negb _); [discriminate|]. injection H as <- <-. constructor.
  - destruct (Nat.ltb i 2); [discriminate|]. injection H as <- <-. constructor.
  - destruct (negb _); [discriminate|]. destruct (nth_error L (i + 3)) as [d|]; [|discriminate].
    destruct (conv_n0_st d) as [[d0 dst]|]; cbn [bind] in H; [|discriminate].
    destruct (_ && _ && _); [injection H as <- <-; constructor|]. destruct (w_n0 c); [|discriminate]. destruct (negb _); [discriminate|]. injection H as <- <-. constructor.
  - destruct (negb _); [discriminate|]. injection H as <- <-. constructor.
Qed.

Definition RI0 (r : rst) : Prop := Forall nostore (ops r) /\ Forall nt (pend r).
Lemma advance_nostore N : forall fuel r, RI0 r -> RI0 (fst (advance fuel N r)) /\ match snd (advance fuel N r) with Yield a => nt a | _ => True end.
Proof.
  induction fuel as [|f IH]; intros r [Ho Hp]; cbn [advance]; [cbn; split; [split; [exact Ho|constructor]|exact I]|].
  destruct (Nat.ltb (idx r) (length (ops r))).
  - destruct (conv1 N (ops r) (idx r) (cs r)) as [[c' acts]|e] eqn:Ec; [|cbn; split; [split; [exact Ho|constructor]|exact I]].
    pose proof (conv1_nostore N _ _ _ _ _ Ho Ec) as Ha.
    destruct acts as [|a rest]; [apply IH; split; [exact Ho|constructor]|].
    cbn [fst snd]. inversion Ha; subst. split; [split; assumption|assumption].
  - destruct (negb _); cbn [fst snd fin ops pend]; (split; [split; [exact Ho|constructor]|]); [exact I|intros s [_ []]].
Qed.
Lemma next_nostore N r : RI0 r -> RI0 (fst (RevConv.next N r)) /\ match snd (RevConv.next N r) with Yield a => nt a | _ => True end.
Proof.
  intros [Ho Hp]. unfold RevConv.next. destruct (finished r); [cbn; split; [split; assumption|exact I]|].
  destruct (pend r) as [|a rest] eqn:Ep; [apply advance_nostore; split; [exact Ho|rewrite Ep; constructor]|].
  cbn [fst snd ops pend]. inversion Hp; subst. split; [split; assumption|assumption].
Qed.

(* the three disk classes with no RAM unit: max_n = 1, a single step *)
Theorem revfam_no_ram_touch_uses kd disk uf ub0 wd rd p ops o0 m ls : kd = KDiskRevolve \/ kd = KPeriodic \/ kd = KHRevolve ->
  run_case (PRev kd 1 0 disk uf ub0 wd rd) p ops = Ok (o0, m, ls) -> Forall touch_uses_line ls.
Proof.
  intros Hkd Hrun.
  unfold run_case in Hrun. destruct (Sched.construct (PRev kd 1 0 disk uf ub0 wd rd)) as [s|e] eqn:Ec; [|discriminate]. cbn [bind] in Hrun.
  destruct (run_ops p s mon0 ops) as [[s' m'] ls'] eqn:Er. injection Hrun as _ _ <-.
  cbn [Sched.construct] in Ec. unfold RevConv.construct in Ec.
  destruct (sequence kd 1 0 disk uf ub0 wd rd) as [L|] eqn:EL; cbn [bind] in Ec; [|discriminate]. cbn [Z.ltb Z.compare] in Ec. cbn [bind] in Ec. injection Ec as <-.
  assert (HL : Forall nostore L).
  { destruct Hkd as [->|[->| ->]].
    - destruct (disk_seq 1 0 disk uf ub0 wd rd ltac:(lia) ltac:(lia) ltac:(lia)) as (L0 & E0 & _). rewrite E0 in EL. injection EL as <-.
      change (sequence KDiskRevolve 1 0 disk uf ub0 wd rd) with (disk_revolve_top 0 0 wd rd uf ub0) in E0. cbn in E0. injection E0 as E0.
      assert (L0 = RevBlk.adj 0) as -> by (destruct L0 as [|[] [|[] [|[] [|[] [|]]]]]; cbn in E0; try discriminate; injection E0 as <- <- <- <- <- <-; reflexivity).
      repeat constructor.
    - change (sequence KPeriodic 1 0 disk uf ub0 wd rd) with (do q <- periodic_top 0 0 wd rd uf ub0; Ok (fst q)) in EL.
      unfold periodic_top in EL. cbn in EL. replace (Pos.to_nat 4) with 4%nat in EL by reflexivity. cbn in EL. injection EL as <-. repeat constructor.
    - change (sequence KHRevolve 1 0 disk uf ub0 wd rd) with (hrevolve (1 - 1) 0 disk wd rd uf ub0) in EL. change (1 - 1) with 0 in EL.
      unfold hrevolve in EL. destruct (get_hopt_table 0 0 disk 0 wd 0 rd ub0 uf) as [T|]; cbn [bind] in EL; [|discriminate].
      change (Z.to_nat (4 * 0 + 8)) with 8%nat in EL. cbn [recurse Z.eqb] in EL. injection EL as <-. repeat constructor. }
  set (I := fun sc : sched => exists r, ob sc = ORevF kd 1 0 disk r /\ RI0 r).
  assert (HI0 : I {| ob := ORevF kd 1 0 disk (init_r L); started := false |}) by (eexists; split; [reflexivity|split; [exact HL|constructor]]).
  pose proof (ops_act I nt
    ltac:(intros sc (r & Hr & HR); unfold Sched.next; rewrite Hr; pose proof (next_nostore 1 r HR) as Hn; destruct (RevConv.next 1 r) as [r' o];
          cbn [fst snd] in *; split; [exists r'; split; [reflexivity|exact (proj1 Hn)]|destruct o; auto; exact (proj2 Hn)])
    ltac:(intros kk sc (r & Hr & HR); unfold Sched.finalize; rewrite Hr; exists r; split; [|exact HR]; destruct (kk <? 1); [exact Hr|]; cbn [fst]; destruct (get_max_n sc); [destruct (_ || _)|]; exact Hr)
    p ops _ mon0 HI0) as Hact.
  rewrite Er in Hact. destruct Hact as [_ Hact]. eapply Forall_impl; [|exact Hact].
  intros [o ob0|e ob0]; cbn [act_line touch_uses_line]; auto. destruct o as [a| |e]; auto. intros Hn sg Hsg. exfalso. exact (Hn sg Hsg).
Qed.
Print Assumptions revfam_no_ram_touch_uses.
