(* C14, last clause, the allocation step: given per-position access counts w (non-negative), the labelling computed by
   allocate_snapshots (RAM for the r positions that sort first, by weight descending, ties in position order) spends the
   smallest possible total weight on DISK among all labellings with at most r RAM positions. *)
From Coq Require Import ZArith List Lia Bool Permutation.
Require Import Actions NAdvance Multistage AllocProofs TopK.
Import ListNotations.
Open Scope Z_scope.

Fixpoint lsum (st : storage) (L : list storage) (w : list Z) : Z :=
  match L, w with l :: L', x :: w' => (if st_eqb st l then x else 0) + lsum st L' w' | _, _ => 0 end.

Lemma lsum_split : forall L w, length L = length w -> Forall (fun l => l = RAM \/ l = DISK) L -> lsum RAM L w + lsum DISK L w = sum w.
Proof.
  induction L as [|l L IH]; intros [|x w] Hl HF; cbn [length] in Hl; try lia; [reflexivity|].
  inversion HF as [|? ? Hc HF']; subst. cbn [lsum]. change (sum (x :: w)) with (x + sum w). specialize (IH w ltac:(lia) HF').
  destruct Hc as [-> | ->]; cbn [st_eqb]; lia.
Qed.

(* the weights at the RAM positions, and the others *)
Fixpoint pick (b : bool) (L : list storage) (w : list Z) : list Z :=
  match L, w with l :: L', x :: w' => (if Bool.eqb (st_eqb RAM l) b then [x] else []) ++ pick b L' w' | _, _ => [] end.
Lemma pick_sum : forall L w, lsum RAM L w = sum (pick true L w).
Proof. induction L as [|l L IH]; intros [|x w]; try reflexivity. cbn [lsum pick]. rewrite sum_app, <- IH. destruct (st_eqb RAM l); cbn; lia. Qed.
Lemma pick_perm : forall L w, length L = length w -> Permutation w (pick true L w ++ pick false L w).
Proof.
  induction L as [|l L IH]; intros [|x w] Hl; cbn [length] in Hl; try lia; [reflexivity|]. cbn [pick].
  specialize (IH w ltac:(lia)). destruct (st_eqb RAM l); cbn [Bool.eqb app].
  - constructor. exact IH.
  - cbn [app]. apply Permutation_cons_app. exact IH.
Qed.
Lemma pick_len : forall L w, length L = length w -> length (pick true L w) = length (filter (st_eqb RAM) L).
Proof. induction L as [|l L IH]; intros [|x w] Hl; cbn [length] in Hl; try lia; [reflexivity|]. cbn [pick filter]. rewrite app_length, (IH w) by lia. destruct (st_eqb RAM l); reflexivity. Qed.

Lemma firstn_sum_mono l : Forall (fun x => 0 <= x) l -> forall a b, (a <= b)%nat -> sum (firstn a l) <= sum (firstn b l).
Proof.
  induction 1 as [|x l Hx Hl IH]; intros a b Hab; [rewrite !firstn_nil; lia|].
  destruct a as [|a]; destruct b as [|b]; try lia; cbn [firstn].
  - change (sum []) with 0. change (sum (x :: firstn b l)) with (x + sum (firstn b l)). specialize (IH 0%nat b ltac:(lia)). cbn [firstn] in IH. change (sum []) with 0 in IH. lia.
  - change (x + sum (firstn a l) <= x + sum (firstn b l)). specialize (IH a b ltac:(lia)). lia.
Qed.

(* sort_desc sorts by weight, descending *)
Lemma ins_desc x l : Desc (map snd l) -> Desc (map snd (ins x l)).
Proof.
  induction l as [|y l IH]; intros HD; cbn [ins map]; [cbn; split; [intros ? []|exact I]|].
  destruct (Z.leb_spec (snd y) (snd x)) as [Hle|Hgt]; cbn [map Desc].
  - split; [|exact HD]. intros z [<-|Hz]; [exact Hle|]. destruct HD as [Hy _]. specialize (Hy z Hz). lia.
  - destruct HD as [Hy HD]. split; [|apply IH; exact HD].
    intros z Hz. apply (Permutation_in (l' := map snd (x :: l))) in Hz; [|apply Permutation_map; apply ins_perm].
    destruct Hz as [<-|Hz]; [lia|apply Hy; exact Hz].
Qed.
Lemma sort_desc_Desc l : Desc (map snd (sort_desc l)).
Proof. induction l as [|x l IH]; [exact I|]. cbn [sort_desc fold_right]. fold (sort_desc l). apply ins_desc. exact IH. Qed.

Lemma lsum_alloc w r : lsum RAM (alloc_labels w r) w = sum (firstn r (map snd (sort_desc (combine (seq 0 (length w)) w)))).
Proof.
  unfold alloc_labels. set (n := length w). set (C := combine (seq 0 n) w). set (srt := sort_desc C). set (idx := map fst (firstn r srt)).
  change (fun i : nat => if existsb (Nat.eqb i) idx then RAM else DISK) with (lbl idx).
  (* as a sum over the pairs of C whose position is in idx *)
  assert (H1 : forall i0 w0, lsum RAM (map (lbl idx) (seq i0 (length w0))) w0 = sum (map snd (filter (fun p => g idx (fst p)) (combine (seq i0 (length w0)) w0)))).
  { intros i0 w0. revert i0. induction w0 as [|x w0 IH]; intros i0; [reflexivity|]. cbn [length seq map lsum combine filter fst]. rewrite IH. unfold lbl at 1.
    destruct (g idx i0); cbn [st_eqb map snd]; reflexivity. }
  unfold n at 1. rewrite H1. fold n. fold C.
  fold srt. rewrite firstn_map. apply sum_perm. apply Permutation_map.
  assert (HP : Permutation srt C) by apply sort_desc_perm.
  assert (HndC : NoDup (map fst C)) by (unfold C; rewrite map_fst_combine by (rewrite seq_length; reflexivity); apply seq_NoDup).
  assert (Hnds : NoDup (map fst srt)) by (eapply Permutation_NoDup; [apply Permutation_map; symmetry; exact HP|exact HndC]).
  assert (NoDup_of_fst : forall (l : list (nat * Z)), NoDup (map fst l) -> NoDup l).
  { induction l as [|p l IH]; intros H; [constructor|]. cbn [map] in H. inversion H as [|? ? Hni Hnd]; subst. constructor; [|auto]. intros Hin. apply Hni. apply in_map. exact Hin. }
  apply NoDup_Permutation.
  - apply NoDup_filter. apply NoDup_of_fst. exact HndC.
  - apply NoDup_firstn. apply NoDup_of_fst. exact Hnds.
  - intros p. rewrite filter_In, g_In. unfold idx. split.
    + intros [HpC Hpi]. apply in_map_iff in Hpi. destruct Hpi as (q & Hq & Hqin).
      assert (Hqs : In q srt) by (eapply firstn_incl; exact Hqin).
      assert (Hps : In p srt) by (apply (Permutation_in (l := C)); [symmetry; exact HP|exact HpC]).
      (* same position, no duplicate positions: same pair *)
      assert (p = q).
      { clear - Hnds Hqs Hps Hq. induction srt as [|z s IH]; [destruct Hqs|]. cbn [map] in Hnds. inversion Hnds as [|? ? Hni Hnd]; subst.
        destruct Hqs as [->|Hqs], Hps as [->|Hps]; auto.
        - exfalso. apply Hni. rewrite Hq. apply in_map. exact Hps.
        - exfalso. apply Hni. rewrite <- Hq. apply in_map. exact Hqs. }
      subst q. exact Hqin.
    + intros Hp. split; [apply (Permutation_in (l := srt)); [exact HP|eapply firstn_incl; exact Hp]|apply in_map; exact Hp].
Qed.

Theorem alloc_min_disk w r L' : Forall (fun x => 0 <= x) w -> length L' = length w -> Forall (fun l => l = RAM \/ l = DISK) L' ->
  (length (filter (st_eqb RAM) L') <= r)%nat -> lsum DISK (alloc_labels w r) w <= lsum DISK L' w.
Proof.
  intros Hw Hl HF Hr.
  destruct (alloc_labels_facts w r) as (HFa & Hla & _).
  pose proof (lsum_split (alloc_labels w r) w Hla HFa). pose proof (lsum_split L' w Hl HF).
  assert (lsum RAM L' w <= lsum RAM (alloc_labels w r) w); [|lia].
  rewrite lsum_alloc, pick_sum.
  set (Ld := map snd (sort_desc (combine (seq 0 (length w)) w))).
  assert (HLd : Permutation Ld w).
  { unfold Ld. rewrite sort_desc_perm. clear. generalize 0%nat. induction w as [|x w IH]; intros i0; [reflexivity|]. cbn [length seq combine map snd]. constructor. apply IH. }
  pose proof (topk_max Ld (sort_desc_Desc _) (pick true L' w) (pick false L' w) ltac:(rewrite HLd; apply pick_perm; exact Hl)) as Ht.
  rewrite (pick_len L' w Hl) in Ht.
  assert (HLdnn : Forall (fun x => 0 <= x) Ld) by (rewrite Forall_forall in *; intros x Hx; apply Hw; eapply Permutation_in; [exact HLd|exact Hx]).
  pose proof (firstn_sum_mono Ld HLdnn _ _ Hr). lia.
Qed.
Print Assumptions alloc_min_disk.

(* C14, second clause: every position of the checkpoint stack keeps one storage: a checkpoint pushed when the stack holds d
   entries is written to label d, and an entry is only ever read while it is on top with d entries below it -- from label d *)
Lemma ms_position_storage : forall f c s s' a, Multistage.resume f c s = (s', Yield a) ->
  match a with
  | Forward n0 _ true _ sg => label c (length (snaps s)) = Ok sg /\ snaps s' = n0 :: snaps s
  | Copy cp sg _ | Move cp sg _ => exists rest, snaps s = cp :: rest /\ label c (length rest) = Ok sg
  | _ => True end.
Proof.
  induction f as [|f IH]; intros c s s' a H; cbn [Multistage.resume] in H; [discriminate|].
  destruct s as [q n r sn e]. cbn [pcv n_ r_ snaps] in H |- *.
  destruct q;
    repeat match type of H with
    | context [match ?x with _ => _ end] => let E := fresh "E" in destruct x eqn:E
    | context [if ?x then _ else _] => let E := fresh "E" in destruct x eqn:E
    end; try discriminate; try (injection H as <- <-; cbn [mk snaps]; auto; try (eexists; split; [reflexivity|assumption]); fail);
    try (apply IH in H; cbn [mk snaps] in H; exact H).
Qed.
