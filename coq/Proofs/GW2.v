From Coq Require Import ZArith List Lia Arith Bool.
Require Import BinomDef Binom2 NAdvance NAdv.
Open Scope Z_scope.

Definition betam (s t : nat) : Z := match t with O => 0 | S t' => beta s t' end.
Definition line (s t : nat) (n : Z) : Z := Z.of_nat t * n - betam (S s) t.

Lemma beta_2 t : 2 * beta 2 t = (Z.of_nat t + 1) * (Z.of_nat t + 2).
Proof. rewrite beta_sym. apply beta_s2. Qed.
Lemma beta_mono_s_le s s' t : (s <= s')%nat -> beta s t <= beta s' t.
Proof. induction 1; [lia|]. pose proof (beta_mono_s m t). lia. Qed.
Lemma beta_mono_t_le s t t' : (t <= t')%nat -> beta s t <= beta s t'.
Proof. induction 1; [lia|]. pose proof (beta_mono_t s m). lia. Qed.
Lemma betam_mono_s s s' t : (s <= s')%nat -> betam s t <= betam s' t.
Proof. destruct t; cbn; [lia|]. apply beta_mono_s_le. Qed.

Section GW.
  Variable tr : traj.
  (* E : the dynamic program optimal_extra_steps (with the cache_step clamp) *)
  Variable E : nat -> nat -> Z.
  Hypothesis E_1 : forall s, E 1 s = 0.
  Hypothesis E_s1 : forall n, (1 <= n)%nat -> 2 * E n 1 = Z.of_nat n * (Z.of_nat n - 1).
  Hypothesis E_clamp : forall n s, (2 <= n)%nat -> (n - 1 < s)%nat -> E n s = E n (n-1).
  Hypothesis E_dp : forall n s, (2 <= s)%nat -> (s <= n - 1)%nat ->
      exists i, (1 <= i < n)%nat /\ E n s = Z.of_nat i + E i s + E (n - i) (s - 1).
  Hypothesis E_le : forall n s i, (2 <= s)%nat -> (s <= n - 1)%nat -> (1 <= i < n)%nat ->
      E n s <= Z.of_nat i + E i s + E (n - i) (s - 1).

  Lemma E_nonneg : forall n s, (1 <= n)%nat -> (1 <= s)%nat -> 0 <= E n s.
  Proof.
    induction n as [n IH] using lt_wf_ind. intros s Hn Hs.
    destruct (Nat.eq_dec n 1) as [->|]; [rewrite E_1; lia|].
    assert (Hcl : forall s', (1 <= s' <= n - 1)%nat -> 0 <= E n s').
    { intros s' Hs'. destruct (Nat.eq_dec s' 1) as [->|]; [pose proof (E_s1 n Hn); nia|].
      destruct (E_dp n s') as (i & Hi & ->); [lia|lia|].
      pose proof (IH i ltac:(lia) s' ltac:(lia) ltac:(lia)).
      destruct (Nat.eq_dec (n - i) 1) as [->|]; [rewrite E_1; lia|].
      pose proof (IH (n-i)%nat ltac:(lia) (s'-1)%nat ltac:(lia) ltac:(lia)). lia. }
    destruct (le_lt_dec s (n-1)); [apply Hcl; lia|]. rewrite E_clamp by lia. apply Hcl; lia.
  Qed.

  (* ---- lower bound: every supporting line is below the DP ---- *)
  Lemma LB : forall n s t, (1 <= n)%nat -> (1 <= s)%nat -> line s t (Z.of_nat n) <= E n s.
  Proof.
    induction n as [n IHn] using lt_wf_ind.
    intros s t Hn Hs. unfold line.
    destruct t as [|t]; [cbn [betam]; pose proof (E_nonneg n s Hn Hs); lia|].
    cbn [betam].
    destruct (Nat.eq_dec n 1) as [->|Hn1].
    { pose proof (beta_ge s t). rewrite E_1. lia. }
    assert (Hcl : forall s', (1 <= s' <= n - 1)%nat -> Z.of_nat (S t) * Z.of_nat n - beta (S s') t <= E n s').
    { intros s' Hs'. destruct (Nat.eq_dec s' 1) as [->|Hs1].
      { pose proof (E_s1 n Hn) as H. pose proof (beta_2 t) as Hb.
        rewrite Nat2Z.inj_succ. set (T := Z.of_nat t) in *. set (N := Z.of_nat n) in *.
        assert (0 <= (N - (T+1)) * (N - (T+1) - 1)) by (destruct (Z_le_gt_dec (N-(T+1)) 0); nia).
        nia. }
      destruct (E_dp n s') as (i & Hi & ->); [lia|lia|].
      assert (H1 := IHn i ltac:(lia) s' t ltac:(lia) ltac:(lia)).
      assert (H2 := IHn (n - i)%nat ltac:(lia) (s'-1)%nat (S t) ltac:(lia) ltac:(lia)).
      unfold line in *. cbn [betam] in H2.
      replace (S (s'-1)) with s' in H2 by lia.
      destruct t as [|t].
      + cbn [betam] in H1. rewrite beta_0_r in *. lia.
      + cbn [betam] in H1. rewrite beta_SS.
        rewrite Nat2Z.inj_sub in H2 by lia. nia. }
    destruct (le_lt_dec s (n-1)); [apply Hcl; lia|].
    rewrite E_clamp by lia. pose proof (Hcl (n-1)%nat ltac:(lia)).
    pose proof (beta_mono_s_le (S (n-1)) (S s) t ltac:(lia)). lia.
  Qed.

  (* ---- the schedule's own recursion ---- *)
  Variable Eh : Z -> Z -> Z.
  Hypothesis Eh_1 : forall k, Eh 1 k = 0.
  Hypothesis Eh_rec : forall n k, 2 <= n -> 1 <= k ->
     exists a, n_advance n k tr = NOk a /\ Eh n k = a + Eh a k + Eh (n - a) (k - 1).

  (* clamped region: k >= n-1 gives n-1 *)
  Lemma Eh_full : forall m n k, (Z.to_nat n <= m)%nat -> 1 <= n -> n - 1 <= k -> 1 <= k \/ n = 1 -> Eh n k = n - 1.
  Proof.
    induction m as [|m IH]; intros n k Hm Hn Hk Hk1; [lia|].
    destruct (Z.eq_dec n 1) as [->|]; [rewrite Eh_1; lia|].
    assert (1 <= k) by lia.
    destruct (Eh_rec n k ltac:(lia) ltac:(lia)) as (a & Ha & ->).
    destruct (n_advance_spec n k tr ltac:(lia) ltac:(lia)) as (a' & Ha' & _ & Hr & Hs1 & Hsn & _).
    rewrite Ha in Ha'. injection Ha' as <-.
    assert (a = 1).
    { destruct (Z.eq_dec n 2); [specialize (Hr ltac:(lia)); lia|]. apply Hsn; lia. }
    subst a. rewrite Eh_1. rewrite (IH (n-1) (k-1)); try lia.
  Qed.

  Lemma Eh_one : forall m n, (Z.to_nat n <= m)%nat -> 1 <= n -> 2 * Eh n 1 = n * (n - 1).
  Proof.
    induction m as [|m IH]; intros n Hm Hn; [lia|].
    destruct (Z.eq_dec n 1) as [->|]; [rewrite Eh_1; lia|].
    destruct (Eh_rec n 1 ltac:(lia) ltac:(lia)) as (a & Ha & ->).
    destruct (n_advance_spec n 1 tr ltac:(lia) ltac:(lia)) as (a' & Ha' & _ & Hr & Hs1 & _).
    rewrite Ha in Ha'. injection Ha' as <-.
    assert (a = n - 1) by (apply Hs1; lia). subst a.
    replace (n - (n-1)) with 1 by lia. rewrite Eh_1.
    pose proof (IH (n-1) ltac:(lia) ltac:(lia)). nia.
  Qed.

  (* ---- upper bound on closed segments ---- *)
  Lemma UB : forall m n k t, (Z.to_nat n <= m)%nat -> 1 <= n -> (1 <= k)%nat ->
     betam k t <= n <= beta k t -> Eh n (Z.of_nat k) <= line k t n.
  Proof.
    induction m as [|m IH]; intros n k t Hm Hn Hk Hseg; [lia|].
    unfold line.
    destruct (Z.eq_dec n 1) as [->|Hn1].
    { rewrite Eh_1. destruct t as [|t]; cbn [betam]; [lia|].
      cbn [betam] in Hseg. pose proof (beta_pos k t).
      (* beta k t <= 1 -> t = 0 *)
      destruct t as [|t]; [rewrite beta_0_r; lia|].
      pose proof (beta_mono_t_le k 1 (S t) ltac:(lia)). rewrite beta_s1 in *. lia. }
    (* t >= 1 since n >= 2 > beta k 0 - ... *)
    destruct t as [|t]; [cbn in Hseg; rewrite ?beta_0_r in Hseg; lia|].
    cbn [betam] in *.
    destruct (Z_le_gt_dec n (Z.of_nat k + 1)) as [Hcl|Hbig].
    { (* clamped or boundary: Eh = n-1 *)
      rewrite (Eh_full (S m)) by lia.
      destruct t as [|t]; [rewrite beta_0_r; lia|].
      (* t+1 >= 2 : beta k (S t) <= n <= k+1 = beta k 1 forces t = 0 and n = k+1 *)
      pose proof (beta_mono_t_le k 1 (S t) ltac:(lia)). rewrite beta_s1 in *.
      assert (n = Z.of_nat k + 1) by lia.
      destruct t as [|t].
      - pose proof (beta_s1 (S k)). rewrite H1. rewrite !Nat2Z.inj_succ. lia.
      - pose proof (beta_mono_t_le k 2 (S (S t)) ltac:(lia)). pose proof (beta_s2 k). nia. }
    (* n >= k+2: no clamping, s_eff = k *)
    destruct (Nat.eq_dec k 1) as [->|Hk1].
    { pose proof (Eh_one (S m) n ltac:(lia) ltac:(lia)) as H1. change (Z.of_nat 1) with 1.
      pose proof (beta_2 t) as Hb. rewrite !beta_1 in Hseg.
      rewrite !Nat2Z.inj_succ in *.
      assert (n = Z.of_nat t + 1 \/ n = Z.of_nat t + 2) as [-> | ->] by lia; nia. }
    destruct (Eh_rec n (Z.of_nat k) ltac:(lia) ltac:(lia)) as (a & Ha & ->).
    destruct (n_advance_spec n (Z.of_nat k) tr ltac:(lia) ltac:(lia)) as (a' & Ha' & _ & Hr & _ & _ & Hreg).
    rewrite Ha in Ha'. injection Ha' as <-. specialize (Hr ltac:(lia)).
    replace (Z.max (Z.min (Z.of_nat k) (n - 1)) 1) with (Z.of_nat k) in Hreg by lia.
    destruct (Hreg ltac:(lia)) as (sn & tn & Hsn & Htn & Hexact & Hregion).
    assert (sn = k) by lia. subst sn.
    (* the exact tn and our t+1 : either tn = t+1, or n is the left endpoint and tn = t *)
    destruct k as [|[|k2]]; [lia|lia|]. destruct tn as [|[|t2]]; [lia|lia|].
    unfold region in Hregion. cbn [Nat.sub] in *. rewrite ?Nat.sub_0_r in *.
    destruct Hregion as [[Ha1 Ha2] [Hb1 Hb2]].
    (* bound on the exact segment tn = S (S t2) *)
    assert (HA : a + Eh a (Z.of_nat (S (S k2))) + Eh (n - a) (Z.of_nat (S (S k2)) - 1)
                 <= Z.of_nat (S (S t2)) * n - beta (S (S (S k2))) (S t2)).
    { pose proof (IH a (S (S k2)) (S t2) ltac:(lia) ltac:(lia) ltac:(lia)) as H1.
      cbn [betam] in H1. specialize (H1 ltac:(lia)). unfold line in H1. cbn [betam] in H1.
      pose proof (IH (n - a) (S k2) (S (S t2)) ltac:(lia) ltac:(lia) ltac:(lia)) as H2.
      cbn [betam] in H2. specialize (H2 ltac:(lia)). unfold line in H2. cbn [betam] in H2.
      replace (Z.of_nat (S (S k2)) - 1) with (Z.of_nat (S k2)) by lia.
      pose proof (beta_SS (S (S k2)) t2) as P. rewrite !Nat2Z.inj_succ in *. nia. }
    assert (Htt : S t = S (S t2) \/ (S t = S (S (S t2)) /\ n = beta (S (S k2)) (S (S t2)))).
    { destruct (lt_eq_lt_dec t (S t2)) as [[Hlt|Heq]|Hgt]; [|left; lia|].
      - exfalso. pose proof (beta_mono_t_le (S (S k2)) (S t) (S t2) ltac:(lia)). lia.
      - destruct (Nat.eq_dec t (S (S t2))) as [->|Hne].
        + right. split; [reflexivity|]. lia.
        + exfalso. pose proof (beta_mono_t_le (S (S k2)) (S (S (S t2))) t ltac:(lia)).
          pose proof (beta_SS (S k2) (S (S t2))). pose proof (beta_pos (S k2) (S (S (S t2)))). lia. }
    destruct Htt as [Htt | [Htt Hnb]].
    - injection Htt as ->. cbn [betam]. exact HA.
    - injection Htt as ->. cbn [betam].
      pose proof (beta_SS (S (S k2)) (S t2)) as P. rewrite !Nat2Z.inj_succ in *. lia.
  Qed.

  (* ---- main theorem: DP = schedule recursion = closed form ---- *)
  Lemma Eh_ge_E : forall m n k, (n <= m)%nat -> (1 <= n)%nat -> (1 <= k)%nat \/ n = 1%nat ->
     E n k <= Eh (Z.of_nat n) (Z.of_nat k).
  Proof.
    induction m as [|m IH]; intros n k Hm Hn Hk; [lia|].
    destruct (Nat.eq_dec n 1) as [->|Hn1]; [rewrite E_1; change (Z.of_nat 1) with 1; rewrite Eh_1; lia|].
    assert (Hk1 : (1 <= k)%nat) by lia.
    destruct (Eh_rec (Z.of_nat n) (Z.of_nat k) ltac:(lia) ltac:(lia)) as (a & Ha & ->).
    destruct (n_advance_spec (Z.of_nat n) (Z.of_nat k) tr ltac:(lia) ltac:(lia)) as (a' & Ha' & _ & Hr & Hs1 & Hsn & _).
    rewrite Ha in Ha'. injection Ha' as <-. specialize (Hr ltac:(lia)).
    set (i := Z.to_nat a). assert (Hi : a = Z.of_nat i) by lia. assert (Hi2 : (1 <= i < n)%nat) by lia. clearbody i.
    pose proof (IH i k ltac:(lia) ltac:(lia) ltac:(lia)) as H1.
    pose proof (IH (n - i)%nat (k-1)%nat ltac:(lia) ltac:(lia)) as H2.
    rewrite Hi. replace (Z.of_nat n - Z.of_nat i) with (Z.of_nat (n - i)) by lia.
    replace (Z.of_nat k - 1) with (Z.of_nat (k - 1)) by lia.
    destruct (le_lt_dec k (n-1)) as [Hle|Hgt].
    - destruct (Nat.eq_dec k 1) as [->|Hk2].
      + (* s = 1: E n 1 = n(n-1)/2 and a = n-1 *)
        assert (a = Z.of_nat n - 1) by (apply Hs1; lia).
        assert (i = (n-1)%nat) by lia. subst i.
        replace (n - (n-1))%nat with 1%nat by lia. cbn [Nat.sub]. change (Z.of_nat 1) with 1. rewrite Eh_1.
        pose proof (E_s1 n Hn). pose proof (E_s1 (n-1)%nat ltac:(lia)).
        rewrite Nat2Z.inj_sub in * by lia. change (Z.of_nat 1) with 1 in *. nia.
      + specialize (H2 ltac:(lia)).
        pose proof (E_le n k i ltac:(lia) ltac:(lia) ltac:(lia)). lia.
    - (* clamped *)
      rewrite E_clamp by lia.
      assert (a = 1).
      { destruct (Nat.eq_dec n 2); [lia|]. apply Hsn; lia. }
      assert (i = 1%nat) by lia. subst i.
      destruct (Nat.eq_dec n 2) as [->|Hn2].
      + cbn [Nat.sub]. pose proof (E_s1 2 ltac:(lia)). change (Z.of_nat 1) with 1. rewrite !Eh_1.
        change (Z.of_nat 2) with 2 in *. lia.
      + pose proof (E_le n (n-1)%nat 1%nat ltac:(lia) ltac:(lia) ltac:(lia)) as H3.
        rewrite E_1 in H3. change (Z.of_nat 1) with 1 in *. rewrite Eh_1.
        (* E (n-1) (n-2) <= Eh (n-1) (k-1) : by IH and clamp of E *)
        specialize (H2 ltac:(lia)).
        assert (E (n-1) (n-1-1) = E (n-1) (k-1)).
        { destruct (Nat.eq_dec (k-1) (n-1-1)) as [->|]; [reflexivity|]. symmetry. apply E_clamp; lia. }
        lia.
  Qed.

  Theorem GW_main : forall n k t, (1 <= n)%nat -> (1 <= k)%nat ->
     betam (Nat.min k (n-1)) t <= Z.of_nat n <= beta (Nat.min k (n-1)) t -> (2 <= n)%nat ->
     E n k = Eh (Z.of_nat n) (Z.of_nat k) /\ E n k = line (Nat.min k (n-1)) t (Z.of_nat n).
  Proof.
    intros n k t Hn Hk Hseg Hn2.
    pose proof (Eh_ge_E n n k ltac:(lia) Hn ltac:(lia)) as H1.
    set (s := Nat.min k (n-1)) in *.
    assert (HEs : E n k = E n s).
    { unfold s. destruct (le_lt_dec k (n-1)); [rewrite Nat.min_l by lia; reflexivity|].
      rewrite Nat.min_r by lia. apply E_clamp; lia. }
    pose proof (LB n s t Hn ltac:(lia)) as H2.
    assert (HEh : Eh (Z.of_nat n) (Z.of_nat k) = Eh (Z.of_nat n) (Z.of_nat s)).
    { unfold s. destruct (le_lt_dec k (n-1)); [rewrite Nat.min_l by lia; reflexivity|].
      rewrite Nat.min_r by lia. rewrite !(Eh_full n) by lia. reflexivity. }
    pose proof (UB n (Z.of_nat n) s t ltac:(lia) ltac:(lia) ltac:(lia) Hseg) as H3.
    lia.
  Qed.
End GW.

Print Assumptions GW_main.
