(* DiskRevolve, bridge 2: an action accepted by the RAM + DISK executor of DiskBlk.v is accepted by the reference executor
   Exec.check with budgets RAM = R, DISK = unbounded.  Memory actions: RevBridge2.rev_exec_agrees plus a frame lemma (they
   neither read nor change the DISK store); the two disk actions directly. *)
From Coq Require Import ZArith List Lia Bool.
Require Import Actions Multistage Exec ExecFacts MSBridge RevBridge2.
Require RevBlk DiskBlk MSPot MSTerm.
Import ListNotations.
Open Scope Z_scope.

Section DB2.
Variable N R : Z.
Hypothesis HR : 0 <= R.

Definition pD : xparams := {| xN := N; keep_all_deps := false; budget_ram := Some R; budget_disk := None |}.
Definition encD (e : Z * (Z * Z)) : Z * cp := (fst e, {| cp_ics := Some (snd e); cp_deps := None |}).
Definition nodisk (a : action) : Prop :=
  match a with Forward _ _ _ _ sg => sg <> DISK | Copy _ s d | Move _ s d => s <> DISK /\ d <> DISK | _ => True end.
Definition same_core (X Y : xstate) : Prop :=
  fwd X = fwd Y /\ w_ics X = w_ics Y /\ w_deps X = w_deps Y /\ rr X = rr Y /\ seen_endfwd X = seen_endfwd Y /\ ram X = ram Y /\ disk X = disk Y /\ cnt X = cnt Y.
Notation nd X := (set_store X DISK []).

Lemma frame a k e X : nodisk a -> a <> EndReverse ->
  check pD k e X a = check (pR N R) k e (nd X) a /\ same_core (nd (apply pD e X a)) (apply (pR N R) e (nd X) a) /\ disk (apply pD e X a) = disk X.
Proof.
  intros Hnd Hne. destruct a as [n0 n1 wi wa sg|n1 n0 cl|n src dst|n src dst| |]; cbn [nodisk] in Hnd; try congruence.
  - destruct sg; try congruence; (split; [reflexivity|split; [repeat split; reflexivity|reflexivity]]).
  - split; [reflexivity|split; [repeat split; reflexivity|reflexivity]].
  - destruct Hnd as [Hs Hd]. destruct src; try congruence; destruct dst; try congruence; cbn [check apply sel set_store ram disk];
      (split; [reflexivity|]); destruct (lookup n _); (split; [repeat split; reflexivity|reflexivity]).
  - destruct Hnd as [Hs Hd]. destruct src; try congruence; destruct dst; try congruence; cbn [check apply sel set_store ram disk];
      (split; [reflexivity|]); destruct (lookup n _); (split; [repeat split; reflexivity|reflexivity]).
  - split; [reflexivity|split; [repeat split; reflexivity|reflexivity]].
Qed.
Lemma Rx_core t A B : same_core A B -> Rx t B -> Rx t A.
Proof. intros (E1 & E2 & E3 & E4 & E5 & E6 & E7 & E8) (R1 & R2 & R3 & R4 & R5 & R6 & R7 & R8). unfold Rx. rewrite E1, E2, E3, E4, E5, E6, E7, E8. repeat split; assumption. Qed.

Definition NNd (d : list (Z * (Z * Z))) : Prop := forall k v, RevBlk.lookup k d = Some v -> 0 <= k.
Definition RxD (d : Z) (X0 : DiskBlk.dxst) (X : xstate) : Prop :=
  Rx (toMS d (DiskBlk.mx X0)) (nd X) /\ disk X = map encD (DiskBlk.dk X0).

Lemma lookup_encD dkk n : lookup n (map encD dkk) = match RevBlk.lookup n dkk with Some v => Some {| cp_ics := Some v; cp_deps := None |} | None => None end.
Proof. induction dkk as [|[k v] l IH]; [reflexivity|]. cbn [map encD fst snd lookup RevBlk.lookup]. destruct (n =? k); [reflexivity|exact IH]. Qed.
Lemma remove_encD dkk n : remove n (map encD dkk) = map encD (RevBlk.remove n dkk).
Proof. induction dkk as [|[k v] l IH]; [reflexivity|]. cbn [map encD fst snd remove RevBlk.remove]. destruct (n =? k); [reflexivity|]. cbn [map encD fst snd]. rewrite IH. reflexivity. Qed.
Lemma lookup_remove_some_d dkk n k v : RevBlk.lookup k (RevBlk.remove n dkk) = Some v -> exists v', RevBlk.lookup k dkk = Some v'.
Proof.
  induction dkk as [|[k' w] l IH]; [discriminate|]. cbn [RevBlk.remove RevBlk.lookup]. destruct (Z.eqb_spec n k').
  - intros H. destruct (k =? k'); eauto.
  - cbn [RevBlk.lookup]. destruct (k =? k'); eauto.
Qed.

Lemma exec_nodisk x a x' : RevBlk.exec N R x a = Some x' -> nodisk a /\ a <> EndReverse.
Proof.
  destruct a as [n0 n1 wi wa sg|n1 n0 cl|n src dst|n src dst| |]; cbn [RevBlk.exec nodisk]; intros H; try discriminate H; (split; [|discriminate]); try exact I.
  - destruct sg; try discriminate; exfalso; destruct (RevBlk.fwd x); discriminate.
  - destruct src; try discriminate H; destruct dst; try discriminate H; split; discriminate.
  - destruct src; try discriminate H; destruct dst; try discriminate H; split; discriminate.
Qed.

(* the executor's DISK counters: one write per Forward to DISK, one read per load from DISK *)
Definition dwa (a : action) : Z := match a with Forward _ _ _ _ DISK => 1 | _ => 0 end.
Definition dra (a : action) : Z := match a with Copy _ DISK _ | Move _ DISK _ => 1 | _ => 0 end.
Lemma check_load_found p k e X (a : action) n src dst : a = Copy n src dst \/ a = Move n src dst -> check p k e X a = None -> lookup n (sel X src) <> None.
Proof.
  intros Ha H Hl. destruct Ha as [-> | ->]; cbn [check] in H; rewrite Hl in H; cbn [isnone negb] in H;
    destruct (is_cp src && (0 <=? n)), (seen_endfwd X), (isnone (w_ics X) && isnone (w_deps X)); cbn [chk first_err app] in H; discriminate.
Qed.
Lemma dexec_counts X0 a X0' X e : DiskBlk.dexec N R X0 a = Some X0' -> check pD true e X a = None ->
  disk_writes (cnt (apply pD e X a)) = disk_writes (cnt X) + dwa a /\ disk_reads (cnt (apply pD e X a)) = disk_reads (cnt X) + dra a.
Proof.
  intros Hex Hc. destruct a as [n0 n1 wi wa sg|n1 n0 cl|n src dst|n src dst| |]; cbn [dwa dra apply].
  - unfold put. destruct sg; cbn [is_cp st_eqb set_cnt set_work set_store cnt count_fwd count_put disk_writes disk_reads]; split; lia.
  - cbn [set_rr cnt]. split; lia.
  - assert (Hd : dst = WORK /\ (src = RAM \/ src = DISK)).
    { cbn [DiskBlk.dexec] in Hex. destruct src, dst; try (cbn [RevBlk.exec] in Hex; discriminate); auto. }
    destruct Hd as [-> Hs]. pose proof (check_load_found pD true e X _ n src WORK (or_introl eq_refl) Hc) as Hf.
    destruct (lookup n (sel X src)) as [c|]; [|congruence].
    destruct Hs as [-> | ->]; cbn [set_cnt set_work set_store cnt count_read disk_writes disk_reads]; split; lia.
  - assert (Hd : dst = WORK /\ (src = RAM \/ src = DISK)).
    { cbn [DiskBlk.dexec] in Hex. destruct src, dst; try (cbn [RevBlk.exec] in Hex; discriminate); auto. }
    destruct Hd as [-> Hs]. pose proof (check_load_found pD true e X _ n src WORK (or_intror eq_refl) Hc) as Hf.
    destruct (lookup n (sel X src)) as [c|]; [|congruence].
    destruct Hs as [-> | ->]; cbn [set_cnt set_work set_store cnt count_read disk_writes disk_reads]; split; lia.
  - cbn [cnt]. split; lia.
  - cbn [cnt]. split; lia.
Qed.

Lemma dexec_agrees d X0 X a X0' exh : RxD d X0 X -> NN R (DiskBlk.mx X0) -> NNd (DiskBlk.dk X0) -> rev_clears a ->
  DiskBlk.dexec N R X0 a = Some X0' ->
  check pD true exh X a = None /\ RxD (d + MSTerm.flen a) X0' (apply pD exh X a) /\ NN R (DiskBlk.mx X0') /\ NNd (DiskBlk.dk X0').
Proof.
  intros [HRx Hdk] HNN HNd Hcl Hex. destruct X0 as [x dkk]. cbn [DiskBlk.mx DiskBlk.dk] in *.
  (* the delegated case, once *)
  assert (Hdel : forall x', RevBlk.exec N R x a = Some x' -> X0' = {| DiskBlk.mx := x'; DiskBlk.dk := dkk |} ->
     check pD true exh X a = None /\ RxD (d + MSTerm.flen a) X0' (apply pD exh X a) /\ NN R (DiskBlk.mx X0') /\ NNd (DiskBlk.dk X0')).
  { intros x' He ->. destruct (exec_nodisk x a x' He) as [Hnd Hne].
    destruct (rev_exec_agrees N R HR d x (nd X) a x' exh HRx HNN Hcl He) as (Hc & HR' & HNN').
    destruct (frame a true exh X Hnd Hne) as (Fc & Fs & Fd).
    split; [rewrite Fc; exact Hc|]. split; [split; [exact (Rx_core _ _ _ Fs HR')|rewrite Fd; exact Hdk]|]. split; [exact HNN'|exact HNd]. }
  pose proof HRx as (Rf & Rwi & Rwd & Rrr & Rse & Rram & Rdisk & Rtot).
  cbn [fwd w_ics w_deps rr seen_endfwd ram cnt set_store toMS MSPot.fwd MSPot.wics MSPot.wdeps MSPot.rr MSPot.endfwd MSPot.done] in Rf, Rwi, Rwd, Rrr, Rse, Rtot.
  destruct HNN as (NNf & NNw & NNk & NNr & NNl).
  destruct a as [n0 n1 wi wa sg|n1 n0 cl|n src dst|n src dst| |]; cbn [DiskBlk.dexec DiskBlk.mx DiskBlk.dk] in Hex.
  - destruct sg.
    1,3,4: destruct (RevBlk.exec N R x _) as [x'|] eqn:E; [|discriminate]; injection Hex as <-; exact (Hdel x' eq_refl eq_refl).
    (* write to DISK *)
    destruct (RevBlk.fwd x) as [f|] eqn:Ef; [|discriminate].
    destruct (Z.eqb_spec f n0), (Z.ltb_spec n0 n1), (Z.leb_spec n1 (N - RevBlk.rr x)), (RevBlk.lookup n0 dkk) eqn:El, wi, wa; cbn [andb negb RevBlk.isnone] in Hex; try discriminate.
    injection Hex as <-. subst f. cbn [DiskBlk.mx DiskBlk.dk MSTerm.flen].
    pose proof (NNf n0 eq_refl) as Hn0. assert (Hmin : Z.min n1 N = n1) by lia.
    split; [|split; [|split]].
    + unfold check. cbn [xN pD keep_all_deps]. rewrite Hmin, Rrr. unfold fwd_is. rewrite Rf. cbn [is_cp st_eqb andb orb negb].
      unfold can_put. cbn [is_cp sel budget pD budget_disk within]. rewrite Hdk, lookup_encD, El. cbn [isnone app].
      repeat (rewrite first_err_ok; [|bool_true; try lia; auto]). reflexivity.
    + unfold apply. cbn [xN pD]. rewrite Hmin. cbn [st_eqb andb]. unfold put. cbn [is_cp]. split.
      * unfold Rx. cbn [set_cnt set_store set_work fwd w_ics w_deps rr seen_endfwd ram disk cnt sel count_put count_fwd fwd_total toMS
                       MSPot.fwd MSPot.wics MSPot.wdeps MSPot.rr MSPot.endfwd MSPot.store MSPot.done RevBlk.fwd RevBlk.wics RevBlk.wdeps RevBlk.rr RevBlk.endfwd RevBlk.store].
        cbn [ram disk set_store toMS MSPot.store] in Rram, Rdisk. repeat split; auto; lia.
      * cbn [set_cnt set_store set_work disk sel]. rewrite Hdk. reflexivity.
    + unfold NN. cbn [RevBlk.fwd RevBlk.wdeps RevBlk.store RevBlk.rr]. repeat split; auto; try lia;
        try (intros f Hf; injection Hf as <-; lia); try (intros; discriminate).
    + intros k v. cbn [RevBlk.lookup]. destruct (Z.eqb_spec k n0); [intros _; subst; exact Hn0|apply HNd].
  - destruct (RevBlk.exec N R x _) as [x'|] eqn:E; [|discriminate]; injection Hex as <-; exact (Hdel x' eq_refl eq_refl).
  - (* Copy *)
    destruct src.
    1,3,4: destruct (RevBlk.exec N R x _) as [x'|] eqn:E; [|discriminate]; injection Hex as <-; exact (Hdel x' eq_refl eq_refl).
    destruct dst.
    1,2,4: destruct (RevBlk.exec N R x _) as [x'|] eqn:E; [|discriminate]; injection Hex as <-; exact (Hdel x' eq_refl eq_refl).
    destruct (RevBlk.endfwd x) eqn:Ee, (RevBlk.wics x) eqn:Ei, (RevBlk.wdeps x) eqn:Ed; cbn [andb negb RevBlk.isnone] in Hex; try discriminate.
    destruct (RevBlk.lookup n dkk) as [[a0 b0]|] eqn:El; [|discriminate].
    destruct (Z.eqb_spec a0 n), (Z.ltb_spec n (N - RevBlk.rr x)), (Z.leb_spec (N - RevBlk.rr x) b0); cbn [andb negb] in Hex; try discriminate.
    injection Hex as <-. subst a0. cbn [DiskBlk.mx DiskBlk.dk MSTerm.flen]. pose proof (HNd n _ El) as Hn0.
    split; [|split; [|split]].
    + unfold check. cbn [xN pD keep_all_deps is_cp sel]. rewrite Rse, Rwi, Rwd, Rrr, Hdk, lookup_encD, El.
      cbn [cp_ics cp_deps wlen isnone negb andb orb covers app].
      repeat (rewrite first_err_ok; [|bool_true; try lia; auto]).
      all: try reflexivity.
      all: try (right; bool_true; lia).
    + unfold apply. cbn [sel]. rewrite Hdk, lookup_encD, El. cbn [cp_ics cp_deps].
      assert (Hrs : (n <=? n) && (n <? b0) = true) by (bool_true; lia). rewrite Hrs. split.
      * unfold Rx. cbn [set_cnt set_store set_work fwd w_ics w_deps rr seen_endfwd ram disk cnt count_read fwd_total toMS
                       MSPot.fwd MSPot.wics MSPot.wdeps MSPot.rr MSPot.endfwd MSPot.store MSPot.done RevBlk.fwd RevBlk.wics RevBlk.wdeps RevBlk.rr RevBlk.endfwd RevBlk.store].
        cbn [ram disk set_store toMS MSPot.store] in Rram, Rdisk. repeat split; auto; lia.
      * cbn [set_cnt set_store set_work disk]. exact Hdk.
    + unfold NN. cbn [RevBlk.fwd RevBlk.wdeps RevBlk.store RevBlk.rr]. repeat split; auto; try lia;
        try (intros f Hf; injection Hf as <-; exact Hn0); try (intros; discriminate).
    + exact HNd.
  - (* Move *)
    destruct src.
    1,3,4: destruct (RevBlk.exec N R x _) as [x'|] eqn:E; [|discriminate]; injection Hex as <-; exact (Hdel x' eq_refl eq_refl).
    destruct dst.
    1,2,4: destruct (RevBlk.exec N R x _) as [x'|] eqn:E; [|discriminate]; injection Hex as <-; exact (Hdel x' eq_refl eq_refl).
    destruct (RevBlk.endfwd x) eqn:Ee, (RevBlk.wics x) eqn:Ei, (RevBlk.wdeps x) eqn:Ed; cbn [andb negb RevBlk.isnone] in Hex; try discriminate.
    destruct (RevBlk.lookup n dkk) as [[a0 b0]|] eqn:El; [|discriminate].
    destruct (Z.eqb_spec a0 n), (Z.ltb_spec n (N - RevBlk.rr x)), (Z.leb_spec (N - RevBlk.rr x) b0); cbn [andb negb] in Hex; try discriminate.
    injection Hex as <-. subst a0. cbn [DiskBlk.mx DiskBlk.dk MSTerm.flen]. pose proof (HNd n _ El) as Hn0.
    split; [|split; [|split]].
    + unfold check. cbn [xN pD keep_all_deps is_cp sel]. rewrite Rse, Rwi, Rwd, Rrr, Hdk, lookup_encD, El.
      cbn [cp_ics cp_deps wlen isnone negb andb orb covers app].
      repeat (rewrite first_err_ok; [|bool_true; try lia; auto]).
      all: try reflexivity.
      all: try (right; bool_true; lia).
    + unfold apply. cbn [sel]. rewrite Hdk, lookup_encD, El. cbn [cp_ics cp_deps].
      assert (Hrs : (n <=? n) && (n <? b0) = true) by (bool_true; lia). rewrite Hrs. split.
      * unfold Rx. cbn [set_cnt set_store set_work fwd w_ics w_deps rr seen_endfwd ram disk cnt count_read fwd_total toMS
                       MSPot.fwd MSPot.wics MSPot.wdeps MSPot.rr MSPot.endfwd MSPot.store MSPot.done RevBlk.fwd RevBlk.wics RevBlk.wdeps RevBlk.rr RevBlk.endfwd RevBlk.store].
        cbn [ram disk set_store toMS MSPot.store] in Rram, Rdisk. repeat split; auto; lia.
      * cbn [set_cnt set_store set_work disk]. rewrite remove_encD. reflexivity.
    + unfold NN. cbn [RevBlk.fwd RevBlk.wdeps RevBlk.store RevBlk.rr]. repeat split; auto; try lia;
        try (intros f Hf; injection Hf as <-; exact Hn0); try (intros; discriminate).
    + intros k v Hk. destruct (lookup_remove_some_d _ _ _ _ Hk) as [v' Hv']. exact (HNd k v' Hv').
  - destruct (RevBlk.exec N R x _) as [x'|] eqn:E; [|discriminate]; injection Hex as <-; exact (Hdel x' eq_refl eq_refl).
  - destruct (RevBlk.exec N R x _) as [x'|] eqn:E; [|discriminate]; injection Hex as <-; exact (Hdel x' eq_refl eq_refl).
Qed.
End DB2.
