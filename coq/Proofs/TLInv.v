From Coq Require Import ZArith List Lia Bool.
Require Import Actions.
Import ListNotations.
Open Scope Z_scope.
Ltac Zify.zify_post_hook ::= Z.to_euclidean_division_equations.

Inductive out := Act (a : action) | Stop | Raise.

Section TL.
Variable adv : Z -> Z -> Z.
Hypothesis adv_range : forall m k, 2 <= m -> 1 <= k -> 1 <= adv m k <= m - 1.
Hypothesis adv_one : forall m, 2 <= m -> adv m 1 = m - 1.
Variable T : Z -> Z -> Z.
Hypothesis T_1 : forall k, T 1 k = 1.
Hypothesis T_rec : forall m k, 2 <= m -> 1 <= k -> T m k = adv m k + T (m - adv m k) (k - 1) + T (adv m k) k.
Variable N P bs : Z.  Variable bst : storage.
Hypothesis HN : 1 <= N.  Hypothesis HP : 1 <= P.  Hypothesis Hbs : 0 <= bs.
Hypothesis bst_cp : bst = RAM \/ bst = DISK.
Definition S_ := bs + 1.

(* ---- generator after finalisation (twolevel_binomial.py:79-153) ---- *)
Inductive pc := PTOuter | PTBlock (n0s : Z) | PTAfterCopy (n0s : Z) | PTInner (n0s : Z) | PTAfterPush (n0s q : Z)
              | PTAdj (n0s : Z) | PTRevAct (n0s : Z).
Record st := { pcv : pc; n_ : Z; r_ : Z; snaps : list Z }.
Definition mk p n r sn := {| pcv := p; n_ := n; r_ := r; snaps := sn |}.
Definition len (l : list Z) := Z.of_nat (length l).

Fixpoint resume (fuel : nat) (s : st) : st * out :=
  match fuel with O => (s, Raise) | S f =>
  let n := n_ s in let r := r_ s in
  match pcv s with
  | PTOuter =>
    if r <? N then
      let nn := N - r - 1 in let n0s := (nn / P) * P in let n1s := Z.min (n0s + P) N in
      if negb (r =? N - n1s) then (s, Raise) else resume f (mk (PTBlock n0s) n r [n0s])
    else if negb (r =? N) then (s, Raise)
    else (mk PTOuter n 0 (snaps s), Act EndReverse)
  | PTBlock n0s =>
    if r <? N - n0s then
      match snaps s with
      | [] => (s, Raise)
      | cp :: rest =>
        if cp =? N - r - 1 then (mk (PTAdj n0s) cp r rest, Act (if cp =? n0s then Copy cp DISK WORK else Move cp bst WORK))
        else (mk (PTAfterCopy n0s) cp r (snaps s), Act (Copy cp (if cp =? n0s then DISK else bst) WORK))
      end
    else if negb (r =? N - n0s) then (s, Raise)
    else match snaps s with [] => resume f (mk PTOuter n r []) | _ => (s, Raise) end
  | PTAfterCopy n0s =>
    let k := bs + 1 - len (snaps s) + 1 in
    if k <? 1 then (s, Raise) else
    let a := adv (N - r - n) k in
    (mk (PTInner n0s) (n + a) r (snaps s), Act (Forward n (n + a) false false WORK))
  | PTAfterPush n0s q =>
    if len (snaps s) >=? bs + 1 then (s, Raise) else resume f (mk (PTInner n0s) n r (q :: snaps s))
  | PTInner n0s =>
    if n <? N - r - 1 then
      let k := bs + 1 - len (snaps s) in
      if k <? 1 then (s, Raise) else
      let a := adv (N - r - n) k in
      (mk (PTAfterPush n0s n) (n + a) r (snaps s), Act (Forward n (n + a) true false bst))
    else if negb (n =? N - r - 1) then (s, Raise)
    else (mk (PTRevAct n0s) (n + 1) r (snaps s), Act (Forward n (n + 1) false true WORK))
  | PTAdj n0s => (mk (PTRevAct n0s) (n + 1) r (snaps s), Act (Forward n (n + 1) false true WORK))
  | PTRevAct n0s => (mk (PTBlock n0s) n (r + 1) (snaps s), Act (Reverse n (n - 1) true))
  end end.

(* ---- executor: period checkpoints are a fixed function of the step; bin = binomial storage ---- *)
Definition is_period (p : Z) : Prop := 0 <= p < N /\ p mod P = 0.
Definition is_periodb (p : Z) : bool := (0 <=? p) && (p <? N) && (p mod P =? 0).
Definition pend (p : Z) := Z.min (p + P) N.
Record xst := { fwd : option Z; wics : option (Z*Z); wdeps : option (Z*Z); bin : list (Z * (Z*Z)); rr : Z; done : Z; passes : Z }.
Fixpoint lookup (k : Z) (l : list (Z * (Z*Z))) := match l with [] => None | (k', v) :: r => if k =? k' then Some v else lookup k r end.
Fixpoint remove (k : Z) (l : list (Z * (Z*Z))) := match l with [] => [] | (k', v) :: r => if k =? k' then r else (k', v) :: remove k r end.
Definition st_eqb (a b : storage) := match a, b with RAM,RAM | DISK,DISK | WORK,WORK | NONE,NONE => true | _,_ => false end.
Definition isnone {A} (o : option A) := match o with None => true | _ => false end.
Definition covers (o : option (Z*Z)) (a b : Z) := match o with Some (x, y) => (x <=? a) && (b <=? y) | None => false end.

Definition exec (x : xst) (a : action) : option xst :=
  match a with
  | Forward n0 n1 wi wa sg =>
    match fwd x with
    | Some f =>
      if negb ((f =? n0) && (n0 <? n1) && (n1 <=? N - rr x)) then None else
      if st_eqb sg WORK then
        if wi || (wa && negb ((n1 =? n0 + 1) && (n1 =? N - rr x))) then None else
        Some {| fwd := Some n1; wics := None; wdeps := if wa then Some (n0, n1) else None; bin := bin x; rr := rr x; done := done x + (n1 - n0); passes := passes x |}
      else if st_eqb sg bst then
        if negb wi || wa || negb (isnone (lookup n0 (bin x))) || is_periodb n0 || negb (len (map fst (bin x)) <? bs) then None else
        Some {| fwd := Some n1; wics := None; wdeps := None; bin := (n0, (n0, n1)) :: bin x; rr := rr x; done := done x + (n1 - n0); passes := passes x |}
      else None
    | None => None
    end
  | Reverse n1 n0 _ =>
    if negb ((n1 =? N - rr x) && (n0 =? n1 - 1) && covers (wdeps x) n0 n1) then None else
    Some {| fwd := fwd x; wics := wics x; wdeps := None; bin := bin x; rr := rr x + 1; done := done x; passes := passes x |}
  | Copy n sg WORK | Move n sg WORK =>
    if negb (isnone (wics x) && isnone (wdeps x) && (n <? N - rr x)) then None else
    match lookup n (bin x) with
    | Some (a0, b0) =>
      if negb (st_eqb sg bst && (a0 =? n) && (N - rr x <=? b0)) then None else
      Some {| fwd := Some n; wics := Some (a0, b0); wdeps := None;
              bin := match a with Move _ _ _ => remove n (bin x) | _ => bin x end; rr := rr x; done := done x; passes := passes x |}
    | None =>
      (* a period checkpoint: on DISK, may only be copied *)
      if negb (is_periodb n && st_eqb sg DISK && (N - rr x <=? pend n) && match a with Copy _ _ _ => true | _ => false end) then None else
      Some {| fwd := Some n; wics := Some (n, pend n); wdeps := None; bin := bin x; rr := rr x; done := done x; passes := passes x |}
    end
  | Copy _ _ _ | Move _ _ _ => None
  | EndForward => None
  | EndReverse => if negb ((rr x =? N) && match bin x with [] => true | _ => false end) then None else
      Some {| fwd := fwd x; wics := wics x; wdeps := wdeps x; bin := []; rr := 0; done := done x; passes := passes x + 1 |}
  end.

(* ---- executor spec lemmas ---- *)
Lemma bst_not_work : st_eqb bst WORK = false. Proof. destruct bst_cp as [-> | ->]; reflexivity. Qed.
Lemma bst_refl : st_eqb bst bst = true. Proof. destruct bst_cp as [-> | ->]; reflexivity. Qed.
Lemma is_periodb_spec p : is_periodb p = true <-> is_period p.
Proof. unfold is_periodb, is_period. rewrite !andb_true_iff, Z.leb_le, Z.ltb_lt, Z.eqb_eq. tauto. Qed.
Lemma not_period_inside n0s n : is_period n0s -> n0s < n < n0s + P -> is_periodb n = false.
Proof.
  intros [H1 H2] Hn. destruct (is_periodb n) eqn:E; [|reflexivity]. apply is_periodb_spec in E. destruct E as [E1 E2]. exfalso.
  assert (H3 : (n - n0s) mod P = 0) by (rewrite Zminus_mod, E2, H2; reflexivity).
  rewrite Z.mod_small in H3 by lia. lia.
Qed.

Lemma exec_fwd_work x n0 n1 wa : fwd x = Some n0 -> n0 < n1 -> n1 <= N - rr x ->
  (wa = true -> n1 = n0 + 1 /\ n1 = N - rr x) ->
  exec x (Forward n0 n1 false wa WORK) =
    Some {| fwd := Some n1; wics := None; wdeps := if wa then Some (n0, n1) else None; bin := bin x; rr := rr x; done := done x + (n1 - n0); passes := passes x |}.
Proof.
  intros Hf H1 H2 H3. cbn [exec st_eqb]. rewrite Hf.
  replace ((n0 =? n0) && (n0 <? n1) && (n1 <=? N - rr x)) with true
    by (symmetry; rewrite !andb_true_iff, Z.eqb_eq, Z.ltb_lt, Z.leb_le; lia).
  cbn [negb orb]. destruct wa; cbn [andb]; [|reflexivity].
  destruct (H3 eq_refl). replace ((n1 =? n0 + 1) && (n1 =? N - rr x)) with true
    by (symmetry; rewrite andb_true_iff, !Z.eqb_eq; lia). reflexivity.
Qed.
Lemma exec_fwd_bin x n0 n1 : fwd x = Some n0 -> n0 < n1 -> n1 <= N - rr x ->
  lookup n0 (bin x) = None -> is_periodb n0 = false -> len (map fst (bin x)) < bs ->
  exec x (Forward n0 n1 true false bst) =
    Some {| fwd := Some n1; wics := None; wdeps := None; bin := (n0, (n0, n1)) :: bin x; rr := rr x; done := done x + (n1 - n0); passes := passes x |}.
Proof.
  intros Hf H1 H2 H3 H4 H5. cbn [exec]. rewrite Hf, bst_not_work, bst_refl, H3, H4.
  replace ((n0 =? n0) && (n0 <? n1) && (n1 <=? N - rr x)) with true
    by (symmetry; rewrite !andb_true_iff, Z.eqb_eq, Z.ltb_lt, Z.leb_le; lia).
  replace (len (map fst (bin x)) <? bs) with true by (symmetry; apply Z.ltb_lt; lia). reflexivity.
Qed.
Lemma exec_rev x n1 n0 : n1 = N - rr x -> n0 = n1 - 1 -> wdeps x = Some (n0, n1) ->
  exec x (Reverse n1 n0 true) =
    Some {| fwd := fwd x; wics := wics x; wdeps := None; bin := bin x; rr := rr x + 1; done := done x; passes := passes x |}.
Proof.
  intros H1 H0 Hw. cbn [exec]. rewrite Hw. cbn [covers].
  replace ((n1 =? N - rr x) && (n0 =? n1 - 1) && ((n0 <=? n0) && (n1 <=? n1))) with true
    by (symmetry; rewrite !andb_true_iff, !Z.eqb_eq, !Z.leb_le; lia). reflexivity.
Qed.
Lemma exec_load_bin x n e (mv : bool) : wics x = None -> wdeps x = None -> lookup n (bin x) = Some (n, e) ->
  n < N - rr x -> N - rr x <= e ->
  exec x ((if mv then Move else Copy) n bst WORK) =
    Some {| fwd := Some n; wics := Some (n, e); wdeps := None; bin := if mv then remove n (bin x) else bin x; rr := rr x; done := done x; passes := passes x |}.
Proof.
  intros Hi Hd Hl H1 H2. destruct mv; cbn [exec]; rewrite Hi, Hd, Hl, bst_refl; cbn [isnone andb];
  (replace (n <? N - rr x) with true by (symmetry; apply Z.ltb_lt; lia)); cbn [negb andb];
  (replace ((n =? n) && (N - rr x <=? e)) with true by (symmetry; rewrite andb_true_iff, Z.eqb_eq, Z.leb_le; lia)); reflexivity.
Qed.
Lemma exec_load_period x n : wics x = None -> wdeps x = None -> lookup n (bin x) = None -> is_period n ->
  n < N - rr x -> N - rr x <= pend n ->
  exec x (Copy n DISK WORK) =
    Some {| fwd := Some n; wics := Some (n, pend n); wdeps := None; bin := bin x; rr := rr x; done := done x; passes := passes x |}.
Proof.
  intros Hi Hd Hl Hp H1 H2. cbn [exec]. rewrite Hi, Hd, Hl. cbn [isnone andb].
  replace (n <? N - rr x) with true by (symmetry; apply Z.ltb_lt; lia). cbn [negb].
  replace (is_periodb n) with true by (symmetry; apply is_periodb_spec; exact Hp). cbn [st_eqb andb].
  replace (N - rr x <=? pend n) with true by (symmetry; apply Z.leb_le; lia). reflexivity.
Qed.
Lemma exec_endrev x : rr x = N -> bin x = [] ->
  exec x EndReverse = Some {| fwd := fwd x; wics := wics x; wdeps := wdeps x; bin := []; rr := 0; done := done x; passes := passes x + 1 |}.
Proof. intros Hr Hb. cbn [exec]. rewrite Hr, Hb, Z.eqb_refl. reflexivity. Qed.

(* ---- stack shape inside a block: bottom is the period checkpoint n0s (not in bin) ---- *)
Fixpoint mirrorT (n0s : Z) (sn : list Z) (stv : list (Z * (Z*Z))) (above : Z) : Prop :=
  match sn with
  | [] => stv = [] /\ above = n0s
  | p :: sn' =>
     match sn' with
     | [] => stv = [] /\ p = n0s /\ n0s < above /\ above <= pend n0s
     | _ => match stv with
            | (k, (a, e)) :: st' => k = p /\ a = p /\ n0s < p /\ p < above /\ above <= e /\ mirrorT n0s sn' st' p
            | [] => False end
     end
  end.
Fixpoint segs (sn : list Z) (next : Z) : Z :=
  match sn with [] => 0 | p :: rest => T (next - p) (S_ - len rest) + segs rest p end.

Lemma mirrorT_keys n0s sn stv above : mirrorT n0s sn stv above -> forall k, In k (map fst stv) -> n0s < k < above.
Proof.
  revert stv above; induction sn as [|p sn IH]; intros stv above H k Hk; cbn [mirrorT] in H.
  - destruct H as [-> _]. destruct Hk.
  - destruct sn as [|q sn'].
    + destruct H as (-> & _). destruct Hk.
    + destruct stv as [|[k' [a e]] st']; [tauto|]. destruct H as (-> & -> & H1 & H2 & H3 & Hm).
      cbn [map fst In] in Hk. destruct Hk as [<-|Hk]; [lia|]. specialize (IH _ _ Hm k Hk). lia.
Qed.
Lemma lookup_none_notin stv q : ~ In q (map fst stv) -> lookup q stv = None.
Proof.
  induction stv as [|[k v] stv IH]; cbn [lookup map fst In]; [reflexivity|]. intros H.
  destruct (Z.eqb_spec q k); [exfalso; apply H; left; congruence|]. apply IH. tauto.
Qed.
Lemma mirrorT_lookup_none n0s sn stv above q : mirrorT n0s sn stv above -> (q <= n0s \/ above <= q) -> lookup q stv = None.
Proof.
  intros H Hq. apply lookup_none_notin. intros Hin. pose proof (mirrorT_keys _ _ _ _ H q Hin). lia.
Qed.
Lemma mirrorT_len n0s sn stv above : mirrorT n0s sn stv above -> sn <> [] -> len (map fst stv) = len sn - 1.
Proof.
  revert stv above; induction sn as [|p sn IH]; intros stv above H Hne; [congruence|]. cbn [mirrorT] in H.
  destruct sn as [|q sn'].
  - destruct H as (-> & _). reflexivity.
  - destruct stv as [|[k' [a e]] st']; [tauto|]. destruct H as (_ & _ & _ & _ & _ & Hm).
    specialize (IH _ _ Hm ltac:(congruence)). unfold len in *. cbn [map length] in *. lia.
Qed.

Ltac splits := repeat match goal with |- _ /\ _ => split end.
Lemma mirrorT_weaken n0s sn stv a b : mirrorT n0s sn stv a -> sn <> [] -> (forall p, In p sn -> p < b) -> b <= a -> mirrorT n0s sn stv b.
Proof.
  destruct sn as [|p sn]; [congruence|]. intros H _ Hlt Hba. cbn [mirrorT] in *.
  specialize (Hlt p (or_introl eq_refl)).
  destruct sn as [|q sn'].
  - destruct H as (? & ? & ? & ?). splits; auto; lia.
  - destruct stv as [|[k [a0 e]] st']; [tauto|]. destruct H as (? & ? & ? & ? & ? & ?). splits; auto; lia.
Qed.
Lemma mirrorT_lt n0s l stv ab : mirrorT n0s l stv ab -> forall z, In z l -> z < ab.
Proof.
  revert stv ab. induction l as [|u l IH]; intros stv ab H z Hz; [destruct Hz|]. cbn [mirrorT] in H.
  destruct l as [|v l'].
  - destruct H as (_ & -> & ? & _). destruct Hz as [<-|[]]. lia.
  - destruct stv as [|[k [a0 e]] st']; [tauto|]. destruct H as (_ & _ & _ & ? & _ & Hm).
    destruct Hz as [<-|Hz]; [lia|]. specialize (IH _ _ Hm z Hz). lia.
Qed.
Lemma len_cons a l : len (a :: l) = len l + 1. Proof. unfold len. cbn [length]. lia. Qed.

Lemma block_start h : 1 <= h <= N -> (h = N \/ h mod P = 0) ->
  let n0s := ((h - 1) / P) * P in is_period n0s /\ n0s < h /\ pend n0s = h.
Proof.
  intros Hh Hb. cbn zeta. set (q := (h - 1) / P).
  pose proof (Z.div_mod (h - 1) P ltac:(lia)) as Hdm. fold q in Hdm.
  pose proof (Z.mod_pos_bound (h - 1) P ltac:(lia)) as Hm.
  assert (Hq : 0 <= q) by (apply Z.div_pos; lia).
  assert (H1 : q * P <= h - 1 < q * P + P) by lia.
  splits.
  - unfold is_period. split; [nia|]. apply Z.mod_mul. lia.
  - lia.
  - unfold pend. destruct Hb as [->|Hb]; [lia|].
    assert (H3 : (h - q * P) mod P = 0) by (rewrite Zminus_mod, Hb, Z.mod_mul by lia; reflexivity).
    destruct (Z.eq_dec (h - q * P) P) as [E|E]; [lia|].
    rewrite Z.mod_small in H3 by lia. lia.
Qed.

(* ---- invariant; d0 = forward steps done when the current block was entered ---- *)
Definition norm (s : st) : st :=
  match pcv s with PTAfterPush n0s q => mk (PTInner n0s) (n_ s) (r_ s) (q :: snaps s) | _ => s end.
Definition InvCore (d0 : Z) (s : st) (x : xst) : Prop :=
  rr x = r_ s /\ 0 <= r_ s <= N /\
  let h := N - r_ s in
  let Blk n0s := is_period n0s /\ len (snaps s) <= S_ /\ h <= pend n0s in
  let tot n0s := d0 + T (pend n0s - n0s) S_ in
  match pcv s with
  | PTOuter => bin x = [] /\ wics x = None /\ wdeps x = None /\ (h = N \/ h mod P = 0) /\ done x = d0
  | PTBlock n0s => Blk n0s /\ wics x = None /\ wdeps x = None /\ mirrorT n0s (snaps s) (bin x) h /\ n0s <= h /\
                   done x + segs (snaps s) h = tot n0s
  | PTAfterCopy n0s => Blk n0s /\ wdeps x = None /\ fwd x = Some (n_ s) /\ mirrorT n0s (snaps s) (bin x) h /\
                   (exists r1, snaps s = n_ s :: r1) /\ n0s <= n_ s < h - 1 /\ done x + segs (snaps s) h = tot n0s
  | PTInner n0s => Blk n0s /\ wics x = None /\ wdeps x = None /\ fwd x = Some (n_ s) /\ n0s < n_ s <= h - 1 /\
                   (n_ s < h - 1 -> 1 <= S_ - len (snaps s)) /\ mirrorT n0s (snaps s) (bin x) (n_ s) /\ snaps s <> [] /\
                   done x + (T (h - n_ s) (S_ - len (snaps s)) + segs (snaps s) (n_ s)) = tot n0s
  | PTAfterPush _ _ => False
  | PTAdj n0s => Blk n0s /\ wdeps x = None /\ fwd x = Some (n_ s) /\ n_ s = h - 1 /\ n0s <= n_ s /\
                   mirrorT n0s (snaps s) (bin x) (n_ s) /\ done x + (1 + segs (snaps s) (n_ s)) = tot n0s
  | PTRevAct n0s => Blk n0s /\ wics x = None /\ wdeps x = Some (n_ s - 1, n_ s) /\ n_ s = h /\ n0s < n_ s /\
                   mirrorT n0s (snaps s) (bin x) (n_ s - 1) /\ done x + segs (snaps s) (n_ s - 1) = tot n0s
  end.
Definition Inv d0 s x := InvCore d0 (norm s) x.
Definition Good (x : xst) (r : st * out) : Prop :=
  match r with
  | (s', Act a) => exists x' d0', exec x a = Some x' /\ Inv d0' s' x'
  | (_, Stop) => False
  | (_, Raise) => False
  end.

Definition GoodD (dexp : Z) (x : xst) (r : st * out) : Prop :=
  match r with
  | (s', Act a) => exists x', exec x a = Some x' /\ Inv dexp s' x'
  | (_, Stop) => False
  | (_, Raise) => False
  end.
Lemma GoodD_Good d x r : GoodD d x r -> Good x r.
Proof. destruct r as [s' [a| |]]; cbn; auto. intros (x' & H1 & H2). exists x', d. auto. Qed.

Ltac fin := splits; auto; try lia.

(* PTRevAct, PTAdj *)
Lemma revact_ok d0 s x f n0s : InvCore d0 s x -> pcv s = PTRevAct n0s -> GoodD d0 x (resume (S f) s).
Proof.
  intros (Hrr & Hr & Hpc) Epc. cbn [resume]. rewrite Epc in *. cbn zeta in Hpc.
  destruct Hpc as ((Hper & Hlen & Hpe) & Hwi & Hwd & Hn & Hn0 & Hm & HPhi). cbn [GoodD].
  pose proof Hper as [Hp0 _].
  eexists. split.
  - apply exec_rev; try lia. exact Hwd.
  - unfold Inv, norm, InvCore. cbn [pcv mk n_ r_ snaps rr bin wics wdeps done fwd]. cbn zeta.
    replace (N - (r_ s + 1)) with (n_ s - 1) by lia. fin.
Qed.
Lemma adj_ok d0 s x f n0s : InvCore d0 s x -> pcv s = PTAdj n0s -> GoodD d0 x (resume (S f) s).
Proof.
  intros (Hrr & Hr & Hpc) Epc. cbn [resume]. rewrite Epc in *. cbn zeta in Hpc.
  destruct Hpc as ((Hper & Hlen & Hpe) & Hwd & Hf & Hn & Hn0 & Hm & HPhi). cbn [GoodD].
  eexists. split.
  - apply (exec_fwd_work x (n_ s) (n_ s + 1) true); try assumption; try lia.
  - unfold Inv, norm, InvCore. cbn [pcv mk n_ r_ snaps rr bin wics wdeps done fwd]. cbn zeta.
    replace (n_ s + 1 - 1) with (n_ s) by lia. fin.
Qed.

(* PTAfterCopy *)
Lemma aftercopy_ok d0 s x f n0s : InvCore d0 s x -> pcv s = PTAfterCopy n0s -> GoodD d0 x (resume (S f) s).
Proof.
  intros (Hrr & Hr & Hpc) Epc. cbn [resume]. rewrite Epc in *. cbn zeta in Hpc.
  destruct Hpc as ((Hper & Hlen & Hpe) & Hwd & Hf & Hm & (r1 & Hsn) & Hn & HPhi).
  replace (bs + 1 - len (snaps s) + 1 <? 1) with false by (symmetry; apply Z.ltb_ge; unfold S_ in *; lia).
  pose proof (adv_range (N - r_ s - n_ s) (bs + 1 - len (snaps s) + 1) ltac:(lia) ltac:(unfold S_ in *; lia)) as Ha.
  pose proof (T_rec (N - r_ s - n_ s) (bs + 1 - len (snaps s) + 1) ltac:(lia) ltac:(unfold S_ in *; lia)) as HT.
  set (a := adv (N - r_ s - n_ s) (bs + 1 - len (snaps s) + 1)) in *. cbn [GoodD].
  eexists. split.
  - apply (exec_fwd_work x (n_ s) (n_ s + a) false); try assumption; try lia; try discriminate.
  - unfold Inv, norm, InvCore. cbn [pcv mk n_ r_ snaps rr bin wics wdeps done fwd]. cbn zeta.
    fin.
    + intros Hlt. destruct (Z.eq_dec (bs + 1 - len (snaps s)) 0) as [E0|]; [|unfold S_ in *; lia].
      unfold a in *. rewrite E0 in *. cbn [Z.add] in *. rewrite adv_one in * by lia. lia.
    + apply (mirrorT_weaken n0s _ _ (N - r_ s)); auto; try lia; [rewrite Hsn; congruence|].
      intros p Hp. rewrite Hsn in Hp, Hm. destruct Hp as [<-|Hp]; [lia|].
      cbn [mirrorT] in Hm. destruct r1 as [|q r1']; [destruct Hp|].
      destruct (bin x) as [|[k [a0 e]] st']; [tauto|]. destruct Hm as (_ & _ & _ & _ & _ & Hm').
      pose proof (mirrorT_lt _ _ _ _ Hm' p Hp). lia.
    + rewrite Hsn. congruence.
    + rewrite Hsn in *. cbn [segs] in *. rewrite len_cons in *.
      replace (N - r_ s - (n_ s + a)) with (N - r_ s - n_ s - a) by lia.
      replace (n_ s + a - n_ s) with a by lia.
      replace (bs + 1 - (len r1 + 1) + 1) with (S_ - len r1) in HT by (unfold S_; lia).
      replace (S_ - len r1 - 1) with (S_ - (len r1 + 1)) in HT by lia. lia.
Qed.

(* PTInner *)
Lemma inner_ok d0 s x f n0s : InvCore d0 s x -> pcv s = PTInner n0s -> GoodD d0 x (resume (S f) s).
Proof.
  intros (Hrr & Hr & Hpc) Epc. cbn [resume]. rewrite Epc in *. cbn zeta in Hpc.
  destruct Hpc as ((Hper & Hlen & Hpe) & Hwi & Hwd & Hf & Hn & Hfree & Hm & Hne & HPhi).
  pose proof Hper as [Hp0 _]. unfold S_ in *.
  destruct (Z.ltb_spec (n_ s) (N - r_ s - 1)) as [Hlt|Hge].
  - specialize (Hfree Hlt).
    replace (bs + 1 - len (snaps s) <? 1) with false by (symmetry; apply Z.ltb_ge; lia).
    pose proof (adv_range (N - r_ s - n_ s) (bs + 1 - len (snaps s)) ltac:(lia) ltac:(lia)) as Ha.
    pose proof (T_rec (N - r_ s - n_ s) (bs + 1 - len (snaps s)) ltac:(lia) ltac:(lia)) as HT.
    set (a := adv (N - r_ s - n_ s) (bs + 1 - len (snaps s))) in *. cbn [GoodD].
    eexists. split.
    + apply exec_fwd_bin; try assumption; try lia.
      * eapply mirrorT_lookup_none; [exact Hm|lia].
      * apply (not_period_inside n0s); [exact Hper|]. unfold pend in Hpe. lia.
      * rewrite (mirrorT_len _ _ _ _ Hm Hne). lia.
    + unfold Inv, norm, InvCore. cbn [pcv mk n_ r_ snaps rr bin wics wdeps done fwd]. cbn zeta.
      rewrite len_cons. unfold S_. fin.
      * intros Hlt'. destruct (Z.eq_dec (bs + 1 - len (snaps s)) 1) as [E1|]; [|lia].
        unfold a in *. rewrite E1, adv_one in * by lia. lia.
      * cbn [mirrorT]. destruct (snaps s) as [|q sn'] eqn:Es; [congruence|]. fin.
      * discriminate.
      * cbn [segs]. replace (N - r_ s - (n_ s + a)) with (N - r_ s - n_ s - a) by lia.
        replace (n_ s + a - n_ s) with a by lia.
        replace (bs + 1 - (len (snaps s) + 1)) with (bs + 1 - len (snaps s) - 1) by lia. unfold S_. lia.
  - replace (n_ s =? N - r_ s - 1) with true by (symmetry; apply Z.eqb_eq; lia). cbn [negb GoodD].
    eexists. split.
    + apply (exec_fwd_work x (n_ s) (n_ s + 1) true); try assumption; try lia.
    + unfold Inv, norm, InvCore. cbn [pcv mk n_ r_ snaps rr bin wics wdeps done fwd]. cbn zeta.
      replace (n_ s + 1 - 1) with (n_ s) by lia.
      replace (N - r_ s - n_ s) with 1 in HPhi by lia. rewrite T_1 in HPhi. unfold S_. fin.
Qed.

(* PTBlock with steps of the block still to reverse *)
Lemma block_ok d0 s x f n0s : InvCore d0 s x -> pcv s = PTBlock n0s -> r_ s < N - n0s -> GoodD d0 x (resume (S f) s).
Proof.
  intros (Hrr & Hr & Hpc) Epc Hlt. cbn [resume]. rewrite Epc in *. cbn zeta in Hpc.
  destruct Hpc as ((Hper & Hlen & Hpe) & Hwi & Hwd & Hm & Hn0 & HPhi).
  pose proof Hper as [Hp0 _].
  replace (r_ s <? N - n0s) with true by (symmetry; apply Z.ltb_lt; lia).
  destruct (snaps s) as [|cp rest] eqn:Es; [cbn [mirrorT] in Hm; lia|].
  cbn [mirrorT] in Hm. rewrite len_cons in Hlen.
  destruct rest as [|q rest'].
  - (* only the period checkpoint is left *)
    destruct Hm as (Hb & -> & Hlo & Hhi). rewrite Z.eqb_refl.
    cbn [segs] in HPhi. unfold len in HPhi. cbn [length] in HPhi. replace (S_ - Z.of_nat 0) with S_ in HPhi by lia.
    destruct (Z.eqb_spec n0s (N - r_ s - 1)) as [Heq|Hneq]; cbn [GoodD]; eexists; (split; [apply exec_load_period; try assumption; try lia; rewrite Hb; reflexivity|]).
    + unfold Inv, norm, InvCore. cbn [pcv mk n_ r_ snaps rr bin wics wdeps done fwd]. cbn zeta.
      replace (N - r_ s - n0s) with 1 in HPhi by lia. rewrite T_1 in HPhi. cbn [mirrorT segs].
      unfold len. cbn [length]. unfold S_ in *. fin.
    + unfold Inv, norm, InvCore. cbn [pcv mk n_ r_ snaps rr bin wics wdeps done fwd]. cbn zeta.
      cbn [mirrorT segs]. unfold len. cbn [length]. replace (S_ - Z.of_nat 0) with S_ by lia. fin.
      exists []. reflexivity.
  - (* a binomial checkpoint on top *)
    destruct (bin x) as [|[k [a0 e]] st'] eqn:Eb; [tauto|]. destruct Hm as (-> & -> & Hcp0 & Hcph & Hcpe & Hm').
    replace (cp =? n0s) with false by (symmetry; apply Z.eqb_neq; lia).
    assert (Hlk : lookup cp (bin x) = Some (cp, e)) by (rewrite Eb; cbn [lookup]; rewrite Z.eqb_refl; reflexivity).
    destruct (Z.eqb_spec cp (N - r_ s - 1)) as [Heq|Hneq]; cbn [GoodD]; eexists.
    + split; [apply (exec_load_bin x cp e true); try assumption; lia|].
      unfold Inv, norm, InvCore. cbn [pcv mk n_ r_ snaps rr bin wics wdeps done fwd]. cbn zeta.
      rewrite Eb. cbn [remove]. rewrite Z.eqb_refl. rewrite !len_cons in *.
      cbn [segs] in HPhi. replace (N - r_ s - cp) with 1 in HPhi by lia. rewrite T_1 in HPhi. fin.
    + split; [apply (exec_load_bin x cp e false); try assumption; lia|].
      unfold Inv, norm, InvCore. cbn [pcv mk n_ r_ snaps rr bin wics wdeps done fwd]. cbn zeta.
      rewrite Eb. rewrite !len_cons in *. cbn [mirrorT]. fin. eexists; reflexivity.
Qed.

(* PTOuter: next block, or the end of the pass *)
Lemma outer_ok d0 s x f : InvCore d0 s x -> pcv s = PTOuter -> GoodD d0 x (resume (S (S f)) s).
Proof.
  intros (Hrr & Hr & Hpc) Epc. cbn zeta in Hpc. rewrite Epc in Hpc.
  destruct Hpc as (Hb & Hwi & Hwd & Hbd & Hd).
  destruct (Z.ltb_spec (r_ s) N) as [Hlt|Hge].
  - destruct (block_start (N - r_ s) ltac:(lia) Hbd) as (Hper & Hlo & Hpe).
    set (n0s := (N - r_ s - 1) / P * P) in *.
    assert (Hres : resume (S (S f)) s = resume (S f) (mk (PTBlock n0s) (n_ s) (r_ s) [n0s])).
    { remember (S f) as g. cbn [resume]. rewrite Epc. replace (r_ s <? N) with true by (symmetry; apply Z.ltb_lt; lia).
      fold n0s. fold (pend n0s). rewrite Hpe. replace (r_ s =? N - (N - r_ s)) with true by (symmetry; apply Z.eqb_eq; lia).
      reflexivity. }
    rewrite Hres. rewrite <- Hd. apply (block_ok (done x) _ x f n0s); [|reflexivity|cbn [r_ mk]; lia].
    unfold InvCore. cbn [pcv mk n_ r_ snaps]. cbn zeta. rewrite Hb. cbn [mirrorT segs]. unfold len. cbn [length].
    replace (S_ - Z.of_nat 0) with S_ by lia. rewrite Hpe. unfold S_. fin.
  - cbn [resume]. rewrite Epc. replace (r_ s <? N) with false by (symmetry; apply Z.ltb_ge; lia).
    replace (r_ s =? N) with true by (symmetry; apply Z.eqb_eq; lia). cbn [negb GoodD].
    eexists. split; [apply exec_endrev; [lia|exact Hb]|].
    unfold Inv, norm, InvCore. cbn [pcv mk n_ r_ snaps rr bin wics wdeps done fwd]. cbn zeta. fin.
Qed.

Lemma blockend_ok d0 s x f n0s : InvCore d0 s x -> pcv s = PTBlock n0s -> r_ s = N - n0s ->
  done x = d0 + T (pend n0s - n0s) S_ /\ GoodD (d0 + T (pend n0s - n0s) S_) x (resume (S (S (S f))) s).
Proof.
  intros Hinv Epc Hre. pose proof Hinv as (Hrr & Hr & Hpc). cbn zeta in Hpc. rewrite Epc in Hpc.
  destruct Hpc as ((Hper & Hlen & Hpe) & Hwi & Hwd & Hm & Hn0 & HPhi).
  replace (N - r_ s) with n0s in * by lia.
  assert (Hsn : snaps s = [] /\ bin x = []).
  { destruct (snaps s) as [|p sn]; cbn [mirrorT] in Hm; [tauto|].
    destruct sn as [|q sn']; [lia|]. destruct (bin x) as [|[k [a e]] st']; [tauto|]. lia. }
  destruct Hsn as [Hsn Hbn]. rewrite Hsn in HPhi. cbn [segs] in HPhi. split; [lia|]. replace (d0 + T (pend n0s - n0s) S_) with (done x) by lia.
  assert (Hres : resume (S (S (S f))) s = resume (S (S f)) (mk PTOuter (n_ s) (r_ s) [])).
  { remember (S (S f)) as g. cbn [resume]. rewrite Epc, Hsn.
    replace (r_ s <? N - n0s) with false by (symmetry; apply Z.ltb_ge; lia).
    replace (r_ s =? N - n0s) with true by (symmetry; apply Z.eqb_eq; lia). reflexivity. }
  rewrite Hres. apply (outer_ok (done x)); [|reflexivity].
  unfold InvCore. cbn [pcv mk n_ r_ snaps]. cbn zeta. destruct Hper as [Hp0 Hpm].
  replace (N - r_ s) with n0s by lia. fin.
Qed.

Definition bonus (s : st) : Z :=
  match pcv s with PTBlock n0s => if r_ s <? N - n0s then 0 else T (pend n0s - n0s) S_ | _ => 0 end.
Theorem step_okD d0 s x f : Inv d0 s x -> GoodD (d0 + bonus s) x (resume (S (S (S (S f)))) s).
Proof.
  unfold Inv. intros Hinv. unfold bonus. destruct (pcv s) eqn:Epc; unfold norm in Hinv; rewrite Epc in Hinv; rewrite ?Z.add_0_r.
  - pose proof (outer_ok d0 s x (S (S f)) Hinv Epc) as H. exact H.
  - destruct (Z.ltb_spec (r_ s) (N - n0s)) as [Hlt|Hge]; rewrite ?Z.add_0_r.
    + exact (block_ok d0 s x _ n0s Hinv Epc Hlt).
    + pose proof Hinv as (_ & Hr & Hpc). cbn zeta in Hpc. rewrite Epc in Hpc. destruct Hpc as (_ & _ & _ & _ & Hn0 & _).
      exact (proj2 (blockend_ok d0 s x (S f) n0s Hinv Epc ltac:(lia))).
  - exact (aftercopy_ok d0 s x _ n0s Hinv Epc).
  - exact (inner_ok d0 s x _ n0s Hinv Epc).
  - (* PTAfterPush: the generator appends the entry, then continues as PTInner *)
    pose proof Hinv as (_ & _ & Hpc). cbn zeta in Hpc. cbn [pcv mk] in Hpc. destruct Hpc as ((_ & Hlen & _) & _).
    cbn [snaps mk] in Hlen. rewrite len_cons in Hlen. unfold S_ in Hlen.
    assert (Hres : resume (S (S (S (S f)))) s = resume (S (S (S f))) (mk (PTInner n0s) (n_ s) (r_ s) (q :: snaps s))).
    { remember (S (S (S f))) as g. cbn [resume]. rewrite Epc.
      replace (len (snaps s) >=? bs + 1) with false by (symmetry; rewrite Z.geb_leb; apply Z.leb_gt; lia). reflexivity. }
    rewrite Hres. exact (inner_ok d0 _ x _ n0s Hinv eq_refl).
  - exact (adj_ok d0 s x _ n0s Hinv Epc).
  - exact (revact_ok d0 s x _ n0s Hinv Epc).
Qed.
Theorem step_ok d0 s x f : Inv d0 s x -> Good x (resume (S (S (S (S f)))) s).
Proof. intros H. exact (GoodD_Good _ _ _ (step_okD d0 s x f H)). Qed.

(* C13, block totals: when a block has been reversed completely, exactly T(L, b+1) forward steps were spent on it *)
Theorem block_total d0 s x n0s : Inv d0 s x -> pcv s = PTBlock n0s -> r_ s = N - n0s -> done x = d0 + T (pend n0s - n0s) S_.
Proof.
  unfold Inv, norm. intros Hinv Epc Hr. rewrite Epc in Hinv. exact (proj1 (blockend_ok d0 s x 0 n0s Hinv Epc Hr)).
Qed.
(* ---- which block the generator is in after a step; the pass counter ---- *)
Definition pcb (q : pc) : option Z :=
  match q with PTOuter => None | PTBlock a | PTAfterCopy a | PTInner a | PTAfterPush a _ | PTAdj a | PTRevAct a => Some a end.
Definition blk (h : Z) : Z := (h - 1) / P * P.
Lemma resume_pcb : forall f s s' a, resume f s = (s', Act a) ->
  match pcv s with
  | PTOuter => if r_ s <? N then pcb (pcv s') = Some (blk (N - r_ s)) else pcv s' = PTOuter /\ a = EndReverse /\ r_ s' = 0
  | PTBlock n0s => if r_ s <? N - n0s then pcb (pcv s') = Some n0s
                   else if r_ s <? N then pcb (pcv s') = Some (blk (N - r_ s)) else pcv s' = PTOuter /\ a = EndReverse /\ r_ s' = 0
  | q => pcb (pcv s') = pcb q end /\ (a = EndReverse -> r_ s = N).
Proof.
  assert (Hblock : forall n0s n r sn s' a, resume 1 (mk (PTBlock n0s) n r sn) = (s', Act a) -> r < N - n0s -> pcb (pcv s') = Some n0s /\ a <> EndReverse).
  { intros n0s n r sn s' a H Hlt. cbn [resume pcv n_ r_ snaps mk] in H. destruct (Z.ltb_spec r (N - n0s)); [|lia].
    destruct sn as [|cp rest]; [discriminate|]. destruct (cp =? N - r - 1); injection H as <- <-; (split; [reflexivity|]); destruct (cp =? n0s); discriminate. }
  assert (Hblockf : forall f n0s n r sn s' a, resume (S f) (mk (PTBlock n0s) n r sn) = (s', Act a) -> r < N - n0s -> pcb (pcv s') = Some n0s /\ a <> EndReverse).
  { intros f n0s n r sn s' a H Hlt. apply (Hblock n0s n r sn); [|exact Hlt]. cbn [resume pcv n_ r_ snaps mk] in H |- *.
    destruct (Z.ltb_spec r (N - n0s)); [|lia]. exact H. }
  assert (Houter : forall f n r sn s' a, resume (S f) (mk PTOuter n r sn) = (s', Act a) ->
     (if r <? N then pcb (pcv s') = Some (blk (N - r)) /\ a <> EndReverse else pcv s' = PTOuter /\ a = EndReverse /\ r = N /\ r_ s' = 0)).
  { intros f n r sn s' a H. cbn [resume pcv n_ r_ snaps mk] in H. destruct (Z.ltb_spec r N) as [Hlt|Hge].
    - destruct (negb _) eqn:En; [discriminate|]. apply negb_false_iff, Z.eqb_eq in En. destruct f as [|f]; [discriminate|].
      unfold blk. replace (N - r - 1) with (N - r - 1) by lia.
      apply (Hblockf f _ n r [(N - r - 1) / P * P]); [exact H|]. pose proof (Z.min_spec ((N - r - 1) / P * P + P) N). lia.
    - destruct (Z.eqb_spec r N); cbn [negb] in H; [|discriminate]. injection H as <- <-. cbn [mk r_ pcv]. auto. }
  intros f s s' a H. destruct s as [q n r sn]. cbn [pcv r_].
  destruct f as [|f]; [discriminate|].
  destruct q as [|n0s|n0s|n0s|n0s p0|n0s|n0s].
  - pose proof (Houter f n r sn s' a H) as Ho. destruct (r <? N); [destruct Ho; split; [assumption|congruence]|destruct Ho as (A & B & C & D); auto].
  - destruct (Z.ltb_spec r (N - n0s)) as [Hlt|Hge].
    + destruct (Hblockf f n0s n r sn s' a H Hlt). split; [assumption|congruence].
    + cbn [resume pcv n_ r_ snaps mk] in H. destruct (Z.ltb_spec r (N - n0s)); [lia|].
      destruct (negb (r =? N - n0s)); [discriminate|]. destruct sn; [|discriminate]. destruct f as [|f]; [discriminate|].
      pose proof (Houter f n r [] s' a H) as Ho. destruct (r <? N); [destruct Ho; split; [assumption|congruence]|destruct Ho as (A & B & C & D); auto].
  - cbn [resume pcv n_ r_ snaps mk] in H. destruct (_ <? 1); [discriminate|]. injection H as <- <-. split; [reflexivity|discriminate].
  - cbn [resume pcv n_ r_ snaps mk] in H. destruct (n <? N - r - 1).
    + destruct (_ <? 1); [discriminate|]. injection H as <- <-. split; [reflexivity|discriminate].
    + destruct (negb _); [discriminate|]. injection H as <- <-. split; [reflexivity|discriminate].
  - cbn [resume pcv n_ r_ snaps mk] in H. destruct (_ >=? _); [discriminate|]. destruct f as [|f]; [discriminate|].
    cbn [resume pcv n_ r_ snaps mk] in H. destruct (n <? N - r - 1).
    + destruct (_ <? 1); [discriminate|]. injection H as <- <-. split; [reflexivity|discriminate].
    + destruct (negb _); [discriminate|]. injection H as <- <-. split; [reflexivity|discriminate].
  - cbn [resume pcv n_ r_ snaps mk] in H. injection H as <- <-. split; [reflexivity|discriminate].
  - cbn [resume pcv n_ r_ snaps mk] in H. injection H as <- <-. split; [reflexivity|discriminate].
Qed.
Lemma exec_passes x a x' : exec x a = Some x' -> passes x' = passes x + (match a with EndReverse => 1 | _ => 0 end).
Proof.
  destruct a as [n0 n1 wi wa sg|n1 n0 cl|n src dst|n src dst| |]; cbn [exec]; intros H;
    repeat match type of H with
    | context [match ?z with _ => _ end] => let E := fresh "E" in destruct z eqn:E
    | context [if ?z then _ else _] => let E := fresh "E" in destruct z eqn:E
    end; try discriminate; injection H as <-; cbn [passes]; lia.
Qed.
End TL.
Print Assumptions step_ok.
Print Assumptions block_total.
