(* hrevolve_aux / hrevolve_recurse of hrevolve_sequences/hrevolve.py as harness/translate.py renders them (HSeqTr): the shapes below
   are the translator's output on the pinned tree; Gen/HSeqGen.v re-translates the current source on every run and proves the result
   equal to them by conversion.  This file proves the shapes equal to HRevSeq.aux / HRevSeq.recurse for every chain length l >= 0
   (for l < 0 Python's min([]) raises where the model compares with +infinity; no call has l < 0). *)
From Coq Require Import ZArith List Bool Lia.
Require Import Actions Ops HRevSeq SeqGenSpec.
Require RevBridge5 HRevGen.
Import ListNotations.
Open Scope Z_scope.

Definition py_cargmin (l : list cost) : res Z := match l with [] => Err IndexError | _ => Ok (HRevSeq.argmin l) end.
Definition py_cmin (l : list cost) : res cost := match l with [] => Err ValueError | _ => Ok (cmin_list l Inf) end.

Fixpoint aux_shape (fuel : nat) (p : hp) (T : tabs) (l K cmem : Z) {struct fuel} : res (list op) :=
  match fuel with O => Err OutOfFuel | S f =>
  let sequence : list op := [] in
  if (cmem =? 0) then (Err KeyError) else (if (l =? 0) then (let sequence := sequence ++ [OWF 0 1] in let sequence := sequence ++ [OF 0 1] in let sequence := sequence ++ [OB 1 0] in let sequence := sequence ++ [ODF 0 1] in Ok sequence) else (if (l =? 1) then (if (((wvec p 0) + (rvec p 0)) <? (rvec p K)) then (let sequence := sequence ++ [OW 0 0] in let sequence := sequence ++ [OF 0 1] in let sequence := sequence ++ [OWF 0 2] in let sequence := sequence ++ [OF 1 2] in let sequence := sequence ++ [OB 2 1] in let sequence := sequence ++ [ODF 0 2] in if (((wvec p 0) + (rvec p 0)) <? (rvec p K)) then (let sequence := sequence ++ [OR 0 0] in let sequence := sequence ++ [OWF 0 1] in let sequence := sequence ++ [OF 0 1] in let sequence := sequence ++ [OB 1 0] in let sequence := sequence ++ [ODF 0 1] in let sequence := sequence ++ [OD 0 0] in Ok sequence) else (let sequence := sequence ++ [OR K 0] in let sequence := sequence ++ [OWF 0 1] in let sequence := sequence ++ [OF 0 1] in let sequence := sequence ++ [OB 1 0] in let sequence := sequence ++ [ODF 0 1] in let sequence := sequence ++ [OD 0 0] in Ok sequence)) else (let sequence := sequence ++ [OF 0 1] in let sequence := sequence ++ [OWF 0 2] in let sequence := sequence ++ [OF 1 2] in let sequence := sequence ++ [OB 2 1] in let sequence := sequence ++ [ODF 0 2] in if (((wvec p 0) + (rvec p 0)) <? (rvec p K)) then (let sequence := sequence ++ [OR 0 0] in let sequence := sequence ++ [OWF 0 1] in let sequence := sequence ++ [OF 0 1] in let sequence := sequence ++ [OB 1 0] in let sequence := sequence ++ [ODF 0 1] in let sequence := sequence ++ [OD 0 0] in Ok sequence) else (let sequence := sequence ++ [OR K 0] in let sequence := sequence ++ [OWF 0 1] in let sequence := sequence ++ [OF 0 1] in let sequence := sequence ++ [OB 1 0] in let sequence := sequence ++ [ODF 0 1] in let sequence := sequence ++ [OD 0 0] in Ok sequence))) else (if ((K =? 0) && (cmem =? 1)) then (do sequence <- for_down (Z.to_nat ((l - 1) - (-1))) (l - 1) (fun index sequence => if negb (index =? (l - 1)) then (let sequence := sequence ++ [OR 0 0] in if negb ((index + 1) =? 0) then (let sequence := sequence ++ [OF 0 (index + 1)] in let sequence := sequence ++ [OWF 0 (index + 2)] in let sequence := sequence ++ [OF (index + 1) (index + 2)] in let sequence := sequence ++ [OB (index + 2) (index + 1)] in let sequence := sequence ++ [ODF 0 (index + 2)] in Ok sequence) else (let sequence := sequence ++ [OWF 0 (index + 2)] in let sequence := sequence ++ [OF (index + 1) (index + 2)] in let sequence := sequence ++ [OB (index + 2) (index + 1)] in let sequence := sequence ++ [ODF 0 (index + 2)] in Ok sequence)) else (if negb ((index + 1) =? 0) then (let sequence := sequence ++ [OF 0 (index + 1)] in let sequence := sequence ++ [OWF 0 (index + 2)] in let sequence := sequence ++ [OF (index + 1) (index + 2)] in let sequence := sequence ++ [OB (index + 2) (index + 1)] in let sequence := sequence ++ [ODF 0 (index + 2)] in Ok sequence) else (let sequence := sequence ++ [OWF 0 (index + 2)] in let sequence := sequence ++ [OF (index + 1) (index + 2)] in let sequence := sequence ++ [OB (index + 2) (index + 1)] in let sequence := sequence ++ [ODF 0 (index + 2)] in Ok sequence))) sequence; let sequence := sequence ++ [OR 0 0] in let sequence := sequence ++ [OWF 0 1] in let sequence := sequence ++ [OF 0 1] in let sequence := sequence ++ [OB 1 0] in let sequence := sequence ++ [ODF 0 1] in let sequence := sequence ++ [OD 0 0] in Ok sequence) else (if (K =? 0) then (do list_mem <- map_res (fun j => do x8_ <- get (hopt T 0) (l - j) (cmem - 1); do x9_ <- get (hoptp T 0) (j - 1) cmem; Ok (cadd (cadd (cadd (Fin (j * (ufv p))) x8_) (Fin (rvec p 0))) x9_)) (zrange 1 l); do x10_ <- py_cmin list_mem; do x11_ <- get (hoptp T 0) l 1; if clt x10_ x11_ then (do jmin <- py_cargmin list_mem; let sequence := sequence ++ [OF 0 jmin] in do x12_ <- recurse_shape f p T (l - jmin) 0 (cmem - 1); let sequence := sequence ++ (shift jmin x12_) in let sequence := sequence ++ [OR 0 0] in do x13_ <- aux_shape f p T (jmin - 1) 0 cmem; let sequence := sequence ++ x13_ in let sequence := if is_discard (last_op sequence) then sequence else sequence ++ [OD 0 0] in Ok sequence) else (do x14_ <- aux_shape f p T l 0 1; let sequence := sequence ++ x14_ in Ok sequence)) else (do list_mem <- map_res (fun j => do x1_ <- get (hopt T K) (l - j) (cmem - 1); do x2_ <- get (hoptp T K) (j - 1) cmem; Ok (cadd (cadd (cadd (Fin (j * (ufv p))) x1_) (Fin (rvec p K))) x2_)) (zrange 1 l); do x3_ <- py_cmin list_mem; do x4_ <- get (hopt T (K - 1)) l (cvec p (K - 1)); if clt x3_ x4_ then (do jmin <- py_cargmin list_mem; let sequence := sequence ++ [OF 0 jmin] in do x5_ <- recurse_shape f p T (l - jmin) K (cmem - 1); let sequence := sequence ++ (shift jmin x5_) in let sequence := sequence ++ [OR K 0] in do x6_ <- aux_shape f p T (jmin - 1) K cmem; let sequence := sequence ++ x6_ in Ok sequence) else (do x7_ <- recurse_shape f p T l (K - 1) (cvec p (K - 1)); let sequence := sequence ++ x7_ in Ok sequence))))))
  end
with recurse_shape (fuel : nat) (p : hp) (T : tabs) (l K cmem : Z) {struct fuel} : res (list op) :=
  match fuel with O => Err OutOfFuel | S f =>
  let sequence : list op := [] in
  if (l =? 0) then (let sequence := sequence ++ [OWF 0 1] in let sequence := sequence ++ [OF 0 1] in let sequence := sequence ++ [OB 1 0] in let sequence := sequence ++ [ODF 0 1] in Ok sequence) else (if ((K =? 0) && (cmem =? 0)) then (Err KeyError) else (if (l =? 1) then (let sequence := sequence ++ [OW 0 0] in let sequence := sequence ++ [OF 0 1] in let sequence := sequence ++ [OWF 0 2] in let sequence := sequence ++ [OF 1 2] in let sequence := sequence ++ [OB 2 1] in let sequence := sequence ++ [ODF 0 2] in let sequence := sequence ++ [OR 0 0] in let sequence := sequence ++ [OWF 0 1] in let sequence := sequence ++ [OF 0 1] in let sequence := sequence ++ [OB 1 0] in let sequence := sequence ++ [ODF 0 1] in let sequence := sequence ++ [OD 0 0] in Ok sequence) else (if (K =? 0) then (let sequence := sequence ++ [OW 0 0] in do x5_ <- aux_shape f p T l 0 cmem; let sequence := sequence ++ x5_ in Ok sequence) else (do x1_ <- get (hoptp T K) l cmem; do x2_ <- get (hopt T (K - 1)) l (cvec p (K - 1)); if clt (cadd (Fin (wvec p K)) x1_) x2_ then (let sequence := sequence ++ [OW K 0] in do x3_ <- aux_shape f p T l K cmem; let sequence := sequence ++ x3_ in Ok sequence) else (do x4_ <- recurse_shape f p T l (K - 1) (cvec p (K - 1)); let sequence := sequence ++ x4_ in Ok sequence)))))
  end.


Lemma hcm1_for l body : (forall i acc, body i acc = Ok (acc ++ (if i =? l - 1 then [] else [OR 0 0]) ++ (if i + 1 =? 0 then [] else [OF 0 (i+1)])
     ++ [OWF 0 (i+2); OF (i+1) (i+2); OB (i+2) (i+1); ODF 0 (i+2)])) ->
  forall cnt i acc, for_down cnt i body acc = Ok (acc ++ HRevSeq.cm1_loop cnt l i).
Proof.
  intros Hb. induction cnt as [|c IH]; intros i acc; cbn [for_down HRevSeq.cm1_loop]; [rewrite app_nil_r; reflexivity|].
  rewrite Hb. cbn [bind]. rewrite IH. f_equal. rewrite <- !app_assoc. reflexivity.
Qed.
Lemma lm_nonempty {B} (f : Z -> res B) l lm : 2 <= l -> map_res f (zrange 1 l) = Ok lm -> lm <> [] /\ Z.of_nat (length lm) = l - 1.
Proof.
  intros Hl H. apply RevBridge5.map_res_length in H. unfold zrange in H. rewrite map_length, seq_length in H.
  split; [intros ->; cbn in H; lia|lia].
Qed.

Theorem shapes_are_model : forall fuel,
  (forall p T l K cmem, 0 <= l -> aux_shape fuel p T l K cmem = HRevSeq.aux fuel p T l K cmem) /\
  (forall p T l K cmem, 0 <= l -> recurse_shape fuel p T l K cmem = HRevSeq.recurse fuel p T l K cmem).
Proof.
  induction fuel as [|f [IHa IHr]]; [split; reflexivity|]. split; intros p T l K cmem Hl.
  - cbn [aux_shape HRevSeq.aux]. destruct (cmem =? 0); [reflexivity|]. destruct (l =? 0) eqn:E0; [reflexivity|]. destruct (l =? 1) eqn:E1.
    { change (wvec p 0) with (w0v p). change (rvec p 0) with (r0v p). destruct (w0v p + r0v p <? rvec p K); reflexivity. }
    assert (Hl2 : 2 <= l) by lia.
    destruct ((K =? 0) && (cmem =? 1)).
    { cbn [app]. replace (l - 1 - -1) with l by lia. rewrite (hcm1_for l).
      - cbn [bind app]. rewrite <- !app_assoc. reflexivity.
      - intros i acc. destruct (i =? l - 1), (i + 1 =? 0); cbn [negb app]; rewrite <- ?app_assoc; reflexivity. }
    destruct (K =? 0) eqn:EK.
    + unfold hopt, hoptp, rvec. cbn [Z.eqb].
      destruct (map_res _ (zrange 1 l)) as [lm|e] eqn:Elm; cbn [bind]; [|reflexivity].
      destruct (lm_nonempty _ _ _ Hl2 Elm) as [Hne Hlen]. pose proof (HRevGen.argmin_bound lm Hne) as Hj.
      destruct lm as [|x lm]; [congruence|]. cbn [py_cmin py_cargmin bind].
      destruct (get (optp0 T) l 1) as [ref|e]; cbn [bind]; [|reflexivity].
      destruct (clt _ ref); [|rewrite IHa by lia; destruct (HRevSeq.aux f p T l 0 1); reflexivity].
      rewrite IHr by lia. destruct (HRevSeq.recurse f p T _ 0 (cmem - 1)) as [s1|e]; cbn [bind]; [|reflexivity].
      rewrite IHa by lia. destruct (HRevSeq.aux f p T _ 0 cmem) as [s2|e]; cbn [bind]; [|reflexivity].
      cbn [app]. rewrite <- !app_assoc. reflexivity.
    + destruct (map_res _ (zrange 1 l)) as [lm|e] eqn:Elm; cbn [bind]; [|reflexivity].
      destruct (lm_nonempty _ _ _ Hl2 Elm) as [Hne Hlen]. pose proof (HRevGen.argmin_bound lm Hne) as Hj.
      destruct lm as [|x lm]; [congruence|]. cbn [py_cmin py_cargmin bind].
      destruct (get (hopt T (K - 1)) l (cvec p (K - 1))) as [ref|e]; cbn [bind]; [|reflexivity].
      destruct (clt _ ref); [|rewrite IHr by lia; destruct (HRevSeq.recurse f p T l (K - 1) _); reflexivity].
      rewrite IHr by lia. destruct (HRevSeq.recurse f p T _ K (cmem - 1)) as [s1|e]; cbn [bind]; [|reflexivity].
      rewrite IHa by lia. destruct (HRevSeq.aux f p T _ K cmem) as [s2|e]; cbn [bind]; [|reflexivity].
      cbn [app]. rewrite <- !app_assoc. reflexivity.
  - cbn [recurse_shape HRevSeq.recurse]. destruct (l =? 0); [reflexivity|]. destruct ((K =? 0) && (cmem =? 0)); [reflexivity|].
    destruct (l =? 1); [reflexivity|]. destruct (K =? 0).
    + rewrite IHa by lia. destruct (HRevSeq.aux f p T l 0 cmem); reflexivity.
    + destruct (get (hoptp T K) l cmem) as [a|e]; cbn [bind]; [|reflexivity].
      destruct (get (hopt T (K - 1)) l (cvec p (K - 1))) as [b|e]; cbn [bind]; [|reflexivity].
      destruct (clt _ b).
      * rewrite IHa by lia. destruct (HRevSeq.aux f p T l K cmem); reflexivity.
      * rewrite IHr by lia. destruct (HRevSeq.recurse f p T l (K - 1) _); reflexivity.
Qed.
Theorem recurse_shape_is_model : forall fuel p T l K cmem, 0 <= l -> recurse_shape fuel p T l K cmem = HRevSeq.recurse fuel p T l K cmem.
Proof. intros fuel. exact (proj2 (shapes_are_model fuel)). Qed.
(* the top-level call of HRevolve.__init__ (RevConv.sequence), read on the translated source *)
Theorem hrevolve_is_source l ram disk wd rd uf ub : 0 <= l -> HRevSeq.hrevolve l ram disk wd rd uf ub =
  let p := {| c0v := ram; c1v := disk; w0v := 0; w1v := wd; r0v := 0; r1v := rd; ufv := uf; ubv := ub |} in
  do T <- get_hopt_table l ram disk 0 wd 0 rd ub uf; recurse_shape (Z.to_nat (4*l + 8)) p T l 1 disk.
Proof.
  intros Hl. unfold HRevSeq.hrevolve. cbv zeta. destruct (get_hopt_table l ram disk 0 wd 0 rd ub uf); cbn [bind]; [|reflexivity].
  apply eq_sym, recurse_shape_is_model, Hl.
Qed.
Print Assumptions hrevolve_is_source.
