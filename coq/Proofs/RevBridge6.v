(* Revolve, bridge 6: totality -- get_opt_0_table returns a table with rows 1..cm of at least l+1 columns, and on such a
   table the generator never fails; so Revolve(max_n, snapshots_in_ram) always has a schedule on the documented domain. *)
From Coq Require Import ZArith List Lia Bool.
Require Import Actions Ops RevSeq RevBridge1 RevBridge5.
Require RevBlk RevGen.
Import ListNotations.
Open Scope Z_scope.

Lemma map_res_ok {A B} (f : A -> res B) l : (forall x, In x l -> exists y, f x = Ok y) -> exists ys, map_res f l = Ok ys.
Proof.
  induction l as [|x l IH]; intros H; cbn [map_res]; [eexists; reflexivity|].
  destruct (H x (or_introl eq_refl)) as [y ->]. cbn [bind]. destruct (IH (fun z Hz => H z (or_intror Hz))) as [ys ->]. cbn [bind]. eexists; reflexivity.
Qed.
Lemma lget_ok t i : 0 <= i < Z.of_nat (length t) -> exists v, lget t i = Ok v.
Proof.
  intros H. unfold lget. destruct (Z.ltb_spec i 0); [lia|]. destruct (nth_error t (Z.to_nat i)) eqn:E; [eexists; reflexivity|].
  apply nth_error_None in E. lia.
Qed.
Lemma in_zrange lo hi x : In x (zrange lo hi) -> lo <= x < hi.
Proof. unfold zrange. rewrite in_map_iff. intros (i & <- & Hi). apply in_seq in Hi. lia. Qed.

Lemma row_ext_ok uf prev : forall cnt lcur row, Z.of_nat (length row) = lcur -> 2 <= lcur -> ((0 < cnt)%nat -> lcur + Z.of_nat cnt <= Z.of_nat (length prev)) ->
  exists r, row_ext cnt lcur uf prev row = Ok r /\ Z.of_nat (length r) = lcur + Z.of_nat cnt.
Proof.
  induction cnt as [|cnt IH]; intros lcur row Hrow H2 Hp; cbn [row_ext]; [exists row; split; [reflexivity|lia]|].
  destruct (map_res_ok (fun j => do x <- lget prev (lcur - j); do y <- lget row (j - 1); Ok (j * uf + x + y)) (zrange 1 lcur)) as [cands ->].
  { intros j Hj. apply in_zrange in Hj. specialize (Hp ltac:(lia)).
    destruct (lget_ok prev (lcur - j) ltac:(lia)) as [x ->]. destruct (lget_ok row (j - 1) ltac:(lia)) as [y ->]. eexists; reflexivity. }
  cbn [bind]. destruct (IH (lcur + 1) (row ++ [zmin_list cands 0])) as (r & Hr & Hlen); try lia.
  { rewrite app_length. cbn [length]. lia. }
  exists r. split; [exact Hr|lia].
Qed.

Lemma rows_from_ok lmax uf : forall cnt prev rest, 0 <= lmax -> (length rest >= cnt)%nat -> Forall (fun r => length r = 2%nat) rest ->
  lmax + 1 <= Z.of_nat (length prev) ->
  exists rs, rows_from cnt lmax uf prev rest = Ok rs /\ length rs = cnt /\ Forall (fun r => lmax + 1 <= Z.of_nat (length r)) rs.
Proof.
  induction cnt as [|cnt IH]; intros prev rest Hl Hrest Hr2 Hprev; cbn [rows_from]; [exists []; repeat split; constructor|].
  destruct rest as [|row rest']; [cbn in Hrest; lia|]. inversion Hr2 as [|? ? Hrow Hr2']; subst.
  destruct (row_ext_ok uf prev (Z.to_nat (lmax - 1)) 2 row ltac:(lia) ltac:(lia) ltac:(lia)) as (r & -> & Hlen). cbn [bind].
  destruct (IH r rest' Hl ltac:(cbn in Hrest; lia) Hr2' ltac:(lia)) as (rs & -> & Hn & Hall). cbn [bind].
  exists (r :: rs). repeat split; [cbn; lia|]. constructor; [lia|exact Hall].
Qed.

(* rows 1 .. cm exist and have at least l + 1 entries *)
Definition Dims (t : list (list Z)) (lmax cmax : Z) : Prop :=
  forall m, 1 <= m <= cmax -> exists row, nth_error t (Z.to_nat m) = Some row /\ lmax + 1 <= Z.of_nat (length row).

Lemma opt0_ok lmax cmax uf ub : 0 <= lmax -> exists t, get_opt_0_table lmax cmax uf ub = Ok t /\ Dims t lmax cmax.
Proof.
  intros Hl. unfold get_opt_0_table. destruct (Z.leb_spec cmax 0) as [Hc|Hc].
  - eexists; split; [reflexivity|]. intros m Hm; lia.
  - set (row1 := [ub; uf + 2 * ub] ++ map (fun l => (l + 1) * ub + l * (l + 1) / 2 * uf) (zrange 2 (lmax + 1))).
    assert (Hrow1 : lmax + 1 <= Z.of_nat (length row1)).
    { unfold row1. rewrite app_length, map_length. unfold zrange. rewrite map_length, seq_length. cbn [length]. lia. }
    destruct (rows_from_ok lmax uf (Z.to_nat (cmax - 1)) row1 (repeat [ub; uf + 2 * ub] (Z.to_nat (cmax - 1))) Hl) as (rs & -> & Hn & Hall).
    { rewrite repeat_length. lia. }
    { clear. induction (Z.to_nat (cmax - 1)); cbn; constructor; auto. }
    { exact Hrow1. }
    cbn [bind]. eexists; split; [reflexivity|].
    intros m Hm. destruct (Z.to_nat m) as [|[|k]] eqn:Em; [lia| |].
    + exists row1. split; [reflexivity|exact Hrow1].
    + cbn [nth_error]. destruct (nth_error rs k) as [row|] eqn:Ek.
      * exists row. split; [reflexivity|]. rewrite Forall_forall in Hall. apply Hall. eapply nth_error_In; eauto.
      * apply nth_error_None in Ek. lia.
Qed.

Lemma tget_ok t lmax cmax m l : Dims t lmax cmax -> 1 <= m <= cmax -> 0 <= l <= lmax -> exists v, tget t m l = Ok v.
Proof.
  intros HD Hm Hl. unfold tget. destruct (Z.ltb_spec m 0); [lia|]. destruct (Z.ltb_spec l 0); [lia|]. cbn [orb].
  destruct (HD m Hm) as (row & -> & Hlen). destruct (nth_error row (Z.to_nat l)) eqn:E; [eexists; reflexivity|].
  apply nth_error_None in E. lia.
Qed.

Lemma revolve_total t lmax cmax uf : Dims t lmax cmax ->
  forall fuel l cm, 0 <= l <= lmax -> 0 <= cm <= cmax -> (1 <= l -> 1 <= cm) -> (Z.to_nat l < fuel)%nat -> exists ops, revolve fuel t uf l cm = Ok ops.
Proof.
  intros HD. induction fuel as [|f IH]; intros l cm Hl Hcm Hlc Hf; [lia|].
  cbn [revolve].
  destruct (Z.eqb_spec l 0); [eexists; reflexivity|].
  destruct (Z.eqb_spec cm 0); [lia|].
  destruct (Z.eqb_spec l 1); [eexists; reflexivity|].
  destruct (Z.eqb_spec cm 1); [eexists; reflexivity|].
  destruct (map_res_ok (fun j => do x <- tget t (cm - 1) (l - j); do y <- tget t cm (j - 1); Ok (j * uf + x + y)) (zrange 1 l)) as [lm Elm].
  { intros j Hj. apply in_zrange in Hj.
    destruct (tget_ok t lmax cmax (cm - 1) (l - j) HD ltac:(lia) ltac:(lia)) as [x ->].
    destruct (tget_ok t lmax cmax cm (j - 1) HD ltac:(lia) ltac:(lia)) as [y ->]. eexists; reflexivity. }
  rewrite Elm. cbn [bind].
  assert (Hlen : length lm = Z.to_nat (l - 1)) by (rewrite (map_res_length _ _ _ Elm); unfold zrange; rewrite map_length, seq_length; reflexivity).
  destruct lm as [|y lm'] eqn:Elmm; [cbn in Hlen; lia|]. rewrite <- Elmm in *.
  assert (Hj : 1 <= argmin lm <= l - 1).
  { rewrite argmin_eq. pose proof (RevGen.argmin_bound lm) as Hb. specialize (Hb ltac:(rewrite Elmm; discriminate)). lia. }
  destruct (IH (l - argmin lm) (cm - 1) ltac:(lia) ltac:(lia) ltac:(lia) ltac:(lia)) as [s1 ->]. cbn [bind].
  destruct (IH (argmin lm - 1) cm ltac:(lia) ltac:(lia) ltac:(lia) ltac:(lia)) as [s2 ->]. cbn [bind].
  eexists; reflexivity.
Qed.

Theorem revolve_top_total l cm uf ub : 0 <= l -> 0 <= cm -> (1 <= l -> 1 <= cm) -> exists ops, revolve_top l cm uf ub = Ok ops.
Proof.
  intros Hl Hcm Hlc. unfold revolve_top. destruct (opt0_ok l cm uf ub Hl) as (t & -> & HD). cbn [bind].
  apply (revolve_total t l cm uf HD); lia.
Qed.
