(* C18, the value laws of CheckpointAction on the model ActVal: the text repr() produces reads back to the same action (the model
   of eval(repr(a)) == a), hence repr is injective; == is equality of kind and parameters; len / iteration / membership of
   Forward and Reverse enumerate exactly the steps n0 .. n1-1, ascending for Forward and descending for Reverse. *)
From Coq Require Import ZArith String Ascii List Bool Lia DecimalString Decimal DecimalZ DecimalPos Sorted.
Require Import Actions ActVal Repr.
Import ListNotations.
Open Scope Z_scope.

(* ---- characters ---- *)
Fixpoint nochar (c : ascii) (s : string) : bool := match s with EmptyString => true | String x r => negb (Ascii.eqb x c) && nochar c r end.
Lemma nochar_app c a b : nochar c (a ++ b)%string = nochar c a && nochar c b.
Proof. induction a as [|x a IH]; cbn [append nochar]; [reflexivity|]. rewrite IH, andb_assoc. reflexivity. Qed.
Lemma split_nochar c a : nochar c a = true -> split_on c a = [a].
Proof.
  induction a as [|x a IH]; cbn [nochar split_on]; intros H; [reflexivity|]. apply andb_true_iff in H. destruct H as [Hx Ha].
  apply negb_true_iff in Hx. rewrite Hx, (IH Ha). reflexivity.
Qed.
Lemma split_app c a b : nochar c a = true -> split_on c (a ++ String c b)%string = a :: split_on c b.
Proof.
  induction a as [|x a IH]; cbn [nochar append split_on]; intros H; [rewrite Ascii.eqb_refl; reflexivity|]. apply andb_true_iff in H. destruct H as [Hx Ha].
  apply negb_true_iff in Hx. rewrite Hx, (IH Ha). reflexivity.
Qed.

(* decimal numerals consist of digits and '-' *)
Definition okc (c : ascii) : bool := forallb (fun x => negb (Ascii.eqb x c)) ["0"; "1"; "2"; "3"; "4"; "5"; "6"; "7"; "8"; "9"; "-"]%char.
Lemma uint_nochar c : okc c = true -> forall d, nochar c (NilEmpty.string_of_uint d) = true.
Proof.
  intros H. unfold okc in H. cbn [forallb] in H. repeat (apply andb_true_iff in H; destruct H as [? H]).
  induction d; cbn [NilEmpty.string_of_uint nochar]; try reflexivity; rewrite IHd, andb_true_r; assumption.
Qed.
Lemma nz_uint_nochar c : okc c = true -> forall d, nochar c (NilZero.string_of_uint d) = true.
Proof.
  intros H d. pose proof (uint_nochar c H) as Hu. destruct d; try apply Hu.
  unfold NilZero.string_of_uint. cbn [nochar]. unfold okc in H. cbn [forallb] in H. apply andb_true_iff in H. destruct H as [-> _]. reflexivity.
Qed.
Lemma z_dec_nochar c z : okc c = true -> nochar c (z_dec z) = true.
Proof.
  intros H. pose proof (nz_uint_nochar c H) as Hu. unfold z_dec, NilZero.string_of_int.
  assert (Hm : negb (Ascii.eqb "-" c) = true) by (unfold okc in H; cbn [forallb] in H; repeat (apply andb_true_iff in H; destruct H as [? H]); assumption).
  destruct (Z.to_int z) as [d|d]; [apply Hu|]. cbn [nochar]. rewrite Hm, Hu. reflexivity.
Qed.
Lemma z_dec_head z : exists c r, z_dec z = String c r /\ Ascii.eqb c "s" = false.
Proof.
  unfold z_dec, NilZero.string_of_int, NilZero.string_of_uint.
  destruct (Z.to_int z) as [d|d]; [|eexists _, _; split; reflexivity]; (destruct d; cbn [NilEmpty.string_of_uint]; eexists _, _; split; reflexivity).
Qed.

Definition seps : list ascii := [","; "("; ")"]%char.
Lemma z_repr_nochar c z : In c seps -> nochar c (z_repr z) = true.
Proof. intros [<-|[<-|[<-|[]]]]; unfold z_repr; (destruct (z =? maxsize); [reflexivity|apply z_dec_nochar; reflexivity]). Qed.
Lemma b_repr_nochar c b : In c seps -> nochar c (b_repr b) = true.
Proof. intros [<-|[<-|[<-|[]]]]; destruct b; reflexivity. Qed.
Lemma st_repr_nochar c s : In c seps -> nochar c (st_repr s) = true.
Proof. intros [<-|[<-|[<-|[]]]]; destruct s; reflexivity. Qed.
Lemma z_repr_ne z : exists c r, z_repr z = String c r.
Proof. unfold z_repr. destruct (z =? maxsize); [eexists _, _; reflexivity|]. destruct (z_dec_head z) as (c & r & -> & _). eauto. Qed.

(* ---- join / split ---- *)
Lemma join_nochar c args : Ascii.eqb "," c = false -> Ascii.eqb " " c = false -> Forall (fun s => nochar c s = true) args -> nochar c (join args) = true.
Proof.
  intros H1 H2. induction 1 as [|x r Hx Hr IH]; [reflexivity|]. destruct r as [|y r]; [exact Hx|].
  change (join (x :: y :: r)) with (x ++ String "," (String " " (join (y :: r))))%string. rewrite nochar_app, Hx. cbn [nochar andb]. rewrite H1, H2, IH. reflexivity.
Qed.
Lemma split_join args : Forall (fun s => nochar "," s = true) args -> args <> [] ->
  split_on "," (join args) = hd EmptyString args :: map (String " ") (tl args).
Proof.
  induction 1 as [|x r Hx Hr IH]; intros Hne; [congruence|]. destruct r as [|y r]; [cbn [join hd tl map]; apply split_nochar; exact Hx|].
  change (join (x :: y :: r)) with (x ++ String "," (String " " (join (y :: r))))%string. rewrite (split_app _ _ _ Hx).
  cbn [split_on hd tl map]. change (Ascii.eqb " " ",") with false. cbv iota. rewrite IH by discriminate. reflexivity.
Qed.
Lemma strip_all l : all_some (map strip_sp (map (String " ") l)) = Some l.
Proof. induction l as [|x l IH]; [reflexivity|]. cbn [map all_some strip_sp]. rewrite Ascii.eqb_refl, IH. reflexivity. Qed.
Lemma args_split_join args : Forall (fun s => nochar "," s = true) args -> (forall x r, args = x :: r -> exists c t, x = String c t) ->
  args_split (join args) = Some args.
Proof.
  intros Hn Hne. destruct args as [|x r]; [reflexivity|]. destruct (Hne x r eq_refl) as (c & t & ->).
  unfold args_split. assert (Hj : exists c' t', join (String c t :: r) = String c' t') by (destruct r; cbn [join append]; eauto).
  destruct Hj as (c' & t' & Hj). rewrite Hj, <- Hj. rewrite split_join by (try exact Hn; discriminate). cbn [hd tl]. rewrite strip_all. reflexivity.
Qed.

(* ---- the parts ---- *)
Lemma z_parse_repr z : z_parse (z_repr z) = Some z.
Proof.
  unfold z_repr. destruct (Z.eqb_spec z maxsize) as [->|Hne]; [reflexivity|].
  unfold z_parse. destruct (z_dec_head z) as (c & r & E & Hc). rewrite E. cbn [String.eqb]. rewrite Hc. rewrite <- E. exact (z_roundtrip z).
Qed.
Lemma b_parse_repr b : b_parse (b_repr b) = Some b. Proof. destruct b; reflexivity. Qed.
Lemma st_parse_repr s : st_parse (st_repr s) = Some s. Proof. destruct s; reflexivity. Qed.

Lemma args_nochar a c : In c seps -> Forall (fun s => nochar c s = true) (snd (args_of a)).
Proof.
  intros Hc. destruct a; cbn [args_of snd]; repeat constructor; auto using z_repr_nochar, b_repr_nochar, st_repr_nochar.
Qed.
Lemma args_head a x r : snd (args_of a) = x :: r -> exists c t, x = String c t.
Proof. destruct a; cbn [args_of snd]; intros E; try discriminate; injection E as <- _; apply z_repr_ne. Qed.
Lemma name_nochar a : nochar "(" (fst (args_of a)) = true.
Proof. destruct a; reflexivity. Qed.

Ltac eval_eqb := repeat match goal with |- context [String.eqb ?a ?b] => let v := eval vm_compute in (String.eqb a b) in change (String.eqb a b) with v end.

(* repr() evaluates back to an equal action *)
Theorem repr_roundtrip a : act_parse (act_repr a) = Some a.
Proof.
  unfold act_repr, act_parse. pose proof (args_nochar a) as Hn. pose proof (args_head a) as Hh. pose proof (name_nochar a) as Hnm.
  destruct (args_of a) as [nm args] eqn:Ea. cbn [fst snd] in *.
  rewrite (split_app _ _ _ Hnm).
  assert (Hj1 : nochar "(" (join args ++ String ")" EmptyString) = true).
  { rewrite nochar_app, (join_nochar "(" args eq_refl eq_refl (Hn _ ltac:(right; left; reflexivity))). reflexivity. }
  rewrite (split_nochar _ _ Hj1).
  assert (Hj2 : nochar ")" (join args) = true) by (apply join_nochar; try reflexivity; apply Hn; right; right; left; reflexivity).
  rewrite (split_app _ _ _ Hj2). cbn [split_on].
  rewrite (args_split_join args (Hn _ ltac:(left; reflexivity)) Hh).
  destruct a; cbn [args_of] in Ea; injection Ea as <- <-; unfold build; eval_eqb; cbv iota;
    rewrite ?z_parse_repr, ?b_parse_repr, ?st_parse_repr; reflexivity.
Qed.
Corollary repr_injective a b : act_repr a = act_repr b -> a = b.
Proof. intros E. pose proof (repr_roundtrip a) as Ha. rewrite E, repr_roundtrip in Ha. congruence. Qed.

(* == : same kind and equal parameters *)
Lemma st_eqb_eq a b : st_eqb a b = true <-> a = b.
Proof. destruct a, b; cbn; split; congruence. Qed.
Theorem act_eqb_eq a b : act_eqb a b = true <-> a = b.
Proof.
  split.
  - destruct a, b; cbn [act_eqb]; try discriminate; try reflexivity; intros H;
      repeat (apply andb_true_iff in H; destruct H as [H ?]);
      repeat match goal with
      | H : (_ =? _) = true |- _ => apply Z.eqb_eq in H
      | H : Bool.eqb _ _ = true |- _ => apply Bool.eqb_prop in H
      | H : st_eqb _ _ = true |- _ => apply st_eqb_eq in H end; subst; reflexivity.
  - intros <-. destruct a; cbn [act_eqb]; rewrite ?Z.eqb_refl, ?Bool.eqb_reflx; cbn [andb];
      repeat match goal with |- context [st_eqb ?s ?s] => replace (st_eqb s s) with true by (symmetry; apply st_eqb_eq; reflexivity) end; reflexivity.
Qed.
Theorem py_eq_is_eqb a b : py_eq a b = act_eqb a b.
Proof. destruct a, b; cbn [py_eq same_kind args tuple_eqb arg_eqb act_eqb andb]; rewrite ?andb_true_r, ?andb_assoc; reflexivity. Qed.
Corollary act_eqb_sym a b : act_eqb a b = act_eqb b a.
Proof.
  destruct (act_eqb a b) eqn:E1, (act_eqb b a) eqn:E2; try reflexivity.
  - apply act_eqb_eq in E1. subst. rewrite (proj2 (act_eqb_eq b b) eq_refl) in E2. discriminate.
  - apply act_eqb_eq in E2. subst. rewrite (proj2 (act_eqb_eq a a) eq_refl) in E1. discriminate.
Qed.
Corollary eq_iff_repr a b : act_eqb a b = true <-> act_repr a = act_repr b.
Proof. rewrite act_eqb_eq. split; [intros ->; reflexivity|apply repr_injective]. Qed.

(* ---- len / iteration / membership ---- *)
Lemma rev_map_seq {A} (f : nat -> A) : forall c, List.rev (map f (seq 0 c)) = map (fun i => f (c - 1 - i)%nat) (seq 0 c).
Proof.
  induction c as [|c IH]; [reflexivity|]. rewrite seq_S at 1. rewrite map_app, rev_app_distr. cbn [map List.rev app Nat.add]. rewrite IH.
  cbn [seq map]. change (([] ++ [f c]) ++ ?x)%list with (f c :: x). f_equal; [f_equal; lia|]. rewrite <- seq_shift, map_map. apply map_ext_in. intros i Hi. apply in_seq in Hi. f_equal. lia.
Qed.
Lemma range_down_rev n0 n1 : py_range_down (n1 - 1) (n0 - 1) = List.rev (zrange n0 n1).
Proof.
  unfold py_range_down, zrange, py_range. replace (n1 - 1 - (n0 - 1)) with (n1 - n0) by lia. rewrite rev_map_seq.
  apply map_ext_in. intros i Hi. apply in_seq in Hi. lia.
Qed.
Lemma zrange_length lo hi : Z.of_nat (length (zrange lo hi)) = Z.max 0 (hi - lo).
Proof. unfold zrange, py_range. rewrite map_length, seq_length. lia. Qed.
Lemma zrange_in lo hi k : In k (zrange lo hi) <-> lo <= k < hi.
Proof.
  unfold zrange, py_range. rewrite in_map_iff. split.
  - intros (i & <- & Hi). apply in_seq in Hi. lia.
  - intros H. exists (Z.to_nat (k - lo)). split; [lia|]. apply in_seq. lia.
Qed.
Lemma zrange_sorted lo hi : StronglySorted Z.lt (zrange lo hi).
Proof.
  unfold zrange, py_range. generalize (Z.to_nat (hi - lo)) as n. intros n. generalize 0%nat as s. induction n as [|n IH]; intros s; cbn [seq map]; constructor.
  - apply IH.
  - apply Forall_forall. intros x Hx. apply in_map_iff in Hx. destruct Hx as (i & <- & Hi). apply in_seq in Hi. lia.
Qed.
Lemma sorted_rev l : StronglySorted Z.lt l -> StronglySorted Z.gt (List.rev l).
Proof.
  induction 1 as [|x l Hl IH Hx]; cbn [rev]; [constructor|].
  assert (G : forall a b, StronglySorted Z.gt a -> Forall (fun y => Forall (fun z => y > z) b) a -> StronglySorted Z.gt b -> StronglySorted Z.gt (a ++ b)).
  { induction a as [|y a IHa]; intros b Ha Hab Hb; cbn [app]; [exact Hb|]. inversion Ha; subst. inversion Hab; subst. constructor; [apply IHa; assumption|].
    apply Forall_app. split; assumption. }
  apply G; [exact IH| |repeat constructor]. apply Forall_forall. intros y Hy. apply in_rev in Hy. rewrite Forall_forall in Hx. specialize (Hx y Hy). repeat constructor. lia.
Qed.

Definition covers (a : action) (n0 n1 : Z) : Prop :=
  match a with Forward a0 a1 _ _ _ => a0 = n0 /\ a1 = n1 | Reverse a1 a0 _ => a0 = n0 /\ a1 = n1 | _ => False end.
Lemma sorted_nodup l : StronglySorted Z.lt l -> NoDup l.
Proof. induction 1 as [|x l Hl IH Hx]; constructor; [|exact IH]. intros Hin. rewrite Forall_forall in Hx. specialize (Hx x Hin). lia. Qed.
Theorem steps_enumerated a n0 n1 : covers a n0 n1 -> n0 <= n1 ->
  exists l, act_iter a = Ok l /\ act_len a = Ok (Z.of_nat (length l)) /\ Z.of_nat (length l) = n1 - n0 /\
            (forall k, In k l <-> n0 <= k < n1) /\ (forall k, act_mem a k = Ok true <-> In k l) /\ NoDup l /\
            match a with Forward _ _ _ _ _ => StronglySorted Z.lt l | _ => StronglySorted Z.gt l end.
Proof.
  intros Hc Hle. assert (Hmem : forall k, Ok ((n0 <=? k) && (k <? n1)) = Ok true <-> n0 <= k < n1).
  { intros k. split; [intros E; injection E as E; apply andb_true_iff in E; lia|intros H; f_equal; apply andb_true_iff; lia]. }
  destruct a; cbn [covers] in Hc; try contradiction; destruct Hc as [-> ->]; cbn [act_iter act_len act_mem]; unfold len_result; fold (zrange n0 n1); (destruct (Z.ltb_spec (n1 - n0) 0); [lia|]).
  - exists (zrange n0 n1). pose proof (zrange_length n0 n1) as HL.
    split; [reflexivity|]. split; [f_equal; lia|]. split; [lia|]. split; [apply zrange_in|]. split; [intros k; rewrite Hmem, zrange_in; reflexivity|].
    split; [apply sorted_nodup, zrange_sorted|apply zrange_sorted].
  - rewrite range_down_rev. exists (List.rev (zrange n0 n1)). pose proof (zrange_length n0 n1) as HL. rewrite List.rev_length.
    split; [reflexivity|]. split; [f_equal; lia|]. split; [lia|]. split; [intros k; rewrite <- in_rev; apply zrange_in|].
    split; [intros k; rewrite Hmem, <- in_rev, zrange_in; reflexivity|].
    split; [apply NoDup_rev, sorted_nodup, zrange_sorted|apply sorted_rev, zrange_sorted].
Qed.
(* the other kinds define neither len nor iteration nor membership *)
Theorem no_steps a : (forall n0 n1, ~ covers a n0 n1) -> act_len a = Err TypeError /\ act_iter a = Err TypeError /\ forall k, act_mem a k = Err TypeError.
Proof. intros H. destruct a; try (repeat split; reflexivity); exfalso; eapply H; cbn; split; reflexivity. Qed.

Example value_laws_example : act_repr (Forward 3 maxsize true false DISK) = "Forward(3, sys.maxsize, True, False, StorageType.DISK)"%string /\
  act_iter (Reverse 5 2 true) = Ok [4; 3; 2] /\ act_eqb (Copy 1 RAM WORK) (Move 1 RAM WORK) = false.
Proof. vm_compute. repeat split. Qed.

Print Assumptions repr_roundtrip.
Print Assumptions act_eqb_eq.
Print Assumptions steps_enumerated.
