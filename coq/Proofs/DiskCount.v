(* C07 at the level of the stream, for DiskRevolve and PeriodicDiskRevolve: once the schedule is exhausted the executor has
   carried out exactly work L0 forward steps, written nWD L0 checkpoints to DISK and loaded nRD L0 from DISK, L0 the
   generated operation list -- so the cost of the stream (uf per forward step, ub per reversed step, wd per DISK write, rd per
   DISK load) is the cost of the list, which DiskCost.v shows to be the optimum of the class's grammar. *)
From Coq Require Import ZArith List Lia Bool.
Require Import Actions Ops RevSeq RevConv Exec Sched ExecFacts RunFacts RevBridge1 RevBridge3 RevBridge4 DiskBridge2 DiskBridge3 DiskGen DiskRun DiskCost.
Require RevBlk RevGen RevCost DiskBlk PeriodGen HRevUses.
Import ListNotations.
Open Scope Z_scope.

(* writes to DISK of the converter's output: one per Forward op that follows a Write_disk op *)
Fixpoint pw (prev : option RevBlk.op) (ops : list RevBlk.op) : Z :=
  match ops with [] => 0 | o :: r => (match prev, o with Some (RevBlk.OWD _), RevBlk.OF _ _ => 1 | _, _ => 0 end) + pw (Some o) r end.
Lemma sumdw_app l1 l2 : sumdw (l1 ++ l2) = sumdw l1 + sumdw l2.
Proof. unfold sumdw. induction l1 as [|a l1 IH]; cbn [app fold_right]; [lia|rewrite IH; lia]. Qed.
Lemma sumdr_app l1 l2 : sumdr (l1 ++ l2) = sumdr l1 + sumdr l2.
Proof. unfold sumdr. induction l1 as [|a l1 IH]; cbn [app fold_right]; [lia|rewrite IH; lia]. Qed.

Lemma conv_counts N : forall ops i prev c acts r, RevBlk.conv N i prev c ops = (acts, inl r) -> sumdw acts = pw prev ops /\ sumdr acts = nRD ops.
Proof.
  induction ops as [|o ops IH]; intros i prev c acts r H; cbn [RevBlk.conv] in H; [injection H as <- _; split; reflexivity|].
  destruct (RevBlk.conv1 N i prev o ops c) as [[c1 a1]|e] eqn:E1; [|discriminate].
  destruct (RevBlk.conv N (S i) (Some o) c1 ops) as [a2 r2] eqn:E2. injection H as <- ->.
  destruct (IH _ _ _ _ _ E2) as [IHw IHr]. rewrite sumdw_app, sumdr_app, IHw, IHr. cbn [pw nRD].
  assert (H1 : sumdw a1 = (match prev, o with Some (RevBlk.OWD _), RevBlk.OF _ _ => 1 | _, _ => 0 end) /\ sumdr a1 = match o with RevBlk.ORD _ => 1 | _ => 0 end).
  { destruct o; cbn [RevBlk.conv1] in E1.
    1:{ destruct (negb _); [discriminate|]. destruct prev as [pp|]; [|discriminate].
        destruct pp; repeat match type of E1 with context [if ?x then _ else _] => destruct x eqn:? end; try discriminate; injection E1 as <- <-; split; reflexivity. }
    all: repeat match type of E1 with context [match ?x with _ => _ end] => destruct x eqn:? | context [if ?x then _ else _] => destruct x eqn:? end;
      try discriminate; injection E1 as <- <-; (split; [destruct prev as [[]|]; reflexivity|reflexivity]). }
  destruct H1 as [-> ->]. split; [lia|destruct o; lia].
Qed.

(* in the DiskRevolve grammar every Write_disk is followed by its Forward *)
Definition nowd (s : list RevBlk.op) : Prop := Forall (fun o => match o with RevBlk.OWD _ => False | _ => True end) s.
Definition nof (s : list RevBlk.op) : Prop := match s with RevBlk.OF _ _ :: _ => False | _ => True end.
Lemma pw_nowd : forall s prev, nowd s -> (match prev with Some (RevBlk.OWD _) => nof s | _ => True end) -> pw prev s = 0.
Proof.
  induction s as [|o s IH]; intros prev Hn Hp; [reflexivity|]. inversion Hn as [|? ? Ho Hs]; subst. cbn [pw].
  rewrite (IH (Some o) Hs) by (destruct o; try exact I; contradiction).
  destruct prev as [[]|]; destruct o; cbn [nof] in Hp; try lia; contradiction.
Qed.
Lemma pw_app : forall a prev b, pw prev (a ++ b) = pw prev a + pw (match rev a with x :: _ => Some x | [] => prev end) b.
Proof.
  induction a as [|o a IH]; intros prev b; [cbn; lia|]. cbn [app pw]. rewrite IH. cbn [rev].
  replace (match rev a ++ [o] with x :: _ => Some x | [] => prev end) with (match rev a with x :: _ => Some x | [] => Some o end); [lia|].
  destruct (rev a); reflexivity.
Qed.
Lemma Blk_nowd wm o l cm s : RevBlk.Blk wm o l cm s -> nowd s.
Proof.
  intros HB. pose proof (HRevUses.Blk_nodisk _ _ _ _ _ HB) as H. eapply Forall_impl; [|exact H]. intros []; auto.
Qed.
Lemma Blk_true_nof o l cm s : RevBlk.Blk true o l cm s -> nof s.
Proof. inversion 1; subst; cbn; exact I. Qed.
Lemma DBlk_pw cm o l s : DiskBlk.DBlk cm o l s -> forall prev, pw prev s = nWD s.
Proof.
  induction 1 as [o|o l ops HB|o l j s1 s2 Hl Hj HD IH HB]; intros prev.
  - unfold RevBlk.adj. destruct prev as [[]|]; reflexivity.
  - destruct (Blk_counts _ _ _ _ _ HB) as (_ & -> & _). apply pw_nowd; [eapply Blk_nowd; eauto|]. destruct prev as [[]|]; try exact I. eapply Blk_true_nof; eauto.
  - cbn [app pw nWD]. rewrite !nWD_app. cbn [nWD]. rewrite pw_app, IH. destruct (Blk_counts _ _ _ _ _ HB) as (_ & Hw2 & _). rewrite Hw2.
    cbn [pw]. rewrite (pw_nowd s2 (Some (RevBlk.ORD o))) by (try exact I; eapply Blk_nowd; eauto).
    destruct (rev s1) as [|[] ?]; destruct prev as [[]|]; lia.
Qed.

(* ---- the stream ---- *)
Section STREAM.
Variable kd : rkind.
Theorem disk_stream_counts N ram disk L0 k : 1 <= N -> 0 <= ram -> (2 <= N -> 1 <= ram) -> DiskBlk.DBlk ram 0 (N - 1) L0 ->
  let '(s', m, ls) := run_ops (disk_xparams N ram) {| ob := ORevF kd N ram disk (init_r (map inj L0)); started := false |} mon0 (repeat Next k) in
  is_exhausted s' = true ->
  fwd_total (cnt (mx m)) = RevCost.work L0 /\ disk_writes (cnt (mx m)) = nWD L0 /\ disk_reads (cnt (mx m)) = nRD L0.
Proof.
  intros HN Hram Hram1 HB.
  destruct (disk_J0 kd N ram disk L0 HN Hram Hram1 HB) as (prev & acts & r & Hprev & Hconv & HJ0).
  pose proof (conv_work N _ _ _ _ _ _ Hconv) as Hw. destruct (conv_counts N _ _ _ _ _ _ Hconv) as [Hdw Hdr]. rewrite (DBlk_pw _ _ _ _ HB) in Hdw.
  pose proof (DiskBridge3.run_nexts2 N ram ltac:(lia) (map inj L0) kd ram disk _ _ _ k _ _ HJ0) as Hrun.
  change (DiskBridge2.pD N ram) with (disk_xparams N ram) in Hrun.
  destruct (run_ops (disk_xparams N ram) _ mon0 (repeat Next k)) as [[s' m'] ls]. destruct Hrun as [HJ _]. intros He.
  inversion HJ as [i c p x d wc rc stt m0 Hi Hm HRx HCn HNN HNd HWD HAg Hcl HFut|i c stt m0 Hm Htot [HCw HCr]]; subst; [cbn in He; discriminate|].
  rewrite Htot, HCw, HCr, Hw, Hdw, Hdr. auto.
Qed.
End STREAM.
Print Assumptions disk_stream_counts.

Lemma DBlk_nB cm o l s : DiskBlk.DBlk cm o l s -> nB s = l + 1.
Proof.
  induction 1 as [o|o l ops HB|o l j s1 s2 Hl Hj HD IH HB].
  - unfold RevBlk.adj. cbn. lia.
  - exact (proj1 (Blk_counts _ _ _ _ _ HB)).
  - rewrite !nB_app, IH, (proj1 (Blk_counts _ _ _ _ _ HB)). cbn [nB]. lia.
Qed.

Lemma DBlk_wr cm o l s : DiskBlk.DBlk cm o l s -> nWD s = nRD s.
Proof.
  induction 1 as [o|o l ops HB|o l j s1 s2 Hl Hj HD IH HB].
  - reflexivity.
  - destruct (Blk_counts _ _ _ _ _ HB) as (_ & -> & ->). reflexivity.
  - destruct (Blk_counts _ _ _ _ _ HB) as (_ & A & B). rewrite !nWD_app, !nRD_app, IH, A, B. cbn [nWD nRD]. lia.
Qed.

(* ---- DiskRevolve: the cost of the stream is the Disk-Revolve optimum ----
   (DiskRevolve.__init__ hands wd and rd to disk_revolve in each other's place; the recurrence only ever uses their sum, and a
   list of the grammar writes as many disk checkpoints as it reads, so the cost is the same) *)
Theorem disk_revolve_stream_cost N ram disk uf ub wd rd k : 1 <= N -> 1 <= ram -> 0 < uf ->
  exists L0, sequence KDiskRevolve N ram disk uf ub wd rd = Ok (map inj L0) /\
  let '(s', m, ls) := run_ops (disk_xparams N ram) {| ob := ORevF KDiskRevolve N ram disk (init_r (map inj L0)); started := false |} mon0 (repeat Next k) in
  is_exhausted s' = true ->
  let c := uf * fwd_total (cnt (mx m)) + ub * N + wd * disk_writes (cnt (mx m)) + rd * disk_reads (cnt (mx m)) in
  c = Dv uf ub rd wd ram (N - 1) + N * uf /\ forall s, DiskBlk.DBlk ram 0 (N - 1) s -> c <= cost uf ub wd rd s.
Proof.
  intros HN Hram Huf.
  destruct (disk_revolve_top_total (N - 1) ram wd rd uf ub ltac:(lia) Hram) as [L HL].
  destruct (disk_revolve_optimal uf ub rd wd Huf (N - 1) ram L ltac:(lia) Hram HL) as (L0 & -> & HB & HC & Hopt).
  exists L0. split; [exact HL|].
  pose proof (disk_stream_counts KDiskRevolve N ram disk L0 k HN ltac:(lia) ltac:(lia) HB) as Hs.
  destruct (run_ops (disk_xparams N ram) _ mon0 (repeat Next k)) as [[s' m'] ls]. intros He. destruct (Hs He) as (Hf & Hw & Hr). cbn zeta.
  rewrite Hf, Hw, Hr. pose proof (DBlk_nB _ _ _ _ HB) as HnB. pose proof (DBlk_wr _ _ _ _ HB) as Hwr. unfold cost in HC, Hopt. rewrite HnB in *. replace (N - 1 + 1) with N in * by lia.
  split; [lia|]. intros s Hs'. specialize (Hopt s Hs'). pose proof (DBlk_wr _ _ _ _ Hs') as Hwr'. unfold cost. lia.
Qed.
Print Assumptions disk_revolve_stream_cost.
