(* C07 for Revolve, DiskRevolve and PeriodicDiskRevolve at the level of operation lists.
   cost(ops) = uf per forward step + ub per Backward + wd per Write_disk + rd per Read_disk.
   1. Every list of the memory grammar RevBlk.Blk for l steps and cm slots costs at least  val cm l + (l+1) uf  (val = the opt_0
      table entry, Opt0Table), and revolve's list costs exactly that: Revolve is optimal in its grammar.
   2. Dv, the Disk-Revolve recurrence (each disk checkpoint written once and read once, the rest memory-only), is what
      get_opt_inf_table tabulates; every list of the grammar DiskBlk.DBlk costs at least  Dv l + (l+1) uf, and disk_revolve's
      list costs exactly that: DiskRevolve is optimal in its grammar.
   3. Hence cost(DiskRevolve) <= cost(Revolve) and, since periodic_disk_revolve's list is in the grammar, cost(Periodic...) >=
      cost(DiskRevolve).
   ((l+1) uf: the papers count the taped forward step of every adjoint step inside ub; the op lists perform it.) *)
From Coq Require Import ZArith List Lia Bool.
Require Import Actions Ops RevSeq RevBridge1 RevBridge5 RevBridge6 Opt0Table DiskGen.
Require RevBlk RevGen RevCost DiskBlk PeriodGen.
Import ListNotations.
Open Scope Z_scope.

Import RevBlk.
Notation work := RevCost.work.

(* ---- counts ---- *)
Fixpoint nB (ops : list op) : Z := match ops with [] => 0 | OB _ _ :: r => 1 + nB r | _ :: r => nB r end.
Fixpoint nWD (ops : list op) : Z := match ops with [] => 0 | OWD _ :: r => 1 + nWD r | _ :: r => nWD r end.
Fixpoint nRD (ops : list op) : Z := match ops with [] => 0 | ORD _ :: r => 1 + nRD r | _ :: r => nRD r end.
Lemma nB_app a b : nB (a ++ b) = nB a + nB b.
Proof. induction a as [|o a IH]; cbn [app nB]; [lia|]. destruct o; rewrite ?IH; lia. Qed.
Lemma nWD_app a b : nWD (a ++ b) = nWD a + nWD b.
Proof. induction a as [|o a IH]; cbn [app nWD]; [lia|]. destruct o; rewrite ?IH; lia. Qed.
Lemma nRD_app a b : nRD (a ++ b) = nRD a + nRD b.
Proof. induction a as [|o a IH]; cbn [app nRD]; [lia|]. destruct o; rewrite ?IH; lia. Qed.
Lemma nB_shift s ops : nB (RevGen.shift s ops) = nB ops.
Proof. induction ops as [|o ops IH]; [reflexivity|]. cbn [RevGen.shift map]. fold (RevGen.shift s ops). destruct o; cbn [RevGen.shift1 nB]; rewrite IH; reflexivity. Qed.
Lemma nWD_shift s ops : nWD (RevGen.shift s ops) = nWD ops.
Proof. induction ops as [|o ops IH]; [reflexivity|]. cbn [RevGen.shift map]. fold (RevGen.shift s ops). destruct o; cbn [RevGen.shift1 nWD]; rewrite IH; reflexivity. Qed.
Lemma nRD_shift s ops : nRD (RevGen.shift s ops) = nRD ops.
Proof. induction ops as [|o ops IH]; [reflexivity|]. cbn [RevGen.shift map]. fold (RevGen.shift s ops). destruct o; cbn [RevGen.shift1 nRD]; rewrite IH; reflexivity. Qed.

(* ---- the memory grammar: counts and the lower bound on forward steps ---- *)
Lemma loop1_counts : forall k o, nB (loop1 k o) = Z.of_nat k /\ nWD (loop1 k o) = 0 /\ nRD (loop1 k o) = 0 /\ 2 * work (loop1 k o) = Z.of_nat k * (Z.of_nat k + 1) + 2 * Z.of_nat k.
Proof.
  induction k as [|k IH]; intros o; [repeat split; reflexivity|]. destruct (IH o) as (A & B & C & D).
  cbn [loop1]. rewrite !nB_app, !nWD_app, !nRD_app, !RevCost.work_app, A, B, C. unfold adj. cbn [nB nWD nRD RevCost.work app]. repeat split; lia.
Qed.
Lemma Blk_counts wm o l cm s : Blk wm o l cm s -> nB s = l + 1 /\ nWD s = 0 /\ nRD s = 0.
Proof.
  induction 1 as [wm o cm|wm o cm|wm o cm Hcm|wm o l cm Hl Hcm|wm o l cm j s1 s2 Hl Hcm Hj B1 IH1 B2 IH2].
  - unfold adj. cbn. repeat split; lia.
  - unfold adj. cbn. repeat split; lia.
  - destruct wm; unfold wmop, adj, tail0; cbn; repeat split; lia.
  - destruct (loop1_counts (Z.to_nat (l - 1)) o) as (A & B & C & _).
    rewrite !nB_app, !nWD_app, !nRD_app, A, B, C. destruct wm; unfold wmop, adj, tail0; cbn [nB nWD nRD app]; repeat split; lia.
  - destruct IH1 as (A1 & B1' & C1), IH2 as (A2 & B2' & C2).
    rewrite !nB_app, !nWD_app, !nRD_app, A1, B1', C1, A2, B2', C2. destruct wm; unfold wmop; cbn [nB nWD nRD app]; repeat split; lia.
Qed.

(* more slots never cost more steps *)
Lemma P_nonneg : forall f m l, 0 <= Pf f m l.
Proof.
  induction f as [|f IH]; intros m l; cbn [Pf]; [lia|].
  destruct (Z.leb_spec l 0); [lia|]. destruct (Z.eqb_spec l 1); [lia|]. destruct (m <=? 1) eqn:Em.
  - apply Z.div_pos; nia.
  - set (L := map (fun j => j + Pf f (m - 1) (l - j) + Pf f m (j - 1)) (zrange 1 l)).
    assert (Hne : L <> []).
    { unfold L, zrange. destruct (Z.to_nat (l - 1)) as [|k] eqn:Ek; [lia|]. cbn [seq map]. discriminate. }
    pose proof (zmin_list_in L 0 Hne) as Hin. unfold L in Hin at 2. apply in_map_iff in Hin. destruct Hin as (j & Ej & Hj).
    apply in_zrange' in Hj. pose proof (IH (m - 1) (l - j)). pose proof (IH m (j - 1)). lia.
Qed.
Lemma P_mono : forall n m l, (Z.to_nat l + Z.to_nat m <= n)%nat -> 2 <= m -> 0 <= l -> P m l <= P (m - 1) l.
Proof.
  induction n as [|n IH]; intros m l Hn Hm Hl; [lia|].
  destruct (Z.eq_dec l 0) as [->|Hl0]; [rewrite !P_0; lia|]. destruct (Z.eq_dec l 1) as [->|Hl1]; [rewrite !P_1; lia|].
  destruct (Z.eq_dec m 2) as [->|Hm2].
  - (* P 2 l <= P 1 l: split at j = 1 *)
    pose proof (P_le 2 l 1 ltac:(lia) ltac:(lia) ltac:(lia)) as H. change (2 - 1) with 1 in *. replace (1 - 1) with 0 in H by lia. rewrite P_0 in H.
    pose proof (P_c1 l ltac:(lia)). pose proof (P_c1 (l - 1) ltac:(lia)). nia.
  - destruct (P_ex (m - 1) l ltac:(lia) ltac:(lia)) as (j & Hj & E).
    pose proof (P_le m l j ltac:(lia) ltac:(lia) Hj) as H.
    pose proof (IH (m - 1) (l - j) ltac:(lia) ltac:(lia) ltac:(lia)) as H1.
    pose proof (IH m (j - 1) ltac:(lia) ltac:(lia) ltac:(lia)) as H2. lia.
Qed.
Lemma P_le_row1 m l : 1 <= m -> 0 <= l -> P m l <= P 1 l.
Proof.
  intros Hm Hl. assert (H : forall k : nat, P (1 + Z.of_nat k) l <= P 1 l).
  { induction k as [|k IH]; [replace (1 + Z.of_nat 0) with 1 by lia; lia|].
    pose proof (P_mono (Z.to_nat l + Z.to_nat (1 + Z.of_nat (S k))) (1 + Z.of_nat (S k)) l ltac:(lia) ltac:(lia) Hl) as H.
    replace (1 + Z.of_nat (S k) - 1) with (1 + Z.of_nat k) in H by lia. lia. }
  specialize (H (Z.to_nat (m - 1))). replace (1 + Z.of_nat (Z.to_nat (m - 1))) with m in H by lia. exact H.
Qed.
Lemma Blk_work_lb wm o l cm s : Blk wm o l cm s -> work s >= (l + 1) + P cm l.
Proof.
  induction 1 as [wm o cm|wm o cm|wm o cm Hcm|wm o l cm Hl Hcm|wm o l cm j s1 s2 Hl Hcm Hj B1 IH1 B2 IH2].
  - rewrite P_0. unfold adj. cbn. lia.
  - rewrite P_0. unfold adj. cbn. lia.
  - rewrite P_1. destruct wm; unfold wmop, adj, tail0; cbn; lia.
  - destruct (loop1_counts (Z.to_nat (l - 1)) o) as (_ & _ & _ & D). rewrite Z2Nat.id in D by lia.
    pose proof (P_le_row1 cm l Hcm ltac:(lia)). pose proof (P_c1 l ltac:(lia)).
    rewrite !RevCost.work_app. destruct wm; unfold wmop, adj, tail0; cbn [RevCost.work app]; nia.
  - pose proof (P_le cm l j Hcm Hl Hj). rewrite !RevCost.work_app. destruct wm; unfold wmop; cbn [RevCost.work app]; lia.
Qed.

Section COST.
Variable uf ub wd rd : Z.
Hypothesis Huf : 0 <= uf.
Variable cm : Z.
Hypothesis Hcm : 1 <= cm.
Notation val := (Opt0Table.val uf ub).

Definition cost (ops : list op) : Z := uf * work ops + ub * nB ops + wd * nWD ops + rd * nRD ops.
Lemma cost_app a b : cost (a ++ b) = cost a + cost b.
Proof. unfold cost. rewrite RevCost.work_app, nB_app, nWD_app, nRD_app. lia. Qed.
Lemma cost_shift s ops : cost (RevGen.shift s ops) = cost ops.
Proof. unfold cost. rewrite RevCost.work_shift, nB_shift, nWD_shift, nRD_shift. reflexivity. Qed.

(* 1. the memory grammar *)
Theorem Blk_cost_lb wm o l c s : Blk wm o l c s -> cost s >= val c l + (l + 1) * uf.
Proof.
  intros HB. destruct (Blk_counts _ _ _ _ _ HB) as (A & B & C). pose proof (Blk_work_lb _ _ _ _ _ HB).
  unfold cost, Opt0Table.val. rewrite A, B, C. nia.
Qed.

(* 2. the Disk-Revolve recurrence *)
Definition cand (D : Z -> Z) (l j : Z) : Z := wd + j * uf + D (l - j) + rd + val cm (j - 1).
Fixpoint Dvf (fuel : nat) (l : Z) : Z :=
  match fuel with O => 0 | S f =>
    if l <=? 0 then ub else if l =? 1 then uf + 2 * ub else
    Z.min (val cm l) (zmin_list (map (cand (Dvf f) l) (zrange 1 l)) 0) end.
Definition Dv (l : Z) : Z := Dvf (S (Z.to_nat l)) l.
Lemma Dvf_fuel : forall f f' l, (Z.to_nat l < f)%nat -> (Z.to_nat l < f')%nat -> Dvf f l = Dvf f' l.
Proof.
  induction f as [|f IH]; intros f' l H1 H2; [lia|]. destruct f' as [|f']; [lia|]. cbn [Dvf].
  destruct (Z.leb_spec l 0); [reflexivity|]. destruct (Z.eqb_spec l 1); [reflexivity|]. f_equal. f_equal.
  apply map_ext_in. intros j Hj. apply in_zrange' in Hj. unfold cand. rewrite (IH f' (l - j)) by lia. reflexivity.
Qed.
Lemma Dv_0 : Dv 0 = ub. Proof. reflexivity. Qed.
Lemma Dv_1 : Dv 1 = uf + 2 * ub. Proof. reflexivity. Qed.
Lemma Dv_unfold l : 2 <= l -> Dv l = Z.min (val cm l) (zmin_list (map (cand Dv l) (zrange 1 l)) 0).
Proof.
  intros Hl. unfold Dv at 1. cbn [Dvf]. destruct (Z.leb_spec l 0); [lia|]. destruct (Z.eqb_spec l 1); [lia|]. f_equal. f_equal.
  apply map_ext_in. intros j Hj. apply in_zrange' in Hj. unfold cand, Dv. rewrite (Dvf_fuel (Z.to_nat l) (S (Z.to_nat (l - j))) (l - j)) by lia. reflexivity.
Qed.
Lemma Dv_le_val l : 0 <= l -> Dv l <= val cm l.
Proof.
  intros Hl. destruct (Z.eq_dec l 0) as [->|]; [rewrite Dv_0; unfold Opt0Table.val; rewrite P_0; lia|].
  destruct (Z.eq_dec l 1) as [->|]; [rewrite Dv_1; unfold Opt0Table.val; rewrite P_1; lia|]. rewrite Dv_unfold by lia. lia.
Qed.
Lemma Dv_le_cand l j : 2 <= l -> 1 <= j <= l - 1 -> Dv l <= cand Dv l j.
Proof.
  intros Hl Hj. rewrite Dv_unfold by lia. pose proof (zmin_list_le (map (cand Dv l) (zrange 1 l)) 0 (cand Dv l j)) as H.
  specialize (H ltac:(apply in_map; apply in_zrange'; lia)). lia.
Qed.

Theorem DBlk_cost_lb o l s : DiskBlk.DBlk cm o l s -> 0 <= l -> cost s >= Dv l + (l + 1) * uf.
Proof.
  induction 1 as [o|o l ops HB|o l j s1 s2 Hl Hj HD IH HB]; intros Hl0.
  - rewrite Dv_0. unfold cost, adj. cbn [RevCost.work nB nWD nRD]. lia.
  - pose proof (Blk_cost_lb _ _ _ _ _ HB). pose proof (Dv_le_val l Hl0). lia.
  - specialize (IH ltac:(lia)). pose proof (Blk_cost_lb _ _ _ _ _ HB) as H2. pose proof (Dv_le_cand l j Hl Hj) as Hc. unfold cand in Hc.
    rewrite !cost_app. unfold cost at 1 3. cbn [RevCost.work nB nWD nRD]. replace (j - 1 + 1) with j in H2 by lia. lia.
Qed.
End COST.

(* ---- exactness: what the generators produce costs exactly the table values ---- *)
Section EXACT.
Variable uf ub wd rd : Z.
Hypothesis Huf : 0 < uf.
Variable t : list (list Z).
Variable M L : Z.
Notation val := (Opt0Table.val uf ub).
Hypothesis HT : forall m l, 0 <= m <= M -> 0 <= l <= L -> (1 <= m \/ l = 0) -> tget t m l = Ok (val m l).
Notation cost := (cost uf ub wd rd).

Lemma rev_exact fuel l c s : revolve fuel t uf l c = Ok s -> 0 <= l <= L -> 0 <= c <= M -> (1 <= l -> 1 <= c) ->
  exists s0, s = map inj s0 /\ Blk true 0 l c s0 /\ cost s0 = val c l + (l + 1) * uf.
Proof.
  intros H Hl Hc Hc1. destruct (revolve_g _ _ _ _ _ _ H) as (s0 & HG & ->).
  assert (HB : Blk true 0 l c s0) by (apply (RevGen.revolve_blk _ _ _ _ _ _ HG); lia).
  exists s0. split; [reflexivity|]. split; [exact HB|]. destruct (Blk_counts _ _ _ _ _ HB) as (A & B & C).
  pose proof (RevCost.revolve_work uf ub Huf t M L P) as HW.
  rewrite (HW (fun m l0 Hm Hl0 Hml => tget_g _ _ _ _ (HT m l0 Hm Hl0 Hml)) P_0 (fun m _ => P_1 m) P_c1 P_le P_ex fuel l c s0 HG Hl Hc Hc1) || idtac.
  unfold DiskCost.cost, Opt0Table.val. rewrite A, B, C.
  rewrite (HW (fun m l0 Hm Hl0 Hml => tget_g _ _ _ _ (HT m l0 Hm Hl0 Hml)) P_0 (fun m _ => P_1 m) P_c1 P_le P_ex fuel l c s0 HG Hl Hc Hc1). lia.
Qed.

Variable cm : Z.
Hypothesis Hcm : 1 <= cm <= M.
Notation Dv := (Dv uf ub wd rd cm).
Notation cand := (cand uf ub wd rd cm).

(* the opt_inf table *)
Definition TabOK (tab : list Z) (n : Z) : Prop := Z.of_nat (length tab) = n /\ forall i, 0 <= i < n -> nth_error tab (Z.to_nat i) = Some (Dv i).
Lemma lget_tab tab n i : TabOK tab n -> 0 <= i < n -> lget tab i = Ok (Dv i).
Proof. intros [_ H] Hi. unfold lget. destruct (Z.ltb_spec i 0); [lia|]. rewrite (H i Hi). reflexivity. Qed.
Lemma cands_pure tab n l : TabOK tab n -> 2 <= l <= L -> l <= n ->
  map_res (fun j => do x <- lget tab (l - j); do y <- tget t cm (j - 1); Ok (wd + j * uf + x + rd + y)) (zrange 1 l) = Ok (map (cand Dv l) (zrange 1 l)).
Proof.
  intros HTab Hl Hn. apply Opt0Table.map_res_pure. intros j Hj. apply in_zrange' in Hj.
  rewrite (lget_tab tab n (l - j) HTab) by lia. cbn [bind]. rewrite (HT cm (j - 1)) by lia. cbn [bind]. reflexivity.
Qed.
Lemma inf_ext_vals : forall cnt lcur tab r, TabOK tab lcur -> 2 <= lcur -> lcur + Z.of_nat cnt <= L + 1 ->
  inf_ext cnt lcur t cm uf rd wd tab = Ok r -> TabOK r (lcur + Z.of_nat cnt).
Proof.
  induction cnt as [|cnt IH]; intros lcur tab r HTab H2 Hb H; cbn [inf_ext] in H.
  - injection H as <-. replace (lcur + Z.of_nat 0) with lcur by lia. exact HTab.
  - rewrite (cands_pure tab lcur lcur HTab ltac:(lia) ltac:(lia)) in H. cbn [bind] in H. rewrite (HT cm lcur) in H by lia. cbn [bind] in H.
    replace (lcur + Z.of_nat (S cnt)) with (lcur + 1 + Z.of_nat cnt) by lia. eapply IH; [|lia|lia|exact H].
    destruct HTab as [Hlen Hv]. split; [rewrite app_length; cbn [length]; lia|]. intros i Hi.
    destruct (Z.eq_dec i lcur) as [->|Hne].
    + rewrite nth_error_app2 by lia. replace (Z.to_nat lcur - length tab)%nat with 0%nat by lia. cbn [nth_error]. rewrite Dv_unfold by lia. reflexivity.
    + rewrite nth_error_app1 by lia. apply Hv. lia.
Qed.
Lemma optinf_values lmax ti : 0 <= lmax <= L -> get_opt_inf_table lmax cm uf ub rd wd t = Ok ti -> forall l, 0 <= l <= lmax -> lget ti l = Ok (Dv l).
Proof.
  intros Hl H l Hll. unfold get_opt_inf_table in H. destruct (Z.eqb_spec cm 0); [lia|].
  assert (H0 : TabOK [ub; uf + 2 * ub] 2).
  { split; [reflexivity|]. intros i Hi. assert (i = 0 \/ i = 1) as [-> | ->] by lia; reflexivity. }
  destruct (Z.le_gt_cases lmax 1) as [Hle|Hgt].
  - replace (Z.to_nat (lmax - 1)) with 0%nat in H by lia. cbn [inf_ext] in H. injection H as <-. apply (lget_tab _ 2 l H0). lia.
  - pose proof (inf_ext_vals (Z.to_nat (lmax - 1)) 2 _ ti H0 ltac:(lia) ltac:(lia) H) as HT2. apply (lget_tab _ _ l HT2). lia.
Qed.

(* disk_revolve *)
Variable ti : list Z.
Hypothesis HTi : forall l, 0 <= l <= L -> lget ti l = Ok (Dv l).
Lemma zmin_argmin lm : lm <> [] -> nth_error lm (Z.to_nat (argmin lm - 1)) = Some (zmin_list lm 0).
Proof.
  intros Hne. rewrite argmin_eq. destruct (RevCost.argmin_min lm Hne) as (x & Hx & Hmin). rewrite Hx. f_equal.
  pose proof (zmin_list_in lm 0 Hne) as Hin. pose proof (Hmin _ Hin). pose proof (zmin_list_le lm 0 x (nth_error_In _ _ Hx)). lia.
Qed.
Lemma disk_exact : forall fuel l s, disk_revolve fuel t ti uf rd wd l cm = Ok s -> 0 <= l <= L ->
  exists s0, s = map inj s0 /\ DiskBlk.DBlk cm 0 l s0 /\ cost s0 = Dv l + (l + 1) * uf.
Proof.
  induction fuel as [|f IH]; intros l s H Hl; [discriminate|]. cbn [disk_revolve] in H.
  destruct (Z.eqb_spec l 0) as [->|Hl0].
  { injection H as <-. exists (adj 0). split; [reflexivity|]. split; [apply DiskBlk.DZero|]. rewrite Dv_0. unfold DiskCost.cost, adj. cbn [RevCost.work nB nWD nRD]. lia. }
  destruct (Z.eqb_spec l 1) as [->|Hl1].
  { destruct (Z.eqb_spec cm 0); [lia|]. injection H as <-.
    exists (wmop true 0 ++ [OF 0 (0+1)] ++ adj (0+1) ++ tail0 0). split; [reflexivity|]. split; [apply DiskBlk.DMem; apply (B1 true 0 cm); lia|].
    rewrite Dv_1. unfold DiskCost.cost, wmop, adj, tail0. cbn [app RevCost.work nB nWD nRD]. lia. }
  assert (Elm : map_res (fun j => do x <- lget ti (l - j); do y <- tget t cm (j - 1); Ok (wd + j * uf + x + rd + y)) (zrange 1 l) = Ok (map (cand Dv l) (zrange 1 l))).
  { apply Opt0Table.map_res_pure. intros j Hj. apply in_zrange' in Hj. rewrite (HTi (l - j)) by lia. cbn [bind]. rewrite (HT cm (j - 1)) by lia. cbn [bind]. reflexivity. }
  rewrite Elm in H. cbn [bind] in H. set (lm := map (cand Dv l) (zrange 1 l)) in *.
  assert (Hlen : length lm = Z.to_nat (l - 1)) by (unfold lm, zrange; rewrite !map_length, seq_length; reflexivity).
  assert (Hne : lm <> []) by (destruct lm; [cbn in Hlen; lia|discriminate]).
  assert (Hm : forall (A : Type) (a b : A), (if match lm with [] => true | _ :: _ => false end then a else b) = b) by (intros A a b; destruct lm; [congruence|reflexivity]).
  rewrite Hm in H. rewrite (HT cm l) in H by lia. cbn [bind] in H.
  destruct (Z.ltb_spec (zmin_list lm 0) (val cm l)) as [Hlt|Hge].
  - assert (Hj : 1 <= argmin lm <= l - 1).
    { rewrite argmin_eq. pose proof (RevGen.argmin_bound lm Hne) as Hb. lia. }
    pose proof (zmin_argmin lm Hne) as Hz. set (j := argmin lm) in *.
    assert (Hcj : cand Dv l j = zmin_list lm 0).
    { unfold lm in Hz at 1. rewrite nth_error_map in Hz. rewrite RevCost.nth_zrange in Hz by lia. cbn [option_map] in Hz.
      replace (1 + Z.of_nat (Z.to_nat (j - 1))) with j in Hz by lia. congruence. }
    destruct (disk_revolve f t ti uf rd wd (l - j) cm) as [s1|] eqn:E1; cbn [bind] in H; [|discriminate].
    destruct (revolve _ t uf (j - 1) cm) as [s2|] eqn:E2; cbn [bind] in H; [|discriminate]. injection H as <-.
    destruct (IH _ _ E1 ltac:(lia)) as (s10 & -> & D1 & C1).
    destruct (rev_exact _ _ _ _ E2 ltac:(lia) ltac:(lia) ltac:(lia)) as (s20 & -> & B2 & C2).
    apply (DBlk_shift cm j) in D1.
    pose proof (DiskBlk.DSplit cm 0 l j _ _ ltac:(lia) Hj D1 B2) as HD. replace (0 + j) with j in HD by lia.
    eexists. split; [|split; [exact HD|]].
    + rewrite shift_inj. cbn [map app inj]. rewrite ?map_app. cbn [map app inj]. reflexivity.
    + rewrite !cost_app, cost_shift, C1, C2. unfold DiskCost.cost at 1 2. cbn [RevCost.work nB nWD nRD].
      rewrite (Dv_unfold uf ub wd rd cm l) by lia. fold lm. unfold DiskCost.cand in Hcj. lia.
  - destruct (rev_exact _ _ _ _ H Hl ltac:(lia) ltac:(lia)) as (s0 & -> & HB & HC).
    exists s0. split; [reflexivity|]. split; [apply DiskBlk.DMem; exact HB|]. rewrite HC, (Dv_unfold uf ub wd rd cm l) by lia. fold lm. lia.
Qed.
End EXACT.

(* ---- the three classes ---- *)
Section TOP.
Variable uf ub wd rd : Z.
Hypothesis Huf : 0 < uf.
Notation cost := (cost uf ub wd rd).
Notation val := (Opt0Table.val uf ub).

Theorem revolve_optimal l cm s : 0 <= l -> 0 <= cm -> (1 <= l -> 1 <= cm) -> revolve_top l cm uf ub = Ok s ->
  exists s0, s = map inj s0 /\ Blk true 0 l cm s0 /\ cost s0 = val cm l + (l + 1) * uf /\
             forall s', Blk true 0 l cm s' -> cost s0 <= cost s'.
Proof.
  intros Hl Hcm Hcm1 H. unfold revolve_top in H. destruct (get_opt_0_table l cm uf ub) as [t|] eqn:Et; cbn [bind] in H; [|discriminate].
  destruct (rev_exact uf ub wd rd Huf t cm l (opt0_values uf ub ltac:(lia) l cm t Hl Et) _ l cm s H ltac:(lia) ltac:(lia) Hcm1) as (s0 & -> & HB & HC).
  exists s0. split; [reflexivity|]. split; [exact HB|]. split; [exact HC|]. intros s' HB'. pose proof (Blk_cost_lb uf ub wd rd ltac:(lia) _ _ _ _ _ HB'). lia.
Qed.

Theorem disk_revolve_optimal l cm s : 0 <= l -> 1 <= cm -> disk_revolve_top l cm rd wd uf ub = Ok s ->
  exists s0, s = map inj s0 /\ DiskBlk.DBlk cm 0 l s0 /\ cost s0 = Dv uf ub wd rd cm l + (l + 1) * uf /\
             forall s', DiskBlk.DBlk cm 0 l s' -> cost s0 <= cost s'.
Proof.
  intros Hl Hcm H. unfold disk_revolve_top in H. destruct (get_opt_0_table l cm uf ub) as [t|] eqn:Et; cbn [bind] in H; [|discriminate].
  destruct (get_opt_inf_table l cm uf ub rd wd t) as [ti|] eqn:Eti; cbn [bind] in H; [|discriminate].
  pose proof (opt0_values uf ub ltac:(lia) l cm t Hl Et) as HT.
  pose proof (optinf_values uf ub wd rd t cm l HT cm ltac:(lia) l ti ltac:(lia) Eti) as HTi.
  destruct (disk_exact uf ub wd rd Huf t cm l HT cm ltac:(lia) ti HTi _ l s H ltac:(lia)) as (s0 & -> & HD & HC).
  exists s0. split; [reflexivity|]. split; [exact HD|]. split; [exact HC|]. intros s' HD'. pose proof (DBlk_cost_lb uf ub wd rd ltac:(lia) cm _ _ _ HD' Hl). lia.
Qed.

(* DiskRevolve never costs more than Revolve, and PeriodicDiskRevolve never less than DiskRevolve *)
Theorem disk_le_revolve l cm sd sr : 0 <= l -> 1 <= cm -> disk_revolve_top l cm rd wd uf ub = Ok (map inj sd) -> revolve_top l cm uf ub = Ok (map inj sr) ->
  cost sd <= cost sr.
Proof.
  intros Hl Hcm Hd Hr.
  destruct (disk_revolve_optimal l cm _ Hl Hcm Hd) as (s0 & E0 & _ & _ & Hopt).
  destruct (revolve_optimal l cm _ Hl ltac:(lia) ltac:(lia) Hr) as (s1 & E1 & HB & _ & _).
  assert (Hinj : forall a b, map inj a = map inj b -> a = b).
  { induction a as [|x a IHa]; intros [|y b] E; try discriminate; [reflexivity|]. cbn [map] in E. injection E as Exy E. f_equal; [|apply IHa; exact E]. destruct x, y; cbn in Exy; congruence. }
  apply Hinj in E0. apply Hinj in E1. subst s0 s1. apply Hopt. apply DiskBlk.DMem. exact HB.
Qed.
Theorem periodic_ge_disk l cm sd sp mx : 0 <= l -> 1 <= cm -> disk_revolve_top l cm rd wd uf ub = Ok (map inj sd) -> periodic_top l cm rd wd uf ub = Ok (sp, mx) ->
  exists sp0, sp = map inj sp0 /\ cost sd <= cost sp0.
Proof.
  intros Hl Hcm Hd Hp.
  destruct (disk_revolve_optimal l cm _ Hl Hcm Hd) as (s0 & E0 & _ & _ & Hopt).
  assert (Hinj : forall a b, map inj a = map inj b -> a = b).
  { induction a as [|x a IHa]; intros [|y b] E; try discriminate; [reflexivity|]. cbn [map] in E. injection E as Exy E. f_equal; [|apply IHa; exact E]. destruct x, y; cbn in Exy; congruence. }
  apply Hinj in E0. subst s0.
  destruct (PeriodGen.periodic_top_total l cm rd wd uf ub Hl Hcm) as [ops Htot]. rewrite Htot in Hp. injection Hp as <- <-.
  destruct (PeriodGen.periodic_grammar l cm rd wd uf ub ops _ Hl Hcm Htot (PeriodGen.mxrr_pos _ _ _ _)) as (sp0 & -> & HD).
  exists sp0. split; [reflexivity|]. apply Hopt. exact HD.
Qed.
End TOP.
Print Assumptions disk_revolve_optimal.
Print Assumptions periodic_ge_disk.
