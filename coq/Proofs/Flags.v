(* C09 for the offline classes (Multistage, Mixed, the Revolve family), over every history of requests -- no assumption
   on the constructor arguments beyond the constructor having returned -- and the statement for all thirteen classes. *)
From Coq Require Import ZArith List Bool Lia.
Require Import Actions NAdvance Multistage Mixed Online Ops RevConv Exec Sched OnlineFlags.
Import ListNotations.
Open Scope Z_scope.

Definition is_endrev (a : action) : bool := match a with EndReverse => true | _ => false end.

(* ---- Multistage ---- *)
Definition MsInv (s : Multistage.st) : Prop := Multistage.exhausted s = true -> Multistage.pcv s = Multistage.PDone \/ Multistage.pcv s = Multistage.PFinished.
Lemma ms_resume_flags : forall f c s s' out, Multistage.resume f c s = (s', out) -> Multistage.exhausted s = false ->
  match out with
  | Yield a => Multistage.exhausted s' = is_endrev a /\ (Multistage.exhausted s' = true -> Multistage.pcv s' = Multistage.PDone)
  | _ => Multistage.exhausted s' = false end.
Proof.
  induction f as [|f IH]; intros c s s' out H He; cbn [Multistage.resume] in H.
  - injection H as <- <-. auto.
  - destruct s as [q n r sn e]. cbn [Multistage.exhausted] in He. subst e.
    cbn [Multistage.pcv Multistage.n_ Multistage.r_ Multistage.snaps] in H.
    destruct q; brk H;
      try (injection H as <- <-; cbn [Multistage.mk Multistage.exhausted Multistage.pcv is_endrev]; repeat split; auto; try discriminate; fail);
      try (apply IH in H; [exact H|reflexivity]).
Qed.
Lemma ms_next_flags c s : MsInv s ->
  MsInv (fst (Multistage.next c s)) /\
  match snd (Multistage.next c s) with
  | Yield a => Multistage.exhausted s = false /\ Multistage.exhausted (fst (Multistage.next c s)) = is_endrev a
  | _ => Multistage.exhausted (fst (Multistage.next c s)) = Multistage.exhausted s end.
Proof.
  intros HI. unfold Multistage.next. destruct (Multistage.exhausted s) eqn:Ee.
  - assert (Hr : Multistage.resume 3 c s = (s, StopIteration)).
    { destruct s as [q n r sn e]. destruct (HI Ee) as [E|E]; cbn [Multistage.pcv] in E; subst q; reflexivity. }
    rewrite Hr. cbn [fst snd Multistage.mk Multistage.exhausted]. split; [intros _; right; reflexivity|exact Ee].
  - destruct (Multistage.resume 3 c s) as [s1 o] eqn:Er. pose proof (ms_resume_flags 3 c s s1 o Er Ee) as Ho.
    destruct o as [a| |e]; cbn [fst snd Multistage.mk Multistage.exhausted].
    + destruct Ho as [H1 H2]. split; [intros E; left; auto|auto].
    + split; [intros _; right; reflexivity|rewrite Ho; reflexivity].
    + split; [intros _; right; reflexivity|rewrite Ho; reflexivity].
Qed.
Definition MsI (s : sched) : Prop := exists c m ram disk, ob s = OMulti c m ram disk /\ MsInv m.
Lemma offline_finalize kk s : (match ob s with OOnline _ => False | _ => True end) -> fst (Sched.finalize kk s) = s.
Proof. unfold Sched.finalize. destruct (ob s); try contradiction; intros _; destruct (kk <? 1); try reflexivity; destruct (get_max_n s); try reflexivity; destruct (_ || _); reflexivity. Qed.
Lemma ms_sched_next s : MsI s ->
  MsI (fst (Sched.next s)) /\ started (fst (Sched.next s)) = true /\
  match snd (Sched.next s) with
  | Yield a => is_exhausted s = false /\ is_exhausted (fst (Sched.next s)) = is_endrev a
  | _ => is_exhausted (fst (Sched.next s)) = is_exhausted s end.
Proof.
  intros (c & m & ram & disk & Ho & HI). unfold Sched.next, is_exhausted. rewrite Ho.
  pose proof (ms_next_flags c m HI) as H. destruct (Multistage.next c m) as [m' out]. cbn [fst snd ob started] in *.
  destruct H as [H1 H2]. split; [eexists _, _, _, _; split; [reflexivity|exact H1]|]. split; [reflexivity|exact H2].
Qed.
Lemma ms_sched_fin kk s : MsI s -> MsI (fst (Sched.finalize kk s)) /\ is_exhausted (fst (Sched.finalize kk s)) = is_exhausted s.
Proof. intros HI. rewrite offline_finalize; [auto|]. destruct HI as (c & m & ram & disk & Ho & _). rewrite Ho. exact Logic.I. Qed.

Theorem multistage_flags_hist N ram disk tj p ops o0 m ls : run_case (PMulti N ram disk tj) p ops = Ok (o0, m, ls) ->
  o_exh o0 = false /\ o_run o0 = false /\ flags_hist is_endrev false ls.
Proof.
  apply (case_flags MsI is_endrev ms_sched_next ms_sched_fin).
  intros s Ec. cbn [Sched.construct] in Ec. destruct (Multistage.construct N ram disk tj) as [c|e]; [|discriminate]. injection Ec as <-.
  split; [eexists _, _, _, _; split; [reflexivity|intros; discriminate]|split; reflexivity].
Qed.

(* ---- Mixed ---- *)
Definition MxInv (s : Mixed.st) : Prop := Mixed.exhausted s = true -> Mixed.pcv s = Mixed.PDone.
Lemma mx_resume_flags : forall f c s s' out, Mixed.resume f c s = (s', out) -> Mixed.exhausted s = false ->
  match out with
  | Yield a => Mixed.exhausted s' = is_endrev a /\ (Mixed.exhausted s' = true -> Mixed.pcv s' = Mixed.PDone)
  | _ => Mixed.exhausted s' = false end.
Proof.
  induction f as [|f IH]; intros c s s' out H He; cbn [Mixed.resume] in H.
  - injection H as <- <-. auto.
  - destruct s as [q n r sn e]. cbn [Mixed.exhausted] in He. subst e.
    cbn [Mixed.pcv Mixed.n_ Mixed.r_ Mixed.snaps] in H.
    destruct q; brk H;
      try (injection H as <- <-; cbn [Mixed.mk Mixed.exhausted Mixed.pcv is_endrev]; repeat split; auto; try discriminate; fail);
      try (apply IH in H; [exact H|reflexivity]).
Qed.
Definition MxI (s : sched) : Prop := exists n sn sg tab pl m fin, ob s = OMixed n sn sg tab pl m fin /\ MxInv m.
Lemma mx_sched_next s : MxI s ->
  MxI (fst (Sched.next s)) /\ started (fst (Sched.next s)) = true /\
  match snd (Sched.next s) with
  | Yield a => is_exhausted s = false /\ is_exhausted (fst (Sched.next s)) = is_endrev a
  | _ => is_exhausted (fst (Sched.next s)) = is_exhausted s end.
Proof.
  intros (n & sn & sg & tab & pl & m & fin & Ho & HI). unfold Sched.next, is_exhausted. rewrite Ho.
  destruct fin.
  { cbn [fst snd ob started]. split; [eexists _, _, _, _, _, _, _; split; [reflexivity|exact HI]|split; reflexivity]. }
  match goal with |- context [match ?pr with Ok f => _ | Err e => _ end] => destruct pr as [f|e] end.
  2:{ cbn [fst snd ob started]. split; [eexists _, _, _, _, _, _, _; split; [reflexivity|exact HI]|split; reflexivity]. }
  destruct (Mixed.exhausted m) eqn:Ee.
  - assert (Hr : forall c, Mixed.resume 3 c m = (m, StopIteration)).
    { intros c. destruct m as [q n0 r sn0 e]. pose proof (HI Ee) as E. cbn [Mixed.pcv] in E. subst q. reflexivity. }
    rewrite Hr. cbn [fst snd ob started]. split; [eexists _, _, _, _, _, _, _; split; [reflexivity|exact HI]|split; [reflexivity|exact Ee]].
  - destruct (Mixed.resume 3 _ m) as [m' out] eqn:Er. pose proof (mx_resume_flags 3 _ m m' out Er Ee) as H.
    cbn [fst snd ob started].
    destruct out as [a| |e]; (split; [eexists _, _, _, _, _, _, _; split; [reflexivity|]|split; [reflexivity|]]).
    + destruct H as [_ H]. exact H.
    + destruct H as [H _]. split; [reflexivity|exact H].
    + intros E. rewrite H in E. discriminate.
    + exact H.
    + intros E. rewrite H in E. discriminate.
    + exact H.
Qed.
Lemma mx_sched_fin kk s : MxI s -> MxI (fst (Sched.finalize kk s)) /\ is_exhausted (fst (Sched.finalize kk s)) = is_exhausted s.
Proof. intros HI. rewrite offline_finalize; [auto|]. destruct HI as (n & sn & sg & tab & pl & m & fin & Ho & _). rewrite Ho. exact Logic.I. Qed.

Theorem mixed_flags_hist N s sg tab p ops o0 m ls : run_case (PMixed N s sg tab) p ops = Ok (o0, m, ls) ->
  o_exh o0 = false /\ o_run o0 = false /\ flags_hist is_endrev false ls.
Proof.
  apply (case_flags MxI is_endrev mx_sched_next mx_sched_fin).
  intros s0 Ec. cbn [Sched.construct] in Ec. destruct (Mixed.construct N s sg) as [c|e]; [|discriminate]. injection Ec as <-.
  split; [eexists _, _, _, _, _, _, _; split; [reflexivity|intros; discriminate]|split; reflexivity].
Qed.

(* ---- the Revolve family ---- *)
Definition noER (l : list action) : Prop := Forall (fun a => is_endrev a = false) l.
Lemma conv1_noER max_n ops i c c' l : conv1 max_n ops i c = Ok (c', l) -> noER l.
Proof.
  unfold conv1. intros H. destruct (nth_error ops i) as [o|]; [|discriminate].
  destruct (conv_n0_st o) as [[n0 sg]|e]; [|discriminate]. cbn [bind] in H.
  destruct o; unfold bind in H; brk H; try discriminate; try (injection H as <- <-; repeat constructor).
Qed.
Definition RvInv (s : rst) : Prop := (RevConv.exhausted s = true -> finished s = true) /\ noER (pend s).
Lemma advance_flags : forall f max_n s s' out, advance f max_n s = (s', out) -> RevConv.exhausted s = false ->
  RvInv s' /\ match out with Yield a => RevConv.exhausted s' = is_endrev a | _ => RevConv.exhausted s' = false end.
Proof.
  assert (Hfin : forall s, RevConv.exhausted s = false -> RvInv (fin s) /\ RevConv.exhausted (fin s) = false).
  { intros s He. unfold RvInv, fin. cbn [RevConv.exhausted finished pend]. split; [split; [intros _; reflexivity|constructor]|exact He]. }
  induction f as [|f IH]; intros max_n s s' out H He; cbn [advance] in H.
  - injection H as <- <-. apply Hfin, He.
  - destruct (Nat.ltb (idx s) (length (ops s))).
    + destruct (conv1 max_n (ops s) (idx s) (cs s)) as [[c' l]|e] eqn:Ec.
      * pose proof (conv1_noER _ _ _ _ _ _ Ec) as Hl. destruct l as [|a rest].
        -- apply IH in H; [exact H|reflexivity].
        -- injection H as <- <-. inversion Hl as [|? ? Ha Hrest]; subst. unfold RvInv. cbn [RevConv.exhausted finished pend].
           split; [split; [discriminate|exact Hrest]|symmetry; exact Ha].
      * injection H as <- <-. apply Hfin, He.
    + destruct (negb _); injection H as <- <-; [apply Hfin, He|].
      unfold RvInv. cbn [RevConv.exhausted finished pend is_endrev]. split; [split; [reflexivity|constructor]|reflexivity].
Qed.
Definition RvI (s : sched) : Prop := exists k n ram disk r, ob s = ORevF k n ram disk r /\ RvInv r.
Lemma rv_sched_next s : RvI s ->
  RvI (fst (Sched.next s)) /\ started (fst (Sched.next s)) = true /\
  match snd (Sched.next s) with
  | Yield a => is_exhausted s = false /\ is_exhausted (fst (Sched.next s)) = is_endrev a
  | _ => is_exhausted (fst (Sched.next s)) = is_exhausted s end.
Proof.
  intros (k & n & ram & disk & r & Ho & [HI1 HI2]). unfold Sched.next, is_exhausted. rewrite Ho. unfold RevConv.next.
  destruct (finished r) eqn:Ef.
  { cbn [fst snd ob started]. split; [eexists _, _, _, _, _; split; [reflexivity|split; [intros _; exact Ef|exact HI2]]|split; reflexivity]. }
  assert (He : RevConv.exhausted r = false) by (destruct (RevConv.exhausted r); [specialize (HI1 eq_refl); discriminate|reflexivity]).
  destruct (pend r) as [|a rest] eqn:Ep.
  - destruct (advance _ n r) as [r' out] eqn:Ea. destruct (advance_flags _ n r r' out Ea He) as [HI' Hout].
    cbn [fst snd ob started]. split; [eexists _, _, _, _, _; split; [reflexivity|exact HI']|]. split; [reflexivity|].
    destruct out; rewrite ?He; auto.
  - inversion HI2 as [|? ? Ha Hrest]; subst. cbn [fst snd ob started RevConv.exhausted].
    split; [eexists _, _, _, _, _; split; [reflexivity|split; cbn; [rewrite He; discriminate|exact Hrest]]|]. split; [reflexivity|].
    rewrite He, Ha. auto.
Qed.
Lemma rv_sched_fin kk s : RvI s -> RvI (fst (Sched.finalize kk s)) /\ is_exhausted (fst (Sched.finalize kk s)) = is_exhausted s.
Proof. intros HI. rewrite offline_finalize; [auto|]. destruct HI as (k & n & ram & disk & r & Ho & _). rewrite Ho. exact Logic.I. Qed.

Theorem revolve_flags_hist k N ram disk uf ub wd rd p ops o0 m ls : run_case (PRev k N ram disk uf ub wd rd) p ops = Ok (o0, m, ls) ->
  o_exh o0 = false /\ o_run o0 = false /\ flags_hist is_endrev false ls.
Proof.
  apply (case_flags RvI is_endrev rv_sched_next rv_sched_fin).
  intros s0 Ec. cbn [Sched.construct] in Ec. destruct (RevConv.construct k N ram disk uf ub wd rd) as [r|e] eqn:Er; [|discriminate]. injection Ec as <-.
  assert (Hr : exists o, r = init_r o).
  { unfold RevConv.construct in Er. destruct (sequence _ _ _ _ _ _ _ _); [|discriminate]. cbn [bind] in Er. brk Er; try discriminate; injection Er as <-; eexists; reflexivity. }
  destruct Hr as [o ->].
  split; [eexists _, _, _, _, _; split; [reflexivity|split; [intros; discriminate|constructor]]|split; reflexivity].
Qed.

(* ---- all thirteen classes ---- *)
Definition final_action (pr : params) (a : action) : bool :=
  match pr with
  | PNone => match a with EndForward => true | _ => false end
  | PMem | PDisk false | PTwo _ _ _ _ => false
  | PDisk true | PMulti _ _ _ _ | PMixed _ _ _ _ | PRev _ _ _ _ _ _ _ _ => is_endrev a
  end.
Theorem C09_flags pr p ops o0 m ls : run_case pr p ops = Ok (o0, m, ls) ->
  o_exh o0 = false /\ o_run o0 = false /\ flags_hist (final_action pr) false ls.
Proof.
  destruct pr as [| |mv|pp bs bst tr|N ram disk tj|N s sg tab|k N ram disk uf ub wd rd].
  - exact (online_flags KNone_ p ops o0 m ls).
  - exact (online_flags KMem p ops o0 m ls).
  - intros H. pose proof (online_flags (KDisk mv) p ops o0 m ls H) as H'. destruct mv; exact H'.
  - exact (online_flags (KTwo pp bs bst tr) p ops o0 m ls).
  - apply multistage_flags_hist.
  - apply mixed_flags_hist.
  - apply revolve_flags_hist.
Qed.
Print Assumptions C09_flags.
