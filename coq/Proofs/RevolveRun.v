(* RevolveCheckpointSchedule, class Revolve (memory only), end to end on the extracted model: for every max_n >= 1, every
   number of RAM units (>= 1 when max_n > 1), every cost vector and any number of requests, the monitored client meets no
   executor error with budgets RAM = snapshots_in_ram, DISK = 0 (C01 C02 C03 C04 C12 C18), n / r / max_n agree with the
   execution after every action (C08), and nothing raises (C17). *)
From Coq Require Import ZArith List Lia Bool.
Require Import Actions Ops RevSeq RevConv Exec Sched RunFacts RevBridge1 RevBridge4 RevBridge5 RevBridge6.
Import ListNotations.
Open Scope Z_scope.

Theorem revolve_run N ram disk uf ub wd rd k : 1 <= N -> 0 <= ram -> (2 <= N -> 1 <= ram) ->
  exists o0 m ls, run_case (PRev KRevolve N ram disk uf ub wd rd) (rev_xparams N ram) (repeat Next k) = Ok (o0, m, ls) /\ mon_ok m /\ no_raise ls.
Proof.
  intros HN Hram Hram1.
  destruct (revolve_top_total (N - 1) ram uf ub ltac:(lia) Hram ltac:(lia)) as [L HL].
  assert (Hg : exists L0, L = map inj L0 /\ RevBlk.Blk true 0 (N - 1) ram L0).
  { unfold revolve_top in HL. destruct (get_opt_0_table (N - 1) ram uf ub) as [t|]; [|discriminate]. cbn [bind] in HL.
    apply (revolve_grammar _ _ _ _ _ _ HL); lia. }
  destruct Hg as (L0 & -> & HB).
  apply (revolve_run_of_grammar N ram disk uf ub wd rd L0 k HN Hram Hram1 HB). exact HL.
Qed.
Print Assumptions revolve_run.

(* C05 / C07 for Revolve: once the schedule is exhausted the reference executor has carried out exactly N + P ram (N-1)
   forward steps, P the step-count dynamic programme (minimum over all first splits, Opt0Table.P); and the entry of the cost
   table for the whole problem is (l+1) ub + uf P ram l, so  uf * forward steps + ub * N = table optimum + N uf. *)
Require Import Opt0Table.
Require RevCost RevGen.
Theorem revolve_forward_total N ram disk uf ub wd rd k : 1 <= N -> 0 <= ram -> (2 <= N -> 1 <= ram) -> 0 < uf ->
  exists L, sequence KRevolve N ram disk uf ub wd rd = Ok L /\
  let '(s', m, ls) := run_ops (rev_xparams N ram) {| ob := ORevF KRevolve N ram disk (init_r L); started := false |} mon0 (repeat Next k) in
  mon_ok m /\ no_raise ls /\ (is_exhausted s' = true -> fwd_total (cnt (mx m)) = N + P ram (N - 1)).
Proof.
  intros HN Hram Hram1 Huf.
  destruct (revolve_top_total (N - 1) ram uf ub ltac:(lia) Hram ltac:(lia)) as [L HL].
  exists L. split; [exact HL|].
  unfold revolve_top in HL. destruct (get_opt_0_table (N - 1) ram uf ub) as [t|] eqn:Et; [|discriminate]. cbn [bind] in HL.
  destruct (revolve_g _ _ _ _ _ _ HL) as (L0 & HG & ->).
  assert (HB : RevBlk.Blk true 0 (N - 1) ram L0) by (apply (RevGen.revolve_blk _ _ _ _ _ _ HG); lia).
  pose proof (revolve_cfg_run N ram disk L0 k HN Hram Hram1 HB) as Hrun.
  destruct (run_ops (rev_xparams N ram) _ mon0 (repeat Next k)) as [[s' m'] ls]. destruct Hrun as (H1 & H2 & H3).
  split; [assumption|]. split; [assumption|]. intros He. rewrite (H3 He).
  rewrite (RevCost.revolve_work uf ub Huf t ram (N - 1) P) with (fuel := Z.to_nat (2 * (N - 1) + 4)) (l := N - 1) (cm := ram); try lia; try exact HG.
  - intros m l Hm Hl Hml. apply tget_g. apply (opt0_values uf ub ltac:(lia) (N - 1) ram t ltac:(lia) Et m l Hm Hl Hml).
  - intros m. apply P_0.
  - intros m _. apply P_1.
  - apply P_c1.
  - apply P_le.
  - apply P_ex.
Qed.
Theorem revolve_table_optimum N ram uf ub t : 1 <= N -> 1 <= ram -> 0 <= uf -> get_opt_0_table (N - 1) ram uf ub = Ok t ->
  tget t ram (N - 1) = Ok (N * ub + uf * P ram (N - 1)).
Proof.
  intros HN Hram Huf Et. rewrite (opt0_values uf ub Huf (N - 1) ram t ltac:(lia) Et ram (N - 1)) by lia. unfold val. f_equal. lia.
Qed.
Print Assumptions revolve_forward_total.

(* ... and that number is the Griewank-Walther optimum: the same TC N s that MultistageCheckpointSchedule spends (C05) *)
Require Import RevolveGW.
Require Inst BinomDP.
Lemma revolve_steps_gw tj N ram : 1 <= N -> 0 <= ram -> (2 <= N -> 1 <= ram) -> N + P ram (N - 1) = Inst.TC tj N ram.
Proof.
  intros HN Hram Hram1. destruct (Z.eq_dec N 1) as [->|HN1]; [rewrite P_0; reflexivity|].
  pose proof (P_eq_E (Z.to_nat (N - 1)) (Z.to_nat ram) ltac:(lia)) as HP. rewrite !Z2Nat.id in HP by lia.
  pose proof (TC_E tj (Z.to_nat N) (Z.to_nat ram) ltac:(lia) ltac:(lia)) as HT. rewrite !Z2Nat.id in HT by lia.
  replace (S (Z.to_nat (N - 1))) with (Z.to_nat N) in HP by lia. lia.
Qed.
Theorem revolve_forward_total_gw tj N ram disk uf ub wd rd k : 1 <= N -> 0 <= ram -> (2 <= N -> 1 <= ram) -> 0 < uf ->
  exists L, sequence KRevolve N ram disk uf ub wd rd = Ok L /\
  let '(s', m, ls) := run_ops (rev_xparams N ram) {| ob := ORevF KRevolve N ram disk (init_r L); started := false |} mon0 (repeat Next k) in
  mon_ok m /\ no_raise ls /\ (is_exhausted s' = true -> fwd_total (cnt (mx m)) = Inst.TC tj N ram).
Proof.
  intros HN Hram Hram1 Huf. destruct (revolve_forward_total N ram disk uf ub wd rd k HN Hram Hram1 Huf) as (L & HL & H).
  exists L. split; [exact HL|]. destruct (run_ops _ _ mon0 (repeat Next k)) as [[s' m'] ls]. destruct H as (H1 & H2 & H3).
  split; [assumption|]. split; [assumption|]. intros He. rewrite (H3 He). apply revolve_steps_gw; assumption.
Qed.
Print Assumptions revolve_forward_total_gw.

(* C02 / C09 / C17: the Revolve stream is complete -- there is a request count K after which the schedule is exhausted, having
   carried out exactly TC N s forward steps *)
Theorem revolve_terminates tj N ram disk uf ub wd rd : 1 <= N -> 0 <= ram -> (2 <= N -> 1 <= ram) -> 0 < uf ->
  exists L K, sequence KRevolve N ram disk uf ub wd rd = Ok L /\ forall k, (K <= k)%nat ->
  let '(s', m, ls) := run_ops (rev_xparams N ram) {| ob := ORevF KRevolve N ram disk (init_r L); started := false |} mon0 (repeat Next k) in
  mon_ok m /\ no_raise ls /\ is_exhausted s' = true /\ fwd_total (cnt (mx m)) = Inst.TC tj N ram.
Proof.
  intros HN Hram Hram1 Huf.
  destruct (revolve_top_total (N - 1) ram uf ub ltac:(lia) Hram ltac:(lia)) as [L HL].
  pose proof HL as HL'. unfold revolve_top in HL'. destruct (get_opt_0_table (N - 1) ram uf ub) as [t|] eqn:Et; [|discriminate]. cbn [bind] in HL'.
  destruct (revolve_g _ _ _ _ _ _ HL') as (L0 & HG & ->).
  assert (HB : RevBlk.Blk true 0 (N - 1) ram L0) by (apply (RevGen.revolve_blk _ _ _ _ _ _ HG); lia).
  exists (map inj L0), (2 * length L0 + 2)%nat. split; [exact HL|]. intros k Hk.
  pose proof (revolve_cfg_terminates N ram disk L0 k HN Hram Hram1 HB ltac:(lia)) as Hterm.
  destruct (revolve_forward_total_gw tj N ram disk uf ub wd rd k HN Hram Hram1 Huf) as (L' & HL2 & Hrun).
  change (sequence KRevolve N ram disk uf ub wd rd) with (revolve_top (N - 1) ram uf ub) in HL2. rewrite HL in HL2. injection HL2 as <-.
  destruct (run_ops (rev_xparams N ram) _ mon0 (repeat Next k)) as [[s' m'] ls]. cbn [fst] in Hterm. destruct Hrun as (H1 & H2 & H3).
  repeat split; auto.
Qed.
Print Assumptions revolve_terminates.
