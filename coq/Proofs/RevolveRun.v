(* RevolveCheckpointSchedule, class Revolve (memory only), end to end on the extracted model: for every max_n >= 1, every
   number of RAM units (>= 1 when max_n > 1), every cost vector and any number of requests, the monitored client meets no
   executor error with budgets RAM = snapshots_in_ram, DISK = 0 (C01 C02 C03 C04 C12 C18), n / r / max_n agree with the
   execution after every action (C08), and nothing raises (C17). *)
From Coq Require Import ZArith List Lia Bool.
Require Import Actions Ops RevSeq RevConv Exec Sched RunFacts RevBridge1 RevBridge4 RevBridge5 RevBridge6.
Import ListNotations.
Open Scope Z_scope.

Theorem revolve_run N ram disk uf ub wd rd k : 1 <= N -> 0 <= ram -> (2 <= N -> 1 <= ram) ->
  exists o0 m ls, run_case (PRev KRevolve N ram disk uf ub wd rd) (rev_xparams N ram) (repeat Next k) = Ok (o0, m, ls) /\ mon_ok m /\ no_raise ls.
Proof.
  intros HN Hram Hram1.
  destruct (revolve_top_total (N - 1) ram uf ub ltac:(lia) Hram ltac:(lia)) as [L HL].
  assert (Hg : exists L0, L = map inj L0 /\ RevBlk.Blk true 0 (N - 1) ram L0).
  { unfold revolve_top in HL. destruct (get_opt_0_table (N - 1) ram uf ub) as [t|]; [|discriminate]. cbn [bind] in HL.
    apply (revolve_grammar _ _ _ _ _ _ HL); lia. }
  destruct Hg as (L0 & -> & HB).
  apply (revolve_run_of_grammar N ram disk uf ub wd rd L0 k HN Hram Hram1 HB). exact HL.
Qed.
Print Assumptions revolve_run.
