(* C07 for HRevolve, part 1: what the extracted get_hopt_table (two levels, w0 = r0 = 0 as HRevolve calls it) contains.
   Level 0:  opt[0][l][m] = optp[0][l][m] = val m l, the memory-only optimum of Opt0Table (the extra "min with the one-slot
   value" of the code never wins: P m l <= P 1 l).
   Level 1:  optp[1][l][m] = Bv (Cm (m-1)) l,  opt[1][l][m] = Cm m l,  the H-Revolve recurrence
       B m l = min( val c0 l, min_j ( j uf + C (m-1) (l-j) + rd + B m (j-1) ) ),   C m l = min( val c0 l, wd + B m l ),  C 0 = val c0. *)
From Coq Require Import ZArith List Lia Bool.
Require Import Actions Ops HRevSeq Opt0Table DiskCost HRevTotal.
Import ListNotations.
Open Scope Z_scope.

(* ---- minima of finite costs ---- *)
Lemma cmin_fin x y : cmin (Fin x) (Fin y) = Fin (Z.min x y).
Proof. unfold cmin, clt. destruct (Z.ltb_spec y x); f_equal; lia. Qed.
Lemma fold_cmin_fin : forall zs x, fold_left cmin (map Fin zs) (Fin x) = Fin (fold_left Z.min zs x).
Proof. induction zs as [|z zs IH]; intros x; cbn [map fold_left]; [reflexivity|]. rewrite cmin_fin. apply IH. Qed.
Lemma cmin_list_fin zs d : zs <> [] -> cmin_list (map Fin zs) d = Fin (RevSeq.zmin_list zs 0).
Proof. destruct zs as [|z zs]; [congruence|]. intros _. unfold RevSeq.zmin_list. cbn [map cmin_list]. apply fold_cmin_fin. Qed.
Lemma zmin_app a b d : a <> [] -> b <> [] -> RevSeq.zmin_list (a ++ b) d = Z.min (RevSeq.zmin_list a d) (RevSeq.zmin_list b d).
Proof.
  intros Ha Hb. apply Z.le_antisymm.
  - apply Z.min_glb; apply zmin_list_le; apply in_or_app; [left|right]; apply zmin_list_in; assumption.
  - assert (Hab : a ++ b <> []) by (destruct a; [congruence|discriminate]).
    pose proof (zmin_list_in (a ++ b) d Hab) as Hin. apply in_app_or in Hin. destruct Hin as [H|H]; [pose proof (zmin_list_le a d _ H)|pose proof (zmin_list_le b d _ H)]; lia.
Qed.
Lemma zmin_cons x l d : l <> [] -> RevSeq.zmin_list (x :: l) d = Z.min x (RevSeq.zmin_list l d).
Proof. intros Hl. change (x :: l) with ([x] ++ l). rewrite zmin_app by (try discriminate; exact Hl). reflexivity. Qed.

Section SPEC.
Variable uf ub wd rd c0 : Z.
Notation val := (Opt0Table.val uf ub).

(* the H-Revolve recurrence at level 1 *)
Definition candH (Cp : Z -> Z) (B : Z -> Z) (l j : Z) : Z := j * uf + Cp (l - j) + rd + B (j - 1).
Fixpoint Bf (Cp : Z -> Z) (fuel : nat) (l : Z) : Z :=
  match fuel with O => 0 | S f =>
    if l <=? 0 then ub else if l =? 1 then uf + 2 * ub else
    Z.min (val c0 l) (RevSeq.zmin_list (map (candH Cp (Bf Cp f) l) (zrange 1 l)) 0) end.
Definition Bv (Cp : Z -> Z) (l : Z) : Z := Bf Cp (S (Z.to_nat l)) l.
Fixpoint Cm (m : nat) : Z -> Z := match m with O => val c0 | S m' => fun l => Z.min (val c0 l) (wd + Bv (Cm m') l) end.
Lemma Bf_fuel Cp : forall f f' l, (Z.to_nat l < f)%nat -> (Z.to_nat l < f')%nat -> Bf Cp f l = Bf Cp f' l.
Proof.
  induction f as [|f IH]; intros f' l H1 H2; [lia|]. destruct f' as [|f']; [lia|]. cbn [Bf].
  destruct (Z.leb_spec l 0); [reflexivity|]. destruct (Z.eqb_spec l 1); [reflexivity|]. f_equal. f_equal.
  apply map_ext_in. intros j Hj. apply in_zrange' in Hj. unfold candH. rewrite (IH f' (j - 1)) by lia. reflexivity.
Qed.
Lemma Bv_0 Cp : Bv Cp 0 = ub. Proof. reflexivity. Qed.
Lemma Bv_1 Cp : Bv Cp 1 = uf + 2 * ub. Proof. reflexivity. Qed.
Lemma Bv_unfold Cp l : 2 <= l -> Bv Cp l = Z.min (val c0 l) (RevSeq.zmin_list (map (candH Cp (Bv Cp) l) (zrange 1 l)) 0).
Proof.
  intros Hl. unfold Bv at 1. cbn [Bf]. destruct (Z.leb_spec l 0); [lia|]. destruct (Z.eqb_spec l 1); [lia|]. f_equal. f_equal.
  apply map_ext_in. intros j Hj. apply in_zrange' in Hj. unfold candH, Bv. rewrite (Bf_fuel Cp (Z.to_nat l) (S (Z.to_nat (j - 1))) (j - 1)) by lia. reflexivity.
Qed.
Lemma val_0 m : val m 0 = ub. Proof. unfold Opt0Table.val. rewrite P_0. lia. Qed.
Lemma val_1 m : val m 1 = uf + 2 * ub. Proof. unfold Opt0Table.val. rewrite P_1. lia. Qed.
Lemma Bv_le_val Cp l : 0 <= l -> Bv Cp l <= val c0 l.
Proof.
  intros Hl. destruct (Z.eq_dec l 0) as [->|]; [rewrite Bv_0, val_0; lia|]. destruct (Z.eq_dec l 1) as [->|]; [rewrite Bv_1, val_1; lia|].
  rewrite Bv_unfold by lia. lia.
Qed.
End SPEC.

(* ---- reading back what was written ---- *)
Lemma set_get t rows cols l m v : Dim t rows cols -> 0 <= l < rows -> 0 <= m < cols ->
  exists t', set t l m v = Ok t' /\ Dim t' rows cols /\ get t' l m = Ok v /\ (forall l' m', (l' <> l \/ m' <> m) -> get t' l' m' = get t l' m').
Proof.
  intros HD Hl Hm. destruct (set_ok t rows cols l m v HD Hl Hm) as (t' & Es & HD' & Ho). exists t'. split; [exact Es|]. split; [exact HD'|]. split; [|exact Ho].
  unfold set in Es. destruct (Z.ltb_spec l 0); [lia|]. destruct (Z.ltb_spec m 0); [lia|]. cbn [orb] in Es.
  destruct (nth_error t (Z.to_nat l)) as [row|] eqn:E; [|discriminate]. destruct (upd_list row (Z.to_nat m) v) as [row'|] eqn:Er; [|discriminate].
  destruct (upd_list t (Z.to_nat l) row') as [t''|] eqn:Et; [|discriminate]. injection Es as <-.
  unfold get. destruct (Z.ltb_spec l 0); [lia|]. destruct (Z.ltb_spec m 0); [lia|]. cbn [orb].
  rewrite (nth_upd_eq _ _ _ _ Et), (nth_upd_eq _ _ _ _ Er). reflexivity.
Qed.

(* loops with an invariant that grows with the index *)
Lemma for_inv_ix {St} (I : Z -> St -> Prop) (f : Z -> St -> res St) : forall cnt lo s,
  (forall i s0, lo <= i < lo + Z.of_nat cnt -> I i s0 -> exists s', f i s0 = Ok s' /\ I (i + 1) s') -> I lo s ->
  exists s', for_ lo cnt s f = Ok s' /\ I (lo + Z.of_nat cnt) s'.
Proof.
  induction cnt as [|cnt IH]; intros lo s Hf Hs; cbn [for_]; [exists s; split; [reflexivity|replace (lo + Z.of_nat 0) with lo by lia; exact Hs]|].
  destruct (Hf lo s ltac:(lia) Hs) as (s1 & -> & H1). cbn [bind].
  destruct (IH (lo + 1) s1 ltac:(intros i s0 Hi; apply Hf; lia) H1) as (s' & E & H'). exists s'. split; [exact E|].
  replace (lo + Z.of_nat (S cnt)) with (lo + 1 + Z.of_nat cnt) by lia. exact H'.
Qed.
Lemma range_inv_ix {St} (I : Z -> St -> Prop) (f : Z -> St -> res St) lo hi s : lo <= hi ->
  (forall i s0, lo <= i < hi -> I i s0 -> exists s', f i s0 = Ok s' /\ I (i + 1) s') -> I lo s ->
  exists s', range_for lo hi s f = Ok s' /\ I hi s'.
Proof.
  intros Hle Hf Hs. unfold range_for. destruct (for_inv_ix I f (Z.to_nat (hi - lo)) lo s ltac:(intros i s0 Hi; apply Hf; lia) Hs) as (s' & E & H').
  exists s'. split; [exact E|]. replace (lo + Z.of_nat (Z.to_nat (hi - lo))) with hi in H' by lia. exact H'.
Qed.

Section TABV.
Variable lmax c0 c1 uf ub wd rd : Z.
Hypothesis Hl : 0 <= lmax.
Hypothesis Hc0 : 1 <= c0.
Hypothesis Hc1 : 0 <= c1.
Hypothesis Huf : 0 <= uf.
Hypothesis Hwd : 0 <= wd.
Notation val := (Opt0Table.val uf ub).
Notation Cz := (fun m l => Cm uf ub wd rd c0 (Z.to_nat m) l).
Notation Bz := (fun m l => Bv uf ub rd c0 (Cm uf ub wd rd c0 (Z.to_nat (m - 1))) l).
Notation DInv := (HRevTotal.Inv lmax c0 c1).

Definition V0 (D : Z -> Z -> Prop) (T : tabs) : Prop :=
  forall l m, 0 <= l <= lmax -> 0 <= m <= c0 -> D l m -> get (opt0 T) l m = Ok (Fin (val m l)) /\ get (optp0 T) l m = Ok (Fin (val m l)).
Definition V1 (E F : Z -> Z -> Prop) (T : tabs) : Prop :=
  (forall l m, 0 <= l <= lmax -> 0 <= m <= c1 -> E l m -> get (opt1 T) l m = Ok (Fin (Cz m l))) /\
  (forall l m, 0 <= l <= lmax -> 0 <= m <= c1 -> F l m -> get (optp1 T) l m = Ok (Fin (Bz m l))).

(* one level-0 entry *)
Lemma step0 T D E F l m v v' : DInv T -> V0 D T -> V1 E F T -> 0 <= l <= lmax -> 0 <= m <= c0 -> v = val m l -> v' = val m l ->
  exists a b, set (opt0 T) l m (Fin v') = Ok a /\ set (optp0 T) l m (Fin v) = Ok b /\
    let T' := {| optp0 := b; opt0 := a; optp1 := optp1 T; opt1 := opt1 T |} in
    DInv T' /\ V0 (fun l' m' => D l' m' \/ (l' = l /\ m' = m)) T' /\ V1 E F T'.
Proof.
  intros (D1 & D2 & D3 & D4 & C) HV0 HV1 Hl' Hm' -> ->.
  destruct (set_get _ _ _ l m (Fin (val m l)) D2 ltac:(lia) ltac:(lia)) as (a & Ea & Da & Ga & Oa).
  destruct (set_get _ _ _ l m (Fin (val m l)) D1 ltac:(lia) ltac:(lia)) as (b & Eb & Db & Gb & Ob).
  exists a, b. split; [exact Ea|]. split; [exact Eb|]. cbn zeta. split; [|split].
  - unfold HRevTotal.Inv. cbn [optp0 opt0 optp1 opt1]. auto.
  - intros l' m' Hl'' Hm'' [HD|[-> ->]]; cbn [optp0 opt0].
    + destruct (Z.eq_dec l' l) as [->|]; [destruct (Z.eq_dec m' m) as [->|]|]; [split; assumption|rewrite Oa, Ob by lia; apply HV0; assumption|rewrite Oa, Ob by lia; apply HV0; assumption].
    + split; assumption.
  - exact HV1.
Qed.
(* one level-1 entry (both tables) *)
Lemma step1 T D E F l m vb vc : DInv T -> V0 D T -> V1 E F T -> 0 <= l <= lmax -> 0 <= m <= c1 -> (l < 2 \/ 1 <= m) -> vb = Bz m l -> vc = Cz m l ->
  exists a b, set (opt1 T) l m (Fin vc) = Ok a /\ set (optp1 T) l m (Fin vb) = Ok b /\
    let T' := {| optp0 := optp0 T; opt0 := opt0 T; optp1 := b; opt1 := a |} in
    DInv T' /\ V0 D T' /\ V1 (fun l' m' => E l' m' \/ (l' = l /\ m' = m)) (fun l' m' => F l' m' \/ (l' = l /\ m' = m)) T'.
Proof.
  intros (D1 & D2 & D3 & D4 & C) HV0 [HVc HVb] Hl' Hm' Hcol -> ->.
  destruct (set_get _ _ _ l m (Fin (Cz m l)) D4 ltac:(lia) ltac:(lia)) as (a & Ea & Da & Ga & Oa).
  destruct (set_get _ _ _ l m (Fin (Bz m l)) D3 ltac:(lia) ltac:(lia)) as (b & Eb & Db & Gb & Ob).
  exists a, b. split; [exact Ea|]. split; [exact Eb|]. cbn zeta. split; [|split; [exact HV0|split]].
  - unfold HRevTotal.Inv. cbn [optp0 opt0 optp1 opt1]. split; [exact D1|]. split; [exact D2|]. split; [exact Db|]. split; [exact Da|]. intros l' Hl''. rewrite Ob by lia. apply C. exact Hl''.
  - intros l' m' Hl'' Hm'' [HE|[-> ->]]; cbn [opt1]; [|exact Ga].
    destruct (Z.eq_dec l' l) as [->|]; [destruct (Z.eq_dec m' m) as [->|]|]; [exact Ga|rewrite Oa by lia; apply HVc; assumption|rewrite Oa by lia; apply HVc; assumption].
  - intros l' m' Hl'' Hm'' [HF|[-> ->]]; cbn [optp1]; [|exact Gb].
    destruct (Z.eq_dec l' l) as [->|]; [destruct (Z.eq_dec m' m) as [->|]|]; [exact Gb|rewrite Ob by lia; apply HVb; assumption|rewrite Ob by lia; apply HVb; assumption].
Qed.
(* opt[1] alone *)
Lemma step1a T D E F l m vc : DInv T -> V0 D T -> V1 E F T -> 0 <= l <= lmax -> 0 <= m <= c1 -> vc = Cz m l ->
  exists a, set (opt1 T) l m (Fin vc) = Ok a /\
    let T' := {| optp0 := optp0 T; opt0 := opt0 T; optp1 := optp1 T; opt1 := a |} in
    DInv T' /\ V0 D T' /\ V1 (fun l' m' => E l' m' \/ (l' = l /\ m' = m)) F T'.
Proof.
  intros (D1 & D2 & D3 & D4 & C) HV0 [HVc HVb] Hl' Hm' ->.
  destruct (set_get _ _ _ l m (Fin (Cz m l)) D4 ltac:(lia) ltac:(lia)) as (a & Ea & Da & Ga & Oa).
  exists a. split; [exact Ea|]. cbn zeta. split; [|split; [exact HV0|split; [|exact HVb]]].
  - unfold HRevTotal.Inv. cbn [optp0 opt0 optp1 opt1]. auto.
  - intros l' m' Hl'' Hm'' [HE|[-> ->]]; cbn [opt1]; [|exact Ga].
    destruct (Z.eq_dec l' l) as [->|]; [destruct (Z.eq_dec m' m) as [->|]|]; [exact Ga|rewrite Oa by lia; apply HVc; assumption|rewrite Oa by lia; apply HVc; assumption].
Qed.
(* weakening of the "done" sets *)
Lemma V0_weaken (D D' : Z -> Z -> Prop) T : V0 D T -> (forall l m, 0 <= l <= lmax -> 0 <= m <= c0 -> D' l m -> D l m) -> V0 D' T.
Proof. intros H Hi l m Hl' Hm' HD. apply H; auto. Qed.
Lemma V1_weaken (E F E' F' : Z -> Z -> Prop) T : V1 E F T ->
  (forall l m, 0 <= l <= lmax -> 0 <= m <= c1 -> E' l m -> E l m) -> (forall l m, 0 <= l <= lmax -> 0 <= m <= c1 -> F' l m -> F l m) -> V1 E' F' T.
Proof. intros [H1 H2] Hi1 Hi2. split; intros l m Hl' Hm' HD; [apply H1|apply H2]; auto. Qed.

Lemma range_inv_ix2 {St} (I : Z -> St -> Prop) (f : Z -> St -> res St) lo hi s :
  (forall i s0, lo <= i < hi -> I i s0 -> exists s', f i s0 = Ok s' /\ I (i + 1) s') -> I lo s ->
  exists s', range_for lo hi s f = Ok s' /\ I (Z.max lo hi) s'.
Proof.
  intros Hf Hs. destruct (Z.le_gt_cases lo hi) as [Hle|Hgt].
  - replace (Z.max lo hi) with hi by lia. apply range_inv_ix; assumption.
  - exists s. unfold range_for. replace (Z.to_nat (hi - lo)) with 0%nat by lia. split; [reflexivity|]. replace (Z.max lo hi) with lo by lia. exact Hs.
Qed.

(* the candidate lists, once the entries they read are final *)
Lemma map_res_fin (f : Z -> res HRevSeq.cost) (g : Z -> Z) l : (forall x, In x l -> f x = Ok (Fin (g x))) -> map_res f l = Ok (map Fin (map g l)).
Proof. intros H. rewrite map_map. apply Opt0Table.map_res_pure. exact H. Qed.
Lemma zrange_ne lo hi : lo < hi -> zrange lo hi <> [].
Proof. intros H. unfold zrange. destruct (Z.to_nat (hi - lo)) eqn:E; [lia|discriminate]. Qed.
Lemma map_ne {A B} (f : A -> B) l : l <> [] -> map f l <> [].
Proof. destruct l; [congruence|discriminate]. Qed.

(* level 0: the recurrence of the code gives val *)
Lemma val_rec m l : 2 <= m -> 2 <= l ->
  Z.min (RevSeq.zmin_list (map (fun j => j * uf + val (m - 1) (l - j) + 0 + val m (j - 1)) (zrange 1 l)) 0) (val 1 l) = val m l.
Proof.
  intros Hm Hl'. assert (Hne : zrange 1 l <> []) by (apply zrange_ne; lia).
  assert (E : map (fun j => j * uf + val (m - 1) (l - j) + 0 + val m (j - 1)) (zrange 1 l) =
              map (fun x => uf * x + (l + 1) * ub) (map (fun j => j + P (m - 1) (l - j) + P m (j - 1)) (zrange 1 l))).
  { rewrite map_map. apply map_ext. intros j. unfold Opt0Table.val. lia. }
  rewrite E, zmin_list_affine by (try exact Huf; apply map_ne; exact Hne). rewrite <- P_unfold by lia.
  pose proof (P_le_row1 m l ltac:(lia) ltac:(lia)). unfold Opt0Table.val. nia.
Qed.

Theorem hopt_values T : get_hopt_table lmax c0 c1 0 wd 0 rd ub uf = Ok T ->
  DInv T /\ V0 (fun l m => l = 0 \/ 1 <= m) T /\ V1 (fun _ _ => True) (fun l m => l <= 1 \/ 1 <= m) T.
Proof.
  unfold get_hopt_table.
  set (T0 := {| optp0 := mk lmax c0; opt0 := mk lmax c0; optp1 := mk lmax c1; opt1 := mk lmax c1 |}).
  assert (I0 : DInv T0).
  { unfold HRevTotal.Inv, T0. cbn [optp0 opt0 optp1 opt1]. repeat split; try (apply mk_dim; lia). intros l Hl'. apply mk_get; lia. }
  set (J := fun (D E F : Z -> Z -> Prop) (T : tabs) => DInv T /\ V0 D T /\ V1 E F T).
  assert (J0 : J (fun _ _ => False) (fun _ _ => False) (fun _ _ => False) T0) by (split; [exact I0|split; [intros l m _ _ []|split; intros l m _ _ []]]).
  Ltac stagev I H := match goal with |- (do T1 <- range_for ?lo ?hi ?s ?f; _) = Ok _ -> _ =>
    let T1 := fresh "T" in let E := fresh "E" in let I1 := fresh "I" in
    destruct (range_inv_ix2 I f lo hi s) as (T1 & E & I1); [| |rewrite E; cbn [bind]; clear E] end.
  (* S1: row 0, level 0 *)
  stagev (fun i => J (fun l m => l = 0 /\ m < i) (fun _ _ => False) (fun _ _ => False)) J0.
  2:{ split; [exact I0|]. split; [intros l m _ Hm' [_ ?]; lia|split; intros l m _ _ []]. }
  { intros m T1 Hm (HI & H0 & H1). destruct (step0 T1 _ _ _ 0 m ub ub HI H0 H1 ltac:(lia) ltac:(lia) ltac:(rewrite val_0; reflexivity) ltac:(rewrite val_0; reflexivity)) as (a & b & -> & -> & HI' & H0' & H1').
    cbn [bind]. eexists; split; [reflexivity|]. split; [exact HI'|]. split; [|exact H1']. eapply V0_weaken; [exact H0'|]. intros l' m' _ _ [-> Hm']. destruct (Z.eq_dec m' m); [right; auto|left; split; [reflexivity|lia]]. }
  (* S2: row 1, level 0 *)
  stagev (fun i => J (fun l m => l = 0 \/ (l = 1 /\ 1 <= m < i)) (fun _ _ => False) (fun _ _ => False)) I.
  2:{ destruct I as (A & B & C). split; [exact A|]. split; [|exact C]. eapply V0_weaken; [exact B|]. intros l' m' _ Hm' [->|[_ ?]]; [split; [reflexivity|lia]|lia]. }
  { intros m T2 Hm (HI & H0 & H1). destruct (Z.eqb_spec m 0) as [->|Hm0]; cbn [orb].
    { eexists; split; [reflexivity|]. split; [exact HI|]. split; [|exact H1]. eapply V0_weaken; [exact H0|]. intros l' m' _ _ [->|[-> ?]]; [left; reflexivity|right; split; [reflexivity|lia]]. }
    destruct (Z.ltb_spec lmax 1).
    { eexists; split; [reflexivity|]. split; [exact HI|]. split; [|exact H1]. intros l' m' Hl' Hm' [->|[-> _]]; [apply H0; auto|lia]. }
    cbn zeta. destruct (step0 T2 _ _ _ 1 m (uf + 2 * ub + 0) (0 + (uf + 2 * ub + 0)) HI H0 H1 ltac:(lia) ltac:(lia) ltac:(rewrite val_1; lia) ltac:(rewrite val_1; lia)) as (a & b & Ea & Eb & HI' & H0' & H1').
    rewrite Eb. cbn [bind cadd]. rewrite Ea. cbn [bind]. eexists; split; [reflexivity|]. split; [exact HI'|]. split; [|exact H1'].
    eapply V0_weaken; [exact H0'|]. intros l' m' _ _ [->|[-> ?]]; [left; left; reflexivity|]. destruct (Z.eq_dec m' m); [right; auto|left; right; split; [reflexivity|lia]]. }
  (* S3: row 0, level 1 *)
  stagev (fun i => J (fun l m => l = 0 \/ (l = 1 /\ 1 <= m)) (fun l m => l = 0 /\ m < i) (fun l m => l = 0 /\ m < i)) I1.
  2:{ destruct I1 as (A & B & C). split; [exact A|]. split; [|split; intros l m _ Hm0 [_ ?]; lia]. eapply V0_weaken; [exact B|]. intros l' m' _ Hm' [->|[-> ?]]; [left; reflexivity|right; split; [reflexivity|lia]]. }
  { intros m T3 Hm (HI & H0 & H1).
    destruct (step1 T3 _ _ _ 0 m ub ub HI H0 H1 ltac:(lia) ltac:(lia) ltac:(lia)) as (a & b & -> & -> & HI' & H0' & H1').
    { rewrite Bv_0. reflexivity. }
    { destruct (Z.to_nat m) eqn:Em; cbn [Cm]; [rewrite val_0; reflexivity|]. rewrite Bv_0, val_0. lia. }
    cbn [bind]. eexists; split; [reflexivity|]. split; [exact HI'|]. split; [exact H0'|]. eapply V1_weaken; [exact H1'| |];
      intros l' m' _ _ [-> Hm']; (destruct (Z.eq_dec m' m); [right; auto|left; split; [reflexivity|lia]]). }
  (* S4: row 1, level 1 *)
  stagev (fun i => J (fun l m => l = 0 \/ (l = 1 /\ 1 <= m)) (fun l m => l = 0 \/ (l = 1 /\ m < i)) (fun l m => l = 0 \/ (l = 1 /\ m < i))) I2.
  2:{ destruct I2 as (A & B & C). split; [exact A|]. split; [exact B|]. eapply V1_weaken; [exact C| |]; intros l' m' _ Hm' [->|[_ ?]]; try lia. }
  { intros m T4 Hm (HI & H0 & H1). destruct (Z.ltb_spec lmax 1).
    { eexists; split; [reflexivity|]. split; [exact HI|]. split; [exact H0|]. destruct H1 as [H1a H1b]. split; intros l' m' Hl' Hm' [->|[-> _]]; try lia; [apply H1a|apply H1b]; auto. }
    cbn zeta. destruct (step1 T4 _ _ _ 1 m (uf + 2 * ub + 0) (0 + (uf + 2 * ub + 0)) HI H0 H1 ltac:(lia) ltac:(lia) ltac:(lia)) as (a & b & Ea & Eb & HI' & H0' & H1').
    { rewrite Bv_1. lia. }
    { destruct (Z.to_nat m) eqn:Em; cbn [Cm]; [rewrite val_1; lia|]. rewrite Bv_1, val_1. lia. }
    rewrite Eb. cbn [bind cadd]. rewrite Ea. cbn [bind]. eexists; split; [reflexivity|]. split; [exact HI'|]. split; [exact H0'|].
    eapply V1_weaken; [exact H1'| |]; intros l' m' _ _ [->|[-> ?]]; try (left; left; reflexivity); (destruct (Z.eq_dec m' m); [right; auto|left; right; split; [reflexivity|lia]]). }
  (* S5: one slot *)
  stagev (fun i => J (fun l m => l = 0 \/ (l = 1 /\ 1 <= m) \/ (m = 1 /\ 2 <= l < i)) (fun l m => l <= 1) (fun l m => l <= 1)) I3.
  2:{ destruct I3 as (A & B & C). split; [exact A|]. split; [|eapply V1_weaken; [exact C| |]; intros l' m' Hl' Hm' ?; assert (l' = 0 \/ l' = 1) as [->| ->] by lia; [left; reflexivity|right; split; [reflexivity|lia]|left; reflexivity|right; split; [reflexivity|lia]]].
      eapply V0_weaken; [exact B|]. intros l' m' _ _ [->|[?|[_ ?]]]; [left; reflexivity|right; exact H|lia]. }
  { intros l T5 Hl' (HI & H0 & H1). cbn zeta.
    assert (Ev : (l + 1) * ub + l * (l + 1) / 2 * uf + l * 0 = val 1 l) by (unfold Opt0Table.val; rewrite (P_row1 1 l) by lia; lia).
    destruct (step0 T5 _ _ _ l 1 _ (0 + ((l + 1) * ub + l * (l + 1) / 2 * uf + l * 0)) HI H0 H1 ltac:(lia) ltac:(lia) Ev ltac:(lia)) as (a & b & Ea & Eb & HI' & H0' & H1').
    rewrite Eb. cbn [bind cadd]. rewrite Ea. cbn [bind]. eexists; split; [reflexivity|]. split; [exact HI'|]. split; [|exact H1'].
    eapply V0_weaken; [exact H0'|]. intros l' m' _ _ [->|[?|[-> ?]]]; [left; left; reflexivity|left; right; left; exact H|]. destruct (Z.eq_dec l' l); [right; auto|left; right; right; split; [reflexivity|lia]]. }
  (* S6: the other level-0 columns *)
  stagev (fun mo => J (fun l m => l = 0 \/ (l = 1 /\ 1 <= m) \/ (1 <= m < mo /\ 2 <= l)) (fun l m => l <= 1) (fun l m => l <= 1)) I4.
  2:{ destruct I4 as (A & B & C). split; [exact A|]. split; [|exact C]. eapply V0_weaken; [exact B|]. intros l' m' Hl' _ [->|[?|[? ?]]]; [left; reflexivity|right; left; exact H|right; right; split; [lia|lia]]. }
  { intros m T6 Hm (HI & H0 & H1).
    destruct (range_inv_ix2 (fun li => J (fun l' m' => (l' = 0 \/ (l' = 1 /\ 1 <= m') \/ (1 <= m' < m /\ 2 <= l')) \/ (m' = m /\ 2 <= l' < li)) (fun l m => l <= 1) (fun l m => l <= 1))
                (fun l T => do cands <- map_res (fun j => do x <- get (opt0 T) (l - j) (m - 1); do y <- get (optp0 T) (j - 1) m; Ok (cadd (cadd (cadd (Fin (j * uf)) x) (Fin 0)) y)) (zrange 1 l);
                            do last <- get (optp0 T) l 1; let v := cmin_list (cands ++ [last]) Inf in
                            do b <- set (optp0 T) l m v; do a <- set (opt0 T) l m (cadd (Fin 0) v); Ok {| optp0 := b; opt0 := a; optp1 := optp1 T; opt1 := opt1 T |}) 2 (lmax + 1) T6) as (T6' & E6 & I6).
    - intros l T7 Hl' (HI7 & H07 & H17).
      rewrite (map_res_fin _ (fun j => j * uf + val (m - 1) (l - j) + 0 + val m (j - 1))).
      2:{ intros j Hj. apply in_zrange' in Hj.
          rewrite (proj1 (H07 (l - j) (m - 1) ltac:(lia) ltac:(lia) ltac:(left; destruct (Z.eq_dec (l - j) 1); [right; left; lia|right; right; lia]))). cbn [bind].
          rewrite (proj2 (H07 (j - 1) m ltac:(lia) ltac:(lia) ltac:(destruct (Z.eq_dec (j - 1) 0); [left; left; lia|destruct (Z.eq_dec (j - 1) 1); [left; right; left; lia|right; lia]]))). cbn [bind cadd]. reflexivity. }
      cbn [bind]. rewrite (proj2 (H07 l 1 ltac:(lia) ltac:(lia) ltac:(left; right; right; lia))). cbn [bind]. cbn zeta.
      assert (Ev : cmin_list (map Fin (map (fun j => j * uf + val (m - 1) (l - j) + 0 + val m (j - 1)) (zrange 1 l)) ++ [Fin (val 1 l)]) Inf = Fin (val m l)).
      { change [Fin (val 1 l)] with (map Fin [val 1 l]). rewrite <- map_app, cmin_list_fin by (destruct (map _ (zrange 1 l)); discriminate).
        rewrite zmin_app by (try discriminate; apply map_ne, zrange_ne; lia). cbn [RevSeq.zmin_list fold_left]. rewrite val_rec by lia. reflexivity. }
      rewrite Ev. cbn [cadd].
      destruct (step0 T7 _ _ _ l m (val m l) (0 + val m l) HI7 H07 H17 ltac:(lia) ltac:(lia) eq_refl ltac:(lia)) as (a & b & Ea & Eb & HI' & H0' & H1').
      rewrite Eb. cbn [bind]. rewrite Ea. cbn [bind]. eexists; split; [reflexivity|]. split; [exact HI'|]. split; [|exact H1'].
      eapply V0_weaken; [exact H0'|]. intros l' m' _ _ [?|[-> ?]]; [left; left; exact H|]. destruct (Z.eq_dec l' l); [right; auto|left; right; split; [reflexivity|lia]].
    - split; [exact HI|]. split; [|exact H1]. eapply V0_weaken; [exact H0|]. intros l' m' _ _ [?|[_ ?]]; [exact H|lia].
    - exists T6'. split; [exact E6|]. destruct I6 as (A & B & C). split; [exact A|]. split; [|exact C]. eapply V0_weaken; [exact B|].
      intros l' m' Hl' _ [->|[?|[? ?]]]; [left; left; reflexivity|left; right; left; exact H|]. destruct (Z.eq_dec m' m); [right; split; [assumption|lia]|left; right; right; lia]. }
  (* S7: level 1 without a disk slot *)
  stagev (fun i => J (fun l m => l = 0 \/ (l = 1 /\ 1 <= m) \/ (1 <= m < Z.max 2 (c0 + 1) /\ 2 <= l)) (fun l m => l <= 1 \/ (m = 0 /\ l < i)) (fun l m => l <= 1)) I5.
  2:{ destruct I5 as (A & B & C). split; [exact A|]. split; [exact B|]. eapply V1_weaken; [exact C| |]; intros l' m' _ _ ?; [destruct H as [?|[_ ?]]; lia|exact H]. }
  { intros l T8 Hl' (HI & H0 & H1).
    rewrite (proj1 (H0 l c0 ltac:(lia) ltac:(lia) ltac:(right; right; lia))). cbn [bind].
    destruct (step1a T8 _ _ _ l 0 (val c0 l) HI H0 H1 ltac:(lia) ltac:(lia) eq_refl) as (a & -> & HI' & H0' & H1'). cbn [bind].
    eexists; split; [reflexivity|]. split; [exact HI'|]. split; [exact H0'|]. eapply V1_weaken; [exact H1'| |]; [|intros; assumption].
    intros l' m' _ _ [?|[-> ?]]; [left; left; exact H|]. destruct (Z.eq_dec l' l); [right; auto|left; right; split; [reflexivity|lia]]. }
  (* S8: level 1 *)
  intros Hfin.
  match type of Hfin with range_for _ _ ?s ?f = _ =>
    destruct (range_inv_ix2 (fun mo => J (fun l m => l = 0 \/ (l = 1 /\ 1 <= m) \/ (1 <= m < Z.max 2 (c0 + 1) /\ 2 <= l)) (fun l m => l <= 1 \/ m < mo) (fun l m => l <= 1 \/ 1 <= m < mo)) f 1 (c1 + 1) s) as (T9 & E9 & I9); [| |rewrite E9 in Hfin; injection Hfin as <-] end.
  - intros m T' Hm (HI & H0 & H1).
    match goal with |- exists s', range_for _ _ _ ?f = _ /\ _ =>
      destruct (range_inv_ix2 (fun li => J (fun l m => l = 0 \/ (l = 1 /\ 1 <= m) \/ (1 <= m < Z.max 2 (c0 + 1) /\ 2 <= l)) (fun l' m' => (l' <= 1 \/ m' < m) \/ (m' = m /\ l' < li)) (fun l' m' => (l' <= 1 \/ 1 <= m' < m) \/ (m' = m /\ l' < li))) f 1 (lmax + 1) T') as (Tn & En & In) end.
    + intros l T'' Hl' (HI2 & H02 & H12). destruct H12 as [H1c H1b].
      rewrite (proj1 (H02 l c0 ltac:(lia) ltac:(lia) ltac:(destruct (Z.eq_dec l 1); [right; left; lia|right; right; lia]))). cbn [bind].
      rewrite (map_res_fin _ (candH uf rd (Cm uf ub wd rd c0 (Z.to_nat (m - 1))) (Bv uf ub rd c0 (Cm uf ub wd rd c0 (Z.to_nat (m - 1)))) l)).
      2:{ intros j Hj. apply in_zrange' in Hj.
          rewrite (H1c (l - j) (m - 1) ltac:(lia) ltac:(lia) ltac:(left; right; lia)). cbn [bind].
          rewrite (H1b (j - 1) m ltac:(lia) ltac:(lia) ltac:(destruct (Z.le_gt_cases (j - 1) 1); [left; left; assumption|right; lia])). cbn [bind cadd]. reflexivity. }
      cbn [bind]. cbn zeta.
      assert (Evb : cmin_list (Fin (val c0 l) :: map Fin (map (candH uf rd (Cm uf ub wd rd c0 (Z.to_nat (m - 1))) (Bv uf ub rd c0 (Cm uf ub wd rd c0 (Z.to_nat (m - 1)))) l) (zrange 1 l))) Inf = Fin (Bz m l)).
      { change (Fin (val c0 l) :: map Fin ?x) with (map Fin (val c0 l :: x)). rewrite cmin_list_fin by discriminate.
        destruct (Z.eq_dec l 1) as [->|Hl1].
        - replace (zrange 1 1) with (@nil Z) by reflexivity. cbn [map RevSeq.zmin_list fold_left]. rewrite Bv_1, val_1. reflexivity.
        - rewrite zmin_cons by (apply map_ne, zrange_ne; lia). rewrite <- Bv_unfold by lia. reflexivity. }
      rewrite Evb. cbn [cadd cmin]. rewrite cmin_fin.
      destruct (step1 T'' _ _ _ l m (Bz m l) (Z.min (val c0 l) (wd + Bz m l)) HI2 H02 (conj H1c H1b) ltac:(lia) ltac:(lia) ltac:(lia) eq_refl) as (a & b & Ea & Eb & HI' & H0' & H1').
      { replace (Z.to_nat m) with (S (Z.to_nat (m - 1))) by lia. reflexivity. }
      rewrite Eb. cbn [bind]. rewrite Ea. cbn [bind]. eexists; split; [reflexivity|]. split; [exact HI'|]. split; [exact H0'|].
      eapply V1_weaken; [exact H1'| |]; intros l' m' _ _ [?|[-> ?]]; try (left; left; exact H); (destruct (Z.eq_dec l' l); [right; auto|left; right; split; [reflexivity|lia]]).
    + split; [exact HI|]. split; [exact H0|]. eapply V1_weaken; [exact H1| |]; intros l' m' _ _ [?|[_ ?]]; try exact H; lia.
    + exists Tn. split; [exact En|]. destruct In as (A & B & C). split; [exact A|]. split; [exact B|].
      eapply V1_weaken; [exact C| |]; intros l' m' Hl' _ [?|?]; try (left; left; assumption);
        (destruct (Z.eq_dec m' m); [right; split; [assumption|lia]|left; right; lia]).
  - destruct I6 as (A & B & C). split; [exact A|]. split; [exact B|]. eapply V1_weaken; [exact C| |]; intros l' m' Hl' Hm' [?|?]; try (left; assumption); try lia.
  - destruct I9 as (A & B & C). split; [exact A|]. split; [|].
    + eapply V0_weaken; [exact B|]. intros l' m' Hl' Hm' [->|?]; [left; reflexivity|]. destruct (Z.eq_dec l' 0); [left; assumption|]. destruct (Z.eq_dec l' 1); [right; left; lia|right; right; lia].
    + eapply V1_weaken; [exact C| |]; intros l' m' Hl' Hm' ?; [right; lia|destruct H; [left; assumption|right; lia]].
Qed.
End TABV.
Print Assumptions hopt_values.
