(* C09 for the four online classes, over every history of next() / finalize(k) / run requests:
   is_running is True from the first request on; is_exhausted is True exactly when the class's final action has been
   yielded (EndForward for NoneCheckpointSchedule, EndReverse for SingleDiskStorageSchedule(move_data=True); the multi-pass
   classes never exhaust), and no action follows the final one. *)
From Coq Require Import ZArith List Bool Lia.
Require Import Actions NAdvance Multistage Online Exec Sched.
Import ListNotations.
Open Scope Z_scope.

Definition fin_of (kl : kls) (a : action) : bool :=
  match kl, a with KNone_, EndForward => true | KDisk true, EndReverse => true | _, _ => false end.

Ltac brk H := repeat match type of H with
  | context [match ?x with _ => _ end] => let E := fresh "E" in destruct x eqn:E
  | context [if ?x then _ else _] => let E := fresh "E" in destruct x eqn:E
  end.

Lemma resume_flags : forall f s s' out, Online.resume f s = (s', out) -> exh s = false ->
  k s' = k s /\ match out with
                | Yield a => Online.is_exhausted s' = fin_of (k s) a /\ (exh s' = true -> pcv s' = PFinished)
                | _ => exh s' = false end.
Proof.
  induction f as [|f IH]; intros s s' out H He; cbn [Online.resume] in H.
  - injection H as <- <-. auto.
  - destruct s as [kl q bb sn e]. cbn [exh] in He. subst e. cbn [k pcv b snaps exh] in H.
    destruct kl as [| |mv|p bs bst tr]; destruct q; cbn [n_ r_ max_n_] in H; brk H;
      try (injection H as <- <-; unfold Online.is_exhausted, set_pc, upd; cbn [k pcv b snaps exh fin_of]; repeat split; auto; try discriminate; try (destruct mv; reflexivity); fail);
      try (apply IH in H; [|reflexivity]; unfold set_pc, upd in H; cbn [k pcv b snaps exh] in H; exact H).
Qed.

Lemma resume_finished f s : pcv s = PFinished -> Online.resume (S f) s = (s, StopIteration).
Proof. intros H. cbn [Online.resume]. rewrite H. destruct (k s); reflexivity. Qed.

Definition FInv (s : Online.st) : Prop := exh s = true -> pcv s = PFinished.

Lemma next_flags s s' out : Online.next s = (s', out) -> FInv s ->
  k s' = k s /\ FInv s' /\
  match out with
  | Yield a => exh s = false /\ Online.is_exhausted s' = fin_of (k s) a
  | StopIteration | Raise _ => Online.is_exhausted s' = Online.is_exhausted s end.
Proof.
  unfold Online.next. intros H HI.
  destruct (exh s) eqn:Ee.
  - rewrite (resume_finished 3 s (HI Ee)) in H. injection H as <- <-. unfold set_pc. cbn [k exh pcv]. repeat split; auto.
  - destruct (Online.resume 4 s) as [s1 o] eqn:Er. destruct (resume_flags 4 s s1 o Er Ee) as [Hk Ho].
    destruct o as [a| |e]; injection H as <- <-.
    + destruct Ho as [H1 H2]. repeat split; auto.
    + unfold set_pc, FInv, Online.is_exhausted. cbn [k exh pcv]. rewrite Hk, Ho, Ee. repeat split; auto; try (destruct (k s); reflexivity).
    + unfold set_pc, FInv, Online.is_exhausted. cbn [k exh pcv]. rewrite Hk, Ho, Ee. repeat split; auto; try (destruct (k s); reflexivity).
Qed.

(* the rule a trace must follow, given whether the final action has been seen so far *)
Fixpoint flags_hist (fa : action -> bool) (seen : bool) (ls : list line) : Prop :=
  match ls with [] => True
  | LNext (Yield a) ob :: rest => seen = false /\ o_run ob = true /\ o_exh ob = fa a /\ flags_hist fa (fa a) rest
  | LNext _ ob :: rest => o_run ob = true /\ o_exh ob = seen /\ flags_hist fa seen rest
  | LFin _ ob :: rest => o_exh ob = seen /\ flags_hist fa seen rest
  end.

(* what a trace leaves: has the final action been seen *)
Fixpoint seen_after (fa : action -> bool) (seen : bool) (ls : list line) : bool :=
  match ls with [] => seen | LNext (Yield a) _ :: rest => seen_after fa (fa a) rest | _ :: rest => seen_after fa seen rest end.
Lemma flags_hist_app fa : forall l1 seen l2, flags_hist fa seen l1 -> flags_hist fa (seen_after fa seen l1) l2 -> flags_hist fa seen (l1 ++ l2).
Proof.
  induction l1 as [|l l1 IH]; intros seen l2 H1 H2; [exact H2|].
  cbn [app]. destruct l as [o ob|e ob]; [destruct o as [a| |e]|]; cbn [flags_hist seen_after] in *.
  - destruct H1 as (A & B & C & D). repeat split; auto.
  - destruct H1 as (A & B & C). repeat split; auto.
  - destruct H1 as (A & B & C). repeat split; auto.
  - destruct H1 as (A & B). split; auto.
Qed.

(* generic lift: a per-class invariant with the one-step flag facts gives the rule on every history *)
Section GEN.
Variable I : sched -> Prop.
Variable fa : action -> bool.
Hypothesis Hnext : forall s, I s ->
  I (fst (Sched.next s)) /\ started (fst (Sched.next s)) = true /\
  match snd (Sched.next s) with
  | Yield a => is_exhausted s = false /\ is_exhausted (fst (Sched.next s)) = fa a
  | _ => is_exhausted (fst (Sched.next s)) = is_exhausted s end.
Hypothesis Hfin : forall kk s, I s -> I (fst (Sched.finalize kk s)) /\ is_exhausted (fst (Sched.finalize kk s)) = is_exhausted s.

Lemma loop_flags p : forall limit kk s m, I s ->
  let '(s', _, ls) := run_loop p limit kk s m in
  I s' /\ flags_hist fa (is_exhausted s) ls /\ is_exhausted s' = seen_after fa (is_exhausted s) ls.
Proof.
  induction limit as [|l IH]; intros kk s m HI; cbn [run_loop]; [repeat split; auto|].
  destruct (Hnext s HI) as (HI' & Hst & Hout).
  destruct (Sched.next s) as [s' o]. cbn [fst snd] in *.
  destruct o as [a| |e].
  - destruct Hout as [He He'].
    destruct (_ <=? 0).
    + cbn [flags_hist seen_after observe o_run o_exh is_running]. rewrite He'. repeat split; auto.
    + specialize (IH (match a with EndReverse => kk - 1 | _ => kk end) s' (mon_step p s' a m) HI').
      destruct (run_loop p l _ s' (mon_step p s' a m)) as [[s2 m2] ls]. destruct IH as (A & B & C).
      cbn [flags_hist seen_after observe o_run o_exh is_running]. rewrite He' in *. repeat split; auto.
  - cbn [flags_hist seen_after observe o_run o_exh is_running]. repeat split; auto.
  - cbn [flags_hist seen_after observe o_run o_exh is_running]. repeat split; auto.
Qed.

Lemma seen_after_app : forall l1 seen l2, seen_after fa seen (l1 ++ l2) = seen_after fa (seen_after fa seen l1) l2.
Proof. induction l1 as [|l l1 IH]; intros seen l2; [reflexivity|]. cbn [app seen_after]. destruct l as [o ob|e ob]; [destruct o|]; apply IH. Qed.
Lemma ops_flags_full p : forall ops s m, I s ->
  let '(s', _, ls) := run_ops p s m ops in flags_hist fa (is_exhausted s) ls /\ is_exhausted s' = seen_after fa (is_exhausted s) ls.
Proof.
  induction ops as [|op ops IH]; intros s m HI; cbn [run_ops]; [split; [exact Logic.I|reflexivity]|].
  destruct op as [|kk|kk limit].
  - destruct (Hnext s HI) as (HI' & Hst & Hout).
    destruct (Sched.next s) as [s' o]. cbn [fst snd] in *.
    specialize (IH s' (match o with Yield a => mon_step p s' a m | _ => m end) HI').
    destruct (run_ops p s' _ ops) as [[s2 m2] ls]. destruct IH as [IH1 IH2].
    destruct o as [a| |e]; cbn [flags_hist seen_after observe o_run o_exh is_running].
    + destruct Hout as [He He']. rewrite He' in *. repeat split; auto.
    + rewrite Hout in *. repeat split; auto.
    + rewrite Hout in *. repeat split; auto.
  - destruct (Hfin kk s HI) as (HI' & He).
    destruct (Sched.finalize kk s) as [s' e]. cbn [fst] in *.
    specialize (IH s' m HI'). destruct (run_ops p s' m ops) as [[s2 m2] ls]. destruct IH as [IH1 IH2].
    cbn [flags_hist seen_after observe o_exh]. rewrite He in *. repeat split; auto.
  - pose proof (loop_flags p limit kk s m HI) as HL.
    destruct (run_loop p limit kk s m) as [[s' m'] l1]. destruct HL as (HI' & H1 & H2).
    specialize (IH s' m' HI'). destruct (run_ops p s' m' ops) as [[s2 m2] ls]. destruct IH as [IH1 IH2].
    split; [apply flags_hist_app; [exact H1|]; rewrite <- H2; exact IH1|].
    rewrite seen_after_app, <- H2. exact IH2.
Qed.
Lemma ops_flags p ops s m : I s -> let '(_, _, ls) := run_ops p s m ops in flags_hist fa (is_exhausted s) ls.
Proof. intros HI. pose proof (ops_flags_full p ops s m HI) as H. destruct (run_ops p s m ops) as [[s' m'] ls]. exact (proj1 H). Qed.
Lemma seen_after_witness : forall ls, seen_after fa false ls = true -> exists a ob, In (LNext (Yield a) ob) ls /\ fa a = true.
Proof.
  induction ls as [|l ls IH]; cbn [seen_after]; [discriminate|].
  assert (Hgen : forall seen ls', seen_after fa seen ls' = true -> seen = true \/ exists a ob, In (LNext (Yield a) ob) ls' /\ fa a = true).
  { intros seen ls'. revert seen. induction ls' as [|l' ls' IH']; intros seen H; cbn [seen_after] in H; [left; exact H|].
    destruct l' as [o ob|e ob]; [destruct o as [a| |e]|].
    - destruct (IH' _ H) as [E|(a' & ob' & Hin & Hfa)]; [right; exists a, ob; split; [left; reflexivity|exact E]|right; exists a', ob'; split; [right; exact Hin|exact Hfa]].
    - destruct (IH' _ H) as [E|(a' & ob' & Hin & Hfa)]; [left; exact E|right; exists a', ob'; split; [right; exact Hin|exact Hfa]].
    - destruct (IH' _ H) as [E|(a' & ob' & Hin & Hfa)]; [left; exact E|right; exists a', ob'; split; [right; exact Hin|exact Hfa]].
    - destruct (IH' _ H) as [E|(a' & ob' & Hin & Hfa)]; [left; exact E|right; exists a', ob'; split; [right; exact Hin|exact Hfa]]. }
  intros H. destruct (Hgen false (l :: ls) H) as [E|E]; [discriminate|exact E].
Qed.

Lemma case_flags pr p ops o0 m ls : (forall s, Sched.construct pr = Ok s -> I s /\ is_exhausted s = false /\ started s = false) ->
  run_case pr p ops = Ok (o0, m, ls) -> o_exh o0 = false /\ o_run o0 = false /\ flags_hist fa false ls.
Proof.
  intros Hc. unfold run_case. destruct (Sched.construct pr) as [s|e] eqn:Ec; [|discriminate]. cbn [bind].
  destruct (Hc s eq_refl) as (HI & He & Hst).
  pose proof (ops_flags p ops s mon0 HI) as H. destruct (run_ops p s mon0 ops) as [[s2 m2] ls2].
  intros E. injection E as <- <- <-. rewrite He in H. cbn [observe o_exh o_run is_running]. auto.
Qed.
End GEN.

(* ---- the four online classes ---- *)
Definition OInv (kl : kls) (s : sched) : Prop := exists o, ob s = OOnline o /\ k o = kl /\ FInv o.

Lemma sched_next_flags kl s : OInv kl s ->
  OInv kl (fst (Sched.next s)) /\ started (fst (Sched.next s)) = true /\
  match snd (Sched.next s) with
  | Yield a => is_exhausted s = false /\ is_exhausted (fst (Sched.next s)) = fin_of kl a
  | _ => is_exhausted (fst (Sched.next s)) = is_exhausted s end.
Proof.
  intros (o & Ho & Hk & HI). unfold Sched.next, is_exhausted. rewrite Ho.
  destruct (Online.next o) as [o' out] eqn:En. destruct (next_flags o o' out En HI) as (Hk' & HI' & Hout).
  cbn [fst snd ob started]. split; [exists o'; repeat split; auto; congruence|]. split; [reflexivity|].
  destruct out; rewrite ?Hk in Hout; try exact Hout.
  destruct Hout as [A B]. split; [unfold Online.is_exhausted; rewrite A; destruct (k o); reflexivity|exact B].
Qed.
Lemma sched_fin_flags kl kk s : OInv kl s -> OInv kl (fst (Sched.finalize kk s)) /\ is_exhausted (fst (Sched.finalize kk s)) = is_exhausted s.
Proof.
  intros (o & Ho & Hk & HI). unfold Sched.finalize, is_exhausted. rewrite Ho.
  destruct (Online.finalize kk (b o)) as [b' e]. cbn [fst ob]. split; [|unfold Online.is_exhausted; reflexivity].
  eexists; repeat split; auto.
Qed.

Definition online_params (kl : kls) : params :=
  match kl with KNone_ => PNone | KMem => PMem | KDisk mv => PDisk mv | KTwo p bs bst tr => PTwo p bs bst tr end.

(* every history of every online class, with any executor parameters *)
Theorem online_flags kl p ops o0 m ls : run_case (online_params kl) p ops = Ok (o0, m, ls) ->
  o_exh o0 = false /\ o_run o0 = false /\ flags_hist (fin_of kl) false ls.
Proof.
  apply (case_flags (OInv kl) (fin_of kl) (sched_next_flags kl) (sched_fin_flags kl)).
  intros s Ec.
  destruct kl as [| |mv|pp bs bst tr]; cbn [online_params Sched.construct Online.construct] in Ec.
  1-3: injection Ec as <-; (split; [eexists; repeat split; try reflexivity; intros; discriminate|split; reflexivity]).
  destruct (pp <? 1); [discriminate|]. destruct bst; try discriminate; injection Ec as <-;
    (split; [eexists; repeat split; try reflexivity; intros; discriminate|split; reflexivity]).
Qed.
Print Assumptions online_flags.
