(* The error classes of the monitored client, per property; "no error of class P" follows from "no error at all". *)
From Coq Require Import ZArith List Bool.
Require Import Actions Exec Sched RunFacts.
Import ListNotations.
Open Scope Z_scope.

Definition err_C01 (e : merr) : Prop := match e with MX E_fwd_start | MX E_missing_cp | MX E_cp_not_covering | MX E_rev_no_deps | MX E_overwrite => True | _ => False end.
Definition err_C02 (e : merr) : Prop := match e with MX E_rev_order | MX E_end_fwd_early | MX E_end_rev_early | MX E_before_endfwd => True | _ => False end.
Definition err_C03 (e : merr) : Prop := match e with MX (E_budget _) | MX E_mixed_content => True | _ => False end.
Definition err_C04 (e : merr) : Prop := match e with MX E_leftover => True | _ => False end.
Definition err_C08 (e : merr) : Prop := match e with M_n | M_r | M_max_n => True | _ => False end.
Definition err_C12 (e : merr) : Prop := match e with MX E_load_work_nonempty | MX E_deps_not_last_step | MX E_overshoot | MX E_deps_many => True | _ => False end.
Definition err_C18 (e : merr) : Prop := match e with MX E_malformed => True | _ => False end.

(* the monitor never reported an error of class P (it stops at the first error of any class) *)
Definition no_err (P : merr -> Prop) (m : mon) : Prop := match merr_ m with Some (e, _) => ~ P e | None => True end.
Lemma mon_ok_no_err P m : mon_ok m -> no_err P m.
Proof. unfold mon_ok, no_err. intros ->. exact I. Qed.

(* every error constructor belongs to exactly one class: the classes partition the monitor's verdicts *)
Lemma err_classes_cover e : err_C01 e \/ err_C02 e \/ err_C03 e \/ err_C04 e \/ err_C08 e \/ err_C12 e \/ err_C18 e.
Proof. destruct e as [x| | |]; [destruct x|..]; cbn; tauto. Qed.
