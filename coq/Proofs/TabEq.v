From Coq Require Import ZArith List Lia Bool.
Require Import Actions Mixed MixDP.
Import ListNotations.
Open Scope Z_scope.

(* mixed_steps_tabulation (mixed.py:285-337); the (n+1) x (s+1) array as a bounded function *)
Definition tabf := Z -> Z -> option plan_t.       (* None = the initial (NONE, 0, -1) *)
Record table := { dimn : Z; dims : Z; cells : tabf }.
Definition tget (t : table) (n s : Z) : res (option plan_t) :=
  if (0 <=? n) && (n <=? dimn t) && (0 <=? s) && (s <=? dims t) then Ok (cells t n s) else Err RuntimeError (* IndexError *).
Definition tset (t : table) (n s : Z) (v : plan_t) : table :=
  {| dimn := dimn t; dims := dims t; cells := fun n' s' => if (n' =? n) && (s' =? s) then Some v else cells t n' s' |}.
Fixpoint loopS {St} (cnt : nat) (i : Z) (st : St) (f : Z -> St -> res St) : res St :=
  match cnt with O => Ok st | S c => do st' <- f i st; loopS c (i+1) st' f end.

Definition cell_cost (c : option plan_t) : Z := match c with Some v => cost v | None => -1 end.

Definition inner (ni si : Z) (i : Z) (t : table) : res table :=
  do a <- tget t i si; do b <- tget t (ni - i) (si - 1);
  if negb ((cell_cost a >? 0) && (cell_cost b >? 0)) then Err RuntimeError (* assert *) else
  let m1 := i + cell_cost a + cell_cost b in
  do cur <- tget t ni si;
  if (cell_cost cur <? 0) || (m1 <=? cell_cost cur) then Ok (tset t ni si (KIcs, i, m1)) else Ok t.

Definition row (si ni : Z) (t : table) : res table :=
  if ni <=? si + 1 then Ok (tset t ni si (KAdj, 1, ni)) else
  if si =? 1 then Ok (tset t ni si (KIcs, ni - 1, ni*(ni+1)/2 - 1)) else
  do t <- loopS (Z.to_nat (ni - 2)) 2 t (inner ni si);
  do cur <- tget t ni si;
  if cell_cost cur <? 0 then Err RuntimeError else
  do a <- tget t (ni - 1) (si - 1);
  if negb (cell_cost a >? 0) then Err RuntimeError else
  let m1 := 1 + cell_cost a in
  if m1 <? cell_cost cur then Ok (tset t ni si (KAdj, 1, m1)) else Ok t.

Definition tabulate (n s : Z) : res table :=
  let t0 := {| dimn := n; dims := s; cells := fun _ _ => None |} in
  do t1 <- (if n <? 1 then Err RuntimeError else loopS (Z.to_nat (s+1)) 0 t0 (fun si t => Ok (tset t 1 si (KFR, 1, 1))));
  loopS (Z.to_nat s) 1 t1 (fun si t => loopS (Z.to_nat (n - 1)) 2 t (row si)).

(* ---- generic loop invariant rule ---- *)
Lemma loopS_inv {St} (I : Z -> St -> Prop) : forall cnt i st f,
  I i st -> (forall j st, i <= j < i + Z.of_nat cnt -> I j st -> exists st', f j st = Ok st' /\ I (j + 1) st') ->
  exists st', loopS cnt i st f = Ok st' /\ I (i + Z.of_nat cnt) st'.
Proof.
  induction cnt as [|cnt IH]; intros i st f H0 Hstep; cbn [loopS].
  - exists st. split; [reflexivity|]. replace (i + Z.of_nat 0) with i by lia. exact H0.
  - destruct (Hstep i st ltac:(lia) H0) as (st1 & -> & H1). cbn [bind].
    destruct (IH (i + 1) st1 f H1) as (st' & Hl & Hi).
    { intros j st2 Hj. apply Hstep. lia. }
    exists st'. split; [exact Hl|]. replace (i + Z.of_nat (S cnt)) with (i + 1 + Z.of_nat cnt) by lia. exact Hi.
Qed.

(* what "filled correctly" means *)
Definition dims_ok (n s : Z) (t : table) := dimn t = n /\ dims t = s.
Definition good (t : table) (ni si : Z) := cells t ni si = Some (planC ni si).

Lemma C_pos_aux : forall j m k, (Z.to_nat m <= j)%nat -> 1 <= m -> (1 <= k \/ m = 1 /\ 0 <= k) -> 1 <= C m k.
Proof.
  induction j as [|j IH]; intros m k Hj Hm Hk; [lia|].
  destruct (Z.eq_dec m 1) as [->|Hm1]; [rewrite (proj2 (plan_1 k ltac:(lia))); lia|].
  assert (Hk1 : 1 <= k) by lia.
  destruct (plan_ge2 m k ltac:(lia) Hk1) as [(Hkd & Hadv & Hu) | (Hkd & Hadv & Hu)].
  - rewrite (C_ics m k ltac:(lia) Hk1 Hkd). set (a := snd (plan m k)) in *.
    pose proof (IH (m - a) (k - 1) ltac:(lia) ltac:(lia) ltac:(destruct Hu; [left; lia|right; lia])).
    pose proof (IH a k ltac:(lia) ltac:(lia) ltac:(left; lia)). lia.
  - rewrite (C_adj m k ltac:(lia) Hk1 Hkd).
    pose proof (IH (m - 1) (k - 1) ltac:(lia) ltac:(lia) ltac:(destruct Hu; [left; lia|right; lia])). lia.
Qed.
Lemma C_pos m k : 1 <= m -> (1 <= k \/ m = 1 /\ 0 <= k) -> 1 <= C m k.
Proof. apply (C_pos_aux (Z.to_nat m)). lia. Qed.

(* ---- the planner's loop as a pure fold, and planC in terms of it ---- *)
Fixpoint accF (f : Z -> Z) (cnt : nat) (i : Z) (m : option plan_t) : option plan_t :=
  match cnt with O => m | S c =>
    accF f c (i + 1) (match m with None => Some (KIcs, i, f i) | Some (_, _, c0) => if f i <=? c0 then Some (KIcs, i, f i) else m end) end.
Lemma for_i_pure f : forall cnt i0 m, for_i cnt i0 (fun j => Ok (f j)) m = Ok (accF f cnt i0 m).
Proof. induction cnt as [|cnt IH]; intros i0 m; cbn [for_i accF bind]; [reflexivity|]. apply IH. Qed.
Lemma for_i_ext_range : forall cnt i0 f g m, (forall j, i0 <= j < i0 + Z.of_nat cnt -> f j = g j) -> for_i cnt i0 f m = for_i cnt i0 g m.
Proof.
  induction cnt as [|cnt IH]; intros i0 f g m H; cbn [for_i]; [reflexivity|].
  rewrite (H i0 ltac:(lia)). destruct (g i0); cbn [bind]; [|reflexivity]. apply IH. intros j Hj. apply H. lia.
Qed.
Definition fcand (m s : Z) (j : Z) : Z := j + C j s + C (m - j) (s - 1).
Lemma planC_loop m k : 2 <= m -> 1 <= k -> let s := Z.min k (m - 1) in s + 1 < m -> 2 <= s ->
  planC m k = match accF (fcand m s) (Z.to_nat (m - 2)) 2 None with
              | Some (kd, j, cj) => if 1 + C (m - 1) (s - 1) <? cj then (KAdj, 1, 1 + C (m - 1) (s - 1)) else (kd, j, cj)
              | None => (KFR, 0, 0) end.
Proof.
  intros Hm Hk s Hs1 Hs2.
  pose proof (memo_planC (S (Z.to_nat m)) m k ltac:(lia) ltac:(lia) ltac:(lia)) as H.
  cbn [memo] in H. cbn zeta in H. fold s in H.
  destruct (Z.leb_spec m 0); [lia|].
  replace ((s <? Z.min 1 (m - 1)) || (s >? m - 1)) with false in H.
  2:{ symmetry. apply orb_false_iff. split; [apply Z.ltb_ge; unfold s; lia|rewrite Z.gtb_ltb; apply Z.ltb_ge; unfold s; lia]. }
  replace (m =? 1) with false in H by (symmetry; apply Z.eqb_neq; lia).
  replace (m <=? s + 1) with false in H by (symmetry; apply Z.leb_gt; lia).
  replace (s =? 1) with false in H by (symmetry; apply Z.eqb_neq; lia).
  rewrite (for_i_ext_range _ _ _ (fun j => Ok (fcand m s j))) in H.
  2:{ intros j Hj. rewrite (memo_planC (Z.to_nat m) j s ltac:(lia) ltac:(lia) ltac:(lia)).
      rewrite (memo_planC (Z.to_nat m) (m - j) (s - 1) ltac:(lia) ltac:(lia) ltac:(lia)). reflexivity. }
  rewrite for_i_pure in H. cbn [bind] in H.
  destruct (accF (fcand m s) (Z.to_nat (m - 2)) 2 None) as [[[kd j] cj]|]; [|discriminate].
  rewrite (memo_planC (Z.to_nat m) (m - 1) (s - 1) ltac:(lia) ltac:(lia) ltac:(lia)) in H. cbn [bind] in H.
  fold (C (m - 1) (s - 1)) in H. destruct (1 + C (m - 1) (s - 1) <? cj); injection H as <-; reflexivity.
Qed.
Lemma accF_cost_pos f : forall cnt i m, (forall j, i <= j < i + Z.of_nat cnt -> 1 <= f j) ->
  (forall v, m = Some v -> 1 <= cost v) -> forall v, accF f cnt i m = Some v -> 1 <= cost v.
Proof.
  induction cnt as [|cnt IH]; intros i m Hf Hm v H; cbn [accF] in H; [auto|].
  eapply (IH (i + 1)); [intros j Hj; apply Hf; lia| |exact H]. intros w Hw.
  pose proof (Hf i ltac:(lia)). destruct m as [[[kd j] c0]|].
  - destruct (f i <=? c0); [injection Hw as <-; cbn; lia|apply Hm; exact Hw].
  - injection Hw as <-. cbn. lia.
Qed.
Lemma accF_some f : forall cnt i m, (cnt <> O \/ m <> None) -> accF f cnt i m <> None.
Proof.
  induction cnt as [|cnt IH]; intros i m H; cbn [accF]; [destruct H; congruence|].
  apply IH. right. destruct m as [[[kd j] c0]|]; [destruct (f i <=? c0)|]; congruence.
Qed.

Definition stepF (f : Z -> Z) (j : Z) (m : option plan_t) : option plan_t :=
  match m with None => Some (KIcs, j, f j) | Some (_, _, c0) => if f j <=? c0 then Some (KIcs, j, f j) else m end.
Lemma accF_snoc f : forall cnt i m, accF f (S cnt) i m = stepF f (i + Z.of_nat cnt) (accF f cnt i m).
Proof.
  induction cnt as [|cnt IH]; intros i m.
  - cbn [accF]. replace (i + Z.of_nat 0) with i by lia. reflexivity.
  - change (accF f (S (S cnt)) i m) with (accF f (S cnt) (i + 1) (stepF f i m)). rewrite IH.
    change (accF f (S cnt) i m) with (accF f cnt (i + 1) (stepF f i m)). f_equal. lia.
Qed.
Lemma planC_pair m k : planC m k = (fst (plan m k), snd (plan m k), C m k).
Proof. unfold plan, C, cost. destruct (planC m k) as [[kd a] c]. reflexivity. Qed.
Lemma planC_1 k : 0 <= k -> planC 1 k = (KFR, 1, 1).
Proof. intros Hk. rewrite planC_pair. destruct (plan_1 k Hk) as [-> ->]. reflexivity. Qed.

Definition RowInv (n s si ni : Z) (t : table) : Prop :=
  dims_ok n s t /\ (forall sj, 0 <= sj <= s -> good t 1 sj) /\
  (forall nj sj, 2 <= nj <= n -> 1 <= sj < si -> good t nj sj) /\
  (forall nj, 2 <= nj < ni -> good t nj si) /\ (forall nj, ni <= nj <= n -> cells t nj si = None) /\
  (forall nj sj, 2 <= nj <= n -> si < sj -> cells t nj sj = None).

Ltac splits := repeat match goal with |- _ /\ _ => split end.
Lemma tget_in n s t a b : dims_ok n s t -> 0 <= a <= n -> 0 <= b <= s -> tget t a b = Ok (cells t a b).
Proof.
  intros [E1 E2] Ha Hb. unfold tget. rewrite E1, E2.
  replace ((0 <=? a) && (a <=? n) && (0 <=? b) && (b <=? s)) with true; [reflexivity|].
  symmetry. rewrite !andb_true_iff, !Z.leb_le. lia.
Qed.
Lemma good_cost t a b : good t a b -> cell_cost (cells t a b) = C a b.
Proof. unfold good. intros ->. reflexivity. Qed.

Lemma row_ok n s si ni t : 1 <= n -> RowInv n s si ni t -> 1 <= si <= s -> 2 <= ni <= n ->
  exists t', row si ni t = Ok t' /\ RowInv n s si (ni + 1) t'.
Proof.
  intros Hn (Hd & H1 & Hprev & Hcur & Hnone & Hlater) Hsi Hni. unfold row.
  assert (Hset : forall v, v = planC ni si -> RowInv n s si (ni + 1) (tset t ni si v)).
  { intros v ->. unfold RowInv, good, tset, dims_ok in *. cbn [cells dimn dims]. splits; try tauto.
    - intros sj Hsj. replace ((1 =? ni) && (sj =? si)) with false by (symmetry; apply andb_false_iff; left; apply Z.eqb_neq; lia). auto.
    - intros nj sj Hnj Hsj. replace ((nj =? ni) && (sj =? si)) with false by (symmetry; apply andb_false_iff; right; apply Z.eqb_neq; lia). auto.
    - intros nj Hnj. destruct (Z.eqb_spec nj ni) as [->|]; [rewrite Z.eqb_refl; reflexivity|]. cbn [andb]. apply Hcur. lia.
    - intros nj Hnj. replace ((nj =? ni) && (si =? si)) with false by (symmetry; apply andb_false_iff; left; apply Z.eqb_neq; lia). apply Hnone. lia.
    - intros nj sj Hnj Hsj. replace ((nj =? ni) && (sj =? si)) with false by (symmetry; apply andb_false_iff; right; apply Z.eqb_neq; lia). auto. }
  destruct (Z.leb_spec ni (si + 1)) as [Hle|Hgt].
  { eexists. split; [reflexivity|]. apply Hset.
    destruct (planC_unfold ni si ltac:(lia) ltac:(lia)) as [(_ & ->) | [(G & _) | (G & _)]]; [reflexivity|lia|lia]. }
  destruct (Z.eqb_spec si 1) as [Hs1|Hs1].
  { eexists. split; [reflexivity|]. apply Hset. subst si.
    destruct (planC_unfold ni 1 ltac:(lia) ltac:(lia)) as [(G & _) | [(_ & _ & ->) | (_ & G & _)]]; [lia|reflexivity|lia]. }
  (* the general case: accumulate over i = 2 .. ni-1 *)
  set (f := fcand ni si).
  assert (Hf : forall j, 2 <= j <= ni - 1 -> 1 <= f j).
  { intros j Hj. unfold f, fcand. pose proof (C_pos j si ltac:(lia) ltac:(left; lia)).
    pose proof (C_pos (ni - j) (si - 1) ltac:(lia) ltac:(left; lia)). lia. }
  destruct (loopS_inv (fun i t' => dims_ok n s t' /\ (forall a b, (a, b) <> (ni, si) -> cells t' a b = cells t a b) /\
                                    cells t' ni si = accF f (Z.to_nat (i - 2)) 2 None)
              (Z.to_nat (ni - 2)) 2 t (inner ni si)) as (t1 & Hl & (Hd1 & Hsame & Hacc)).
  { splits; auto. cbn [accF Z.to_nat]. apply Hnone. lia. }
  { intros i t' Hi (Hd' & Hsame' & Hacc'). unfold inner.
    rewrite (tget_in n s t' i si Hd' ltac:(lia) ltac:(lia)). cbn [bind].
    rewrite (tget_in n s t' (ni - i) (si - 1) Hd' ltac:(lia) ltac:(lia)). cbn [bind].
    rewrite (Hsame' i si ltac:(intros E; injection E; lia)), (Hsame' (ni - i) (si - 1) ltac:(intros E; injection E; lia)).
    rewrite (good_cost t i si (Hcur i ltac:(lia))).
    assert (Hg2 : good t (ni - i) (si - 1)).
    { destruct (Z.eq_dec (ni - i) 1) as [E|E]; [rewrite E; apply H1; lia|apply Hprev; lia]. }
    rewrite (good_cost _ _ _ Hg2).
    pose proof (C_pos i si ltac:(lia) ltac:(left; lia)). pose proof (C_pos (ni - i) (si - 1) ltac:(lia) ltac:(left; lia)).
    replace ((C i si >? 0) && (C (ni - i) (si - 1) >? 0)) with true by (symmetry; rewrite andb_true_iff, !Z.gtb_ltb, !Z.ltb_lt; lia).
    cbn [negb]. rewrite (tget_in n s t' ni si Hd' ltac:(lia) ltac:(lia)). cbn [bind]. rewrite Hacc'.
    replace (Z.to_nat (i + 1 - 2)) with (S (Z.to_nat (i - 2))) by lia. rewrite accF_snoc.
    replace (2 + Z.of_nat (Z.to_nat (i - 2))) with i by lia.
    fold (fcand ni si i). fold f.
    assert (Hinv' : forall v, dims_ok n s (tset t' ni si v) /\
                     (forall a b, (a, b) <> (ni, si) -> cells (tset t' ni si v) a b = cells t a b) /\ cells (tset t' ni si v) ni si = Some v).
    { intros v. unfold tset, dims_ok in *. cbn [cells dimn dims]. splits; try tauto.
      - intros a b Hab. destruct (Z.eqb_spec a ni), (Z.eqb_spec b si); cbn [andb]; try (apply Hsame'; exact Hab). subst. congruence.
      - rewrite !Z.eqb_refl. reflexivity. }
    destruct (accF f (Z.to_nat (i - 2)) 2 None) as [[[kd j] c0]|] eqn:Ea; cbn [cell_cost cost snd stepF].
    - assert (Hc0 : 1 <= c0).
      { apply (accF_cost_pos f (Z.to_nat (i - 2)) 2 None) with (v := (kd, j, c0)); [intros j' Hj'; apply Hf; lia|discriminate|exact Ea]. }
      replace (c0 <? 0) with false by (symmetry; apply Z.ltb_ge; lia). cbn [orb].
      destruct (f i <=? c0).
      + eexists. split; [reflexivity|]. destruct (Hinv' (KIcs, i, f i)) as (A & B & Cc). splits; auto.
      + eexists. split; [reflexivity|]. splits; auto.
    - cbn [Z.ltb Z.compare orb]. eexists. split; [reflexivity|]. destruct (Hinv' (KIcs, i, f i)) as (A & B & Cc). splits; auto. }
  rewrite Hl. cbn [bind]. replace (2 + Z.of_nat (Z.to_nat (ni - 2))) with ni in Hacc by lia.
  rewrite (tget_in n s t1 ni si Hd1 ltac:(lia) ltac:(lia)). cbn [bind]. rewrite Hacc.
  pose proof (accF_some f (Z.to_nat (ni - 2)) 2 None ltac:(left; lia)) as Hsome.
  destruct (accF f (Z.to_nat (ni - 2)) 2 None) as [[[kd j] cj]|] eqn:Ea; [|congruence].
  assert (Hcj : 1 <= cj).
  { apply (accF_cost_pos f (Z.to_nat (ni - 2)) 2 None) with (v := (kd, j, cj)); [intros j' Hj'; apply Hf; lia|discriminate|exact Ea]. }
  cbn [cell_cost cost snd]. replace (cj <? 0) with false by (symmetry; apply Z.ltb_ge; lia).
  rewrite (tget_in n s t1 (ni - 1) (si - 1) Hd1 ltac:(lia) ltac:(lia)). cbn [bind].
  rewrite (Hsame (ni - 1) (si - 1) ltac:(intros E; injection E; lia)).
  assert (Hg : good t (ni - 1) (si - 1)) by (apply Hprev; lia).
  rewrite (good_cost _ _ _ Hg). pose proof (C_pos (ni - 1) (si - 1) ltac:(lia) ltac:(left; lia)).
  replace (C (ni - 1) (si - 1) >? 0) with true by (symmetry; rewrite Z.gtb_ltb; apply Z.ltb_lt; lia). cbn [negb].
  (* the final value is planC ni si *)
  pose proof (planC_loop ni si ltac:(lia) ltac:(lia)) as Hp. cbn zeta in Hp.
  replace (Z.min si (ni - 1)) with si in Hp by lia. specialize (Hp ltac:(lia) ltac:(lia)). fold f in Hp. rewrite Ea in Hp.
  (* rebuild RowInv from t1 *)
  assert (Hrow : forall v, v = planC ni si -> cells t1 ni si = Some v \/ True -> RowInv n s si (ni + 1) (tset t1 ni si v)).
  { intros v Hv _. 
    assert (Heq : forall a b, cells (tset t1 ni si v) a b = cells (tset t ni si v) a b).
    { intros a b. unfold tset. cbn [cells]. destruct ((a =? ni) && (b =? si)) eqn:E; [reflexivity|].
      apply Hsame. intros E'. injection E' as -> ->. rewrite !Z.eqb_refl in E. discriminate. }
    destruct (Hset v Hv) as (D & R1 & R2 & R3 & R4 & R5). unfold RowInv, good in *.
    splits; [destruct Hd1; split; assumption| | | | |]; intros; rewrite Heq; auto. }
  destruct (1 + C (ni - 1) (si - 1) <? cj).
  - eexists. split; [reflexivity|]. apply Hrow; [symmetry; exact Hp|right; exact I].
  - exists t1. split; [reflexivity|].
    (* t1 already holds the right value in (ni, si) *)
    assert (Ht1 : forall a b, cells t1 a b = cells (tset t1 ni si (kd, j, cj)) a b).
    { intros a b. unfold tset. cbn [cells]. destruct (Z.eqb_spec a ni), (Z.eqb_spec b si); cbn [andb]; try reflexivity. subst. exact Hacc. }
    pose proof (Hrow (kd, j, cj) (eq_sym Hp) (or_intror I)) as (D & R1 & R2 & R3 & R4 & R5).
    unfold RowInv, good in *. splits; [destruct Hd1; split; assumption| | | | |]; intros; rewrite Ht1; auto.
Qed.

(* ---- columns, and the whole table ---- *)
Lemma col_ok n s si t : 1 <= n -> RowInv n s si 2 t -> 1 <= si <= s ->
  exists t', loopS (Z.to_nat (n - 1)) 2 t (row si) = Ok t' /\ RowInv n s (si + 1) 2 t'.
Proof.
  intros Hn Hinv Hsi.
  destruct (loopS_inv (fun ni t' => RowInv n s si ni t') (Z.to_nat (n - 1)) 2 t (row si) Hinv) as (t' & Hl & Hf).
  { intros ni t0 Hni H0. apply (row_ok n s si ni t0 Hn H0 Hsi). lia. }
  exists t'. split; [exact Hl|].
  destruct (Z_le_gt_dec 2 n) as [Hn2|Hn2].
  - replace (2 + Z.of_nat (Z.to_nat (n - 1))) with (n + 1) in Hf by lia.
    destruct Hf as (D & R1 & R2 & R3 & R4 & R5). unfold RowInv. splits; auto.
    + intros nj sj Hnj Hsj. destruct (Z.eq_dec sj si) as [->|]; [apply R3; lia|apply R2; lia].
    + intros nj Hnj. lia.
    + intros nj Hnj. apply R5; lia.
    + intros nj sj Hnj Hsj. apply R5; lia.
  - (* n = 1: no rows *)
    replace (Z.to_nat (n - 1)) with 0%nat in * by lia. cbn [loopS] in Hl. injection Hl as <-.
    destruct Hinv as (D & R1 & R2 & R3 & R4 & R5). unfold RowInv. splits; auto; intros; lia.
Qed.

Theorem C16_table n s : 1 <= n -> 0 <= s ->
  exists t, tabulate n s = Ok t /\ forall ni si, 1 <= ni <= n -> (1 <= si <= s \/ ni = 1 /\ 0 <= si <= s) -> cells t ni si = Some (planC ni si).
Proof.
  intros Hn Hs. unfold tabulate. replace (n <? 1) with false by (symmetry; apply Z.ltb_ge; lia).
  set (t0 := {| dimn := n; dims := s; cells := fun _ _ => None |}).
  (* row 1 *)
  destruct (loopS_inv (fun si t => dims_ok n s t /\ (forall sj, 0 <= sj < si -> good t 1 sj) /\
                                   (forall nj sj, 2 <= nj -> cells t nj sj = None))
              (Z.to_nat (s + 1)) 0 t0 (fun si t => Ok (tset t 1 si (KFR, 1, 1)))) as (t1 & Hl1 & (D1 & G1 & N1)).
  { unfold dims_ok, t0. cbn. splits; auto; intros; lia. }
  { intros si t Hsi (D & G & Nn). eexists. split; [reflexivity|]. unfold dims_ok, good, tset in *. cbn [cells dimn dims]. splits; try tauto.
    - intros sj Hsj. rewrite Z.eqb_refl. cbn [andb]. destruct (Z.eqb_spec sj si) as [->|]; [rewrite planC_1 by lia; reflexivity|apply G; lia].
    - intros nj sj Hnj. replace (nj =? 1) with false by (symmetry; apply Z.eqb_neq; lia). cbn [andb]. apply Nn; lia. }
  rewrite Hl1. cbn [bind]. replace (0 + Z.of_nat (Z.to_nat (s + 1))) with (s + 1) in G1 by lia.
  (* columns *)
  destruct (loopS_inv (fun si t => RowInv n s si 2 t) (Z.to_nat s) 1 t1 (fun si t => loopS (Z.to_nat (n - 1)) 2 t (row si))) as (t2 & Hl2 & Hf).
  { unfold RowInv. splits; auto; try (intros; lia).
    - intros sj Hsj. apply G1; lia.
    - intros nj Hnj. apply N1; lia.
    - intros nj sj Hnj Hsj. apply N1; lia. }
  { intros si t Hsi H0. apply (col_ok n s si t Hn H0). lia. }
  exists t2. split; [exact Hl2|].
  replace (1 + Z.of_nat (Z.to_nat s)) with (s + 1) in Hf by lia.
  destruct Hf as (D & R1 & R2 & _). intros ni si Hni Hsi.
  destruct (Z.eq_dec ni 1) as [->|]; [apply R1; lia|apply R2; lia].
Qed.
Print Assumptions C16_table.
