(* C07 / C05 for Revolve: the table computed by the extracted get_opt_0_table holds, in every entry the generator reads,
   (l+1) ub + uf * P m l, where P is the step-count dynamic programme: the minimum over all first splits. *)
From Coq Require Import ZArith List Lia Bool.
Require Import Actions Ops RevSeq RevBridge6.
Import ListNotations.
Open Scope Z_scope.

(* ---- minimum of a list ---- *)
Lemma fold_min_le : forall l x y, In y (x :: l) -> fold_left Z.min l x <= y.
Proof.
  induction l as [|z l IH]; intros x y Hy; cbn [fold_left].
  - destruct Hy as [->|[]]; lia.
  - destruct Hy as [->|[->|Hy]].
    + pose proof (IH (Z.min y z) (Z.min y z) (or_introl eq_refl)). lia.
    + pose proof (IH (Z.min x y) (Z.min x y) (or_introl eq_refl)). lia.
    + apply IH. right. exact Hy.
Qed.
Lemma fold_min_in : forall l x, In (fold_left Z.min l x) (x :: l).
Proof.
  induction l as [|z l IH]; intros x; cbn [fold_left]; [left; reflexivity|].
  destruct (IH (Z.min x z)) as [H|H]; [|right; right; exact H].
  destruct (Z.min_spec x z) as [[_ E]|[_ E]]; rewrite E in H; [left|right; left]; congruence.
Qed.
Lemma zmin_list_le l d y : In y l -> zmin_list l d <= y.
Proof. destruct l as [|x l]; [intros []|]. cbn [zmin_list]. apply fold_min_le. Qed.
Lemma zmin_list_in l d : l <> [] -> In (zmin_list l d) l.
Proof. destruct l as [|x l]; [congruence|]. intros _. cbn [zmin_list]. apply fold_min_in. Qed.
Lemma zmin_list_affine u c l d : 0 <= u -> l <> [] -> zmin_list (map (fun x => u * x + c) l) d = u * zmin_list l d + c.
Proof.
  intros Hu Hne. apply Z.le_antisymm.
  - pose proof (zmin_list_in l d Hne) as Hin. apply zmin_list_le. apply in_map_iff. eexists; split; [reflexivity|exact Hin].
  - assert (Hne' : map (fun x => u * x + c) l <> []) by (destruct l; [congruence|discriminate]).
    pose proof (zmin_list_in _ d Hne') as Hin. apply in_map_iff in Hin. destruct Hin as (x & <- & Hx).
    pose proof (zmin_list_le l d x Hx). nia.
Qed.

(* ---- the step-count DP ---- *)
Fixpoint Pf (fuel : nat) (m l : Z) : Z :=
  match fuel with O => 0 | S f =>
    if l <=? 0 then 0 else if l =? 1 then 1 else if m <=? 1 then l * (l + 1) / 2 else
    zmin_list (map (fun j => j + Pf f (m - 1) (l - j) + Pf f m (j - 1)) (zrange 1 l)) 0 end.
Definition P (m l : Z) : Z := Pf (S (Z.to_nat l)) m l.

Lemma in_zrange' lo hi x : In x (zrange lo hi) <-> lo <= x < hi.
Proof.
  unfold zrange. rewrite in_map_iff. split.
  - intros (i & <- & Hi). apply in_seq in Hi. lia.
  - intros H. exists (Z.to_nat (x - lo)). split; [lia|]. apply in_seq. lia.
Qed.
Lemma Pf_fuel : forall f f' m l, (Z.to_nat l < f)%nat -> (Z.to_nat l < f')%nat -> Pf f m l = Pf f' m l.
Proof.
  induction f as [|f IH]; intros f' m l Hf Hf'; [lia|]. destruct f' as [|f']; [lia|]. cbn [Pf].
  destruct (l <=? 0) eqn:E0; [reflexivity|]. destruct (l =? 1); [reflexivity|]. destruct (m <=? 1); [reflexivity|].
  apply Z.leb_gt in E0. f_equal. apply map_ext_in. intros j Hj. apply in_zrange' in Hj.
  rewrite (IH f' (m - 1) (l - j)) by lia. rewrite (IH f' m (j - 1)) by lia. reflexivity.
Qed.
Lemma P_0 m : P m 0 = 0. Proof. reflexivity. Qed.
Lemma P_1 m : P m 1 = 1. Proof. reflexivity. Qed.
Lemma P_row1 m l : m <= 1 -> 0 <= l -> P m l = l * (l + 1) / 2.
Proof.
  intros Hm Hl. unfold P. cbn [Pf]. destruct (Z.leb_spec l 0); [replace l with 0 by lia; reflexivity|].
  destruct (Z.eqb_spec l 1) as [->|]; [reflexivity|]. destruct (Z.leb_spec m 1); [reflexivity|lia].
Qed.
Lemma P_c1 l : 0 <= l -> 2 * P 1 l = l * (l + 1).
Proof.
  intros Hl. rewrite P_row1 by lia.
  assert (H : (l * (l + 1)) mod 2 = 0).
  { rewrite Z.mul_mod by lia. rewrite (Z.add_mod l 1) by lia. destruct (Z.mod_pos_bound l 2 ltac:(lia)) as [H0 H2].
    assert (Hc : l mod 2 = 0 \/ l mod 2 = 1) by lia. destruct Hc as [-> | ->]; reflexivity. }
  pose proof (Z.div_mod (l * (l + 1)) 2 ltac:(lia)). lia.
Qed.
Lemma P_unfold m l : 2 <= m -> 2 <= l -> P m l = zmin_list (map (fun j => j + P (m - 1) (l - j) + P m (j - 1)) (zrange 1 l)) 0.
Proof.
  intros Hm Hl. unfold P at 1. cbn [Pf]. destruct (Z.leb_spec l 0); [lia|]. destruct (Z.eqb_spec l 1); [lia|]. destruct (Z.leb_spec m 1); [lia|].
  f_equal. apply map_ext_in. intros j Hj. apply in_zrange' in Hj. unfold P.
  rewrite (Pf_fuel (Z.to_nat l) (S (Z.to_nat (l - j))) (m - 1) (l - j)) by lia.
  rewrite (Pf_fuel (Z.to_nat l) (S (Z.to_nat (j - 1))) m (j - 1)) by lia. reflexivity.
Qed.
Lemma P_le m l j : 2 <= m -> 2 <= l -> 1 <= j <= l - 1 -> P m l <= j + P (m - 1) (l - j) + P m (j - 1).
Proof.
  intros Hm Hl Hj. rewrite (P_unfold m l Hm Hl). apply zmin_list_le. apply in_map_iff. exists j. split; [reflexivity|]. apply in_zrange'. lia.
Qed.
Lemma P_ex m l : 2 <= m -> 2 <= l -> exists j, 1 <= j <= l - 1 /\ P m l = j + P (m - 1) (l - j) + P m (j - 1).
Proof.
  intros Hm Hl. rewrite (P_unfold m l Hm Hl).
  assert (Hne : map (fun j => j + P (m - 1) (l - j) + P m (j - 1)) (zrange 1 l) <> []).
  { assert (Hin : In 1 (zrange 1 l)) by (apply in_zrange'; lia). destruct (zrange 1 l); [destruct Hin|discriminate]. }
  pose proof (zmin_list_in _ 0 Hne) as Hin. apply in_map_iff in Hin. destruct Hin as (j & Hj & Hjin). apply in_zrange' in Hjin.
  exists j. split; [lia|]. symmetry. exact Hj.
Qed.

(* ---- the table ---- *)
Section TABLE.
Variable uf ub : Z.
Hypothesis Huf : 0 <= uf.
Definition val (m l : Z) : Z := (l + 1) * ub + uf * P m l.
Definition RowOK (m : Z) (row : list Z) (n : Z) : Prop :=
  n <= Z.of_nat (length row) /\ forall i, 0 <= i < n -> nth_error row (Z.to_nat i) = Some (val m i).
Lemma lget_row m row n i : RowOK m row n -> 0 <= i < n -> lget row i = Ok (val m i).
Proof. intros [_ H] Hi. unfold lget. destruct (Z.ltb_spec i 0); [lia|]. rewrite (H i Hi). reflexivity. Qed.
Lemma map_res_pure {A B} (f : A -> res B) (g : A -> B) l : (forall x, In x l -> f x = Ok (g x)) -> map_res f l = Ok (map g l).
Proof.
  induction l as [|x l IH]; intros H; [reflexivity|]. cbn [map_res map]. rewrite (H x (or_introl eq_refl)). cbn [bind].
  rewrite IH by (intros z Hz; apply H; right; exact Hz). reflexivity.
Qed.

Lemma row_ext_val m prev : 2 <= m -> forall cnt lcur row r, 2 <= lcur -> Z.of_nat (length row) = lcur -> RowOK m row lcur ->
  ((0 < cnt)%nat -> RowOK (m - 1) prev (lcur + Z.of_nat cnt)) -> row_ext cnt lcur uf prev row = Ok r -> RowOK m r (lcur + Z.of_nat cnt) /\ Z.of_nat (length r) = lcur + Z.of_nat cnt.
Proof.
  intros Hm. induction cnt as [|cnt IH]; intros lcur row r Hl Hlen Hrow Hprev H; cbn [row_ext] in H.
  - injection H as <-. replace (lcur + Z.of_nat 0) with lcur by lia. auto.
  - rewrite (map_res_pure _ (fun j => uf * (j + P (m - 1) (lcur - j) + P m (j - 1)) + (lcur + 1) * ub)) in H.
    2:{ intros j Hj. apply in_zrange' in Hj.
        assert (Hp' : RowOK (m - 1) prev (lcur + Z.of_nat (S cnt))) by (apply Hprev; lia).
        rewrite (lget_row (m - 1) prev _ (lcur - j) Hp') by lia. rewrite (lget_row m row _ (j - 1) Hrow) by lia. cbn [bind]. f_equal. unfold val. lia. }
    cbn [bind] in H.
    rewrite <- (map_map (fun j => j + P (m - 1) (lcur - j) + P m (j - 1)) (fun x => uf * x + (lcur + 1) * ub)) in H.
    rewrite zmin_list_affine in H; [|exact Huf|].
    2:{ assert (Hin : In 1 (zrange 1 lcur)) by (apply in_zrange'; lia). destruct (zrange 1 lcur); [destruct Hin|discriminate]. }
    rewrite <- (P_unfold m lcur Hm Hl) in H.
    destruct (IH (lcur + 1) (row ++ [uf * P m lcur + (lcur + 1) * ub]) r) as [H1 H2]; try lia.
    + rewrite app_length. cbn [length]. lia.
    + split; [rewrite app_length; cbn [length]; lia|]. intros i Hi.
      destruct (Z.eq_dec i lcur) as [->|Hne].
      * rewrite nth_error_app2 by lia. replace (Z.to_nat lcur - length row)%nat with 0%nat by lia. cbn [nth_error]. unfold val. f_equal. lia.
      * rewrite nth_error_app1 by lia. apply Hrow. lia.
    + intros _. destruct (Hprev ltac:(lia)) as [Hp1 Hp2]. split; [lia|]. intros i Hi. apply Hp2. lia.
    + exact H.
    + split; [|lia]. destruct H1 as [A B]. split; [lia|]. intros i Hi. apply B. lia.
Qed.

Lemma rowm_ok m : RowOK m [ub; uf + 2 * ub] 2.
Proof.
  split; [cbn; lia|]. intros i Hi. assert (Hc : i = 0 \/ i = 1) by lia. destruct Hc as [-> | ->]; unfold val.
  - change (Z.to_nat 0) with 0%nat. cbn [nth_error]. rewrite P_0. f_equal. lia.
  - change (Z.to_nat 1) with 1%nat. cbn [nth_error]. rewrite P_1. f_equal. lia.
Qed.

Lemma rows_from_val lmax : 0 <= lmax -> forall cnt m prev rest rs, 2 <= m -> RowOK (m - 1) prev (lmax + 1) ->
  Forall (fun r => r = [ub; uf + 2 * ub]) rest ->
  rows_from cnt lmax uf prev rest = Ok rs -> forall k row, nth_error rs k = Some row -> RowOK (m + Z.of_nat k) row (lmax + 1).
Proof.
  intros Hl. induction cnt as [|cnt IH]; intros m prev rest rs Hm Hprev Hrest H k row Hk; cbn [rows_from] in H.
  - injection H as <-. destruct k; discriminate.
  - destruct rest as [|row0 rest']; [discriminate|]. inversion Hrest as [|? ? Hrow0 Hrest']; subst.
    destruct (row_ext (Z.to_nat (lmax - 1)) 2 uf prev [ub; uf + 2 * ub]) as [r|] eqn:Er; [|discriminate]. cbn [bind] in H.
    destruct (rows_from cnt lmax uf r rest') as [rs'|] eqn:Ers; [|discriminate]. cbn [bind] in H. injection H as <-.
    assert (Hr : RowOK m r (lmax + 1)).
    { destruct (row_ext_val m prev Hm (Z.to_nat (lmax - 1)) 2 [ub; uf + 2 * ub] r ltac:(lia) eq_refl (rowm_ok m)) as [H1 H2]; [|exact Er|].
      - intros Hpos. destruct Hprev as [A B]. split; [lia|]. intros i Hi. apply B. lia.
      - destruct H1 as [A B]. destruct (Z.leb_spec lmax 0).
        + (* lmax = 0: the row is [ub; uf + 2 ub] *) split; [lia|]. intros i Hi. apply B. lia.
        + split; [lia|]. intros i Hi. apply B. lia. }
    destruct k as [|k]; cbn [nth_error] in Hk.
    + injection Hk as <-. replace (m + Z.of_nat 0) with m by lia. exact Hr.
    + replace (m + Z.of_nat (S k)) with ((m + 1) + Z.of_nat k) by lia.
      apply (IH (m + 1) r rest' rs' ltac:(lia)); auto. replace (m + 1 - 1) with m by lia. exact Hr.
Qed.

Theorem opt0_values lmax cmax t : 0 <= lmax -> get_opt_0_table lmax cmax uf ub = Ok t ->
  forall m l, 0 <= m <= cmax -> 0 <= l <= lmax -> (1 <= m \/ l = 0) -> tget t m l = Ok (val m l).
Proof.
  intros Hl H m l Hm Hll Hml. unfold get_opt_0_table in H.
  assert (Hrow0 : RowOK 0 [ub] 1).
  { split; [cbn; lia|]. intros i Hi. replace i with 0 by lia. cbn. unfold val. rewrite P_0. f_equal. lia. }
  assert (Hget : forall row, nth_error t (Z.to_nat m) = Some row -> RowOK m row (l + 1) -> tget t m l = Ok (val m l)).
  { intros row Hn [A B]. unfold tget. destruct (Z.ltb_spec m 0); [lia|]. destruct (Z.ltb_spec l 0); [lia|]. cbn [orb]. rewrite Hn, (B l) by lia. reflexivity. }
  destruct (Z.leb_spec cmax 0) as [Hc|Hc].
  - injection H as <-. assert (m = 0) by lia. assert (l = 0) by lia. subst. apply (Hget [ub]); [reflexivity|exact Hrow0].
  - set (row1 := [ub; uf + 2 * ub] ++ map (fun l => (l + 1) * ub + l * (l + 1) / 2 * uf) (zrange 2 (lmax + 1))) in *.
    destruct (rows_from (Z.to_nat (cmax - 1)) lmax uf row1 (repeat [ub; uf + 2 * ub] (Z.to_nat (cmax - 1)))) as [rs|] eqn:Ers; [|discriminate].
    cbn [bind] in H. injection H as <-.
    assert (Hrow1 : RowOK 1 row1 (lmax + 1)).
    { unfold row1. split.
      - rewrite app_length, map_length. unfold zrange. rewrite map_length, seq_length. cbn [length]. lia.
      - intros i Hi. destruct (Z.ltb_spec i 2).
        + rewrite nth_error_app1 by (cbn; lia). apply (rowm_ok 1). lia.
        + rewrite nth_error_app2 by (cbn [length]; lia). cbn [length]. rewrite nth_error_map. unfold zrange. rewrite nth_error_map.
          rewrite nth_error_nth' with (d := 0%nat) by (rewrite seq_length; lia). rewrite seq_nth by lia. cbn [option_map].
          replace (2 + Z.of_nat (0 + (Z.to_nat i - 2))) with i by lia. unfold val. rewrite (P_row1 1 i) by lia. f_equal. lia. }
    destruct (Z.to_nat m) as [|[|k]] eqn:Em.
    + assert (m = 0) by lia. assert (l = 0) by lia. subst. apply (Hget [ub]); [reflexivity|exact Hrow0].
    + assert (m = 1) by lia. subst. apply (Hget row1); [reflexivity|]. destruct Hrow1 as [A B]. split; [lia|]. intros i Hi. apply B. lia.
    + destruct (nth_error rs k) as [row|] eqn:Ek.
      * assert (Hrep : forall n, Forall (fun r => r = [ub; uf + 2 * ub]) (repeat [ub; uf + 2 * ub] n)) by (induction n; cbn; constructor; auto).
        pose proof (rows_from_val lmax Hl (Z.to_nat (cmax - 1)) 2 row1 _ rs ltac:(lia) Hrow1 (Hrep _) Ers k row Ek) as Hr.
        replace (2 + Z.of_nat k) with m in Hr by lia. apply (Hget row); [exact Ek|]. destruct Hr as [A B]. split; [lia|]. intros i Hi. apply B. lia.
      * exfalso. destruct (opt0_ok lmax cmax uf ub Hl) as (t' & Ht' & HD). unfold get_opt_0_table in Ht'. destruct (Z.leb_spec cmax 0); [lia|].
        fold row1 in Ht'. rewrite Ers in Ht'. cbn [bind] in Ht'. injection Ht' as <-.
        destruct (HD m ltac:(lia)) as (row & Hn & _). rewrite Em in Hn. cbn [nth_error] in Hn. congruence.
Qed.
End TABLE.
