(* DiskRevolve, end to end on the extracted model: every max_n >= 1, every RAM count >= 1, every cost vector: the monitored
   client (budgets RAM = snapshots_in_ram, DISK unbounded) meets no error at all before the final EndReverse, nothing raises,
   and the only error that can be recorded there is E_leftover (the open finding D8: a disk checkpoint whose read was a Copy). *)
From Coq Require Import ZArith List Lia Bool.
Require Import Actions Ops RevSeq RevConv Exec Sched ExecFacts RunFacts MSBridge RevBridge1 RevBridge2 RevBridge3 RevBridge4 DiskBridge2 DiskBridge3 DiskGen.
Require RevBlk RevGen RevCost DiskBlk MSPot MSTerm.
Import ListNotations.
Open Scope Z_scope.

Lemma DBlk_wf cm o l ops : DiskBlk.DBlk cm o l ops -> Forall wf ops.
Proof.
  induction 1 as [o|o l ops HB|o l j s1 s2 Hl Hj HD IH HB].
  - unfold RevBlk.adj. repeat constructor; cbn; lia.
  - eapply Blk_wf; eauto.
  - repeat (apply Forall_app; split); auto; try (repeat constructor; cbn; lia). eapply Blk_wf; eauto.
Qed.
Lemma DBlk_nonempty cm o l ops : DiskBlk.DBlk cm o l ops -> ops <> [].
Proof. induction 1 as [o|o l ops HB|]; [discriminate|eapply Blk_nonempty; eauto|discriminate]. Qed.

Section DRUN.
Variable kd : rkind.
Lemma disk_J0 N ram disk L0 : 1 <= N -> 0 <= ram -> (2 <= N -> 1 <= ram) -> DiskBlk.DBlk ram 0 (N - 1) L0 ->
  exists prev acts r, prevop L0 0 = Some prev /\ RevBlk.conv N 0 (Some prev) RevGen.init_c L0 = (acts, inl r) /\
    DiskBridge3.J N ram (map inj L0) kd ram disk (RevBridge3.sumflen acts) (DiskBridge3.sumdw acts) (DiskBridge3.sumdr acts)
      {| ob := ORevF kd N ram disk (init_r (map inj L0)); started := false |} mon0.
Proof.
  intros HN Hram Hram1 HB. set (L := map inj L0).
  pose proof (DBlk_nonempty _ _ _ _ HB) as Hne.
  assert (Hprev : exists prev, prevop L0 0 = Some prev).
  { unfold prevop. destruct (rev L0) as [|z r] eqn:E; [|eauto]. apply (f_equal (@rev _)) in E. rewrite rev_involutive in E. contradiction. }
  destruct Hprev as [prev Hprev].
  set (X0 := {| DiskBlk.mx := RevGen.init_x; DiskBlk.dk := [] |}).
  destruct (DiskBlk.dblk_ok N ram ram 0 (N - 1) L0 HB 0%nat (Some prev) RevGen.init_c X0) as (acts & c' & X' & lastop & HR & HX & HEx).
  { unfold DiskBlk.DEntry, X0, DiskBlk.dkeys. cbn [DiskBlk.mx DiskBlk.dk map]. split; [|split; [split; [constructor|intros p a b; discriminate]|reflexivity]].
    unfold RevBlk.Entry, RevGen.init_c, RevGen.init_x, RevBlk.keys, RevBlk.store_ok.
    cbn [RevBlk.n_ RevBlk.r_ RevBlk.snaps RevBlk.fwd RevBlk.wdeps RevBlk.endfwd RevBlk.store RevBlk.rr map length orb].
    replace (0 + (N - 1) + 1) with N by lia. rewrite Z.eqb_refl. cbn [negb].
    repeat match goal with |- _ /\ _ => split end; try lia; try reflexivity; try tauto.
    + constructor.
    + intros p a b; discriminate.
    + intros p [].
    + intros p []. }
  destruct HEx as (Hn & Hr & Hrr & Hf & Hwd & Hwi & Hef & Hst & Hss & dead & Hdk & Hdead). cbn [DiskBlk.mx DiskBlk.dk X0 RevGen.init_x RevBlk.store] in Hst, Hss.
  specialize (HR []). rewrite app_nil_r in HR. cbn [RevBlk.conv fst snd] in HR. rewrite app_nil_r in HR. cbn [Nat.add] in HR.
  pose proof (conv_link N L0 [] prev RevGen.init_c acts c' (Some lastop) (length L0) (DBlk_wf _ _ _ _ HB) (fun _ => Hprev) HR) as Hlink.
  cbn [app length] in Hlink.
  assert (Hsn : RevBlk.snaps c' = []).
  { destruct (RevBlk.snaps c') as [|z l] eqn:E; [reflexivity|]. exfalso.
    destruct (proj1 (Hss z) (or_introl eq_refl)) as [Hin|[]]. unfold RevBlk.keys in Hin. rewrite Hst in Hin. exact Hin. }
  exists prev, acts, (c', Some lastop, length L0). split; [exact Hprev|]. split; [exact HR|].
  apply (DiskBridge3.Jrun N ram L kd ram disk (RevBridge3.sumflen acts) (DiskBridge3.sumdw acts) (DiskBridge3.sumdr acts) 0%nat init_c [] X0 0 0 0 false mon0).
  - lia.
  - reflexivity.
  - unfold RxD, X0. cbn [DiskBlk.mx DiskBlk.dk map]. split; [|reflexivity]. unfold Rx, toMS, RevGen.init_x, mon0, x0. cbn. repeat split; reflexivity.
  - split; reflexivity.
  - unfold NN, X0, RevGen.init_x. cbn. repeat split; try lia; try discriminate. intros f Hf0; injection Hf0 as <-; lia.
  - intros k0 v Hk. cbn in Hk. discriminate.
  - intros a b Hd. cbn in Hd. discriminate.
  - cbn [DiskBridge3.AgP]. split; reflexivity.
  - constructor.
  - exists acts, (cmap c'), X'. unfold L. rewrite map_length, Nat.sub_0_r. cbn [app]. repeat split; auto; try lia.
Qed.
End DRUN.

(* the op lists under the whole documented domain (snapshots_in_ram = 0 is accepted for max_n = 1: a single step) *)
Lemma disk_seq N ram disk uf ub wd rd : 1 <= N -> 0 <= ram -> (2 <= N -> 1 <= ram) ->
  exists L0, sequence KDiskRevolve N ram disk uf ub wd rd = Ok (map inj L0) /\ DiskBlk.DBlk ram 0 (N - 1) L0.
Proof.
  intros HN Hram Hram1. destruct (Z.eq_dec ram 0) as [->|Hr0].
  - assert (N = 1) by lia. subst N. exists (RevBlk.adj 0). split; [reflexivity|apply DiskBlk.DZero].
  - destruct (disk_revolve_top_total (N - 1) ram wd rd uf ub ltac:(lia) ltac:(lia)) as [L HL].
    pose proof HL as HL'. unfold disk_revolve_top in HL'. destruct (get_opt_0_table (N - 1) ram uf ub) as [t|]; [|discriminate]. cbn [bind] in HL'.
    destruct (get_opt_inf_table (N - 1) ram uf ub wd rd t) as [ti|]; [|discriminate]. cbn [bind] in HL'.
    destruct (disk_grammar _ _ _ _ _ _ _ _ _ HL' ltac:(lia) ltac:(lia)) as (L0 & -> & HB). exists L0. split; [exact HL|exact HB].
Qed.

Definition disk_xparams (N ram : Z) : xparams := {| xN := N; keep_all_deps := false; budget_ram := Some ram; budget_disk := None |}.

Theorem disk_revolve_run N ram disk uf ub wd rd k : 1 <= N -> 0 <= ram -> (2 <= N -> 1 <= ram) ->
  exists o0 m ls, run_case (PRev KDiskRevolve N ram disk uf ub wd rd) (disk_xparams N ram) (repeat Next k) = Ok (o0, m, ls) /\
    no_raise ls /\ DiskBridge3.leftover_or_ok m.
Proof.
  intros HN Hram Hram1.
  destruct (disk_seq N ram disk uf ub wd rd HN Hram Hram1) as (L0 & HL & HB).
  unfold run_case, Sched.construct, RevConv.construct. rewrite HL. cbn [bind].
  destruct (Z.ltb_spec N 1); [lia|]. destruct (Z.ltb_spec ram (Z.min 1 (N - 1))); [lia|]. cbn [bind].
  destruct (disk_J0 KDiskRevolve N ram disk L0 HN Hram Hram1 HB) as (prev0 & acts0 & r0 & _ & _ & HJ0).
  pose proof (DiskBridge3.run_nexts2 N ram ltac:(lia) (map inj L0) KDiskRevolve ram disk _ _ _ k _ _ HJ0) as Hrun.
  change (DiskBridge2.pD N ram) with (disk_xparams N ram) in Hrun.
  destruct (run_ops (disk_xparams N ram) _ mon0 (repeat Next k)) as [[s' m'] ls]. destruct Hrun as [HJ Hnr].
  eexists _, _, _. split; [reflexivity|]. split; [exact Hnr|]. exact (DiskBridge3.J_verdict _ _ _ _ _ _ _ _ _ _ _ HJ).
Qed.
Print Assumptions disk_revolve_run.

(* PeriodicDiskRevolve: the same, through the same grammar *)
Require Import PeriodGen.
Lemma periodic_seq N ram disk uf ub wd rd : 1 <= N -> 0 <= ram -> (2 <= N -> 1 <= ram) ->
  exists L0, sequence KPeriodic N ram disk uf ub wd rd = Ok (map inj L0) /\ DiskBlk.DBlk ram 0 (N - 1) L0.
Proof.
  intros HN Hram Hram1. destruct (Z.eq_dec ram 0) as [->|Hr0].
  - assert (N = 1) by lia. subst N. exists (RevBlk.adj 0 ++ [RevBlk.ODM 0]). split; [|apply DiskBlk.DMem; apply RevBlk.B0].
    change (sequence KPeriodic 1 0 disk uf ub wd rd) with (do p <- periodic_top 0 0 wd rd uf ub; Ok (fst p)).
    unfold periodic_top. cbn. replace (Pos.to_nat 4) with 4%nat by reflexivity. cbn. reflexivity.
  - destruct (periodic_top_total (N - 1) ram wd rd uf ub ltac:(lia) ltac:(lia)) as [L HL].
    destruct (periodic_grammar (N - 1) ram wd rd uf ub L _ ltac:(lia) ltac:(lia) HL (mxrr_pos _ _ _ _)) as (L0 & -> & HB).
    exists L0. split; [|exact HB].
    change (sequence KPeriodic N ram disk uf ub wd rd) with (do p <- periodic_top (N - 1) ram wd rd uf ub; Ok (fst p)). rewrite HL. reflexivity.
Qed.
Theorem periodic_run N ram disk uf ub wd rd k : 1 <= N -> 0 <= ram -> (2 <= N -> 1 <= ram) ->
  exists o0 m ls, run_case (PRev KPeriodic N ram disk uf ub wd rd) (disk_xparams N ram) (repeat Next k) = Ok (o0, m, ls) /\
    no_raise ls /\ DiskBridge3.leftover_or_ok m.
Proof.
  intros HN Hram Hram1.
  destruct (periodic_seq N ram disk uf ub wd rd HN Hram Hram1) as (L0 & HL & HB).
  unfold run_case, Sched.construct, RevConv.construct. rewrite HL. cbn [bind].
  destruct (Z.ltb_spec N 1); [lia|]. destruct (Z.ltb_spec ram (Z.min 1 (N - 1))); [lia|]. cbn [bind].
  destruct (disk_J0 KPeriodic N ram disk L0 HN Hram Hram1 HB) as (prev0 & acts0 & r0 & _ & _ & HJ0).
  pose proof (DiskBridge3.run_nexts2 N ram ltac:(lia) (map inj L0) KPeriodic ram disk _ _ _ k _ _ HJ0) as Hrun.
  change (DiskBridge2.pD N ram) with (disk_xparams N ram) in Hrun.
  destruct (run_ops (disk_xparams N ram) _ mon0 (repeat Next k)) as [[s' m'] ls]. destruct Hrun as [HJ Hnr].
  eexists _, _, _. split; [reflexivity|]. split; [exact Hnr|]. exact (DiskBridge3.J_verdict _ _ _ _ _ _ _ _ _ _ _ HJ).
Qed.
Print Assumptions periodic_run.


(* ---- termination: after 2 |ops| + 2 requests the schedule is exhausted (is_exhausted True, further requests stop) ---- *)
Lemma disk_cfg_terminates kd N ram disk L0 k : 1 <= N -> 0 <= ram -> (2 <= N -> 1 <= ram) -> DiskBlk.DBlk ram 0 (N - 1) L0 -> (2 * length L0 + 1 < k)%nat ->
  let '(s', m, ls) := run_ops (disk_xparams N ram) {| ob := ORevF kd N ram disk (init_r (map inj L0)); started := false |} mon0 (repeat Next k) in
  no_raise ls /\ DiskBridge3.leftover_or_ok m /\ is_exhausted s' = true.
Proof.
  intros HN Hram Hram1 HB Hk. destruct (disk_J0 kd N ram disk L0 HN Hram Hram1 HB) as (prev0 & acts0 & r0 & _ & _ & HJ0).
  pose proof (DiskBridge3.run_nexts2 N ram ltac:(lia) (map inj L0) kd ram disk _ _ _ k _ _ HJ0) as Hrun.
  pose proof (DiskBridge3.run_nexts2_fin N ram ltac:(lia) (map inj L0) kd ram disk _ _ _ k _ _ HJ0) as Hfin.
  change (DiskBridge2.pD N ram) with (disk_xparams N ram) in Hrun, Hfin.
  destruct (run_ops (disk_xparams N ram) _ mon0 (repeat Next k)) as [[s' m'] ls]. destruct Hrun as [HJ Hnr]. cbn [fst] in Hfin.
  split; [exact Hnr|]. split; [exact (DiskBridge3.J_verdict _ _ _ _ _ _ _ _ _ _ _ HJ)|]. apply Hfin. right.
  unfold RevBridge3.muS. cbn [ob init_r finished idx pend length]. rewrite map_length. lia.
Qed.
Theorem disk_revolve_terminates N ram disk uf ub wd rd : 1 <= N -> 0 <= ram -> (2 <= N -> 1 <= ram) ->
  exists L K, sequence KDiskRevolve N ram disk uf ub wd rd = Ok L /\ forall k, (K <= k)%nat ->
  let '(s', m, ls) := run_ops (disk_xparams N ram) {| ob := ORevF KDiskRevolve N ram disk (init_r L); started := false |} mon0 (repeat Next k) in
  no_raise ls /\ DiskBridge3.leftover_or_ok m /\ is_exhausted s' = true.
Proof.
  intros HN Hram Hram1. destruct (disk_seq N ram disk uf ub wd rd HN Hram Hram1) as (L0 & HL & HB).
  exists (map inj L0), (2 * length L0 + 2)%nat. split; [exact HL|]. intros k Hk.
  exact (disk_cfg_terminates KDiskRevolve N ram disk L0 k HN Hram Hram1 HB ltac:(lia)).
Qed.
Print Assumptions disk_revolve_terminates.
Theorem periodic_terminates N ram disk uf ub wd rd : 1 <= N -> 0 <= ram -> (2 <= N -> 1 <= ram) ->
  exists L K, sequence KPeriodic N ram disk uf ub wd rd = Ok L /\ forall k, (K <= k)%nat ->
  let '(s', m, ls) := run_ops (disk_xparams N ram) {| ob := ORevF KPeriodic N ram disk (init_r L); started := false |} mon0 (repeat Next k) in
  no_raise ls /\ DiskBridge3.leftover_or_ok m /\ is_exhausted s' = true.
Proof.
  intros HN Hram Hram1. destruct (periodic_seq N ram disk uf ub wd rd HN Hram Hram1) as (L0 & HL & HB).
  exists (map inj L0), (2 * length L0 + 2)%nat. split; [exact HL|]. intros k Hk.
  exact (disk_cfg_terminates KPeriodic N ram disk L0 k HN Hram Hram1 HB ltac:(lia)).
Qed.
Print Assumptions periodic_terminates.

(* what the verdict means for each property's error class *)
Require Projections.
Lemma leftover_no_err (P : merr -> Prop) m : DiskBridge3.leftover_or_ok m -> ~ P (MX E_leftover) -> Projections.no_err P m.
Proof. intros [Hm|[i Hm]] HP; unfold Projections.no_err; [unfold mon_ok in Hm|]; rewrite Hm; auto. Qed.
