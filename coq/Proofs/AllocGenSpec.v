(* allocate_snapshots (multistage.py), the parts harness/translate.py reads out of the source: the three clamps of the preamble and
   the final allocation
       allocation = [DISK for _ in range(snapshots)]
       for i, _ in sorted(enumerate(weights), key=itemgetter(1), reverse=True)[:snapshots_in_ram]: allocation[i] = RAM
   (the dry run through the functools.singledispatch handlers stays pinned: AllocPins).  allocate_is_shape: Multistage.allocate IS
   that preamble, followed by the dry run of the model, followed by that allocation -- for all arguments with 0 <= snapshots_in_ram.
   Gen/AllocGen.v re-translates the source on every run and proves the translation equal to these shapes by conversion. *)
From Coq Require Import ZArith List Lia Bool.
Require Import Actions NAdvance Multistage AllocProofs.
Import ListNotations.
Open Scope Z_scope.

Definition enumerate {A} (l : list A) : list (nat * A) := combine (seq 0 (length l)) l.
Definition sorted_desc_snd (l : list (nat * Z)) : list (nat * Z) := sort_desc l.          (* sorted(.., key=itemgetter(1), reverse=True): stable *)
Definition py_slice_to {A} (l : list A) (k : Z) : list A := firstn (Z.to_nat k) l.        (* l[:k] for k >= 0 *)
Definition set_nth {A} (l : list A) (i : nat) (v : A) : list A :=                          (* l[i] = v, i < len(l) *)
  map (fun p => if Nat.eqb (fst p) i then v else snd p) (enumerate l).

Definition alloc_pre_shape (max_n snapshots_in_ram snapshots_on_disk : Z) : Z * Z * Z :=
  let snapshots_in_ram := Z.min snapshots_in_ram (max_n - 1) in
  let snapshots_on_disk := Z.min snapshots_on_disk (max_n - 1) in
  let snapshots := Z.min (snapshots_in_ram + snapshots_on_disk) (max_n - 1) in
  (snapshots_in_ram, snapshots_on_disk, snapshots).
Definition alloc_tail_shape (weights : list Z) (snapshots snapshots_in_ram : Z) : list storage :=
  let allocation := repeat DISK (Z.to_nat snapshots) in
  fold_left (fun allocation p => set_nth allocation (fst p) RAM) (py_slice_to (sorted_desc_snd (enumerate weights)) snapshots_in_ram) allocation.

Lemma map_snd_comb {A} (l : list A) : forall s, map snd (combine (seq s (length l)) l) = l.
Proof. induction l as [|x l IH]; intros s; [reflexivity|]. cbn [length seq combine map snd]. rewrite IH. reflexivity. Qed.
Lemma comb_length {A} (l : list A) s : length (combine (seq s (length l)) l) = length l.
Proof. rewrite combine_length, seq_length. lia. Qed.
Lemma comb_map {A} (g : nat * A -> A) (l : list A) : forall s,
  combine (seq s (length l)) (map g (combine (seq s (length l)) l)) = map (fun p => (fst p, g p)) (combine (seq s (length l)) l).
Proof. induction l as [|x l IH]; intros s; [reflexivity|]. cbn [length seq combine map fst]. rewrite IH. reflexivity. Qed.
Lemma set_nth_length {A} (l : list A) i v : length (set_nth l i v) = length l.
Proof. unfold set_nth, enumerate. rewrite map_length. apply comb_length. Qed.

Lemma fold_set (idxs : list nat) : forall l : list storage,
  fold_left (fun a i => set_nth a i RAM) idxs l = map (fun p => if existsb (Nat.eqb (fst p)) idxs then RAM else snd p) (enumerate l).
Proof.
  induction idxs as [|i r IH]; intros l; cbn [fold_left existsb].
  - unfold enumerate. rewrite <- (map_snd_comb l 0) at 1. reflexivity.
  - rewrite IH. unfold enumerate at 1. rewrite set_nth_length. unfold set_nth, enumerate. rewrite comb_map, map_map.
    apply map_ext. intros [j x]. cbn [fst snd]. destruct (Nat.eqb j i); cbn [orb]; [destruct (existsb _ r); reflexivity|reflexivity].
Qed.
Lemma enum_repeat n : forall s, map (fun p : nat * storage => if existsb (Nat.eqb (fst p)) (@nil nat) then RAM else snd p) (combine (seq s n) (repeat DISK n)) = repeat DISK n.
Proof. induction n as [|n IH]; intros s; [reflexivity|]. cbn [seq repeat combine map]. rewrite IH. reflexivity. Qed.
Lemma enum_map_repeat (idxs : list nat) n : forall s,
  map (fun p : nat * storage => if existsb (Nat.eqb (fst p)) idxs then RAM else snd p) (combine (seq s n) (repeat DISK n))
  = map (fun i => if existsb (Nat.eqb i) idxs then RAM else DISK) (seq s n).
Proof. induction n as [|n IH]; intros s; [reflexivity|]. cbn [seq repeat combine map fst snd]. rewrite IH. reflexivity. Qed.

Theorem alloc_tail_is_model (w : list Z) (sn ram : Z) : Z.to_nat sn = length w ->
  alloc_tail_shape w sn ram
  = let idx := map fst (firstn (Z.to_nat ram) (sort_desc (combine (seq 0 (length w)) w))) in
    map (fun i => if existsb (Nat.eqb i) idx then RAM else DISK) (seq 0 (length w)).
Proof.
  intros Hl. unfold alloc_tail_shape, py_slice_to, sorted_desc_snd. cbn zeta.
  set (L := firstn (Z.to_nat ram) (sort_desc (enumerate w))).
  assert (E : forall a, fold_left (fun allocation (p : nat * Z) => set_nth allocation (fst p) RAM) L a
                        = fold_left (fun a i => set_nth a i RAM) (map fst L) a).
  { induction L as [|p L' IHL]; intros a; [reflexivity|]. cbn [map fold_left]. apply IHL. }
  rewrite E, fold_set. unfold enumerate. rewrite repeat_length, Hl. apply enum_map_repeat.
Qed.

Theorem allocate_is_shape (n ram disk : Z) (t : traj) :
  allocate n ram disk t =
  let '(ram', _, sn) := alloc_pre_shape n ram disk in
  match weigh (run (fuel_for n) {| max_n := n; labels := repeat DISK (Z.to_nat sn); tr := t |} init) (-1) (repeat 0 (Z.to_nat sn)) with
  | Err e => Err e
  | Ok (w, _) => Ok (w, alloc_tail_shape w sn ram')
  end.
Proof.
  unfold allocate, alloc_pre_shape. cbn zeta.
  destruct (weigh _ (-1) _) as [[w d]|e] eqn:Ew; [|reflexivity].
  pose proof (weigh_length _ _ _ _ _ Ew) as Hlw. rewrite repeat_length in Hlw.
  rewrite alloc_tail_is_model by (symmetry; exact Hlw). reflexivity.
Qed.

(* ---- the dry run: the functools.singledispatch handlers action_copy / action_move / action_write / action_pass over the nonlocal
        snapshot_i and the list weights, as harness/translate.py renders them: one step on (snapshot_i, weights) per action;
        write_weight = read_weight = 1, delete_weight = 0 are the defaults of the signature (compared textually), the only values
        the constructor of MultistageCheckpointSchedule calls allocate_snapshots with ---- *)
Fixpoint addat (w : list Z) (i : Z) (d : Z) : list Z :=            (* weights[i] += d, 0 <= i *)
  match w with [] => [] | x :: r => if i =? 0 then (x + d) :: r else x :: addat r (i - 1) d end.
Definition handle_shape (snapshots : Z) (cp_action : action) (snapshot_i : Z) (weights : list Z) : res (Z * list Z) :=
  let read_weight := 1 in let write_weight := 1 in let delete_weight := 0 in
  match cp_action with
  | Forward n0 n1 write_ics write_adj_deps storage =>
    if write_ics then (let snapshot_i := snapshot_i + 1 in
    if snapshot_i >=? snapshots then Err RuntimeError else
    let weights := addat weights snapshot_i write_weight in
    Ok (snapshot_i, weights)) else
    (Ok (snapshot_i, weights))
  | Reverse n1 n0 clear_adj_deps =>
    Ok (snapshot_i, weights)
  | Copy n from_storage to_storage =>
    if snapshot_i <? 0 then Err RuntimeError else
    let weights := addat weights snapshot_i read_weight in
    Ok (snapshot_i, weights)
  | Move n from_storage to_storage =>
    if snapshot_i <? 0 then Err RuntimeError else
    let weights := addat weights snapshot_i read_weight in
    if snapshot_i <? 0 then Err RuntimeError else
    if (st_eqb to_storage WORK) || (st_eqb to_storage WORK) then (let weights := addat weights snapshot_i delete_weight in
    let snapshot_i := snapshot_i - 1 in
    Ok (snapshot_i, weights)) else
    (Ok (snapshot_i, weights))
  | EndForward =>
    Ok (snapshot_i, weights)
  | EndReverse =>
    Ok (snapshot_i, weights)
  end.
(* the driver loop: next(cp_schedule); action(cp_action) -- an exception of the schedule or of a handler ends the run *)
Fixpoint weigh_shape (snapshots : Z) (acts : list outcome) (snapshot_i : Z) (weights : list Z) : res (list Z * Z) :=
  match acts with
  | [] => Ok (weights, snapshot_i)
  | Yield a :: r => do st <- handle_shape snapshots a snapshot_i weights; weigh_shape snapshots r (fst st) (snd st)
  | Raise e :: _ => Err e
  | StopIteration :: r => weigh_shape snapshots r snapshot_i weights
  end.

Lemma addat_bump : forall w i, 0 <= i -> addat w i 1 = bump w (Z.to_nat i).
Proof.
  induction w as [|x r IH]; intros i Hi; [destruct (Z.to_nat i); reflexivity|]. cbn [addat].
  destruct (Z.eqb_spec i 0) as [->|Hn]; [reflexivity|].
  replace (Z.to_nat i) with (S (Z.to_nat (i - 1))) by lia. cbn [bump]. rewrite IH by lia. reflexivity.
Qed.
Lemma addat_zero : forall w i, addat w i 0 = w.
Proof. induction w as [|x r IH]; intros i; [reflexivity|]. cbn [addat]. destruct (i =? 0); [rewrite Z.add_0_r; reflexivity|rewrite IH; reflexivity]. Qed.

Theorem weigh_is_shape : forall acts d w, -1 <= d -> weigh acts d w = weigh_shape (Z.of_nat (length w)) acts d w.
Proof.
  induction acts as [|o acts IH]; intros d w Hd; [reflexivity|].
  destruct o as [a| |e]; cbn [weigh weigh_shape]; [|apply IH; exact Hd|reflexivity].
  destruct a as [n0 n1 wi wa sg|n1 n0 c|n src dst|n src dst| |]; cbn [handle_shape]; cbn zeta.
  - destruct wi; cbn [bind fst snd]; [|apply IH; exact Hd].
    destruct (d + 1 >=? Z.of_nat (length w)); [reflexivity|]. cbn [bind fst snd].
    rewrite addat_bump by lia. rewrite IH by lia. rewrite bump_length. reflexivity.
  - cbn [bind fst snd]. apply IH; exact Hd.
  - destruct (Z.ltb_spec d 0); [reflexivity|]. cbn [bind fst snd]. rewrite addat_bump by lia. rewrite IH by lia. rewrite bump_length. reflexivity.
  - destruct (Z.ltb_spec d 0); [reflexivity|]. rewrite addat_zero, addat_bump by lia.
    destruct dst; cbn [st_eqb orb bind fst snd]; rewrite IH by lia; rewrite bump_length; reflexivity.
  - cbn [bind fst snd]. apply IH; exact Hd.
  - cbn [bind fst snd]. apply IH; exact Hd.
Qed.

(* Multistage.allocate, all of it, in the shapes read out of the source *)
Theorem allocate_is_source (n ram disk : Z) (t : traj) :
  allocate n ram disk t =
  let '(ram', _, sn) := alloc_pre_shape n ram disk in
  match weigh_shape (Z.of_nat (Z.to_nat sn)) (run (fuel_for n) {| max_n := n; labels := repeat DISK (Z.to_nat sn); tr := t |} init) (-1) (repeat 0 (Z.to_nat sn)) with
  | Err e => Err e
  | Ok (w, _) => Ok (w, alloc_tail_shape w sn ram')
  end.
Proof.
  rewrite allocate_is_shape. unfold alloc_pre_shape. cbn zeta.
  rewrite weigh_is_shape by lia. rewrite repeat_length. reflexivity.
Qed.
Print Assumptions allocate_is_shape.
Print Assumptions allocate_is_source.
