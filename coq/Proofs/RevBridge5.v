(* Revolve, bridge 5: the extracted generator Model/RevSeq.v `revolve` produces op lists of the grammar RevBlk.Blk (through
   the embedding inj), and on the table computed by the extracted get_opt_0_table it never fails. *)
From Coq Require Import ZArith List Lia Bool.
Require Import Actions Ops RevSeq RevBridge1.
Require RevBlk RevGen.
Import ListNotations.
Open Scope Z_scope.

Lemma argmin_aux_eq l : forall i best m, argmin_aux l i best m = RevGen.argmin_aux l i best m.
Proof. induction l as [|x l IH]; intros; cbn; [reflexivity|]. destruct (x <=? m); apply IH. Qed.
Lemma argmin_eq l : argmin l = RevGen.argmin l.
Proof. destruct l; [reflexivity|]. unfold argmin, RevGen.argmin. apply argmin_aux_eq. Qed.
Lemma map_res_length {A B} (f : A -> res B) l r : map_res f l = Ok r -> length r = length l.
Proof.
  revert r; induction l as [|x l IH]; intros r; cbn; [intros E; injection E as <-; reflexivity|].
  destruct (f x); cbn; [|discriminate]. destruct (map_res f l); cbn; [|discriminate].
  intros E; injection E as <-. cbn. f_equal. apply IH. reflexivity.
Qed.
Lemma shift_inj s l : shift s (map inj l) = map inj (RevGen.shift s l).
Proof. unfold shift, RevGen.shift. rewrite !map_map. apply map_ext. intros []; reflexivity. Qed.
Lemma remove_wm_inj l : remove_useless_wm (map inj l) = map inj (RevGen.remove_useless_wm l).
Proof. destruct l as [|[] l]; reflexivity. Qed.
Lemma cm1_loop_inj : forall k l idx, cm1_loop k l idx = map inj (RevGen.cm1_loop k l idx).
Proof.
  induction k as [|k IH]; intros l idx; [reflexivity|]. cbn [cm1_loop RevGen.cm1_loop]. rewrite !map_app, <- IH.
  destruct (idx =? l - 1), (idx + 1 =? 0); reflexivity.
Qed.

Lemma revolve_grammar : forall fuel opt0 uf l cm ops, revolve fuel opt0 uf l cm = Ok ops -> 0 <= l -> 0 <= cm ->
  exists ops0, ops = map inj ops0 /\ RevBlk.Blk true 0 l cm ops0.
Proof.
  induction fuel as [|f IH]; intros opt0 uf l cm ops H Hl Hcm; [discriminate|].
  cbn [revolve] in H.
  destruct (Z.eqb_spec l 0) as [->|Hl0].
  { injection H as <-. exists (RevBlk.adj 0 ++ [RevBlk.ODM 0]). split; [reflexivity|apply (RevBlk.B0 true 0 cm)]. }
  destruct (Z.eqb_spec cm 0) as [->|Hcm0]; [discriminate|].
  destruct (Z.eqb_spec l 1) as [->|Hl1].
  { injection H as <-. exists (RevBlk.wmop true 0 ++ [RevBlk.OF 0 (0+1)] ++ RevBlk.adj (0+1) ++ RevBlk.tail0 0). split; [reflexivity|apply (RevBlk.B1 true 0 cm); lia]. }
  destruct (Z.eqb_spec cm 1) as [->|Hcm1].
  { injection H as <-.
    pose proof (RevGen.revolve_blk 1%nat [] uf l 1) as HB. cbn [RevGen.revolve] in HB.
    destruct (Z.eqb_spec l 0); [lia|]. destruct (Z.eqb_spec 1 0); [lia|]. destruct (Z.eqb_spec l 1); [lia|]. destruct (Z.eqb_spec 1 1); [|lia].
    eexists. split; [|exact (HB _ eq_refl Hl ltac:(lia))].
    rewrite !map_app, <- cm1_loop_inj. reflexivity. }
  destruct (map_res _ (zrange 1 l)) as [lm|] eqn:Elm; cbn [bind] in H; [|discriminate].
  destruct lm as [|y lm'] eqn:Elmm; [discriminate|]. rewrite <- Elmm in *.
  assert (Hlen : length lm = Z.to_nat (l - 1)) by (rewrite (map_res_length _ _ _ Elm); unfold zrange; rewrite map_length, seq_length; reflexivity).
  assert (Hj : 1 <= argmin lm <= l - 1).
  { rewrite argmin_eq. pose proof (RevGen.argmin_bound lm) as Hb. specialize (Hb ltac:(rewrite Elmm; discriminate)). lia. }
  set (j := argmin lm) in *.
  destruct (revolve f opt0 uf (l - j) (cm - 1)) as [s1|] eqn:E1; cbn [bind] in H; [|discriminate].
  destruct (revolve f opt0 uf (j - 1) cm) as [s2|] eqn:E2; cbn [bind] in H; [|discriminate].
  injection H as <-.
  destruct (IH _ _ _ _ _ E1 ltac:(lia) ltac:(lia)) as (s10 & -> & B1').
  destruct (IH _ _ _ _ _ E2 ltac:(lia) ltac:(lia)) as (s20 & -> & B2').
  apply (RevGen.Blk_shift j) in B1'. apply RevGen.Blk_remove_wm in B2'.
  pose proof (RevBlk.Bsp true 0 l cm j _ _ ltac:(lia) ltac:(lia) Hj B1' B2') as HB.
  cbn [RevBlk.wmop app] in HB. replace (0 + j) with j in HB by lia.
  eexists. split; [|exact HB]. rewrite shift_inj, remove_wm_inj. cbn [map app inj]. rewrite ?map_app. cbn [map app inj]. reflexivity.
Qed.

(* the extracted generator is the generator of RevGen.v (over RevBlk's op type) -- used to transport RevCost.revolve_work *)
Lemma tget_g t m l v : tget t m l = Ok v -> RevGen.tget t m l = RevGen.GOk v.
Proof.
  unfold tget, RevGen.tget. destruct ((m <? 0) || (l <? 0)); [discriminate|].
  destruct (nth_error t (Z.to_nat m)) as [row|]; [|discriminate]. destruct (nth_error row (Z.to_nat l)); [|discriminate]. intros H; injection H as <-. reflexivity.
Qed.
Lemma map_res_g {A B} (f : A -> res B) (f' : A -> RevGen.gres B) l ys : (forall x y, f x = Ok y -> f' x = RevGen.GOk y) ->
  map_res f l = Ok ys -> RevGen.map_res f' l = RevGen.GOk ys.
Proof.
  intros Hf. revert ys. induction l as [|x l IH]; intros ys H; cbn [map_res RevGen.map_res] in *; [injection H as <-; reflexivity|].
  destruct (f x) as [y|] eqn:Ex; [|discriminate]. cbn [bind] in H. destruct (map_res f l) as [ys'|]; [|discriminate]. cbn [bind] in H. injection H as <-.
  rewrite (Hf x y Ex). cbn [RevGen.gbind]. rewrite (IH ys' eq_refl). reflexivity.
Qed.
Lemma revolve_g : forall fuel t uf l cm ops, revolve fuel t uf l cm = Ok ops ->
  exists ops0, RevGen.revolve fuel t uf l cm = RevGen.GOk ops0 /\ ops = map inj ops0.
Proof.
  induction fuel as [|f IH]; intros t uf l cm ops H; [discriminate|].
  cbn [revolve RevGen.revolve] in *.
  destruct (l =? 0). { injection H as <-. eexists; split; reflexivity. }
  destruct (cm =? 0); [discriminate|].
  destruct (l =? 1). { injection H as <-. eexists; split; reflexivity. }
  destruct (cm =? 1). { injection H as <-. eexists; split; [reflexivity|]. rewrite !map_app, <- cm1_loop_inj. reflexivity. }
  destruct (map_res _ (zrange 1 l)) as [lm|] eqn:Elm; cbn [bind] in H; [|discriminate].
  assert (Hf : forall j y, (do x <- tget t (cm - 1) (l - j); do y0 <- tget t cm (j - 1); Ok (j * uf + x + y0)) = Ok y ->
     RevGen.gbind (RevGen.tget t (cm - 1) (l - j)) (fun x => RevGen.gbind (RevGen.tget t cm (j - 1)) (fun y0 => RevGen.GOk (j * uf + x + y0))) = RevGen.GOk y).
  { intros j y Hy. destruct (tget t (cm - 1) (l - j)) as [a|] eqn:Ea; [|discriminate]. cbn [bind] in Hy.
    destruct (tget t cm (j - 1)) as [b|] eqn:Eb; [|discriminate]. cbn [bind] in Hy. injection Hy as <-.
    rewrite (tget_g _ _ _ _ Ea). cbn [RevGen.gbind]. rewrite (tget_g _ _ _ _ Eb). reflexivity. }
  change (RevGen.zrange 1 l) with (zrange 1 l).
  rewrite (map_res_g _ _ _ lm Hf Elm).
  cbn [RevGen.gbind]. destruct lm as [|y0 lm'] eqn:Elmm; [discriminate|]. rewrite <- Elmm in *. rewrite <- argmin_eq.
  destruct (revolve f t uf (l - argmin lm) (cm - 1)) as [s1|] eqn:E1; cbn [bind] in H; [|discriminate].
  destruct (revolve f t uf (argmin lm - 1) cm) as [s2|] eqn:E2; cbn [bind] in H; [|discriminate]. injection H as <-.
  destruct (IH _ _ _ _ _ E1) as (s10 & -> & ->). destruct (IH _ _ _ _ _ E2) as (s20 & -> & ->). cbn [RevGen.gbind].
  eexists; split; [reflexivity|]. rewrite shift_inj, remove_wm_inj. cbn [map app inj]. rewrite ?map_app. cbn [map app inj]. reflexivity.
Qed.
