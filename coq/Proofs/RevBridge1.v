(* Revolve, bridge 1: the index-based converter of Model/RevConv.v (conv1 on the whole op list, looking at ops[i-1] --
   ops[-1] for i = 0 -- and ops[i+3]) agrees with the structural converter of RevBlk.v on op lists of the Revolve grammar. *)
From Coq Require Import ZArith List Lia Bool.
Require Import Actions Ops RevConv.
Require RevBlk.
Import ListNotations.
Open Scope Z_scope.

Definition inj (o : RevBlk.op) : op :=
  match o with RevBlk.OF a b => OF a b | RevBlk.OB a b => OB a b | RevBlk.ORM i => ORM i | RevBlk.OWM i => OWM i
  | RevBlk.ODM i => ODM i | RevBlk.OWFM i => OWFM i | RevBlk.ODFM i => ODFM i | RevBlk.ORD i => ORD i | RevBlk.OWD i => OWD i end.
Definition cmap (c : RevBlk.cst) : cst :=
  {| n_ := RevBlk.n_ c; r_ := RevBlk.r_ c; snaps := RevBlk.snaps c; w_storage := RevBlk.w_st c; write_ics := RevBlk.w_ics c;
     adj_deps := RevBlk.w_adj c; w_n0 := RevBlk.w_n0 c |}.
Definition wf (o : RevBlk.op) : Prop := match o with RevBlk.OF a b => a < b | RevBlk.OB a b => b < a | _ => True end.
Definition prevop (L0 : list RevBlk.op) (i : nat) : option RevBlk.op :=
  match i with O => match rev L0 with [] => None | x :: _ => Some x end | S j => nth_error L0 j end.

Lemma nth_error_inj L0 i : nth_error (map inj L0) i = option_map inj (nth_error L0 i).
Proof. revert i; induction L0 as [|x l IH]; intros [|i]; cbn; auto. Qed.
Lemma last_op_inj L0 : last_op (map inj L0) = option_map inj (prevop L0 0).
Proof. unfold last_op, prevop. rewrite <- map_rev. destruct (rev L0); reflexivity. Qed.
Lemma nth_error_skipn {A} : forall (l : list A) i k, nth_error (skipn i l) k = nth_error l (i + k).
Proof. induction l as [|x l IH]; intros [|i] k; cbn [skipn Nat.add]; auto; [destruct k; reflexivity|apply IH]. Qed.

Lemma conv_n0_inj o : wf o -> conv_n0_st (inj o) =
  Ok (match o with RevBlk.OF a _ | RevBlk.OB a _ | RevBlk.ORM a | RevBlk.OWM a | RevBlk.ODM a | RevBlk.OWFM a | RevBlk.ODFM a | RevBlk.ORD a | RevBlk.OWD a => a end,
      match o with RevBlk.OF _ _ | RevBlk.OB _ _ => None | RevBlk.ORM _ | RevBlk.OWM _ | RevBlk.ODM _ => Some RAM | RevBlk.ORD _ | RevBlk.OWD _ => Some DISK | _ => Some WORK end).
Proof.
  destruct o; cbn [inj conv_n0_st wf]; intros H; try reflexivity.
  - destruct (Z.leb_spec b a); [lia|reflexivity].
  - destruct (Z.leb_spec a b); [lia|reflexivity].
Qed.

Lemma conv1_bridge N L0 i o prev c c' acts : Forall wf L0 -> nth_error L0 i = Some o -> prevop L0 i = Some prev ->
  RevBlk.conv1 N i (Some prev) o (skipn (S i) L0) c = inl (c', acts) ->
  conv1 N (map inj L0) i (cmap c) = Ok (cmap c', acts).
Proof.
  intros Hwf Hnth Hprev H.
  assert (Hwo : wf o) by (rewrite Forall_forall in Hwf; apply Hwf; eapply nth_error_In; eauto).
  assert (Hwp : wf prev).
  { rewrite Forall_forall in Hwf; apply Hwf. destruct i as [|j]; cbn [prevop] in Hprev.
    - destruct (rev L0) as [|x r] eqn:E; [discriminate|]. injection Hprev as <-. apply in_rev. rewrite E. left; reflexivity.
    - eapply nth_error_In; eauto. }
  unfold conv1. rewrite nth_error_inj, Hnth. cbn [option_map]. rewrite (conv_n0_inj o Hwo). cbn [bind].
  assert (Hpv : match i with O => last_op (map inj L0) | S j => nth_error (map inj L0) j end = Some (inj prev)).
  { destruct i as [|j]; [rewrite last_op_inj, Hprev; reflexivity|rewrite nth_error_inj]. cbn [prevop] in Hprev. rewrite Hprev. reflexivity. }
  destruct o as [a b|a b|a|a|a|a|a|a|a]; cbn [inj RevBlk.conv1] in *.
  - (* OF *)
    cbn [n_ cmap]. destruct (negb (a =? RevBlk.n_ c)); [discriminate|].
    rewrite Hpv. rewrite (conv_n0_inj prev Hwp). cbn [bind].
    destruct prev as [pa pb|pa pb|pa|pa|pa|pa|pa|pa|pa]; cbn [inj] in *.
    all: repeat match type of H with context [if ?b then _ else _] => destruct b eqn:? end; try discriminate;
         injection H as <- <-; cbn [bind upd cmap r_ n_ snaps w_storage write_ics adj_deps w_n0 RevBlk.n_ RevBlk.r_ RevBlk.snaps RevBlk.w_st RevBlk.w_ics RevBlk.w_adj RevBlk.w_n0];
         unfold set_add, RevBlk.mem in *; cbn [RevBlk.n_ RevBlk.r_ RevBlk.snaps] in *;
         repeat match goal with E : _ = _ |- _ => rewrite E end; try reflexivity.
  - (* OB *)
    cbn [n_ r_ cmap]. repeat match type of H with context [if ?b then _ else _] => destruct b eqn:? end; try discriminate.
    injection H as <- <-. reflexivity.
  - (* ORM *)
    cbn [n_ r_ snaps cmap]. unfold RevBlk.mem, RevBlk.del in H.
    repeat match type of H with context [if ?b then _ else _] => destruct b eqn:? end; try discriminate; injection H as <- <-; reflexivity.
  - (* OWM *)
    cbn [n_ cmap]. destruct (negb _); [discriminate|]. injection H as <- <-. reflexivity.
  - (* ODM *)
    destruct (Nat.ltb i 2); [discriminate|]. injection H as <- <-. reflexivity.
  - (* OWFM *)
    cbn [n_ cmap]. destruct (negb (a =? RevBlk.n_ c + 1)); [discriminate|].
    rewrite nth_error_skipn in H. replace (S i + 2)%nat with (i + 3)%nat in H by lia.
    rewrite nth_error_inj. destruct (nth_error L0 (i + 3)) as [d|] eqn:Ed; [|discriminate]. cbn [option_map].
    assert (Hwd : wf d) by (rewrite Forall_forall in Hwf; apply Hwf; eapply nth_error_In; eauto).
    rewrite (conv_n0_inj d Hwd). cbn [bind].
    destruct d as [da db|da db|da|da|da|da|da|da|da]; cbn [inj andb st_opt_eqb st_eqb] in *.
    all: cbn [w_n0 cmap RevBlk.w_n0] in *.
    all: repeat match type of H with
         | context [if ?b then _ else _] => destruct b eqn:?
         | context [match RevBlk.w_n0 ?x with _ => _ end] => destruct (RevBlk.w_n0 x) eqn:?
         end; try discriminate; injection H as <- <-; cbn [andb]; try reflexivity.
  - (* ODFM *)
    cbn [n_ cmap]. destruct (negb _); [discriminate|]. injection H as <- <-. reflexivity.
  - (* ORD *)
    cbn [n_ r_ snaps cmap]. unfold RevBlk.mem, RevBlk.del in H.
    repeat match type of H with context [if ?b then _ else _] => destruct b eqn:? end; try discriminate; injection H as <- <-; reflexivity.
  - (* OWD *)
    cbn [n_ cmap]. destruct (negb _); [discriminate|]. injection H as <- <-. reflexivity.
Qed.

(* all the actions the index-based converter emits from index i on, for k more ops *)
Fixpoint convI (N : Z) (k : nat) (L : list op) (i : nat) (c : cst) : list action * (cst + exn) :=
  match k with O => ([], inl c) | S k' =>
    match conv1 N L i c with
    | Err e => ([], inr e)
    | Ok (c', l) => let '(acts, r) := convI N k' L (S i) c' in (l ++ acts, r) end end.

Lemma prevop_app_S pre o post : prevop (pre ++ o :: post) (S (length pre)) = Some o.
Proof. cbn [prevop]. rewrite nth_error_app2 by lia. rewrite Nat.sub_diag. reflexivity. Qed.
Lemma nth_error_mid {A} (pre : list A) o post : nth_error (pre ++ o :: post) (length pre) = Some o.
Proof. rewrite nth_error_app2 by lia. rewrite Nat.sub_diag. reflexivity. Qed.
Lemma skipn_mid {A} (pre : list A) o post : skipn (S (length pre)) (pre ++ o :: post) = post.
Proof. induction pre as [|x pre IH]; [reflexivity|]. cbn [length app skipn]. exact IH. Qed.

Lemma conv_link N : forall post pre prev c acts c' lo j, Forall wf (pre ++ post) ->
  (post <> [] -> prevop (pre ++ post) (length pre) = Some prev) ->
  RevBlk.conv N (length pre) (Some prev) c post = (acts, inl (c', lo, j)) ->
  convI N (length post) (map inj (pre ++ post)) (length pre) (cmap c) = (acts, inl (cmap c')).
Proof.
  induction post as [|o post IH]; intros pre prev c acts c' lo j Hwf Hprev H; cbn [RevBlk.conv length convI] in *.
  - injection H as <- <- _ _. reflexivity.
  - destruct (RevBlk.conv1 N (length pre) (Some prev) o post c) as [[c1 a1]|e] eqn:E1; [|discriminate].
    destruct (RevBlk.conv N (S (length pre)) (Some o) c1 post) as [a2 r2] eqn:E2. injection H as <- ->.
    assert (E1' : RevBlk.conv1 N (length pre) (Some prev) o (skipn (S (length pre)) (pre ++ o :: post)) c = inl (c1, a1)) by (rewrite skipn_mid; exact E1).
    rewrite (conv1_bridge N (pre ++ o :: post) (length pre) o prev c c1 a1 Hwf (nth_error_mid pre o post) (Hprev ltac:(discriminate)) E1').
    specialize (IH (pre ++ [o]) o c1 a2 c' lo j).
    rewrite <- app_assoc in IH. cbn [app] in IH. rewrite app_length in IH. cbn [length] in IH. replace (length pre + 1)%nat with (S (length pre)) in IH by lia.
    rewrite (IH Hwf (fun _ => prevop_app_S pre o post) E2). reflexivity.
Qed.
