From Coq Require Import ZArith List Lia Permutation.
Import ListNotations.
Open Scope Z_scope.

Definition sum (l : list Z) : Z := fold_right Z.add 0 l.
Lemma sum_app a b : sum (a ++ b) = sum a + sum b.
Proof. induction a as [|x a IH]; [reflexivity|]. change (sum ((x :: a) ++ b)) with (x + sum (a ++ b)). change (sum (x :: a)) with (x + sum a). lia. Qed.
Lemma sum_perm a b : Permutation a b -> sum a = sum b.
Proof.
  induction 1 as [|x l l' HP IH|x y l|l l' l'' H1 IH1 H2 IH2]; [reflexivity| | |lia].
  - change (x + sum l = x + sum l'). lia.
  - change (y + (x + sum l) = x + (y + sum l)). lia.
Qed.

(* descending: the head dominates the tail, recursively *)
Fixpoint Desc (l : list Z) : Prop := match l with [] => True | x :: r => (forall y, In y r -> y <= x) /\ Desc r end.

Lemma firstn_shift x : forall l k, (S k <= length l)%nat -> (forall y, In y l -> y <= x) -> sum (firstn (S k) l) <= x + sum (firstn k l).
Proof.
  induction l as [|y l IH]; intros k Hk Hx; [cbn in Hk; lia|].
  destruct k as [|k].
  - change (y + sum (firstn 0 l) <= x + 0). cbn [firstn]. change (sum []) with 0. specialize (Hx y (or_introl eq_refl)). lia.
  - change (y + sum (firstn (S k) l) <= x + (y + sum (firstn k l))).
    specialize (IH k ltac:(cbn [length] in Hk; lia) (fun z Hz => Hx z (or_intror Hz))). lia.
Qed.
Lemma firstn_cons_ge x l k : (k <= length l)%nat -> (forall y, In y l -> y <= x) -> sum (firstn k l) <= sum (firstn k (x :: l)).
Proof.
  intros Hk Hx. destruct k as [|k]; [cbn; lia|]. change (sum (firstn (S k) l) <= x + sum (firstn k l)).
  apply firstn_shift; assumption.
Qed.

(* the first k elements of a descending list carry the largest sum among all k-element sub-multisets *)
Theorem topk_max : forall L, Desc L -> forall M rest, Permutation L (M ++ rest) -> sum M <= sum (firstn (length M) L).
Proof.
  induction L as [|x L IH]; intros HD M rest HP.
  - apply Permutation_nil in HP. destruct M; [cbn; lia|discriminate].
  - destruct HD as [Hx HD].
    assert (Hin : In x (M ++ rest)) by (eapply Permutation_in; [exact HP|left; reflexivity]).
    apply in_app_or in Hin. destruct Hin as [HinM | HinR].
    + destruct (in_split _ _ HinM) as (M1 & M2 & ->).
      assert (HP' : Permutation L ((M1 ++ M2) ++ rest)).
      { apply (Permutation_cons_inv (a := x)). etransitivity; [exact HP|].
        rewrite <- !app_assoc. cbn [app]. symmetry. apply Permutation_middle. }
      specialize (IH HD _ _ HP').
      rewrite !app_length in *. cbn [length]. rewrite Nat.add_succ_r.
      change (sum (firstn (S (length M1 + length M2)) (x :: L))) with (x + sum (firstn (length M1 + length M2) L)).
      rewrite sum_app in *. change (sum (x :: M2)) with (x + sum M2). lia.
    + destruct (in_split _ _ HinR) as (R1 & R2 & ->).
      assert (HP' : Permutation L (M ++ (R1 ++ R2))).
      { apply (Permutation_cons_inv (a := x)). etransitivity; [exact HP|].
        rewrite app_assoc. symmetry. rewrite app_assoc. apply Permutation_middle. }
      specialize (IH HD _ _ HP'). apply Permutation_length in HP'. rewrite app_length in HP'.
      pose proof (firstn_cons_ge x L (length M) ltac:(lia) Hx). lia.
Qed.
Print Assumptions topk_max.
